/-
C19 line-protocol driver (see harness/internal/c19/c19.go for the grammar).
  pol <L> <policies> <hellos>          answer: live=<L> r r …      r = c<i> | drop | none
  enf <strict> <policies> <sites> <reqs>   answer: strict=<0|1> r r …  r = in:<k> | in:* | 421
-/
import CaddyModel.C19.Model
import CaddyModel.C19.ClientAuth
import CaddyModel.C19.Caddyfile
import CaddyModel.C19.Quic
import CaddyModel.C19.Conn

namespace CaddyModel.C19

/-- UTF-8 → symbols (see Model.lean): ASCII bytes stay; `ſ` = C5 BF ↦ 128, `K` = E2 84 AA ↦ 129,
    `É` = C3 89 ↦ 130, `é` = C3 A9 ↦ 131; anything else non-ASCII is outside the alphabet -/
def decodeSyms : Bytes → Option Bytes
  | [] => some []
  | 0xC5 :: 0xBF :: rest => (decodeSyms rest).map (symLongS :: ·)
  | 0xE2 :: 0x84 :: 0xAA :: rest => (decodeSyms rest).map (symKelvin :: ·)
  | 0xC3 :: 0x89 :: rest => (decodeSyms rest).map (symEacuteUp :: ·)
  | 0xC3 :: 0xA9 :: rest => (decodeSyms rest).map (symEacute :: ·)
  | b :: rest => if b < 128 then (decodeSyms rest).map (b :: ·) else none

def noBraces (b : Bytes) : Bool := b.all (fun c => c != 123 && c != 125)

/-- a hex field: never the empty token (`-` is the empty string) -/
def hexField (s : String) : Option Bytes :=
  if s == "" then none else (Hex.decode s).bind decodeSyms

/-- the `client_authentication` block a shape letter of the `pol` / `enf` cases stands for
    (harness `clientAuthJSON`) -/
def shapeConf (c : Char) : Option CAConf :=
  let z : CAConf := ⟨.none, .none, .none, .none, false, .empty⟩
  match c with
  | 'c' => some { z with mode := .request }
  | 'C' => some { z with mode := .require }
  | 'g' => some { z with mode := .verifyIfGiven }
  | 'k' => some { z with trustedCACerts := .good }
  | 'K' => some { z with trustedCACerts := .good, mode := .requireAndVerify }
  | 'a' => some { z with caRaw := .good }
  | 'f' => some { z with pemFiles := .good }
  | 'l' => some { z with trustedLeaf := .good }
  | 'v' => some { z with verifiersRaw := true }
  | 'V' => some { z with verifiersRaw := true }
  | 'w' => some { z with verifiersRaw := true, mode := .request }
  | 'i' => some z
  | _ => none

/-- what `hasTLSClientAuth` sees for a shape letter: `Active()` of its block before provisioning -/
def authShape (c : Char) : Option Bool := (shapeConf c).map fun conf => activeBefore (some conf)

/-- flags → (drop, clientAuth) -/
def parseFlags (s : String) : Option (Bool × Bool) :=
  match s.toList with
  | ['-'] => some (false, false)
  | ['d'] => some (true, false)
  | [c] => (authShape c).map fun a => (false, a)
  | ['d', c] => (authShape c).map fun a => (true, a)
  | _ => none

/-- `sub` occurs in `s` -/
def hasSub (sub : Bytes) : Bytes → Bool
  | [] => sub.isEmpty
  | c :: rest => sub.isPrefixOf (c :: rest) || hasSub sub rest

/-- an ASCII name with an ACE prefix (`xn--`, any case) is itself validated by idna.ToASCII at
    provision time; the model has no punycode, such names are outside the protocol -/
def noAcePrefix (b : Bytes) : Bool := !hasSub (str "xn--") (lower b)

/-- one configured sni name: `hex`, or `hex=hex` for a name with non-ASCII symbols — the name and what
    `idna.ToASCII` makes of it (an external call, observed by the harness). Exactly the non-ASCII
    names carry the second part. -/
def parseSniName (tok : String) : Option (Bytes × Option Bytes) :=
  match tok.splitOn "=" with
  | [h] => (hexField h).bind fun b => if noBraces b && isAscii b && noAcePrefix b then some (b, none) else none
  | [h, c] =>
    match hexField h, hexField c with
    | some b, some a =>
      if noBraces b && !isAscii b && isAscii a && noBraces a then some (b, some a) else none
    | _, _ => none
  | _ => none

/-- the name the provisioned sni matcher compares with: MatchServerName.Provision converts
    internationalized names to their IDNA form (as caddyhttp's MatchHost does with its hosts) -/
def provisionedSniName (n : Bytes × Option Bytes) : Bytes :=
  match n.2 with
  | some a => a
  | none => n.1

def parseSni (s : String) : Option (Option (List Bytes)) :=
  if s == "~" then some none
  else if s == "." then some (some [])
  else ((s.splitOn ",").mapM fun tok => (parseSniName tok).map provisionedSniName).map some

def nRemote : Nat := 6
def nLocal : Nat := 4
def nOpaque : Nat := 16

def opaqueKind (id : Nat) : Nat := if id < nRemote then 0 else if id < nRemote + nLocal then 1 else 2

/-- letters a..p, strictly increasing, at most one per kind -/
def parseOpqChars : List Char → Option Nat → List Nat → Option (List Nat)
  | [], _, _ => some []
  | c :: cs, last, kinds =>
    if 'a' ≤ c ∧ c ≤ 'p' then
      let id := c.toNat - 97
      if (match last with | some l => decide (id ≤ l) | none => false) then none
      else if kinds.contains (opaqueKind id) then none
      else (parseOpqChars cs (some id) (opaqueKind id :: kinds)).map (id :: ·)
    else none

def parseOpq (s : String) : Option (List Nat) :=
  if s == "~" then some []
  else if s == "" then none
  else parseOpqChars s.toList none []

def parsePolicy (s : String) : Option Policy :=
  match s.splitOn "/" with
  | [fl, sni, opq] => do
    let (drop, auth) ← parseFlags fl
    let sn ← parseSni sni
    let ids ← parseOpq opq
    let ms : List Matcher := (match sn with | some names => [Matcher.sni names] | none => []) ++ ids.map Matcher.other
    pure ⟨ms, drop, auth⟩
  | _ => none

def parsePolicies (s : String) : Option (List Policy) :=
  if s == "." then some [] else (s.splitOn ";").mapM parsePolicy

def parseIdx (s : String) : Option Nat :=
  match s.toList with
  | [c] => if '0' ≤ c ∧ c ≤ '7' then some (c.toNat - 48) else none
  | _ => none

def parseBits (s : String) : Option (List Bool) :=
  if s.length != nOpaque then none
  else s.toList.mapM fun c => if c == '0' then some false else if c == '1' then some true else none

def verdictOf (bits : List Bool) : Nat → Bool := fun id =>
  match bits[id]? with
  | some b => b
  | none => false

def parseHello (s : String) : Option Hello :=
  match s.splitOn "/" with
  | [sni, r, l, bits] => do
    let sn ← hexField sni
    let _ ← parseIdx r
    let _ ← parseIdx l
    let b ← parseBits bits
    pure ⟨sn, verdictOf b⟩
  | _ => none

def showChoice : Choice → String
  | .config i => "c" ++ toString i
  | .dropped _ => "drop"
  | .noMatch => "none"

def validSiteByte (c : UInt8) : Bool := (97 ≤ c && c ≤ 122) || (48 ≤ c && c ≤ 57) || c == 46 || c == 42

def distinct : List Bytes → Bool
  | [] => true
  | x :: xs => !xs.contains x && distinct xs

def parseSites (s : String) : Option (List Bytes) :=
  if s == "." then some []
  else do
    let l ← (s.splitOn ",").mapM fun h => (hexField h).bind fun b =>
      if !b.isEmpty && b.all validSiteByte then some b else none
    if distinct l then some l else none

def parseReq (s : String) : Option (Option Bytes × Bytes) :=
  match s.splitOn "/" with
  | [t, sni, host] => do
    let sn ← hexField sni
    let h ← hexField host
    -- "2": r.TLS is nil but the request's connection reports the TLS state; ServeHTTP fills r.TLS in first
    if t == "1" || t == "2" then pure (some sn, h) else if t == "0" then pure (none, h) else none
  | _ => none

def showServed : Served → String
  | .misdirected => "421"
  | .handler (some k) => "in:" ++ toString k
  | .handler none => "in:*"

/-- the fixed server of the end-to-end cases (harness `setupE2E`) -/
def e2eSecret : Bytes := [115, 101, 99, 114, 101, 116, 46, 116, 101, 115, 116]   -- "secret.test"
def e2ePublic : Bytes := [112, 117, 98, 108, 105, 99, 46, 116, 101, 115, 116]    -- "public.test"
def e2ePolicies : List Policy := [⟨[.sni [e2eSecret]], false, true⟩, ⟨[], false, false⟩]
def e2eSites : List Bytes := [e2eSecret, e2ePublic]
/-- e2e server 3 protects the wildcard site `*.secret.test` -/
def e2eSitesWild : List Bytes := [[42, 46] ++ e2eSecret, e2ePublic]
/-- e2e server 4 protects the IDN site written `é.test` in the config; MatchHost.Provision converts
    the route's host to its IDNA form -/
def e2eSitesIdn : List Bytes := [str "xn--9ca.test", e2ePublic]

/-- SNIs an e2e case may carry: non-empty, no trailing dot, no `%`, some letter g–z / G–Z
    (so Go's client sends it verbatim: it is not an IP literal) -/
def e2eSniOk (s : Bytes) : Bool :=
  !s.isEmpty && s.getLast? != some 46 && !s.contains 37 &&
    s.any fun c => (103 ≤ c && c ≤ 122) || (71 ≤ c && c ≤ 90)

def parseListed : Char → Option Listed
  | '0' => some .none
  | '1' => some .good
  | '2' => some .bad
  | _ => none

def parseBit : Char → Option Bool
  | '0' => some false
  | '1' => some true
  | _ => none

def parseMode : Char → Option Mode
  | '0' => some .empty
  | '1' => some .request
  | '2' => some .require
  | '3' => some .verifyIfGiven
  | '4' => some .requireAndVerify
  | '5' => some .other
  | _ => none

/-- the 7-digit field description of a `ca` case; `some none` = no block -/
def parseCA (s : String) : Option (Option CAConf) :=
  match s.toList with
  | ['0', '0', '0', '0', '0', '0', '0'] => some none
  | ['1', a, b, c, d, e, m] => do
    let ca ← parseListed a
    let tca ← parseListed b
    let pem ← parseListed c
    let leaf ← parseListed d
    let ver ← parseBit e
    let mode ← parseMode m
    pure (some ⟨ca, tca, pem, leaf, ver, mode⟩)
  | _ => none

def bit (b : Bool) : String := if b then "1" else "0"

def authNum : AuthType → String
  | .noClientCert => "0"
  | .requestClientCert => "1"
  | .requireAnyClientCert => "2"
  | .verifyClientCertIfGiven => "3"
  | .requireAndVerifyClientCert => "4"

/-- host names of the `cf` cases (harness `cfNames`) -/
def cfNames : List (Bytes × Option Bytes) :=
  [(str "a.test", none), (str "b.test", none), (str "secret.test", none), (str "k.test", none),
   (str "*.w.test", none), ([symEacute] ++ str ".test", some (str "xn--9ca.test"))]

/-- what clients send for site `i`: the name; an instance and the empty-label non-instance of the
    wildcard site; the A-label of the IDN site -/
def cfInstances (i : Nat) : List Bytes :=
  if i == 4 then [str "x.w.test", str ".w.test"]
  else if i == 5 then [str "xn--9ca.test"]
  else match cfNames[i]? with
    | some (n, _) => [n]
    | none => []

/-- the host a route of site `i` matches after MatchHost.Provision (IDNA form) -/
def cfRouteName (n : Bytes × Option Bytes) : Bytes :=
  match n.2 with
  | some a => a
  | none => n.1

def cfProbeOther : Bytes := str "zz.test"

def parseSubChar : Char → Option Sub
  | 'r' => some (.mode .request)
  | 'q' => some (.mode .require)
  | 'g' => some (.mode .verifyIfGiven)
  | 'R' => some (.mode .requireAndVerify)
  | 'x' => some (.mode .other)
  | 'k' => some (.trustedCACert true)
  | 'K' => some (.trustedCACert false)
  | 'f' => some (.trustedCACertFile true)
  | 'F' => some (.trustedCACertFile false)
  | 'l' => some (.trustedLeafCert true)
  | 'M' => some (.trustedLeafCert false)
  | 'j' => some (.trustedLeafCertFile true)
  | 'J' => some (.trustedLeafCertFile false)
  | 'p' => some (.trustPool true)
  | 'P' => some (.trustPool false)
  | 'v' => some .verifier
  | _ => none

/-- a site of a `cf` line: (name index, `none` = no tls directive | `some subs`) -/
def parseCfSite (s : String) : Option (Nat × Option (List Sub)) :=
  match s.splitOn "/" with
  | [n, subs] => do
    let i ← (match n.toList with | [c] => if '0' ≤ c ∧ c ≤ '5' then some (c.toNat - 48) else none | _ => none)
    if subs == "~" then pure (i, none)
    else if subs == "." then pure (i, some [])
    else if subs == "" then none
    else do
      let l ← subs.toList.mapM parseSubChar
      pure (i, some l)
  | _ => none

def distinctNat : List Nat → Bool
  | [] => true
  | x :: xs => !xs.contains x && distinctNat xs

def parseStrictOpt : String → Option StrictOpt
  | "n" => some .absent
  | "b" => some .bare
  | "t" => some .on
  | "f" => some .insecureOff
  | "x" => some .otherArg
  | _ => none

/-- the answer of a well-formed `cf` case -/
def runCf (so : StrictOpt) (raw : List (Nat × Option (List Sub))) : String :=
  -- Caddyfile → JSON: every client_auth block must parse, the option must be accepted
  let parsed : Option (List Site) := raw.mapM fun (i, subs) =>
    match cfNames[i]?, subs with
    | none, _ => none
    | some name, none => some (provisionedSniName name, none)
    | some name, some l => (parseClientAuth l).map fun conf => (provisionedSniName name, some conf)
  match parsed, strictOption so with
  | some sites, some cfg =>
    let pcs := adaptPolicies sites
    -- JSON → provisioned server: every policy must provision
    match pcs.mapM fun (_, conf) => provisionPolicyCA conf with
    | none => "err:provision"
    | some builts =>
      let ps := pcs.map (·.1)
      let strict := effectiveStrict cfg ps
      let routeNames := raw.filterMap fun (i, _) => (cfNames[i]?).map cfRouteName
      let names := raw.flatMap fun (i, _) => cfInstances i
      let probes := names ++ [cfProbeOther]
      let auths := probes.map fun sni =>
        match choose false ps ⟨sni, fun _ => false⟩ with
        | .config k => (match builts[k]? with | some b => authNum b.bits.auth | none => "?")
        | .dropped _ => "d"
        | .noMatch => "-"
      let served := probes.flatMap fun sni => names.map fun host => showServed (serve strict routeNames (some sni) host)
      "strict=" ++ bit strict ++ " a=" ++ "".intercalate auths ++ " r=" ++ ",".intercalate served
  | _, _ => "err:adapt"

/-- ONE site block `a.test:443, b.test:8443 { tls { client_auth … } }` is paired with TWO servers;
    httpcaddyfile's serversFromPairings gives each server its own copy of the block's connection
    policy, matched on that server's host names. -/
def multiPortPolicyName (own _last : Bytes) : Bytes := own

/-- the answer of a well-formed `cf2` case -/
def runCf2 (subs : List Sub) : String :=
  match parseClientAuth subs with
  | none => "err:adapt"
  | some conf =>
    match provisionPolicyCA (some conf) with
    | none => "err:provision"
    | some b =>
      let a := str "a.test"
      let bb := str "b.test"
      let one (label : String) (own other port : Bytes) : String :=
        let ps : List Policy := [⟨[.sni [multiPortPolicyName own bb]], false, activeBefore (some conf)⟩, ⟨[], false, false⟩]
        let strict := effectiveStrict none ps
        let authOf (sni : Bytes) : String :=
          match choose false ps ⟨sni, fun _ => false⟩ with
          | .config 0 => authNum b.bits.auth
          | .config _ => "0"
          | .dropped _ => "d"
          | .noMatch => "-"
        label ++ " strict=" ++ bit strict ++ " a=" ++ authOf own ++ authOf other ++ " r=" ++
          showServed (serve strict [own] (some own) (own ++ port))
      one "A" a bb (str ":443") ++ " " ++ one "B" bb a (str ":8443")

def parseQuicOp (t : String) : Option QOp :=
  match t.toList with
  | ['p'] => some .probe
  | ['o', c] => if '1' ≤ c ∧ c ≤ '9' then some (.open (c.toNat - 48)) else none
  | ['c', c] => if '1' ≤ c ∧ c ≤ '9' then some (.close (c.toNat - 48)) else none
  | _ => none

def showQuicAnswer : Option Nat → String
  | some k => "a" ++ toString k
  | none => "a-"

/-- the three policies of the `res` cases: `a`, `b` have a client_authentication block (trusted CA 1
    resp. CA 2), `c` is the catch-all without one -/
def resConf : String → Option (Option CAConf)
  | "a" => some (some ⟨.none, .good, .none, .none, false, .empty⟩)
  | "b" => some (some ⟨.none, .good, .none, .none, false, .empty⟩)
  | "c" => some none
  | _ => none

/-- a FULL handshake under the policy completes for the harness client (certificate from CA 1) -/
def resFullOk : String → Bool
  | "b" => false
  | _ => true

/-- crypto/tls can resume a session issued under one config on another iff both have session
    tickets on (the ticket keys are shared through the tls app's session_tickets service) -/
def resCanResume (p q : Built) : Bool := !p.ticketsOff && !q.ticketsOff

/-- Host values of the `full` cases: what net/http's server passes through untouched -/
def fullHostOk (h : Bytes) : Bool :=
  !h.isEmpty && h.all fun c => (97 ≤ c && c ≤ 122) || (65 ≤ c && c ≤ 90) || (48 ≤ c && c ≤ 57) || c == 46 || c == 58 || c == 45

/-- Host values of the `conn` cases: as `full`, plus the empty Host field, which only an HTTP/1.1
    client can put on the wire -/
def connHostOk (proto : String) (h : Bytes) : Bool :=
  if h.isEmpty then proto == "h1" else fullHostOk h

/-- the three servers of the `conn` cases (harness `setupConn`): configured strict_sni_host, policies, sites -/
def connServer : String → Option (Option Bool × List Policy × List Bytes)
  | "a" => some (none, e2ePolicies, e2eSites)
  | "b" => some (none, [⟨[], false, false⟩], [e2eSecret])
  | "c" => some (some true, [⟨[], false, false⟩], e2eSites)
  | _ => none

def handle : List String → String
  | ["conn", srv, proto, hs, sni, hosts] =>
    match connServer srv, hexField sni, (hosts.splitOn ",").mapM hexField with
    | some (cfg, ps, sites), some s, some hl =>
      if !(proto == "h1" || proto == "h2" || proto == "h3") || !isAscii s || !e2eSniOk s ||
          hl.length > 8 || !hl.all (connHostOk proto) then "bad-op"
      else if hs == "f" then "hs=f"
      else if hs == "ok" then
        let strict := effectiveStrict cfg ps
        " ".intercalate (("hs=ok strict=" ++ bit strict) :: (serveConn strict sites s hl).map showServed)
      else "bad-op"
    | _, _, _ => "bad-op"
  | ["full", srv, hs, sni, host] =>
    match hexField sni, hexField host with
    | some s, some h =>
      if !(srv == "a" || srv == "b") || !isAscii s || !e2eSniOk s || !fullHostOk h then "bad-op"
      else if hs == "f" then "hs=f"
      else if hs == "ok" then
        -- server a: [sni secret.test + client auth, catch-all], sites secret.test public.test; server b: [catch-all], site secret.test
        let ps : List Policy := if srv == "a" then e2ePolicies else [⟨[], false, false⟩]
        let sites : List Bytes := if srv == "a" then e2eSites else [e2eSecret]
        let strict := effectiveStrict none ps
        "hs=ok strict=" ++ bit strict ++ " " ++ showServed (serve strict sites (some s) h)
      else "bad-op"
    | _, _ => "bad-op"
  | ["res", x, y] =>
    match resConf x, resConf y with
    | some cx, some cy =>
      match provisionPolicyCA cx, provisionPolicyCA cy with
      | some bx, some by_ =>
        let h1 := resFullOk x
        let resumed := h1 && resCanResume bx by_
        let h2 := resumed || resFullOk y
        "h1=" ++ (if h1 then "ok" else "f") ++ " h2=" ++ (if h2 then "ok" else "f") ++ " resumed=" ++ bit resumed
      | _, _ => "bad-op"
    | _, _ => "bad-op"
  | ["quic", ops] =>
    match (ops.splitOn ",").mapM parseQuicOp with
    | none => "bad-op"
    | some l =>
      match qrun allWrapped QState.init [] l with
      | none => "bad-op"
      | some (_, answers) => if answers.isEmpty then "-" else " ".intercalate (answers.map showQuicAnswer)
  | ["cf2", subs] =>
    if subs == "." then runCf2 []
    else if subs == "" then "bad-op"
    else match subs.toList.mapM parseSubChar with
      | some l => runCf2 l
      | none => "bad-op"
  | ["cf", so, sites] =>
    match parseStrictOpt so, (sites.splitOn ";").mapM parseCfSite with
    | some o, some raw => if distinctNat (raw.map (·.1)) then runCf o raw else "bad-op"
    | _, _ => "bad-op"
  | ["ca", fields] =>
    match parseCA fields with
    | none => "bad-op"
    | some conf =>
      match provisionPolicyCA conf with
      | none => "err"
      | some b =>
        -- the server of a `ca` case: [this policy, a catch-all without client auth], strict_sni_host unset
        let ps : List Policy := [⟨[], false, activeBefore conf⟩, ⟨[], false, false⟩]
        "before=" ++ bit (activeBefore conf) ++ " auth=" ++ authNum b.bits.auth ++ " cas=" ++ bit b.bits.clientCAs ++
        " vpc=" ++ bit b.bits.verifyPeer ++ " tix=" ++ bit b.ticketsOff ++ " ver=" ++ bit b.hasVerifier ++
        " after=" ++ bit b.activeAfter ++ " strict=" ++ bit (effectiveStrict none ps)
  | ["e2e", srv, hs, sni, host] =>
    match hexField sni, hexField host with
    | some s, some h =>
      if !(srv == "0" || srv == "1" || srv == "2" || srv == "3" || srv == "4") then "bad-op"
      else if !e2eSniOk s then "bad-op"
      else if hs == "f" then "hs=f"
      else if hs == "p0" || hs == "p1" then
        -- every e2e server has one client-auth policy (shape differs, decision does not) and no explicit setting
        let strict := effectiveStrict none e2ePolicies
        "hs=" ++ hs ++ " strict=" ++ (if strict then "1" else "0") ++ " " ++ showServed (serve strict (if srv == "3" then e2eSitesWild else if srv == "4" then e2eSitesIdn else e2eSites) (some s) h)
      else "bad-op"
    | _, _ => "bad-op"
  | ["pol", l, pols, hellos] =>
    match (if l == "0" then some false else if l == "1" then some true else none),
          parsePolicies pols, (hellos.splitOn ";").mapM parseHello with
    | some live, some ps, some hs =>
      " ".intercalate (("live=" ++ l) :: hs.map fun h => showChoice (choose live ps h))
    | _, _, _ => "bad-op"
  | ["enf", st, pols, sites, reqs] =>
    match (if st == "n" then some none else if st == "t" then some (some true) else if st == "f" then some (some false) else none),
          parsePolicies pols, parseSites sites, (reqs.splitOn ";").mapM parseReq with
    | some cfg, some ps, some ss, some rs =>
      let strict := effectiveStrict cfg ps
      " ".intercalate (("strict=" ++ (if strict then "1" else "0")) :: rs.map fun (t, h) => showServed (serve strict ss t h))
    | _, _, _, _ => "bad-op"
  | _ => "bad-op"

end CaddyModel.C19
