/-
C19 — property theorems (helper lemmas are in Lemmas.lean, proved counter-examples in Witness.lean).

Statement: for every ClientHello, the TLS settings applied are those of the first connection
policy in configured order whose matchers all match, however many policies exist, and the
handshake is refused if none matches or the matching policy says drop.  Where strict SNI-Host
checking is in effect — by default on every server that has a policy requiring client
certificates — a request whose Host header names a different host than the SNI of its
connection is never routed to a handler, so such a policy cannot be bypassed by connecting
under another name.

`choose live ps h` is the code (`TLSConfig` + `getConfigForClient`, with the `indexedBySNI` map);
`live` says whether the type assertion that guards insertion into that map can succeed.  The
harness observes `live` on the real code on every run (it is `false` on the pinned tree: the
assertion names the value type, provisioned matchers are pointers).  Everything is proved for
both values.
-/
import CaddyModel.C19.WildLemmas
import CaddyModel.C19.ClientAuth
import CaddyModel.C19.Caddyfile
import CaddyModel.Gen.Glue
import CaddyModel.C19.Quic
import CaddyModel.C19.Conn
import CaddyModel.Gen.Enforcement

namespace CaddyModel.C19

/-! ## A. what "first match" means (the spec is not just another program) -/

/-- `firstMatch` answers "policy `i`" exactly when policy `i` accepts the hello, does not say
    drop, and no earlier policy accepts it. -/
theorem firstMatch_config_iff (ps : List Policy) (h : Hello) (i : Nat) :
    firstMatch ps h = .config i ↔
      ∃ p, ps[i]? = some p ∧ p.matches h = true ∧ p.drop = false ∧
        ∀ j q, j < i → ps[j]? = some q → q.matches h = false := by
  have := firstMatchFrom_config_iff h ps 0 i
  rwa [Nat.zero_add] at this

/-- … "refused because policy `i` says drop" exactly when `i` is the first accepting policy and says drop. -/
theorem firstMatch_dropped_iff (ps : List Policy) (h : Hello) (i : Nat) :
    firstMatch ps h = .dropped i ↔
      ∃ p, ps[i]? = some p ∧ p.matches h = true ∧ p.drop = true ∧
        ∀ j q, j < i → ps[j]? = some q → q.matches h = false := by
  have := firstMatchFrom_dropped_iff h ps 0 i
  rwa [Nat.zero_add] at this

/-- … "refused, nobody matches" exactly when no policy accepts the hello. -/
theorem firstMatch_noMatch_iff (ps : List Policy) (h : Hello) :
    firstMatch ps h = .noMatch ↔ ∀ p ∈ ps, p.matches h = false :=
  firstMatchFrom_noMatch_iff h ps 0

/-- Matchers of one policy live in a Go map: the order in which the loop asks them is arbitrary
    and does not matter. -/
theorem matcher_order_irrelevant (h : Hello) (ms ms' : List Matcher) (hp : ms.Perm ms') :
    matchersLoop h ms = matchersLoop h ms' := by
  rw [matchersLoop_eq_all, matchersLoop_eq_all]
  exact hp.all_eq

/-! ## B. the code chooses the first match -/

/-- Up to the index threshold (30 policies) the code is first-match, whatever the index does. -/
theorem first_match_small (live : Bool) (ps : List Policy) (h : Hello)
    (hsz : ps.length ≤ sniIndexThreshold) : choose live ps h = firstMatch ps h := by
  unfold choose candidates
  rw [buildIndex_small live ps hsz]
  exact policyLoop_enumFrom h ps 0

/-- **At every list size**, if the index is never populated (the pinned tree), the code is first-match. -/
theorem first_match_dead_index (ps : List Policy) (h : Hello) : choose false ps h = firstMatch ps h := by
  unfold choose candidates
  rw [buildIndex_dead ps]
  exact policyLoop_enumFrom h ps 0

/-- candidate list of a populated index above the threshold -/
theorem candidates_live (ps : List Policy) (h : Hello) (hsz : ¬ ps.length ≤ sniIndexThreshold) :
    candidates true ps h =
      if policyHits h.sni (enumFrom 0 ps) = [] then enumFrom 0 ps else policyHits h.sni (enumFrom 0 ps) := by
  unfold candidates buildIndex
  rw [if_pos (by omega), idxGet_indexPolicies]
  cases policyHits h.sni (enumFrom 0 ps) <;> simp [ext, idxGet]

/-- FULL STATEMENT for a populated index — `∀ ps h, choose true ps h = firstMatch ps h` — is FALSE:
    see `Witness.live_index_breaks_first_match`.  What holds, exactly: a populated index returns
    the first match **iff** the list is small, or no policy lists the hello's name byte for byte,
    or the first matching policy is itself one that lists it. -/
theorem live_index_first_match_iff (ps : List Policy) (h : Hello) :
    choose true ps h = firstMatch ps h ↔ indexHarmless ps h = true := by
  unfold indexHarmless
  by_cases hsz : ps.length ≤ sniIndexThreshold
  · simp [hsz, first_match_small true ps h hsz]
  · unfold choose
    rw [candidates_live ps h hsz]
    by_cases hl : ps.any (·.lists h.sni) = false
    · have : policyHits h.sni (enumFrom 0 ps) = [] := (policyHits_eq_nil h.sni ps 0).mpr hl
      rw [if_pos this]
      simp only [hl, Bool.not_false, Bool.or_true, Bool.true_or, iff_true]
      exact policyLoop_enumFrom h ps 0
    · have hne : ¬ policyHits h.sni (enumFrom 0 ps) = [] := fun e => hl ((policyHits_eq_nil h.sni ps 0).mp e)
      have hl' : ps.any (·.lists h.sni) = true := by simpa using hl
      rw [if_neg hne]
      simp only [hsz, decide_false, hl', Bool.not_true, Bool.or_false, Bool.false_or]
      constructor
      · intro e
        cases hs : firstMatchListsName h ps with
        | true => rfl
        | false =>
          exfalso
          obtain ⟨i, p, h1, h2, h3⟩ := firstMatchFrom_of_unsafe h ps 0 hs
          rw [Nat.zero_add] at h3
          have h3' : policyLoop h (policyHits h.sni (enumFrom 0 ps)) = .config i ∨
              policyLoop h (policyHits h.sni (enumFrom 0 ps)) = .dropped i := by
            rw [e]; exact h3
          obtain ⟨q, hq⟩ := policyLoop_result_mem h _ i h3'
          obtain ⟨hq1, hq2⟩ := mem_policyHits h.sni _ _ hq
          obtain ⟨_, hq3⟩ := mem_enumFrom ps 0 i q hq1
          simp only [Nat.sub_zero] at hq3
          rw [h1] at hq3; cases hq3
          simp only at hq2; rw [h2] at hq2; cases hq2
      · intro hs
        exact policyLoop_hits_of_safe h ps 0 hs

/-- the provable part under the explicit decidable exclusion -/
theorem live_index_partial (ps : List Policy) (h : Hello) (hh : indexHarmless ps h = true) :
    choose true ps h = firstMatch ps h :=
  (live_index_first_match_iff ps h).mpr hh

/-- **first match** — the clause of the property, for whatever liveness the harness observes:
    with a dead index unconditionally, with a live one in the harmless region. -/
theorem first_match (live : Bool) (ps : List Policy) (h : Hello)
    (hh : live = false ∨ indexHarmless ps h = true) : choose live ps h = firstMatch ps h := by
  cases live with
  | false => exact first_match_dead_index ps h
  | true =>
    rcases hh with hh | hh
    · cases hh
    · exact live_index_partial ps h hh

/-- the handshake is refused iff nobody matches or the first match says drop (dead index) -/
theorem refused_iff (ps : List Policy) (h : Hello) :
    (choose false ps h).refused = true ↔
      (∀ p ∈ ps, p.matches h = false) ∨ ∃ i, firstMatch ps h = .dropped i := by
  rw [first_match_dead_index]
  constructor
  · intro hr
    cases hc : firstMatch ps h with
    | config i => rw [hc] at hr; cases hr
    | dropped i => exact Or.inr ⟨i, rfl⟩
    | noMatch => exact Or.inl ((firstMatch_noMatch_iff ps h).mp hc)
  · rintro (hn | ⟨i, hi⟩)
    · rw [(firstMatch_noMatch_iff ps h).mpr hn]; rfl
    · rw [hi]; rfl

/-! ## C. the sni matcher -/

/-- SNI matching is ASCII-case-insensitive in the hello's name -/
theorem sni_match_case_insensitive (s s' : Bytes) (names : List Bytes) (e : namesSameHost s s') :
    sniMatch s names = sniMatch s' names :=
  sniMatch_congr s s' names e

/-- a listed name matches the hello that carries it, in any letter case -/
theorem listed_name_matches (s n : Bytes) (names : List Bytes) (hn : n ∈ names) (e : namesSameHost n s) :
    sniMatch s names = true :=
  sniMatch_listed s n names hn e

/-! ## D. strict SNI-Host -/

/-- The check is in effect iff it is configured on, or it is not configured at all and some
    policy requires client certificates (the default the property speaks of). -/
theorem strict_auto_enabled_iff (cfg : Option Bool) (ps : List Policy) :
    effectiveStrict cfg ps = true ↔ cfg = some true ∨ (cfg = none ∧ ∃ p ∈ ps, p.clientAuth = true) := by
  cases cfg with
  | none => simp [effectiveStrict, hasTLSClientAuth]
  | some b => cases b <;> simp [effectiveStrict]

/-- what passing the strict check means, and which route then runs -/
theorem serve_strict_handler (sites : List Bytes) (sni host : Bytes) (site : Option Nat)
    (hs : serve true sites (some sni) host = .handler site) :
    isAscii sni = true ∧ equalFold sni (enforcementHost host) = true ∧ site = route sites host := by
  unfold serve at hs
  cases ha : isAscii sni <;> cases he : equalFold sni (enforcementHost host) <;> simp [ha, he] at hs
  exact ⟨rfl, rfl, hs.symm⟩

/-- Under strict checking a TLS request enters the handler chain iff its SNI is ASCII and equal,
    for `strings.EqualFold`, to the host part of its Host header (as the enforcement handler
    computes it). -/
theorem strict_421 (sites : List Bytes) (sni host : Bytes) :
    serve true sites (some sni) host = .misdirected ↔
      ¬ (isAscii sni = true ∧ foldSame sni (enforcementHost host)) := by
  unfold serve foldSame
  cases ha : isAscii sni <;> cases he : equalFold sni (enforcementHost host)
  · simp [ha, he]
  · simp [ha, he]
  · simp [ha, he, (equalFold_false_iff _ _).mp he]
  · simp [ha, he, (equalFold_iff _ _).mp he]

/-- Letter case of the Host and an appended `:port` make no difference to the check. -/
theorem strict_case_port_insensitive (sites : List Bytes) (sni name host port : Bytes)
    (hplain : noSpecial host = true) (hport : noSpecial port = true) (hcase : foldKey host = foldKey name) :
    (serve true sites (some sni) (host ++ cColon :: port) = .misdirected ↔
        ¬ (isAscii sni = true ∧ foldSame sni name)) ∧
    (serve true sites (some sni) host = .misdirected ↔ ¬ (isAscii sni = true ∧ foldSame sni name)) := by
  have e1 : enforcementHost (host ++ cColon :: port) = host := by
    simp [enforcementHost, splitHostPort_plain host port hplain hport]
  have e2 : enforcementHost host = host := by
    simp [enforcementHost, splitHostPort_noColon host (noSpecial_not_mem host hplain).1]
  rw [strict_421, strict_421, e1, e2]
  unfold foldSame
  rw [hcase]
  exact ⟨Iff.rfl, Iff.rfl⟩

/-- a non-ASCII server name never passes the strict check (RFC 6066: server names are ASCII) -/
theorem strict_refuses_non_ascii_sni (sites : List Bytes) (sni host : Bytes) (h : isAscii sni = false) :
    serve true sites (some sni) host = .misdirected := by
  rw [strict_421]; rintro ⟨ha, _⟩; rw [h] at ha; cases ha

/-! ### D1. the routed site is EqualFold-equal to the SNI

FULL STATEMENT — "under strict checking a TLS request is only ever routed to the handler of a
site whose name is (EqualFold-)the connection's SNI":
  `∀ sites sni host k, serve true sites (some sni) host = .handler (some k) →
     ∃ site, sites[k]? = some site ∧ foldSame sni site`
is FALSE for the code as written (`Witness.strict_binds_routing_host_full_fails`: SNI
`[secret.test]`, Host `[secret.test]`): the enforcement handler compares the SNI with the raw
Host when SplitHostPort fails, the host matcher additionally strips one `[` / `]`.  Such an SNI
cannot establish a connection on the pinned tree (certmagic rejects it; checked with real
handshakes), so this corner is latent.  It holds outside that decidable region, and for every
bracket-free SNI: -/

theorem strict_binds_routing_host_partial (sites : List Bytes) (sni host : Bytes) (k : Nat)
    (hx : bracketTrimmed host = false) (hstar : ∀ s ∈ sites, noStar s = true)
    (hs : serve true sites (some sni) host = .handler (some k)) :
    ∃ site, sites[k]? = some site ∧ foldSame sni site := by
  have hrh : routingHost host = enforcementHost host := by simpa [bracketTrimmed] using hx
  obtain ⟨_, he, hr⟩ := serve_strict_handler sites sni host _ hs
  have hr : routeFrom 0 (routingHost host) sites = some k := by simpa [route] using hr.symm
  obtain ⟨_, site, h1, h2⟩ := routeFrom_some _ _ _ _ hr
  have h1' : sites[k]? = some site := by simpa using h1
  refine ⟨site, h1', ?_⟩
  have hns : site.contains cStar = false := by
    have := hstar site (List.mem_of_getElem? h1'); simpa [noStar] using this
  rw [hostMatch_noStar _ _ hns] at h2
  unfold foldSame
  rw [(equalFold_iff _ _).mp he, ← hrh, (equalFold_iff _ _).mp h2]

/-- same for the catch-all route: the host the request is routed by is the SNI -/
theorem strict_binds_catch_all_partial (sites : List Bytes) (sni host : Bytes) (site : Option Nat)
    (hx : bracketTrimmed host = false)
    (hs : serve true sites (some sni) host = .handler site) :
    foldSame sni (routingHost host) := by
  have hrh : routingHost host = enforcementHost host := by simpa [bracketTrimmed] using hx
  obtain ⟨_, he, _⟩ := serve_strict_handler sites sni host _ hs
  rw [hrh]; exact (equalFold_iff _ _).mp he

/-- a bracket-free SNI that passes the strict check forces the Host out of the excluded region -/
theorem strict_pass_not_bracketTrimmed (sites : List Bytes) (sni host : Bytes) (site : Option Nat)
    (hsni : noBrackets sni = true)
    (hs : serve true sites (some sni) host = .handler site) : bracketTrimmed host = false := by
  cases hb : bracketTrimmed host with
  | false => rfl
  | true =>
    exfalso
    obtain ⟨h1, h2⟩ := bracketTrimmed_shape host hb
    obtain ⟨_, he, _⟩ := serve_strict_handler sites sni host _ hs
    rw [h1] at he
    have := noBrackets_of_fold sni host ((equalFold_iff _ _).mp he) h2
    rw [hsni] at this; cases this

/-- strict SNI-Host binds the routed site to the SNI up to EqualFold (every SNI without brackets) -/
theorem strict_binds_routing_host (sites : List Bytes) (sni host : Bytes) (k : Nat)
    (hsni : noBrackets sni = true) (hstar : ∀ s ∈ sites, noStar s = true)
    (hs : serve true sites (some sni) host = .handler (some k)) :
    ∃ site, sites[k]? = some site ∧ foldSame sni site :=
  strict_binds_routing_host_partial sites sni host k
    (strict_pass_not_bracketTrimmed sites sni host _ hsni hs) hstar hs

theorem strict_binds_catch_all (sites : List Bytes) (sni host : Bytes) (site : Option Nat)
    (hsni : noBrackets sni = true)
    (hs : serve true sites (some sni) host = .handler site) :
    foldSame sni (routingHost host) :=
  strict_binds_catch_all_partial sites sni host site
    (strict_pass_not_bracketTrimmed sites sni host _ hsni hs) hs

/-! ### D2. from "EqualFold-equal" to "same TLS policy"

The TLS side (MatchServerName → certmagic.MatchWildcard) compares names after `strings.ToLower`;
the HTTP side (strict check, host matcher) with `strings.EqualFold`.  The two differ on `ſ`
(U+017F): `EqualFold("ſecret.test", "secret.test")` holds, the lower-cased strings differ.
Before /repo commit 110cdf0 the strict check was `EqualFold` alone and the no-bypass clause was
FALSE (`Witness.strict_unicode_fold_old_code_fails`, `Witness.client_auth_not_bypassed_old_code_fails`,
reproduced then with a real handshake; regression lines in corpus/C19).  The check now also
refuses non-ASCII server names, and on ASCII names the two equivalences coincide: -/

theorem strict_binds_policy_name (sites : List Bytes) (sni host : Bytes) (k : Nat)
    (hsni : noBrackets sni = true) (hstar : ∀ s ∈ sites, noStar s = true)
    (hsites : ∀ s ∈ sites, isAscii s = true)
    (hs : serve true sites (some sni) host = .handler (some k)) :
    ∃ site, sites[k]? = some site ∧ namesSameHost sni site := by
  obtain ⟨hascii, _, _⟩ := serve_strict_handler sites sni host _ hs
  obtain ⟨site, h1, h2⟩ := strict_binds_routing_host sites sni host k hsni hstar hs
  refine ⟨site, h1, ?_⟩
  have hm : site ∈ sites := List.mem_of_getElem? h1
  unfold namesSameHost
  unfold foldSame at h2
  rw [← foldKey_ascii sni hascii, ← foldKey_ascii site (hsites site hm)]
  exact h2

/-- **no bypass** (every bracket-free SNI; ASCII site names).  A server with a client-auth policy
    and no explicit `strict_sni_host`: whenever a TLS request is routed to the handler of a site,
    the policy that first-match assigned to the connection (by its SNI) is the very policy
    first-match assigns to that site's name — so a site behind a client-auth policy cannot be
    reached over a connection negotiated under another policy.  (ip matchers do not look at the
    name; a regexp matcher's verdict is assumed equal for the two spellings, which differ at most
    in ASCII case.) -/
theorem client_auth_not_bypassed (ps : List Policy) (sites : List Bytes) (sni host site : Bytes)
    (v : Nat → Bool) (k : Nat)
    (hauth : ∃ p ∈ ps, p.clientAuth = true)
    (hsni : noBrackets sni = true) (hstar : ∀ s ∈ sites, noStar s = true)
    (hsites : ∀ s ∈ sites, isAscii s = true)
    (hs : serve (effectiveStrict none ps) sites (some sni) host = .handler (some k))
    (hk : sites[k]? = some site) :
    choose false ps ⟨sni, v⟩ = choose false ps ⟨site, v⟩ := by
  have hstrict : effectiveStrict none ps = true :=
    (strict_auto_enabled_iff none ps).mpr (Or.inr ⟨rfl, hauth⟩)
  rw [hstrict] at hs
  obtain ⟨site', h1, h2⟩ := strict_binds_policy_name sites sni host k hsni hstar hsites hs
  rw [hk] at h1; cases h1
  rw [first_match_dead_index, first_match_dead_index]
  exact firstMatchFrom_congr ⟨sni, v⟩ ⟨site, v⟩ ps 0 h2 rfl

/-! ### D3. wildcard sites: the HTTP and the TLS reading of a pattern agree

Since /repo 7aa47c3 a `*` label of the host matcher stands for exactly one non-empty label, as in
certmagic.MatchWildcard (before, it also matched an empty label:
`Witness.wildcard_empty_label_old_code_fails`).  For every site whose name is exact or whose `*`
labels form a left-most prefix (`*.example.com`, `*.*.test`, `*` — the only wildcard shape the
TLS side can match at all; `x.*.test` as an sni name matches nothing, see props.d observation): -/

/-- **strict SNI-Host binds every site to its own connection policy**: if a TLS request is routed
    to the handler of site `site`, then the sni matcher of a connection policy `sni [site]`
    accepts the connection's server name — the policy written for the site (client auth!) is one
    that applies to the connection. -/
theorem strict_binds_site_policy (sites : List Bytes) (sni host site : Bytes) (k : Nat)
    (hsni : noBrackets sni = true)
    (hk : sites[k]? = some site) (hok : isAscii site = true)
    (hshape : noStar site = true ∨ leftmostWildcard site = true)
    (hs : serve true sites (some sni) host = .handler (some k)) :
    sniMatch sni [site] = true := by
  obtain ⟨hascii, he, hr⟩ := serve_strict_handler sites sni host _ hs
  have hx := strict_pass_not_bracketTrimmed sites sni host _ hsni hs
  have hrh : routingHost host = enforcementHost host := by simpa [bracketTrimmed] using hx
  have hr : routeFrom 0 (routingHost host) sites = some k := by simpa [route] using hr.symm
  obtain ⟨_, site', h1, h2⟩ := routeFrom_some _ _ _ _ hr
  have h1' : sites[k]? = some site' := by simpa using h1
  rw [hk] at h1'; cases h1'
  have hfold : foldKey sni = foldKey (routingHost host) := by rw [hrh]; exact (equalFold_iff _ _).mp he
  have hmw : matchWildcard sni site = true := by
    cases hc : site.contains cStar with
    | false =>
      rw [hostMatch_noStar _ _ hc] at h2
      have e : foldKey sni = foldKey site := hfold.trans ((equalFold_iff _ _).mp h2)
      rw [foldKey_ascii sni hascii, foldKey_ascii site hok] at e
      exact matchWildcard_self_fold sni site e
    | true =>
      rcases hshape with hns | hlw
      · exfalso; unfold noStar at hns; rw [hc] at hns; cases hns
      · exact matchWildcard_of_hostMatch sni (routingHost host) site hlw hc hok hascii hfold h2
  simp [sniMatch, hmw]

/-- … so the policy `sni [site]` (whatever its other settings) accepts the hello of that connection -/
theorem site_policy_accepts_connection (sites : List Bytes) (sni host site : Bytes) (k : Nat)
    (v : Nat → Bool) (drop ca : Bool)
    (hsni : noBrackets sni = true)
    (hk : sites[k]? = some site) (hok : isAscii site = true)
    (hshape : noStar site = true ∨ leftmostWildcard site = true)
    (hs : serve true sites (some sni) host = .handler (some k)) :
    (⟨[.sni [site]], drop, ca⟩ : Policy).matches ⟨sni, v⟩ = true := by
  have := strict_binds_site_policy sites sni host site k hsni hk hok hshape hs
  simp [Policy.matches, Matcher.eval, this]

/-! ## E. which policies "require client certificates": every `client_authentication` block

`Server.hasTLSClientAuth` asks `ClientAuthentication.Active()`, and App.Provision asks it before
the connection policies are provisioned.  The theorems below range over ALL combinations of the
block's fields (`ca`, `trusted_ca_certs`, `trusted_ca_certs_pem_files`, `trusted_leaf_certs`,
`verifiers`, `mode`; list fields absent / loadable / not loadable) — 648 blocks and "no block" —
each discharged by kernel evaluation of the executable model (`ClientAuth.lean`), which the
harness compares with the real `ConnectionPolicies.Provision` on every one of them on every run. -/

/-- a decidable statement holds of every block iff it holds of every field combination -/
theorem forall_conf (P : Option CAConf → Prop)
    (h : ∀ caRaw tca pem leaf ver mode, P (some ⟨caRaw, tca, pem, leaf, ver, mode⟩)) (h0 : P none) : ∀ c, P c := by
  intro c; cases c with
  | none => exact h0
  | some c => exact h c.caRaw c.trustedCACerts c.pemFiles c.trustedLeaf c.verifiersRaw c.mode

/-- `P` of what provisioning builds, vacuous when provisioning fails (the config is rejected) -/
def whenBuilt (c : Option CAConf) (P : Built → Prop) : Prop :=
  match provisionPolicyCA c with
  | none => True
  | some b => P b

instance (c : Option CAConf) (P : Built → Prop) [DecidablePred P] : Decidable (whenBuilt c P) := by
  unfold whenBuilt; cases provisionPolicyCA c <;> infer_instance

theorem whenBuilt_elim {c : Option CAConf} {P : Built → Prop} (h : whenBuilt c P) (b : Built)
    (hb : provisionPolicyCA c = some b) : P b := by
  unfold whenBuilt at h; rw [hb] at h; exact h

/-- the documented table: an explicit mode decides; without a mode any trust material (CA pool,
    CA certificates, PEM files, trusted leaf certificates) means require-and-verify, verifier
    modules alone mean require-any; nothing at all means no client certificate is asked for -/
def specAuth : Option CAConf → AuthType
  | none => .noClientCert
  | some c =>
    match c.mode with
    | .request => .requestClientCert
    | .require => .requireAnyClientCert
    | .verifyIfGiven => .verifyClientCertIfGiven
    | .requireAndVerify => .requireAndVerifyClientCert
    | .other => .noClientCert
    | .empty =>
      if c.caRaw.nonEmpty || c.trustedCACerts.nonEmpty || c.pemFiles.nonEmpty || c.trustedLeaf.nonEmpty
      then .requireAndVerifyClientCert
      else if c.verifiersRaw then .requireAnyClientCert else .noClientCert

/-- **ClientAuth mode derivation, all field combinations**: the built `tls.Config.ClientAuth`
    is the documented table. -/
theorem built_auth_eq_spec (c : Option CAConf) (b : Built) (hb : provisionPolicyCA c = some b) :
    b.bits.auth = specAuth c := by
  refine whenBuilt_elim (P := fun b => b.bits.auth = specAuth c) ?_ b hb
  refine forall_conf (fun c => whenBuilt c fun b => b.bits.auth = specAuth c) ?_ (by decide) c
  intro caRaw tca pem leaf ver mode
  cases caRaw <;> cases tca <;> cases pem <;> cases leaf <;> cases ver <;> cases mode <;> decide

/-- **the strict default looks at the right thing**: what `hasTLSClientAuth` sees before
    provisioning (`Active()`) is true exactly when the provisioned policy's `tls.Config` asks
    clients for a certificate. -/
theorem active_iff_requests_client_cert (c : Option CAConf) (b : Built) (hb : provisionPolicyCA c = some b) :
    activeBefore c = true ↔ b.bits.auth ≠ .noClientCert := by
  refine whenBuilt_elim (P := fun b => activeBefore c = true ↔ b.bits.auth ≠ .noClientCert) ?_ b hb
  refine forall_conf (fun c => whenBuilt c fun b => activeBefore c = true ↔ b.bits.auth ≠ .noClientCert) ?_ (by decide) c
  intro caRaw tca pem leaf ver mode
  cases caRaw <;> cases tca <;> cases pem <;> cases leaf <;> cases ver <;> cases mode <;> decide

/-- without a mode, any configured trust material or verifier REQUIRES a certificate -/
theorem no_mode_requires_certificate (c : CAConf) (b : Built) (hb : provisionPolicyCA (some c) = some b)
    (hm : c.mode = .empty) (ha : activeBefore (some c) = true) :
    b.bits.auth = .requireAnyClientCert ∨ b.bits.auth = .requireAndVerifyClientCert := by
  have := whenBuilt_elim (P := fun b => c.mode = .empty → activeBefore (some c) = true →
      (b.bits.auth = .requireAnyClientCert ∨ b.bits.auth = .requireAndVerifyClientCert))
    (forall_conf (fun c => whenBuilt c fun b => (match c with | some c => c.mode = .empty | none => False) →
        activeBefore c = true → (b.bits.auth = .requireAnyClientCert ∨ b.bits.auth = .requireAndVerifyClientCert))
      (by intro caRaw tca pem leaf ver mode
          cases caRaw <;> cases tca <;> cases pem <;> cases leaf <;> cases ver <;> cases mode <;> decide)
      (by decide) (some c)) b hb
  exact this hm ha

/-- a configured verifier (verifier module or trusted leaf certificate) is installed behind
    `VerifyPeerCertificate` -/
theorem verifier_installed_iff (c : CAConf) (b : Built) (hb : provisionPolicyCA (some c) = some b) :
    b.hasVerifier = true ↔ (c.verifiersRaw = true ∨ c.trustedLeaf ≠ .none) := by
  exact whenBuilt_elim (P := fun b => b.hasVerifier = true ↔ (c.verifiersRaw = true ∨ c.trustedLeaf ≠ .none))
    (forall_conf (fun c => whenBuilt c fun b => b.hasVerifier = true ↔
        (match c with | some c => (c.verifiersRaw = true ∨ c.trustedLeaf ≠ .none) | none => False))
      (by intro caRaw tca pem leaf ver mode
          cases caRaw <;> cases tca <;> cases pem <;> cases leaf <;> cases ver <;> cases mode <;> decide)
      (by decide) (some c)) b hb

/-- the block whose `Active()` flips: verifier modules and nothing else -/
def verifiersOnly (c : CAConf) : Bool :=
  c.verifiersRaw && !c.caRaw.nonEmpty && !c.trustedCACerts.nonEmpty && !c.pemFiles.nonEmpty && !c.trustedLeaf.nonEmpty &&
    c.mode == .empty

/-- FULL STATEMENT — "`Active()` answers the same after provisioning as before" — is FALSE
    (`Witness.active_after_provision_full_fails`: LoadModule zeroes `VerifiersRaw`), which is why the
    default must be decided before `TLSConnPolicies.Provision` (seeded mutant
    `C19-strict-sni-default-after-policy-provision`).  Exactly one kind of block is affected: -/
theorem active_after_provision_partial (c : CAConf) (b : Built) (hb : provisionPolicyCA (some c) = some b)
    (hx : verifiersOnly c = false) : b.activeAfter = activeBefore (some c) := by
  have := whenBuilt_elim (P := fun b => verifiersOnly c = false → b.activeAfter = activeBefore (some c))
    (forall_conf (fun c => whenBuilt c fun b => (match c with | some c => verifiersOnly c = false | none => True) →
        b.activeAfter = activeBefore c)
      (by intro caRaw tca pem leaf ver mode
          cases caRaw <;> cases tca <;> cases pem <;> cases leaf <;> cases ver <;> cases mode <;> decide)
      (by decide) (some c)) b hb
  exact this hx

/-- **no session resumption into or out of a client-auth policy, for ALL blocks**: whatever the
    `client_authentication` block contains (even an empty one), the policy's tls.Config has session
    tickets switched off — so with the session ticket keys shared by all policies (tls app
    `session_tickets`) a session established under another policy, whose client certificate
    crypto/tls would NOT re-verify against this policy's trust settings nor pass to its verifiers,
    can never be resumed here; and a policy without the block keeps them on. -/
theorem client_auth_policy_never_resumes (c : Option CAConf) (b : Built) (hb : provisionPolicyCA c = some b) :
    b.ticketsOff = true ↔ c ≠ none := by
  refine whenBuilt_elim (P := fun b => b.ticketsOff = true ↔ c ≠ none) ?_ b hb
  refine forall_conf (fun c => whenBuilt c fun b => b.ticketsOff = true ↔ c ≠ none) ?_ (by decide) c
  intro caRaw tca pem leaf ver mode
  cases caRaw <;> cases tca <;> cases pem <;> cases leaf <;> cases ver <;> cases mode <;> decide

/-- **the default, end to end of the glue**: for a server whose policies carry arbitrary
    `client_authentication` blocks (all of which provision), and no explicit `strict_sni_host`,
    strict SNI-Host is in effect iff some policy's built `tls.Config` asks clients for a
    certificate. -/
theorem strict_default_iff_some_policy_requests_cert (pcs : List (Policy × Option CAConf × Built))
    (hwf : ∀ x ∈ pcs, x.1.clientAuth = activeBefore x.2.1 ∧ provisionPolicyCA x.2.1 = some x.2.2) :
    effectiveStrict none (pcs.map (·.1)) = true ↔ ∃ x ∈ pcs, x.2.2.bits.auth ≠ .noClientCert := by
  rw [strict_auto_enabled_iff]
  constructor
  · rintro (h | ⟨_, p, hp, hca⟩)
    · cases h
    · obtain ⟨x, hx, rfl⟩ := List.mem_map.mp hp
      obtain ⟨h1, h2⟩ := hwf x hx
      exact ⟨x, hx, (active_iff_requests_client_cert _ _ h2).mp (h1 ▸ hca)⟩
  · rintro ⟨x, hx, ha⟩
    obtain ⟨h1, h2⟩ := hwf x hx
    exact Or.inr ⟨rfl, x.1, List.mem_map.mpr ⟨x, hx, rfl⟩, h1 ▸ (active_iff_requests_client_cert _ _ h2).mpr ha⟩

/-! ## E2. the order of App.Provision, tied to the source

`active_iff_requests_client_cert` is about `Active()` asked BEFORE the policies are provisioned
(`active_after_provision_full_fails` shows it is wrong afterwards), and `serve` assumes the
enforcement handler wraps the primary route of a server whose strict flag is already decided.
Both are facts about statement order in `(*App).Provision`; `Gen.httpProvisionOrder` is
regenerated from modules/caddyhttp/app.go on every run, so moving the strict-default block
behind either call breaks this theorem. -/

def posOf (a : String) : List String → Option Nat
  | [] => none
  | x :: xs => if x == a then some 0 else (posOf a xs).map (· + 1)

/-- both are called, `a` first -/
def calledBefore (a b : String) (l : List String) : Bool :=
  match posOf a l, posOf b l with
  | some i, some j => decide (i < j)
  | _, _ => false

theorem strict_default_order_matches_source :
    calledBefore "hasTLSClientAuth" "TLSConnPolicies.Provision" Gen.httpProvisionOrder = true ∧
    calledBefore "hasTLSClientAuth" "wrapPrimaryRoute" Gen.httpProvisionOrder = true := by decide

example : calledBefore "b" "a" ["a", "b"] = false ∧ calledBefore "a" "c" ["a", "b"] = false ∧
    calledBefore "a" "b" ["a", "b"] = true := by decide

/-! ## E3. HTTP/3: which config's policy list a QUIC ClientHello is matched against

The QUIC listener outlives config reloads; `sharedQUICState` decides whose `GetConfigForClient`
(whose first-match loop) answers.  `Quic.lean` models it as a state machine over reload histories;
the harness drives the real `ListenQUIC` / `Close` through such histories and asks with real QUIC
handshakes which config answers. -/

theorem reloadsFrom_run (n : Nat) : ∀ (k : Nat) (used : List Nat), (∀ u ∈ used, u ≤ k) →
    qrun allWrapped ⟨1, [k], k, [k]⟩ used (reloadsFrom k n) =
      some (⟨1, [k + n], k + n, [k + n]⟩, reloadAnswersFrom k n) := by
  induction n with
  | zero => intro k used _; simp [reloadsFrom, qrun, reloadAnswersFrom]
  | succ n ih =>
    intro k used hu
    have hnot : used.contains (k + 1) = false := by
      cases h : used.contains (k + 1) with
      | false => rfl
      | true =>
        have := hu (k + 1) (by simpa using h)
        omega
    have hmem : ¬ (k + 1 ∈ used) := by simpa using hnot
    have hk : ¬ (k + 1 = k) := by omega
    have hk' : ¬ (k = k + 1) := by omega
    have ih' := ih (k + 1) ((k + 1) :: used) (by
      intro u hu'
      rcases List.mem_cons.mp hu' with e | e
      · omega
      · have := hu u e; omega)
    have e : k + 1 + n = k + (n + 1) := by omega
    rw [e] at ih'
    simp [reloadsFrom, qrun, qstep, hnot, hmem, openConf, closeConf, removeConf, allWrapped, reloadAnswersFrom,
      hk, hk', List.erase_cons, ih']

/-- **over HTTP/3 the current config's policies are consulted**: through any number of reloads,
    a ClientHello that arrives after a reload has completed is answered by the NEWEST config, one
    that arrives while old and new server both run by the old one (which is still serving), and
    at the end exactly the newest config is registered and active. -/
theorem quic_reloads_consult_newest (n : Nat) :
    qrun allWrapped QState.init [] (reloads n) =
      some (⟨1, [1 + n], 1 + n, [1 + n]⟩, some 1 :: reloadAnswersFrom 1 n) := by
  have h := reloadsFrom_run n 1 [1] (by intro u hu; simp at hu; omega)
  simp [reloads, qrun, qstep, openConf, QState.init, h]

/-- … hence the policy chosen for a QUIC ClientHello after `n` reloads is the first match of the
    CURRENT config's policy list (composition with section B) -/
theorem quic_first_match_of_current_config (n : Nat) (cfgs : Nat → List Policy) (h : Hello)
    (s : QState) (answers : List (Option Nat))
    (hr : qrun allWrapped QState.init [] (reloads n) = some (s, answers)) :
    choose false (cfgs s.active) h = firstMatch (cfgs (1 + n)) h := by
  rw [quic_reloads_consult_newest n] at hr
  cases hr
  exact first_match_dead_index _ _

/-- second line of defence, regenerated from listeners.go on every run: `addState` has its two
    return paths and neither hands out the bare `context.CancelFunc` — the premise `allWrapped` of
    the theorems above (`Witness.bare_cancel_consults_closed_config` shows what happens otherwise) -/
theorem quic_cancel_paths_match_source :
    Gen.quicAddStateReturns = 2 ∧ Gen.quicAddStateReturnsBareCancel = false := by decide

/-- what holds in EVERY state a history within the protocol can reach -/
structure QInv (s : QState) (used : List Nat) : Prop where
  refs_open : s.refs = s.openL.length
  refs_confs : s.refs = s.confs.length
  nodup_open : s.openL.Nodup
  nodup_confs : s.confs.Nodup
  same : ∀ k, k ∈ s.confs ↔ k ∈ s.openL
  used_open : ∀ k ∈ s.openL, k ∈ used
  active_live : s.refs > 0 → s.active ∈ s.openL

theorem qinv_init (used : List Nat) : QInv QState.init used :=
  { refs_open := rfl, refs_confs := rfl, nodup_open := List.nodup_nil, nodup_confs := List.nodup_nil,
    same := fun _ => Iff.rfl,
    used_open := by intro k hk; simp [QState.init] at hk,
    active_live := by intro h; simp [QState.init] at h }

theorem qinv_open (s : QState) (used : List Nat) (k : Nat) (hi : QInv s used) (hk : k ∉ used) :
    QInv (openConf s k) (k :: used) := by
  have hko : k ∉ s.openL := fun hm => hk (hi.used_open k hm)
  have hkc : k ∉ s.confs := fun hm => hko ((hi.same k).mp hm)
  unfold openConf
  split
  · exact { refs_open := rfl, refs_confs := rfl, nodup_open := by simp, nodup_confs := by simp,
            same := fun _ => Iff.rfl,
            used_open := by intro x hx; simp at hx; subst hx; exact List.mem_cons_self ..,
            active_live := fun _ => List.mem_cons_self .. }
  · rename_i hr
    have hcont : s.confs.contains k = false := by simpa using hkc
    simp only [hcont, Bool.false_eq_true, if_false]
    exact
      { refs_open := by simp [hi.refs_open]
        refs_confs := by simp [hi.refs_confs]
        nodup_open := List.nodup_cons.mpr ⟨hko, hi.nodup_open⟩
        nodup_confs := by
          refine List.nodup_append.mpr ⟨hi.nodup_confs, by simp, ?_⟩
          intro a ha b hb; simp at hb; subst hb; exact fun e => hkc (e ▸ ha)
        same := by
          intro x
          simp only [List.mem_append, List.mem_cons, List.not_mem_nil, or_false]
          rw [hi.same x]; exact Or.comm
        used_open := by
          intro x hx
          rcases List.mem_cons.mp hx with e | e
          · subst e; exact List.mem_cons_self ..
          · exact List.mem_cons_of_mem _ (hi.used_open x e)
        active_live := fun _ => List.mem_cons_of_mem _ (hi.active_live (Nat.pos_of_ne_zero hr)) }

theorem qinv_close (s : QState) (used : List Nat) (k : Nat) (hi : QInv s used) (hko : k ∈ s.openL) :
    QInv (closeConf true s k) used := by
  have hkc : k ∈ s.confs := (hi.same k).mpr hko
  unfold closeConf
  split
  · exact qinv_init used
  · rename_i hr
    simp only [if_true, removeConf]
    have hlenc : (s.confs.erase k).length = s.refs - 1 := by
      rw [List.length_erase_of_mem hkc, ← hi.refs_confs]
    have hleno : (s.openL.erase k).length = s.refs - 1 := by
      rw [List.length_erase_of_mem hko, ← hi.refs_open]
    have hsame : ∀ x, x ∈ s.confs.erase k ↔ x ∈ s.openL.erase k := by
      intro x
      rw [hi.nodup_confs.mem_erase_iff, hi.nodup_open.mem_erase_iff, hi.same x]
    exact
      { refs_open := hleno.symm
        refs_confs := hlenc.symm
        nodup_open := hi.nodup_open.erase k
        nodup_confs := hi.nodup_confs.erase k
        same := hsame
        used_open := fun x hx => hi.used_open x (List.mem_of_mem_erase hx)
        active_live := by
          intro _
          show (if s.active = k then (match s.confs.erase k with | c :: _ => c | [] => s.active) else s.active)
            ∈ s.openL.erase k
          rw [← hsame]
          by_cases ha : s.active = k
          · simp only [ha, if_true]
            cases hc : s.confs.erase k with
            | nil => rw [hc] at hlenc; simp at hlenc; omega
            | cons c cs => exact List.mem_cons_self ..
          · simp only [ha, if_false]
            have : s.active ∈ s.confs := (hi.same _).mpr (hi.active_live (by omega))
            exact hi.nodup_confs.mem_erase_iff.mpr ⟨ha, this⟩ }

theorem qinv_step (s : QState) (used : List Nat) (op : QOp) (s' : QState) (used' : List Nat)
    (obs : Option (Option Nat)) (hi : QInv s used)
    (h : qstep allWrapped s used op = some (s', used', obs)) : QInv s' used' := by
  cases op with
  | probe =>
    simp only [qstep, Option.some.injEq, Prod.mk.injEq] at h
    obtain ⟨rfl, rfl, _⟩ := h; exact hi
  | «open» k =>
    simp only [qstep] at h
    split at h
    · cases h
    · rename_i hused
      split at h
      · cases h
      · simp only [Option.some.injEq, Prod.mk.injEq] at h
        obtain ⟨rfl, rfl, _⟩ := h
        exact qinv_open s used k hi (by simpa using hused)
  | close k =>
    simp only [qstep] at h
    split at h
    · cases h
    · rename_i hopen
      simp only [Option.some.injEq, Prod.mk.injEq] at h
      obtain ⟨rfl, rfl, _⟩ := h
      exact qinv_close s used k hi (by simpa using hopen)

/-- **for EVERY history within the protocol** (not only the reload shape): whenever a QUIC
    ClientHello can be answered at all, the config whose policy list is consulted is one whose
    server is still running — never a config that has been closed -/
theorem quic_active_config_is_live (ops : List QOp) :
    ∀ (s : QState) (used : List Nat), QInv s used →
      ∀ sf answers, qrun allWrapped s used ops = some (sf, answers) →
        sf.refs > 0 → sf.active ∈ sf.openL := by
  induction ops with
  | nil => intro s used hi sf answers h; simp only [qrun, Option.some.injEq, Prod.mk.injEq] at h; obtain ⟨rfl, _⟩ := h; exact hi.active_live
  | cons op ops ih =>
    intro s used hi sf answers h
    unfold qrun at h
    split at h
    · cases h
    · rename_i s' used' obs hs
      split at h
      · cases h
      · rename_i sf' answers' hr
        simp only [Option.some.injEq, Prod.mk.injEq] at h
        obtain ⟨rfl, _⟩ := h
        exact ih s' used' (qinv_step s used op s' used' obs hi hs) sf' answers' hr

/-- … in particular for every history of a process, which starts without any listener -/
theorem quic_active_config_is_live_from_start (ops : List QOp) (sf : QState) (answers : List (Option Nat))
    (h : qrun allWrapped QState.init [] ops = some (sf, answers)) (hl : sf.refs > 0) :
    sf.active ∈ sf.openL :=
  quic_active_config_is_live ops QState.init [] (qinv_init []) sf answers h hl

example : qrun allWrapped QState.init [] [.open 1, .open 2, .close 2, .probe, .open 3, .close 1, .probe] =
    some (⟨1, [3], 3, [3]⟩, [some 1, some 3]) := by decide

/-! ## F. Caddyfile glue: `tls { client_auth … }` and `servers { strict_sni_host … }` -/

/-- the core of the no-bypass argument, for any way strict checking came to be in effect -/
theorem strict_binds_policy (ps : List Policy) (sites : List Bytes) (sni host site : Bytes)
    (v : Nat → Bool) (k : Nat)
    (hsni : noBrackets sni = true) (hstar : ∀ s ∈ sites, noStar s = true)
    (hsites : ∀ s ∈ sites, isAscii s = true)
    (hs : serve true sites (some sni) host = .handler (some k))
    (hk : sites[k]? = some site) :
    choose false ps ⟨sni, v⟩ = choose false ps ⟨site, v⟩ := by
  obtain ⟨site', h1, h2⟩ := strict_binds_policy_name sites sni host k hsni hstar hsites hs
  rw [hk] at h1; cases h1
  rw [first_match_dead_index, first_match_dead_index]
  exact firstMatchFrom_congr ⟨sni, v⟩ ⟨site, v⟩ ps 0 h2 rfl

/-- something has been configured in the parser state -/
def CFState.nonTrivial (s : CFState) : Bool :=
  s.mode != .empty || s.caRaw.nonEmpty || s.tca.nonEmpty || s.leaf.nonEmpty || s.ver

theorem Listed.add_nonEmpty (a : Listed) (ok : Bool) : (a.add ok).nonEmpty = true := by
  cases a <;> cases ok <;> rfl

theorem parseSub_nonTrivial (s s' : CFState) (x : Sub) (hx : ∀ m, x = .mode m → m ≠ .empty)
    (h : parseSub s x = some s') : s'.nonTrivial = true := by
  cases x with
  | mode m =>
    simp only [parseSub, Option.some.injEq] at h; subst h
    have := hx m rfl
    cases m <;> simp_all [CFState.nonTrivial]
  | trustedCACert ok =>
    simp only [parseSub] at h
    split at h
    · cases h
    · cases h; simp [CFState.nonTrivial, Listed.add_nonEmpty]
  | trustedCACertFile r =>
    simp only [parseSub] at h
    split at h
    · cases h
    · split at h
      · cases h
      · cases h; simp [CFState.nonTrivial, Listed.add_nonEmpty]
  | trustedLeafCert ok =>
    simp only [parseSub, Option.some.injEq] at h; subst h
    simp [CFState.nonTrivial, Listed.add_nonEmpty]
  | trustedLeafCertFile r =>
    simp only [parseSub] at h
    split at h
    · cases h
    · cases h; simp [CFState.nonTrivial, Listed.add_nonEmpty]
  | trustPool ok =>
    simp only [parseSub] at h
    split at h
    · cases h
    · cases h; cases ok <;> simp [CFState.nonTrivial, Listed.nonEmpty]
  | verifier =>
    simp only [parseSub, Option.some.injEq] at h; subst h
    simp [CFState.nonTrivial]

theorem parseSub_keeps_nonTrivial (s s' : CFState) (x : Sub) (hx : ∀ m, x = .mode m → m ≠ .empty)
    (_hs : s.nonTrivial = true) (h : parseSub s x = some s') : s'.nonTrivial = true :=
  parseSub_nonTrivial s s' x hx h

theorem parseSubs_nonTrivial (s s' : CFState) (subs : List Sub)
    (hx : ∀ m, Sub.mode m ∈ subs → m ≠ .empty)
    (hne : subs ≠ [] ∨ s.nonTrivial = true) (h : parseSubs s subs = some s') : s'.nonTrivial = true := by
  induction subs generalizing s with
  | nil =>
    simp only [parseSubs, Option.some.injEq] at h; subst h
    rcases hne with h | h
    · exact absurd rfl h
    · exact h
  | cons x xs ih =>
    unfold parseSubs at h
    split at h
    · cases h
    · rename_i s1 hs1
      have h1 := parseSub_nonTrivial s s1 x (fun m e => hx m (e ▸ List.mem_cons_self ..)) hs1
      exact ih s1 (fun m hm => hx m (List.mem_cons_of_mem _ hm)) (Or.inr h1) h

/-- **a non-empty `client_auth { … }` block that the Caddyfile parser accepts is `Active()`**, so the
    server it lands on gets strict SNI-Host by default (whatever subdirectives, in whatever order) -/
theorem caddyfile_block_active (subs : List Sub) (c : CAConf)
    (hx : ∀ m, Sub.mode m ∈ subs → m ≠ .empty) (hne : subs ≠ [])
    (h : parseClientAuth subs = some c) : activeBefore (some c) = true := by
  unfold parseClientAuth at h
  split at h
  · cases h
  · rename_i s hs
    have hnt := parseSubs_nonTrivial _ s subs hx (Or.inl hne) hs
    unfold CFState.nonTrivial at hnt
    split at h
    · rename_i htca
      cases h
      simp [activeBefore, CAConf.init, CAState.active, htca]
    · rename_i htca
      cases h
      simp only [Bool.not_eq_true] at htca
      simp only [htca, Bool.or_false] at hnt
      simp only [activeBefore, CAConf.init, CAState.active, Listed.nonEmpty]
      cases hm : s.mode <;> cases hc : s.caRaw <;> cases hl : s.leaf <;> cases hv : s.ver <;>
        simp_all [Listed.nonEmpty]

/-- only `insecure_off` switches the check off; `on` and the bare option switch it on -/
theorem strict_option_spec (o : StrictOpt) (cfg : Option Bool) (h : strictOption o = some cfg) :
    (cfg = some false ↔ o = .insecureOff) ∧ (cfg = none ↔ o = .absent) := by
  cases o <;> simp_all [strictOption] <;> (cases h; simp)

/-- **through the Caddyfile**: a server assembled from site blocks, strict checking not switched
    off.  If a TLS request (bracket-free SNI) is routed to the handler of a site whose
    `client_auth` block makes its connection policy ask for a client certificate, then the
    connection's policy is the one first-match gives that site's own name. -/
theorem caddyfile_client_auth_site_bound (sites : List Site) (cfg : Option Bool) (sni host name : Bytes)
    (v : Nat → Bool) (k : Nat) (conf : CAConf) (b : Built)
    (hcfg : cfg ≠ some false)
    (hk : sites[k]? = some (name, some conf))
    (hb : provisionPolicyCA (some conf) = some b) (hreq : b.bits.auth ≠ .noClientCert)
    (hsni : noBrackets sni = true) (hstar : ∀ s ∈ sites, noStar s.1 = true)
    (hnames : ∀ s ∈ sites, isAscii s.1 = true)
    (hs : serve (effectiveStrict cfg ((adaptPolicies sites).map (·.1))) (sites.map (·.1)) (some sni) host
            = .handler (some k)) :
    choose false ((adaptPolicies sites).map (·.1)) ⟨sni, v⟩ =
      choose false ((adaptPolicies sites).map (·.1)) ⟨name, v⟩ := by
  have hact : activeBefore (some conf) = true := (active_iff_requests_client_cert _ _ hb).mpr hreq
  have hmem : (name, some conf) ∈ sites := List.mem_of_getElem? hk
  have hstrict : effectiveStrict cfg ((adaptPolicies sites).map (·.1)) = true := by
    cases cfg with
    | some bb => cases bb with
      | true => rfl
      | false => exact absurd rfl hcfg
    | none =>
      refine (strict_auto_enabled_iff none _).mpr (Or.inr ⟨rfl, ⟨[.sni [name]], false, activeBefore (some conf)⟩, ?_, hact⟩)
      refine List.mem_map.mpr ⟨(⟨[.sni [name]], false, activeBefore (some conf)⟩, some conf), ?_, rfl⟩
      unfold adaptPolicies
      refine List.mem_append_left _ (List.mem_filterMap.mpr ⟨(name, some conf), hmem, rfl⟩)
  rw [hstrict] at hs
  refine strict_binds_policy _ (sites.map (·.1)) sni host name v k hsni ?_ ?_ hs ?_
  · intro s hs'
    obtain ⟨x, hx, rfl⟩ := List.mem_map.mp hs'
    exact hstar x hx
  · intro s hs'
    obtain ⟨x, hx, rfl⟩ := List.mem_map.mp hs'
    exact hnames x hx
  · simp [List.getElem?_map, hk]

/-- the same for EVERY site shape the TLS side can express (exact name or left-most wildcard, e.g.
    `*.example.com { tls { client_auth … } }`): the site's own client-auth policy is in the server's
    policy list and accepts the connection on which the request arrived. -/
theorem caddyfile_site_policy_accepts (sites : List Site) (cfg : Option Bool) (sni host name : Bytes)
    (v : Nat → Bool) (k : Nat) (conf : CAConf) (b : Built)
    (hcfg : cfg ≠ some false)
    (hk : sites[k]? = some (name, some conf))
    (hb : provisionPolicyCA (some conf) = some b) (hreq : b.bits.auth ≠ .noClientCert)
    (hsni : noBrackets sni = true) (hok : isAscii name = true)
    (hshape : noStar name = true ∨ leftmostWildcard name = true)
    (hs : serve (effectiveStrict cfg ((adaptPolicies sites).map (·.1))) (sites.map (·.1)) (some sni) host
            = .handler (some k)) :
    ∃ p ∈ (adaptPolicies sites).map (·.1), p.clientAuth = true ∧ p.matches ⟨sni, v⟩ = true := by
  have hact : activeBefore (some conf) = true := (active_iff_requests_client_cert _ _ hb).mpr hreq
  have hmem : (name, some conf) ∈ sites := List.mem_of_getElem? hk
  have hpol : (⟨[.sni [name]], false, activeBefore (some conf)⟩ : Policy) ∈ (adaptPolicies sites).map (·.1) := by
    refine List.mem_map.mpr ⟨(⟨[.sni [name]], false, activeBefore (some conf)⟩, some conf), ?_, rfl⟩
    unfold adaptPolicies
    exact List.mem_append_left _ (List.mem_filterMap.mpr ⟨(name, some conf), hmem, rfl⟩)
  have hstrict : effectiveStrict cfg ((adaptPolicies sites).map (·.1)) = true := by
    cases cfg with
    | some bb => cases bb with
      | true => rfl
      | false => exact absurd rfl hcfg
    | none => exact (strict_auto_enabled_iff none _).mpr (Or.inr ⟨rfl, _, hpol, hact⟩)
  rw [hstrict] at hs
  refine ⟨_, hpol, hact, ?_⟩
  exact site_policy_accepts_connection (sites.map (·.1)) sni host name k v false _ hsni
    (by simp [List.getElem?_map, hk]) hok hshape hs

/-! ## non-vacuity: concrete, kernel-evaluated instances of the hypotheses -/

-- client_authentication blocks: verifier only / CA file that fails to load / unknown mode / ca + certs
example : provisionPolicyCA (some ⟨.none, .none, .none, .none, true, .empty⟩) =
    some ⟨⟨.requireAnyClientCert, false, true⟩, true, true, false⟩ := by decide
example : provisionPolicyCA (some ⟨.none, .none, .bad, .none, false, .empty⟩) =
    some ⟨⟨.requireAndVerifyClientCert, false, true⟩, true, false, true⟩ := by decide
example : provisionPolicyCA (some ⟨.none, .none, .none, .none, false, .other⟩) = none ∧
    provisionPolicyCA (some ⟨.good, .good, .none, .none, false, .empty⟩) = none := by decide
example : verifiersOnly ⟨.none, .none, .none, .none, true, .empty⟩ = true ∧
    verifiersOnly ⟨.none, .none, .none, .good, true, .empty⟩ = false := by decide


/-- names used below -/
def nA : Bytes := [97, 46, 116]            -- "a.t"
def nAup : Bytes := [65, 46, 84]           -- "A.T"
def nWild : Bytes := [42, 46, 116]         -- "*.t"
def nB : Bytes := [98, 46, 116]            -- "b.t"

def exPolicies : List Policy :=
  [ ⟨[.sni [nB], .other 0], false, false⟩,      -- sni b.t ∧ remote_ip
    ⟨[.sni [nWild]], true, false⟩,              -- sni *.t, drop
    ⟨[.sni [nA]], false, true⟩,                 -- sni a.t, client auth
    ⟨[], false, false⟩ ]                        -- catch-all

def exHello (s : Bytes) (b : Bool) : Hello := ⟨s, fun _ => b⟩

-- b.t from an allowed address: policy 0; from elsewhere the wildcard policy (drop) is first
example : firstMatch exPolicies (exHello nB true) = .config 0 := by decide
example : firstMatch exPolicies (exHello nB false) = .dropped 1 := by decide
example : choose false exPolicies (exHello nB false) = .dropped 1 := by decide
-- "t" (one label) is matched by nobody but the catch-all
example : choose true exPolicies (exHello [116] false) = .config 3 := by decide
-- nobody matches ⇒ refused
example : choose false [⟨[.sni [nA]], false, false⟩] (exHello nB true) = .noMatch := by decide
-- hypotheses of the iff-characterisations are inhabited
example : ∃ p, exPolicies[1]? = some p ∧ p.matches (exHello nB false) = true ∧ p.drop = true := by decide
example : indexHarmless exPolicies (exHello nA true) = true := by decide
example : [Matcher.sni [nB], Matcher.other 0].Perm [Matcher.other 0, Matcher.sni [nB]] := List.Perm.swap ..
-- case-insensitivity of the sni matcher, wildcard label
example : sniMatch nAup [nA] = true ∧ sniMatch nAup [nWild] = true ∧ namesSameHost nAup nA := by decide
-- strict: auto-enabled by the client-auth policy, not when configured off
example : effectiveStrict none exPolicies = true ∧ effectiveStrict (some false) exPolicies = false ∧
    effectiveStrict none [⟨[], false, false⟩] = false := by decide
-- SNI a.t, Host "B.T:443" → 421; Host "A.T:443" → site 0
example : serve true [nA, nB] (some nA) (nB.map (· - 32) ++ cColon :: [52, 52, 51]) = .misdirected := by decide
example : serve true [nA, nB] (some nA) (nAup ++ cColon :: [52, 52, 51]) = .handler (some 0) := by decide
example : noSpecial nAup = true ∧ noSpecial [52, 52, 51] = true ∧ foldKey nAup = foldKey nA := by decide
example : noBrackets nAup = true ∧ noBrackets [91, 97, 93] = false := by decide
example : bracketTrimmed (nAup ++ cColon :: [52, 52, 51]) = false ∧ bracketTrimmed [91, 58, 58, 49, 93, 58, 56, 48] = false := by decide
-- the no-bypass hypothesis set is inhabited
example : (∃ p ∈ exPolicies, p.clientAuth = true) ∧ noBrackets nAup = true ∧
    (∀ s ∈ [nA], noStar s = true) ∧ (∀ s ∈ [nA], isAscii s = true) ∧
    serve (effectiveStrict none exPolicies) [nA] (some nAup) (nA ++ cColon :: [56, 48]) = .handler (some 0) := by
  refine ⟨⟨_, List.mem_cons_of_mem _ (List.mem_cons_of_mem _ (List.mem_cons_self ..)), rfl⟩, by decide, by decide, by decide, by decide⟩
-- wildcard sites: *.t routes x.t (and X.T:443) when the SNI is x.t; `.t` is routed by neither reading
example : leftmostWildcard nWild = true ∧ noStar nWild = false ∧ leftmostWildcard [120, 46, 42, 46, 116] = false := by decide
example : serve true [nWild] (some [120, 46, 116]) ([88, 46, 84] ++ cColon :: [52, 52, 51]) = .handler (some 0) ∧
    sniMatch [120, 46, 116] [nWild] = true := by decide
example : serve true [nWild] (some [46, 116]) [46, 116] = .handler none ∧ sniMatch [46, 116] [nWild] = false := by decide
-- a non-ASCII SNI is refused whatever the Host
example : serve true [[115, 46, 116]] (some [128, 46, 116]) [115, 46, 116] = .misdirected ∧
    serve true [[115, 46, 116]] (some [128, 46, 116]) [128, 46, 116] = .misdirected := by decide
-- the two equivalences: ſ.t is EqualFold-equal to s.t but does not lower to it; K.t lowers to k.t
example : foldSame [128, 46, 116] [115, 46, 116] ∧ ¬ namesSameHost [128, 46, 116] [115, 46, 116] ∧
    namesSameHost [129, 46, 116] [107, 46, 116] ∧ namesSameHost [130] [131] ∧ isAscii [128] = false := by decide

/-! ## F. a connection carries MANY requests: the strict check is per request

The SNI is fixed by the handshake, the Host header (`:authority`) is chosen by the client for every
request of the connection (HTTP/1.1 keep-alive, HTTP/2 / HTTP/3 streams).  `serveConn` threads the
connection context through the requests as net/http does; the request path never writes to it.
The harness's `conn` op is ONE real connection (h1 / h2 / h3) to a running caddy server with a
sequence of requests. -/

/-- the request path leaves the connection context as it found it -/
theorem request_leaves_connection_context (strict : Bool) (sites : List Bytes) (c : ConnCtx) (host : Bytes) :
    (connStep strict sites c host).1 = c := rfl

theorem serveConnFrom_eq_map (strict : Bool) (sites : List Bytes) (c : ConnCtx) (hosts : List Bytes) :
    serveConnFrom strict sites c hosts = hosts.map (serve strict sites (some c.sni)) := by
  induction hosts generalizing c with
  | nil => rfl
  | cons h hs ih => simp [serveConnFrom, connStep, ih]

/-- **the verdict on request k of a connection is the verdict on that request alone** — on a fresh
    connection under the same SNI — whatever was sent before it (every prefix `pre`) and after it;
    and extending a connection by one request never changes the verdicts already given. -/
theorem enforcement_is_per_request (strict : Bool) (sites : List Bytes) (sni : Bytes)
    (pre post : List Bytes) (h : Bytes) :
    (serveConn strict sites sni (pre ++ h :: post))[pre.length]? = some (serve strict sites (some sni) h) ∧
    (serveConn strict sites sni (pre ++ h :: post))[pre.length]? = (serveConn strict sites sni [h])[0]? ∧
    serveConn strict sites sni (pre ++ [h]) = serveConn strict sites sni pre ++ serveConn strict sites sni [h] := by
  simp [serveConn, serveConnFrom_eq_map]

/-- every verdict of a connection is the single-request verdict of the request at that position -/
theorem conn_request_verdict (strict : Bool) (sites : List Bytes) (sni : Bytes) (hosts : List Bytes)
    (i : Nat) (v : Served) (hi : (serveConn strict sites sni hosts)[i]? = some v) :
    ∃ h, hosts[i]? = some h ∧ v = serve strict sites (some sni) h := by
  simp only [serveConn, serveConnFrom_eq_map, List.getElem?_map] at hi
  cases hh : hosts[i]? with
  | none => simp [hh] at hi
  | some h => exact ⟨h, rfl, by simpa [hh] using hi.symm⟩

/-- under strict checking EVERY request of a connection is refused with 421 iff its own Host does
    not name the connection's SNI -/
theorem strict_421_on_every_request (sites : List Bytes) (sni : Bytes) (hosts : List Bytes) (i : Nat) (h : Bytes)
    (hh : hosts[i]? = some h) :
    (serveConn true sites sni hosts)[i]? = some .misdirected ↔
      ¬ (isAscii sni = true ∧ foldSame sni (enforcementHost h)) := by
  simp only [serveConn, serveConnFrom_eq_map, List.getElem?_map, hh, Option.map_some, Option.some.injEq]
  exact strict_421 sites sni h

/-- `client_auth_not_bypassed` for every request of every connection: whichever requests preceded
    it, a request routed to a site's handler travels on a connection whose first-match policy is
    that site's first-match policy -/
theorem client_auth_not_bypassed_on_connection (ps : List Policy) (sites : List Bytes) (sni site : Bytes)
    (v : Nat → Bool) (k : Nat) (hosts : List Bytes) (i : Nat)
    (hauth : ∃ p ∈ ps, p.clientAuth = true)
    (hsni : noBrackets sni = true) (hstar : ∀ s ∈ sites, noStar s = true)
    (hsites : ∀ s ∈ sites, isAscii s = true)
    (hs : (serveConn (effectiveStrict none ps) sites sni hosts)[i]? = some (.handler (some k)))
    (hk : sites[k]? = some site) :
    choose false ps ⟨sni, v⟩ = choose false ps ⟨site, v⟩ := by
  obtain ⟨h, _, hv⟩ := conn_request_verdict _ _ _ _ _ _ hs
  exact client_auth_not_bypassed ps sites sni h site v k hauth hsni hstar hsites hv.symm hk

/-- **a client-auth site is unreachable under another SNI, on every request of the connection**:
    if the connection's SNI selected a policy WITHOUT client authentication while the site's name
    selects one WITH it, then no request of any sequence on that connection — first or later — is
    served by that site (strict_sni_host left to its default). -/
theorem client_auth_site_unreachable_under_other_sni (ps : List Policy) (sites : List Bytes) (sni site : Bytes)
    (v : Nat → Bool) (k j j' : Nat) (p p' : Policy) (hosts : List Bytes)
    (hsni : noBrackets sni = true) (hstar : ∀ s ∈ sites, noStar s = true)
    (hsites : ∀ s ∈ sites, isAscii s = true)
    (hk : sites[k]? = some site)
    (hsel : choose false ps ⟨sni, v⟩ = .config j) (hj : ps[j]? = some p) (hp : p.clientAuth = false)
    (hsite : choose false ps ⟨site, v⟩ = .config j') (hj' : ps[j']? = some p') (hp' : p'.clientAuth = true) :
    ∀ i : Nat, (serveConn (effectiveStrict none ps) sites sni hosts)[i]? ≠ some (Served.handler (some k)) := by
  intro i hs
  have hauth : ∃ q ∈ ps, q.clientAuth = true := ⟨p', List.mem_of_getElem? hj', hp'⟩
  have e := client_auth_not_bypassed_on_connection ps sites sni site v k hosts i hauth hsni hstar hsites hs hk
  rw [hsel, hsite] at e
  cases e
  rw [hj] at hj'
  cases hj'
  rw [hp] at hp'
  cases hp'

/-- tie to the source, regenerated on every run, as SETS over `enforcementHandler` and every
    same-package function it statically calls (so helpers / renamed locals do not matter): on the
    request it reads `TLS` (`.ServerName`) and `Host` only, on the server `StrictSNIHost` only, no
    context value, no package-level variable; the only field it writes is `r.Close`. -/
theorem enforcement_reads_only_sni_and_host_matches_source :
    Gen.enforcementRequestReads = ["Request.Host", "Request.TLS", "Request.TLS.ServerName"] ∧
    Gen.enforcementServerReads = ["Server.StrictSNIHost"] ∧
    Gen.enforcementContextReads = [] ∧
    Gen.enforcementPackageVars = [] ∧
    Gen.enforcementWrites = ["Request.Close"] := by decide

/-- … and the only per-connection value caddy's http.Server puts into a request's context is the
    `net.Conn` itself (`ConnCtxKey`; `ServeHTTP` reads r.TLS from it when net/http left it nil):
    one `ConnContext` literal, one key, no `BaseContext` -/
theorem conn_context_values_match_source :
    Gen.httpConnContextKeys = ["ConnCtxKey"] ∧ Gen.httpConnContextLiterals = 1 ∧
    Gen.httpBaseContextSet = false := by decide

-- connections: SNI c.t (catch-all policy 1, no client auth); a request for c.t passes, the next one for the
-- client-auth site a.t is refused, the one after that passes again
def nC : Bytes := [99, 46, 116]            -- "c.t"
def exConnPolicies : List Policy := [⟨[.sni [nA]], false, true⟩, ⟨[], false, false⟩]   -- sni a.t + client auth; catch-all
example : serveConn (effectiveStrict none exConnPolicies) [nA, nC] nC [nC, nA, nC ++ cColon :: [56, 48], [], nAup] =
    [.handler (some 1), .misdirected, .handler (some 1), .misdirected, .misdirected] := by decide
example : choose false exConnPolicies ⟨nC, fun _ => false⟩ = .config 1 ∧ choose false exConnPolicies ⟨nA, fun _ => false⟩ = .config 0 ∧
    noBrackets nC = true ∧ [nA, nC][0]? = some nA := by decide
example : (serveConn true [nA] nC [nC, nA])[1]? = some .misdirected ∧ (serveConn false [nA] nC [nC, nA])[1]? = some (.handler (some 0)) := by decide

end CaddyModel.C19
