import CaddyModel.Util.DrvMain
import CaddyModel.C19.Witness

def main (args : List String) : IO Unit :=
  CaddyModel.drvMain "C19" CaddyModel.C19.handle CaddyModel.C19.witnessLines args
