/-
C19 — helper lemmas (the property theorems are in Props.lean).
-/
import CaddyModel.C19.Spec

namespace CaddyModel.C19

/-! ### the two loops of getConfigForClient -/

theorem matchersLoop_eq_all (h : Hello) (ms : List Matcher) :
    matchersLoop h ms = ms.all (·.eval h) := by
  induction ms with
  | nil => rfl
  | cons m ms ih =>
    simp only [matchersLoop, List.all_cons, ih]
    cases m.eval h <;> simp

theorem matchersLoop_eq_matches (h : Hello) (p : Policy) : matchersLoop h p.matchers = p.matches h :=
  matchersLoop_eq_all h p.matchers

theorem policyLoop_enumFrom (h : Hello) (ps : List Policy) (k : Nat) :
    policyLoop h (enumFrom k ps) = firstMatchFrom k h ps := by
  induction ps generalizing k with
  | nil => rfl
  | cons p ps ih =>
    simp only [enumFrom, policyLoop, firstMatchFrom, matchersLoop_eq_matches, ih]

/-! ### the index when the type assertion never succeeds -/

theorem indexMatchers_dead (v : Nat × Policy) (m : Index) (ms : List Matcher) :
    indexMatchers false v m ms = m := by
  induction ms generalizing m with
  | nil => rfl
  | cons x ms ih => cases x <;> simp [indexMatchers, ih]

theorem indexPolicies_dead (m : Index) (l : List (Nat × Policy)) : indexPolicies false m l = m := by
  induction l generalizing m with
  | nil => rfl
  | cons v l ih => simp [indexPolicies, indexMatchers_dead, ih]

theorem buildIndex_dead (ps : List Policy) : buildIndex false ps = [] := by
  unfold buildIndex; split
  · exact indexPolicies_dead _ _
  · rfl

theorem buildIndex_small (live : Bool) (ps : List Policy) (h : ps.length ≤ sniIndexThreshold) :
    buildIndex live ps = [] := by
  unfold buildIndex; rw [if_neg (by omega)]

/-! ### the populated index, characterised -/

/-- extend an optional bucket -/
def ext {α} (o : Option (List α)) : List α → Option (List α)
  | [] => o
  | x :: l => some (o.getD [] ++ x :: l)

theorem ext_ext {α} (o : Option (List α)) (a b : List α) : ext (ext o a) b = ext o (a ++ b) := by
  cases a <;> cases b <;> simp [ext]

def namesHits (k : Bytes) (v : Nat × Policy) : List Bytes → List (Nat × Policy)
  | [] => []
  | n :: ns => if n = k then v :: namesHits k v ns else namesHits k v ns

def matcherHits (k : Bytes) (v : Nat × Policy) : List Matcher → List (Nat × Policy)
  | [] => []
  | .sni names :: ms => namesHits k v names ++ matcherHits k v ms
  | .other _ :: ms => matcherHits k v ms

/-- the bucket of `k` in a populated index: every policy once per exact occurrence of `k`
    in its sni matcher, in configured order -/
def policyHits (k : Bytes) : List (Nat × Policy) → List (Nat × Policy)
  | [] => []
  | v :: vs => matcherHits k v v.2.matchers ++ policyHits k vs

theorem idxGet_idxAppend (k n : Bytes) (v : Nat × Policy) (m : Index) :
    idxGet k (idxAppend n v m) = ext (idxGet k m) (if n = k then [v] else []) := by
  induction m with
  | nil =>
    by_cases h : n = k <;> simp [idxAppend, idxGet, ext, h]
  | cons e m ih =>
    obtain ⟨k', vs⟩ := e
    by_cases h1 : k' = n <;> by_cases h2 : n = k
    · subst h1; subst h2; simp [idxAppend, idxGet, ext]
    · subst h1; simp [idxAppend, idxGet, ext, h2]
    · subst h2; simp [idxAppend, idxGet, ext, h1, ih]
    · by_cases h3 : k' = k
      · subst h3; simp [idxAppend, idxGet, ext, h1, h2]
      · simp [idxAppend, idxGet, ext, h1, h2, h3, ih]

theorem idxGet_indexNames (k : Bytes) (v : Nat × Policy) (m : Index) (ns : List Bytes) :
    idxGet k (indexNames v m ns) = ext (idxGet k m) (namesHits k v ns) := by
  induction ns generalizing m with
  | nil => rfl
  | cons n ns ih =>
    simp only [indexNames, ih, idxGet_idxAppend, ext_ext, namesHits]
    by_cases h : n = k <;> simp [h]

theorem idxGet_indexMatchers (k : Bytes) (v : Nat × Policy) (m : Index) (ms : List Matcher) :
    idxGet k (indexMatchers true v m ms) = ext (idxGet k m) (matcherHits k v ms) := by
  induction ms generalizing m with
  | nil => rfl
  | cons x ms ih =>
    cases x with
    | sni names => simp [indexMatchers, ih, idxGet_indexNames, ext_ext, matcherHits]
    | other id => simp [indexMatchers, ih, matcherHits]

theorem idxGet_indexPolicies (k : Bytes) (m : Index) (l : List (Nat × Policy)) :
    idxGet k (indexPolicies true m l) = ext (idxGet k m) (policyHits k l) := by
  induction l generalizing m with
  | nil => rfl
  | cons v l ih => simp [indexPolicies, ih, idxGet_indexMatchers, ext_ext, policyHits]

theorem namesHits_all (k : Bytes) (v : Nat × Policy) (ns : List Bytes) : ∀ x ∈ namesHits k v ns, x = v := by
  induction ns with
  | nil => simp [namesHits]
  | cons n ns ih =>
    unfold namesHits; split
    · intro x hx; rcases List.mem_cons.mp hx with h | h
      · exact h
      · exact ih x h
    · exact ih

theorem matcherHits_all (k : Bytes) (v : Nat × Policy) (ms : List Matcher) : ∀ x ∈ matcherHits k v ms, x = v := by
  induction ms with
  | nil => simp [matcherHits]
  | cons m ms ih =>
    cases m with
    | sni names =>
      intro x hx
      simp only [matcherHits, List.mem_append] at hx
      rcases hx with h | h
      · exact namesHits_all k v names x h
      · exact ih x h
    | other id => simpa [matcherHits] using ih

theorem namesHits_eq_nil (k : Bytes) (v : Nat × Policy) (ns : List Bytes) :
    namesHits k v ns = [] ↔ ns.contains k = false := by
  induction ns with
  | nil => simp [namesHits]
  | cons n ns ih =>
    by_cases h : n = k
    · subst h; simp [namesHits]
    · have h' : ¬ k = n := fun e => h e.symm
      simp [namesHits, h, ih, h']

theorem matcherHits_eq_nil (k : Bytes) (v : Nat × Policy) (ms : List Matcher) :
    matcherHits k v ms = [] ↔ ms.any (·.lists k) = false := by
  induction ms with
  | nil => simp [matcherHits]
  | cons m ms ih =>
    cases m with
    | sni names => simp [matcherHits, Matcher.lists, namesHits_eq_nil, ih]
    | other id => simp [matcherHits, Matcher.lists, ih]

theorem policyHits_eq_nil (k : Bytes) (ps : List Policy) (j : Nat) :
    policyHits k (enumFrom j ps) = [] ↔ ps.any (·.lists k) = false := by
  induction ps generalizing j with
  | nil => simp [policyHits, enumFrom]
  | cons p ps ih => simp [policyHits, enumFrom, matcherHits_eq_nil, Policy.lists, ih]

/-- entries that do not match are skipped -/
theorem policyLoop_skip (h : Hello) (v : Nat × Policy) (pre rest : List (Nat × Policy))
    (hall : ∀ x ∈ pre, x = v) (hv : v.2.matches h = false) :
    policyLoop h (pre ++ rest) = policyLoop h rest := by
  induction pre with
  | nil => rfl
  | cons x pre ih =>
    have hx : x = v := hall x (List.mem_cons_self ..)
    subst hx
    obtain ⟨i, p⟩ := x
    simp only [List.cons_append, policyLoop, matchersLoop_eq_matches]
    simp only [hv] at *
    simpa using ih (fun y hy => hall y (List.mem_cons_of_mem _ hy))

theorem policyLoop_hits_of_safe (h : Hello) (ps : List Policy) (j : Nat)
    (hs : firstMatchListsName h ps = true) :
    policyLoop h (policyHits h.sni (enumFrom j ps)) = firstMatchFrom j h ps := by
  induction ps generalizing j with
  | nil => rfl
  | cons p ps ih =>
    simp only [enumFrom, policyHits, firstMatchFrom]
    unfold firstMatchListsName at hs
    by_cases hm : p.matches h = true
    · rw [if_pos hm] at hs
      rw [if_pos hm]
      have hne : matcherHits h.sni (j, p) p.matchers ≠ [] := by
        intro e; rw [matcherHits_eq_nil] at e; unfold Policy.lists at hs; rw [e] at hs; cases hs
      cases hl : matcherHits h.sni (j, p) p.matchers with
      | nil => exact absurd hl hne
      | cons x l =>
        have hx : x = (j, p) := matcherHits_all h.sni (j, p) p.matchers x (by rw [hl]; exact List.mem_cons_self ..)
        subst hx
        simp [policyLoop, matchersLoop_eq_matches, hm]
    · have hm' : p.matches h = false := by simpa using hm
      rw [if_neg hm] at hs
      rw [if_neg hm]
      rw [policyLoop_skip h (j, p) _ _ (matcherHits_all _ _ _) hm']
      exact ih (j + 1) hs

/-! ### where a populated index goes wrong -/

theorem policyLoop_result_mem (h : Hello) (l : List (Nat × Policy)) (i : Nat)
    (hr : policyLoop h l = .config i ∨ policyLoop h l = .dropped i) : ∃ p, (i, p) ∈ l := by
  induction l with
  | nil => simp [policyLoop] at hr
  | cons x l ih =>
    obtain ⟨j, p⟩ := x
    unfold policyLoop at hr
    split at hr
    · split at hr
      · rcases hr with hr | hr
        · cases hr
        · cases hr; exact ⟨p, List.mem_cons_self ..⟩
      · rcases hr with hr | hr
        · cases hr; exact ⟨p, List.mem_cons_self ..⟩
        · cases hr
    · obtain ⟨q, hq⟩ := ih hr
      exact ⟨q, List.mem_cons_of_mem _ hq⟩

theorem mem_enumFrom (ps : List Policy) (j i : Nat) (p : Policy) (hm : (i, p) ∈ enumFrom j ps) :
    j ≤ i ∧ ps[i - j]? = some p := by
  induction ps generalizing j with
  | nil => simp [enumFrom] at hm
  | cons q ps ih =>
    simp only [enumFrom, List.mem_cons, Prod.mk.injEq] at hm
    rcases hm with ⟨h1, h2⟩ | hm
    · subst h1; subst h2; simp
    · obtain ⟨h1, h2⟩ := ih (j + 1) hm
      refine ⟨by omega, ?_⟩
      have : i - j = (i - (j + 1)) + 1 := by omega
      rw [this]; simpa using h2

theorem mem_policyHits (k : Bytes) (l : List (Nat × Policy)) (x : Nat × Policy) (hx : x ∈ policyHits k l) :
    x ∈ l ∧ x.2.lists k = true := by
  induction l with
  | nil => simp [policyHits] at hx
  | cons v l ih =>
    simp only [policyHits, List.mem_append] at hx
    rcases hx with hx | hx
    · have e : x = v := matcherHits_all k v v.2.matchers x hx
      subst e
      refine ⟨List.mem_cons_self .., ?_⟩
      have : matcherHits k x x.2.matchers ≠ [] := fun e => by rw [e] at hx; cases hx
      rw [Ne, matcherHits_eq_nil] at this
      simpa [Policy.lists] using this
    · exact ⟨List.mem_cons_of_mem _ (ih hx).1, (ih hx).2⟩

/-- if the first matching policy does not list the name, the spec's answer is a position
    whose policy does not list the name -/
theorem firstMatchFrom_of_unsafe (h : Hello) (ps : List Policy) (j : Nat)
    (hs : firstMatchListsName h ps = false) :
    ∃ i p, ps[i]? = some p ∧ p.lists h.sni = false ∧
      (firstMatchFrom j h ps = .config (j + i) ∨ firstMatchFrom j h ps = .dropped (j + i)) := by
  induction ps generalizing j with
  | nil => simp [firstMatchListsName] at hs
  | cons p ps ih =>
    unfold firstMatchListsName at hs
    unfold firstMatchFrom
    by_cases hm : p.matches h = true
    · rw [if_pos hm] at hs
      rw [if_pos hm]
      refine ⟨0, p, rfl, hs, ?_⟩
      cases p.drop <;> simp
    · rw [if_neg hm] at hs
      rw [if_neg hm]
      obtain ⟨i, q, h1, h2, h3⟩ := ih (j + 1) hs
      refine ⟨i + 1, q, by simpa using h1, h2, ?_⟩
      have : j + (i + 1) = j + 1 + i := by omega
      rw [this]; exact h3

/-! ### what `firstMatch` means -/

theorem firstMatchFrom_config_iff (h : Hello) (ps : List Policy) (k i : Nat) :
    firstMatchFrom k h ps = .config (k + i) ↔
      ∃ p, ps[i]? = some p ∧ p.matches h = true ∧ p.drop = false ∧
        ∀ j q, j < i → ps[j]? = some q → q.matches h = false := by
  induction ps generalizing k i with
  | nil => simp [firstMatchFrom]
  | cons p ps ih =>
    unfold firstMatchFrom
    by_cases hm : p.matches h = true
    · rw [if_pos hm]
      constructor
      · intro e
        have hi : i = 0 := by
          cases hd : p.drop <;> rw [hd] at e <;> simp at e
          omega
        subst hi
        cases hd : p.drop
        · exact ⟨p, rfl, hm, hd, fun j q hj => absurd hj (Nat.not_lt_zero _)⟩
        · rw [hd] at e; simp at e
      · rintro ⟨q, h1, h2, h3, h4⟩
        cases i with
        | zero => simp at h1; subst h1; simp [h3]
        | succ i =>
          have := h4 0 p (Nat.succ_pos _) rfl
          rw [hm] at this; cases this
    · have hm' : p.matches h = false := by simpa using hm
      rw [if_neg hm]
      cases i with
      | zero =>
        constructor
        · intro e
          exfalso
          have : ∀ l k', k' > k → firstMatchFrom k' h l ≠ .config (k + 0) := by
            intro l
            induction l with
            | nil => intro k' _; simp [firstMatchFrom]
            | cons a l ihl =>
              intro k' hk'
              unfold firstMatchFrom
              split
              · split <;> simp <;> omega
              · exact ihl (k' + 1) (by omega)
          exact this ps (k + 1) (by omega) e
        · rintro ⟨q, h1, h2, _, _⟩
          simp at h1; subst h1; rw [hm'] at h2; cases h2
      | succ i =>
        have e : k + (i + 1) = k + 1 + i := by omega
        rw [e, ih (k + 1) i]
        constructor
        · rintro ⟨q, h1, h2, h3, h4⟩
          refine ⟨q, by simpa using h1, h2, h3, ?_⟩
          intro j r hj hr
          cases j with
          | zero => simp at hr; subst hr; exact hm'
          | succ j => exact h4 j r (by omega) (by simpa using hr)
        · rintro ⟨q, h1, h2, h3, h4⟩
          refine ⟨q, by simpa using h1, h2, h3, ?_⟩
          intro j r hj hr
          exact h4 (j + 1) r (by omega) (by simpa using hr)

theorem firstMatchFrom_dropped_iff (h : Hello) (ps : List Policy) (k i : Nat) :
    firstMatchFrom k h ps = .dropped (k + i) ↔
      ∃ p, ps[i]? = some p ∧ p.matches h = true ∧ p.drop = true ∧
        ∀ j q, j < i → ps[j]? = some q → q.matches h = false := by
  induction ps generalizing k i with
  | nil => simp [firstMatchFrom]
  | cons p ps ih =>
    unfold firstMatchFrom
    by_cases hm : p.matches h = true
    · rw [if_pos hm]
      constructor
      · intro e
        have hi : i = 0 := by
          cases hd : p.drop <;> rw [hd] at e <;> simp at e
          omega
        subst hi
        cases hd : p.drop
        · rw [hd] at e; simp at e
        · exact ⟨p, rfl, hm, hd, fun j q hj => absurd hj (Nat.not_lt_zero _)⟩
      · rintro ⟨q, h1, h2, h3, h4⟩
        cases i with
        | zero => simp at h1; subst h1; simp [h3]
        | succ i =>
          have := h4 0 p (Nat.succ_pos _) rfl
          rw [hm] at this; cases this
    · have hm' : p.matches h = false := by simpa using hm
      rw [if_neg hm]
      cases i with
      | zero =>
        constructor
        · intro e
          exfalso
          have : ∀ l k', k' > k → firstMatchFrom k' h l ≠ .dropped (k + 0) := by
            intro l
            induction l with
            | nil => intro k' _; simp [firstMatchFrom]
            | cons a l ihl =>
              intro k' hk'
              unfold firstMatchFrom
              split
              · split <;> simp <;> omega
              · exact ihl (k' + 1) (by omega)
          exact this ps (k + 1) (by omega) e
        · rintro ⟨q, h1, h2, _, _⟩
          simp at h1; subst h1; rw [hm'] at h2; cases h2
      | succ i =>
        have e : k + (i + 1) = k + 1 + i := by omega
        rw [e, ih (k + 1) i]
        constructor
        · rintro ⟨q, h1, h2, h3, h4⟩
          refine ⟨q, by simpa using h1, h2, h3, ?_⟩
          intro j r hj hr
          cases j with
          | zero => simp at hr; subst hr; exact hm'
          | succ j => exact h4 j r (by omega) (by simpa using hr)
        · rintro ⟨q, h1, h2, h3, h4⟩
          refine ⟨q, by simpa using h1, h2, h3, ?_⟩
          intro j r hj hr
          exact h4 (j + 1) r (by omega) (by simpa using hr)

theorem firstMatchFrom_noMatch_iff (h : Hello) (ps : List Policy) (k : Nat) :
    firstMatchFrom k h ps = .noMatch ↔ ∀ p ∈ ps, p.matches h = false := by
  induction ps generalizing k with
  | nil => simp [firstMatchFrom]
  | cons p ps ih =>
    unfold firstMatchFrom
    by_cases hm : p.matches h = true
    · rw [if_pos hm]
      constructor
      · intro e; cases hd : p.drop <;> rw [hd] at e <;> simp at e
      · intro hall; have := hall p (List.mem_cons_self ..); rw [hm] at this; cases this
    · have hm' : p.matches h = false := by simpa using hm
      rw [if_neg hm, ih]
      simp [hm']

/-! ### names, case folding -/

theorem equalFold_iff (a b : Bytes) : equalFold a b = true ↔ foldKey a = foldKey b := by
  simp [equalFold]

theorem equalFold_false_iff (a b : Bytes) : equalFold a b = false ↔ foldKey a ≠ foldKey b := by
  simp [equalFold]

theorem foldByte_ascii (b : UInt8) (h : b < 128) : foldByte b = lowerByte b := by
  unfold foldByte
  split
  · rename_i e; subst e; exact absurd h (by decide)
  · rfl

/-- on ASCII names the two equivalences coincide -/
theorem foldKey_ascii (s : Bytes) (h : isAscii s = true) : foldKey s = lower s := by
  unfold isAscii at h
  rw [List.all_eq_true] at h
  unfold foldKey lower
  apply List.map_congr_left
  intro b hb
  exact foldByte_ascii b (by simpa using h b hb)

theorem matchWildcard_congr (s s' w : Bytes) (e : lower s = lower s') :
    matchWildcard s w = matchWildcard s' w := by
  simp [matchWildcard, e]

theorem matchWildcard_self_fold (s w : Bytes) (e : lower s = lower w) : matchWildcard s w = true := by
  simp [matchWildcard, e]

theorem sniMatch_congr (s s' : Bytes) (names : List Bytes) (e : lower s = lower s') :
    sniMatch s names = sniMatch s' names := by
  induction names with
  | nil => rfl
  | cons n ns ih => simp [sniMatch, matchWildcard_congr s s' n e, ih]

theorem sniMatch_listed (s n : Bytes) (names : List Bytes) (hn : n ∈ names) (e : lower n = lower s) :
    sniMatch s names = true := by
  induction names with
  | nil => cases hn
  | cons m ns ih =>
    unfold sniMatch
    rcases List.mem_cons.mp hn with h | h
    · subst h; rw [matchWildcard_self_fold s n e.symm]; rfl
    · cases matchWildcard s m
      · simpa using ih h
      · rfl

theorem eval_congr (h h' : Hello) (m : Matcher) (e : lower h.sni = lower h'.sni)
    (ev : h.verdict = h'.verdict) : m.eval h = m.eval h' := by
  cases m with
  | sni names => exact sniMatch_congr _ _ _ e
  | other id => simp [Matcher.eval, ev]

theorem matches_congr (h h' : Hello) (p : Policy) (e : lower h.sni = lower h'.sni)
    (ev : h.verdict = h'.verdict) : p.matches h = p.matches h' := by
  unfold Policy.matches
  congr 1; funext m; exact eval_congr h h' m e ev

theorem firstMatchFrom_congr (h h' : Hello) (ps : List Policy) (k : Nat) (e : lower h.sni = lower h'.sni)
    (ev : h.verdict = h'.verdict) : firstMatchFrom k h ps = firstMatchFrom k h' ps := by
  induction ps generalizing k with
  | nil => rfl
  | cons p ps ih => simp [firstMatchFrom, matches_congr h h' p e ev, ih]

/-! ### net.SplitHostPort on the ordinary shapes -/

/-- no `:`, `[`, `]` -/
def noSpecial (s : Bytes) : Bool := s.all fun x => x != cColon && x != cLbr && x != cRbr

theorem noSpecial_not_mem (s : Bytes) (hs : noSpecial s = true) :
    cColon ∉ s ∧ cLbr ∉ s ∧ cRbr ∉ s := by
  unfold noSpecial at hs
  rw [List.all_eq_true] at hs
  refine ⟨fun h => ?_, fun h => ?_, fun h => ?_⟩ <;> have := hs _ h <;> simp at this

theorem lastIndexByte_none (c : UInt8) (s : Bytes) (hc : c ∉ s) : lastIndexByte c s = none := by
  induction s with
  | nil => rfl
  | cons x xs ih =>
    have h1 : c ∉ xs := fun h => hc (List.mem_cons_of_mem _ h)
    have h2 : ¬ x = c := fun h => hc (h ▸ List.mem_cons_self ..)
    simp [lastIndexByte, ih h1, h2]

theorem lastIndexByte_append (c : UInt8) (a b : Bytes) (hb : c ∉ b) :
    lastIndexByte c (a ++ c :: b) = some a.length := by
  induction a with
  | nil => simp [lastIndexByte, lastIndexByte_none c b hb]
  | cons x xs ih => simp [lastIndexByte, ih]

theorem splitHostPort_noColon (s : Bytes) (hc : cColon ∉ s) : splitHostPort s = none := by
  simp [splitHostPort, lastIndexByte_none cColon s hc]

theorem splitHostPort_plain (host port : Bytes) (hh : noSpecial host = true) (hp : noSpecial port = true) :
    splitHostPort (host ++ cColon :: port) = some (host, port) := by
  obtain ⟨h1, h2, h3⟩ := noSpecial_not_mem host hh
  obtain ⟨p1, p2, p3⟩ := noSpecial_not_mem port hp
  have hhead : (host ++ cColon :: port).head? ≠ some cLbr := by
    cases host with
    | nil => simp [cColon, cLbr]
    | cons x xs =>
      intro e; simp at e; exact h2 (e ▸ List.mem_cons_self ..)
  have hl : cLbr ∉ host ++ cColon :: port := by
    intro h; rcases List.mem_append.mp h with h | h
    · exact h2 h
    · rcases List.mem_cons.mp h with h | h
      · revert h; decide
      · exact p2 h
  have hr : cRbr ∉ host ++ cColon :: port := by
    intro h; rcases List.mem_append.mp h with h | h
    · exact h3 h
    · rcases List.mem_cons.mp h with h | h
      · revert h; decide
      · exact p3 h
  unfold splitHostPort
  rw [lastIndexByte_append cColon host port p1]
  simp only [hhead, if_false]
  have ht : (host ++ cColon :: port).take host.length = host := by simp
  have hd : (host ++ cColon :: port).drop (host.length + 1) = port := by
    rw [← List.drop_drop]; simp
  simp [ht, h1, shpFinish, hl, hr, hd]

/-! ### the harness routes -/

theorem hostMatch_noStar (rh site : Bytes) (h : site.contains cStar = false) :
    hostMatch rh site = equalFold rh site := by
  unfold hostMatch; rw [h]; rfl

theorem routeFrom_some (rh : Bytes) (sites : List Bytes) (k j : Nat) (hr : routeFrom k rh sites = some j) :
    k ≤ j ∧ ∃ s, sites[j - k]? = some s ∧ hostMatch rh s = true := by
  induction sites generalizing k with
  | nil => simp [routeFrom] at hr
  | cons s ss ih =>
    unfold routeFrom at hr
    split at hr
    · cases hr; exact ⟨Nat.le_refl _, s, by simp, by assumption⟩
    · obtain ⟨h1, t, h2, h3⟩ := ih (k + 1) hr
      refine ⟨by omega, t, ?_, h3⟩
      have : j - k = (j - (k + 1)) + 1 := by omega
      rw [this]; simpa using h2

theorem routeFrom_none (rh : Bytes) (sites : List Bytes) (k : Nat) (hr : routeFrom k rh sites = none) :
    ∀ s ∈ sites, hostMatch rh s = false := by
  induction sites generalizing k with
  | nil => simp
  | cons s ss ih =>
    unfold routeFrom at hr
    split at hr
    · cases hr
    · intro t ht
      rcases List.mem_cons.mp ht with h | h
      · subst h; simpa using ‹¬ hostMatch rh t = true›
      · exact ih (k + 1) hr t h

/-! ### brackets -/

theorem lowerByte_eq_lbr (b : UInt8) (h : lowerByte b = cLbr) : b = cLbr := by
  unfold lowerByte cLbr at *
  split at h
  · rename_i hc
    obtain ⟨h1, h2⟩ := hc
    have h1' := UInt8.le_iff_toNat_le.mp h1
    have h2' := UInt8.le_iff_toNat_le.mp h2
    have := congrArg UInt8.toNat h
    simp [UInt8.toNat_add] at this h1' h2'
    omega
  · split at h
    · exact absurd h (by decide)
    · split at h
      · exact absurd h (by decide)
      · exact h

theorem lowerByte_eq_rbr (b : UInt8) (h : lowerByte b = cRbr) : b = cRbr := by
  unfold lowerByte cRbr at *
  split at h
  · rename_i hc
    obtain ⟨h1, h2⟩ := hc
    have h1' := UInt8.le_iff_toNat_le.mp h1
    have h2' := UInt8.le_iff_toNat_le.mp h2
    have := congrArg UInt8.toNat h
    simp [UInt8.toNat_add] at this h1' h2'
    omega
  · split at h
    · exact absurd h (by decide)
    · split at h
      · exact absurd h (by decide)
      · exact h

theorem foldByte_eq_lbr (b : UInt8) (h : foldByte b = cLbr) : b = cLbr := by
  unfold foldByte at h
  split at h
  · exact absurd h (by decide)
  · exact lowerByte_eq_lbr b h

theorem foldByte_eq_rbr (b : UInt8) (h : foldByte b = cRbr) : b = cRbr := by
  unfold foldByte at h
  split at h
  · exact absurd h (by decide)
  · exact lowerByte_eq_rbr b h

theorem trimPrefixByte_id (c : UInt8) (s : Bytes) (h : s.head? ≠ some c) : trimPrefixByte c s = s := by
  cases s with
  | nil => rfl
  | cons x xs =>
    have : ¬ x = c := fun e => h (by simp [e])
    simp [trimPrefixByte, this]

theorem trimSuffixByte_id (c : UInt8) (s : Bytes) (h : s.getLast? ≠ some c) : trimSuffixByte c s = s := by
  simp [trimSuffixByte, h]

/-- MatchHost's trimming changes the routing host only if SplitHostPort failed and the raw Host
    begins with `[` or ends with `]` -/
theorem bracketTrimmed_shape (host : Bytes) (h : bracketTrimmed host = true) :
    enforcementHost host = host ∧ (cLbr ∈ host ∨ cRbr ∈ host) := by
  unfold bracketTrimmed routingHost enforcementHost at h
  cases hs : splitHostPort host with
  | some r => rw [hs] at h; simp at h
  | none =>
    rw [hs] at h
    refine ⟨by simp [enforcementHost, hs], ?_⟩
    by_cases h1 : host.head? = some cLbr
    · exact Or.inl (List.mem_of_mem_head? (by rw [h1]; exact rfl))
    · by_cases h2 : host.getLast? = some cRbr
      · exact Or.inr (List.mem_of_getLast? h2)
      · rw [trimPrefixByte_id cLbr host h1, trimSuffixByte_id cRbr host h2] at h
        simp at h

theorem noBrackets_of_fold (sni host : Bytes) (e : foldKey sni = foldKey host)
    (hb : cLbr ∈ host ∨ cRbr ∈ host) : noBrackets sni = false := by
  have key : ∀ c : UInt8, (∀ b, foldByte b = c → b = c) → foldByte c = c → c ∈ host → c ∈ sni := by
    intro c hc hcc hm
    have : c ∈ foldKey sni := by
      rw [e]; unfold foldKey; exact List.mem_map.mpr ⟨c, hm, hcc⟩
    unfold foldKey at this
    obtain ⟨b, hb1, hb2⟩ := List.mem_map.mp this
    rw [hc b hb2] at hb1; exact hb1
  cases hn : noBrackets sni with
  | false => rfl
  | true =>
    exfalso
    unfold noBrackets at hn
    rw [List.all_eq_true] at hn
    rcases hb with hb | hb
    · have := hn _ (key cLbr foldByte_eq_lbr (by decide) hb); simp at this
    · have := hn _ (key cRbr foldByte_eq_rbr (by decide) hb); simp at this

end CaddyModel.C19
