/-
C19 — lemmas relating the HTTP host matcher's label loop (`labelsMatch`) and certmagic's
wildcard loop (`wildLoop`) for patterns whose `*` labels form a left-most prefix.
-/
import CaddyModel.C19.Lemmas

namespace CaddyModel.C19

/-! ### splitDot / joinDot -/

theorem splitDot_cons (s : Bytes) : ∃ l ls, splitDot s = l :: ls := by
  induction s with
  | nil => exact ⟨[], [], rfl⟩
  | cons c rest ih =>
    obtain ⟨l, ls, h⟩ := ih
    by_cases hc : c = cDot
    · exact ⟨[], splitDot rest, by simp [splitDot, hc]⟩
    · exact ⟨c :: l, ls, by simp [splitDot, hc, h]⟩

theorem splitDot_dot (rest : Bytes) : splitDot (cDot :: rest) = [] :: splitDot rest := by
  simp [splitDot]

theorem splitDot_nondot (c : UInt8) (rest l : Bytes) (ls : List Bytes) (hc : c ≠ cDot)
    (h : splitDot rest = l :: ls) : splitDot (c :: rest) = (c :: l) :: ls := by
  simp [splitDot, hc, h]

theorem joinDot_cons_cons (l m : Bytes) (ls : List Bytes) :
    joinDot (l :: m :: ls) = l ++ cDot :: joinDot (m :: ls) := rfl

theorem joinDot_cons_of_cons (l : Bytes) (t : List Bytes) (x : Bytes) (xs : List Bytes) (ht : t = x :: xs) :
    joinDot (l :: t) = l ++ cDot :: joinDot t := by
  subst ht; rfl

theorem joinDot_splitDot (s : Bytes) : joinDot (splitDot s) = s := by
  induction s with
  | nil => rfl
  | cons c rest ih =>
    obtain ⟨l, ls, h⟩ := splitDot_cons rest
    by_cases hc : c = cDot
    · rw [hc, splitDot_dot, h, joinDot_cons_cons, ← h, ih]; rfl
    · rw [splitDot_nondot c rest l ls hc h]
      rw [h] at ih
      cases ls with
      | nil => simp [joinDot] at ih ⊢; exact ih
      | cons m ms =>
        rw [joinDot_cons_cons] at ih ⊢
        simp [← ih]

/-- a byte map that neither creates nor removes dots commutes with splitting -/
theorem splitDot_map (f : UInt8 → UInt8) (hf : ∀ b, f b = cDot ↔ b = cDot) (s : Bytes) :
    splitDot (s.map f) = (splitDot s).map (List.map f) := by
  induction s with
  | nil => rfl
  | cons c rest ih =>
    obtain ⟨l, ls, h⟩ := splitDot_cons rest
    by_cases hc : c = cDot
    · have : f c = cDot := (hf c).mpr hc
      simp only [List.map_cons]
      rw [this, hc, splitDot_dot, splitDot_dot, ih]; rfl
    · have hfc : f c ≠ cDot := fun e => hc ((hf c).mp e)
      simp only [List.map_cons]
      rw [splitDot_nondot c rest l ls hc h]
      rw [h] at ih
      rw [splitDot_nondot (f c) (rest.map f) (l.map f) (ls.map (List.map f)) hfc (by simpa using ih)]
      rfl

theorem mem_of_mem_label (s : Bytes) : ∀ l ∈ splitDot s, ∀ b ∈ l, b ∈ s := by
  induction s with
  | nil => intro l hl b hb; simp [splitDot] at hl; subst hl; cases hb
  | cons c rest ih =>
    obtain ⟨l0, ls, h⟩ := splitDot_cons rest
    intro l hl b hb
    by_cases hc : c = cDot
    · rw [hc, splitDot_dot] at hl
      rcases List.mem_cons.mp hl with e | e
      · subst e; cases hb
      · exact List.mem_cons_of_mem _ (ih l e b hb)
    · rw [splitDot_nondot c rest l0 ls hc h] at hl
      rcases List.mem_cons.mp hl with e | e
      · subst e
        rcases List.mem_cons.mp hb with e2 | e2
        · subst e2; exact List.mem_cons_self ..
        · exact List.mem_cons_of_mem _ (ih l0 (by rw [h]; exact List.mem_cons_self ..) b e2)
      · exact List.mem_cons_of_mem _ (ih l (by rw [h]; exact List.mem_cons_of_mem _ e) b hb)

/-- a non-dot byte of the string sits in one of its labels -/
theorem mem_label_of_mem (s : Bytes) (b : UInt8) (hb : b ≠ cDot) (h : b ∈ s) : ∃ l ∈ splitDot s, b ∈ l := by
  induction s with
  | nil => cases h
  | cons c rest ih =>
    obtain ⟨l0, ls, hs⟩ := splitDot_cons rest
    by_cases hc : c = cDot
    · rw [hc, splitDot_dot]
      rcases List.mem_cons.mp h with e | e
      · exact absurd (e.trans hc) hb
      · obtain ⟨l, hl, hbl⟩ := ih e
        exact ⟨l, List.mem_cons_of_mem _ hl, hbl⟩
    · rw [splitDot_nondot c rest l0 ls hc hs]
      rcases List.mem_cons.mp h with e | e
      · exact ⟨c :: l0, List.mem_cons_self .., e ▸ List.mem_cons_self ..⟩
      · obtain ⟨l, hl, hbl⟩ := ih e
        rw [hs] at hl
        rcases List.mem_cons.mp hl with e2 | e2
        · subst e2; exact ⟨c :: l, List.mem_cons_self .., List.mem_cons_of_mem _ hbl⟩
        · exact ⟨l, List.mem_cons_of_mem _ e2, hbl⟩

/-! ### bytes: dots and stars survive lower-casing / folding unchanged, and nothing else becomes one -/

theorem lowerByte_dot (b : UInt8) : lowerByte b = cDot ↔ b = cDot := by
  constructor
  · intro h
    unfold lowerByte cDot at *
    split at h
    · rename_i hc
      obtain ⟨h1, h2⟩ := hc
      have h1' := UInt8.le_iff_toNat_le.mp h1
      have h2' := UInt8.le_iff_toNat_le.mp h2
      have := congrArg UInt8.toNat h
      simp [UInt8.toNat_add] at this h1' h2'
      omega
    · split at h
      · exact absurd h (by decide)
      · split at h
        · exact absurd h (by decide)
        · exact h
  · intro h; subst h; decide

theorem foldByte_dot (b : UInt8) : foldByte b = cDot ↔ b = cDot := by
  constructor
  · intro h
    unfold foldByte at h
    split at h
    · exact absurd h (by decide)
    · exact (lowerByte_dot b).mp h
  · intro h; subst h; decide

theorem splitDot_lower (s : Bytes) : splitDot (lower s) = (splitDot s).map lower :=
  splitDot_map lowerByte lowerByte_dot s

theorem splitDot_foldKey (s : Bytes) : splitDot (foldKey s) = (splitDot s).map foldKey :=
  splitDot_map foldByte foldByte_dot s

/-! ### patterns whose wildcard labels are a left-most prefix -/

/-- the labels are some `*` labels followed by labels without any `*` -/
def leftmostL : List Bytes → Bool
  | [] => true
  | l :: ls => if l = [cStar] then leftmostL ls else (l :: ls).all fun x => !x.contains cStar

/-- `*.example.com`, `*.*.test`, `*` … (what certmagic.MatchWildcard can match) -/
def leftmostWildcard (p : Bytes) : Bool := leftmostL (splitDot p)

theorem leftmostL_decomp (pl : List Bytes) (h : leftmostL pl = true) :
    ∃ m R, pl = List.replicate m [cStar] ++ R ∧ ∀ p ∈ R, p.contains cStar = false := by
  induction pl with
  | nil => exact ⟨0, [], rfl, by simp⟩
  | cons l ls ih =>
    unfold leftmostL at h
    split at h
    · rename_i e
      obtain ⟨m, R, h1, h2⟩ := ih h
      exact ⟨m + 1, R, by rw [e, h1]; rfl, h2⟩
    · refine ⟨0, l :: ls, rfl, ?_⟩
      intro p hp
      have := (List.all_eq_true.mp h) p hp
      simpa using this

/-- the labels of the (lower-cased) server name are covered by the pattern labels the way
    certmagic reads them: a `*` label ↔ a non-empty label, any other label ↔ equal after lower-casing -/
def covers : List Bytes → List Bytes → Bool
  | [], [] => true
  | p :: ps, s :: ss => (if p = [cStar] then !s.isEmpty else lower p == s) && covers ps ss
  | _, _ => false

theorem covers_noStar (R S : List Bytes) (hR : ∀ p ∈ R, p ≠ [cStar]) (h : covers R S = true) :
    R.map lower = S := by
  induction R generalizing S with
  | nil => cases S with
    | nil => rfl
    | cons s ss => simp [covers] at h
  | cons p ps ih =>
    cases S with
    | nil => simp [covers] at h
    | cons s ss =>
      have hp : p ≠ [cStar] := hR p (List.mem_cons_self ..)
      simp only [covers, hp, if_false, Bool.and_eq_true, beq_iff_eq] at h
      simp only [List.map_cons]
      rw [h.1, ih ss (fun q hq => hR q (List.mem_cons_of_mem _ hq)) h.2]

theorem lower_star : lower [cStar] = [cStar] := by decide

/-- certmagic's loop succeeds on a name covered by a left-most-wildcard pattern, whatever labels
    have been visited already -/
theorem wildLoop_covers (R : List Bytes) (hR : ∀ p ∈ R, p ≠ [cStar]) :
    ∀ (m : Nat) (done SL : List Bytes), covers (List.replicate (m + 1) [cStar] ++ R) SL = true →
      wildLoop (joinDot (done ++ (List.replicate (m + 1) [cStar] ++ R).map lower)) done SL = true := by
  intro m
  induction m with
  | zero =>
    intro done SL h
    cases SL with
    | nil => simp [covers] at h
    | cons s ss =>
      simp only [List.replicate, List.nil_append, List.cons_append, covers, if_true, Bool.and_eq_true,
        Bool.not_eq_true'] at h
      have hRS := covers_noStar R ss hR h.2
      unfold wildLoop
      rw [if_neg (by simp [h.1])]
      simp only [List.replicate, List.nil_append, List.cons_append, List.map_cons, lower_star, hRS]
      simp
  | succ m ih =>
    intro done SL h
    cases SL with
    | nil => simp [covers, List.replicate] at h
    | cons s ss =>
      have h' : (!s.isEmpty) = true ∧ covers (List.replicate (m + 1) [cStar] ++ R) ss = true := by
        simpa [List.replicate_succ, covers] using h
      unfold wildLoop
      rw [if_neg (by simpa using h'.1)]
      split
      · rfl
      · have := ih (done ++ [[cStar]]) ss h'.2
        have e : done ++ [[cStar]] ++ (List.replicate (m + 1) [cStar] ++ R).map lower =
            done ++ (List.replicate (m + 1 + 1) [cStar] ++ R).map lower := by
          simp [List.replicate_succ, lower_star]
        rw [e] at this
        exact this

/-- from the HTTP-side label loop to `covers`: the server name (ASCII) is EqualFold-equal to the
    routing host, the pattern (ASCII) label-matches the routing host -/
theorem covers_of_labelsMatch (PL RL SNL : List Bytes)
    (hP : ∀ p ∈ PL, isAscii p = true) (hS : ∀ s ∈ SNL, isAscii s = true)
    (hfold : SNL.map foldKey = RL.map foldKey)
    (hstar : ∀ p ∈ PL, p = [cStar] ∨ p.contains cStar = false)
    (h : labelsMatch PL RL = true) : covers PL (SNL.map lower) = true := by
  induction PL generalizing RL SNL with
  | nil =>
    cases RL with
    | nil => cases SNL with
      | nil => rfl
      | cons s ss => simp at hfold
    | cons r rs => simp [labelsMatch] at h
  | cons p ps ih =>
    cases RL with
    | nil => simp [labelsMatch] at h
    | cons r rs =>
      cases SNL with
      | nil => simp at hfold
      | cons s ss =>
        simp only [List.map_cons, List.cons.injEq] at hfold
        obtain ⟨hf1, hf2⟩ := hfold
        have ihh := fun hh => ih rs ss (fun q hq => hP q (List.mem_cons_of_mem _ hq))
          (fun q hq => hS q (List.mem_cons_of_mem _ hq)) hf2
          (fun q hq => hstar q (List.mem_cons_of_mem _ hq)) hh
        unfold labelsMatch at h
        simp only [List.map_cons, covers]
        by_cases hp : p = [cStar]
        · rw [if_pos hp] at h
          rw [if_pos hp]
          split at h
          · cases h
          · rename_i hne
            have hlen : s.length = r.length := by
              have := congrArg List.length hf1; simpa [foldKey] using this
            have : (lower s).isEmpty = false := by
              cases s with
              | nil => simp at hlen; cases r with
                | nil => simp at hne
                | cons _ _ => simp at hlen
              | cons _ _ => simp [lower]
            simp [this, ihh h]
        · rw [if_neg hp] at h
          rw [if_neg hp]
          split at h
          · rename_i he
            have e1 : foldKey p = foldKey r := (equalFold_iff _ _).mp he
            have e2 : foldKey p = foldKey s := e1.trans hf1.symm
            rw [foldKey_ascii p (hP p (List.mem_cons_self ..)),
              foldKey_ascii s (hS s (List.mem_cons_self ..))] at e2
            simp [e2, ihh h]
          · cases h

/-- **the two wildcard readings agree**: if the HTTP host matcher accepts the routing host for a
    left-most-wildcard pattern, certmagic.MatchWildcard accepts every ASCII server name that is
    EqualFold-equal to that routing host -/
theorem matchWildcard_of_hostMatch (sni rh P : Bytes)
    (hP : leftmostWildcard P = true) (hstarP : P.contains cStar = true)
    (hasciiP : isAscii P = true) (hascii : isAscii sni = true)
    (hfold : foldKey sni = foldKey rh) (hm : hostMatch rh P = true) : matchWildcard sni P = true := by
  unfold hostMatch at hm
  rw [if_pos hstarP] at hm
  obtain ⟨m, R, hPL, hR⟩ := leftmostL_decomp (splitDot P) hP
  have hstarmem : cStar ∈ P := by simpa using hstarP
  -- at least one wildcard label
  have hm1 : ∃ m', m = m' + 1 := by
    cases m with
    | succ m' => exact ⟨m', rfl⟩
    | zero =>
      exfalso
      obtain ⟨l, hl, hbl⟩ := mem_label_of_mem P cStar (by decide) hstarmem
      rw [hPL] at hl
      have := hR l (by simpa using hl)
      have : cStar ∉ l := by simpa using this
      exact this hbl
  obtain ⟨m', rfl⟩ := hm1
  have hRne : ∀ p ∈ R, p ≠ [cStar] := by
    intro p hp e
    have := hR p hp
    rw [e] at this; revert this; decide
  have hAsciiLabels : ∀ (s : Bytes), isAscii s = true → ∀ l ∈ splitDot s, isAscii l = true := by
    intro s hs l hl
    unfold isAscii at hs ⊢
    rw [List.all_eq_true] at hs ⊢
    intro b hb
    exact hs b (mem_of_mem_label s l hl b hb)
  have hstarL : ∀ p ∈ splitDot P, p = [cStar] ∨ p.contains cStar = false := by
    intro p hp
    rw [hPL] at hp
    rcases List.mem_append.mp hp with h | h
    · exact Or.inl (List.eq_of_mem_replicate h)
    · exact Or.inr (hR p h)
  have hfoldL : (splitDot sni).map foldKey = (splitDot rh).map foldKey := by
    rw [← splitDot_foldKey, ← splitDot_foldKey, hfold]
  have hcov := covers_of_labelsMatch (splitDot P) (splitDot rh) (splitDot sni)
    (hAsciiLabels P hasciiP) (hAsciiLabels sni hascii) hfoldL hstarL hm
  rw [← splitDot_lower, hPL] at hcov
  unfold matchWildcard
  split
  · rfl
  · have hc : (lower P).contains cStar = true := by
      have : cStar ∈ lower P := by
        unfold lower; exact List.mem_map.mpr ⟨cStar, hstarmem, by decide⟩
      simpa using this
    rw [hc]
    simp only [Bool.not_true, Bool.false_eq_true, if_false]
    have hw : lower P = joinDot ([] ++ (List.replicate (m' + 1) [cStar] ++ R).map lower) := by
      rw [List.nil_append, ← hPL, ← splitDot_lower, joinDot_splitDot]
    rw [hw]
    exact wildLoop_covers R hRne m' [] _ hcov

end CaddyModel.C19
