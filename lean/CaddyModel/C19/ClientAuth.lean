/-
C19 — executable model of how a connection policy's `client_authentication` block becomes TLS
settings, and of what `ClientAuthentication.Active()` answers before and after provisioning
(modules/caddytls/connpolicy.go: `Active`, `provision`, `ConfigureTLSConfig`, the tail of
`buildStandardTLSConfig`, and the verifier-loading step of `ConnectionPolicies.Provision`).

`Server.hasTLSClientAuth` (caddyhttp) asks `Active()`; App.Provision asks it BEFORE the policies
are provisioned.  The model keeps every field the code looks at, abstracted to what it looks at
(empty / non-empty, loads / fails to load), so theorems quantify over ALL field combinations.
-/
namespace CaddyModel.C19

/-- the `mode` string -/
inductive Mode where
  | empty | request | require | verifyIfGiven | requireAndVerify
  /-- any other non-empty string -/
  | other
  deriving DecidableEq, Repr

/-- `tls.ClientAuthType` -/
inductive AuthType where
  | noClientCert | requestClientCert | requireAnyClientCert | verifyClientCertIfGiven | requireAndVerifyClientCert
  deriving DecidableEq, Repr

/-- a list-valued config field: absent/empty, present and loadable, present but not loadable
    (bad base64 / unreadable file) -/
inductive Listed where
  | none | good | bad
  deriving DecidableEq, Repr

def Listed.nonEmpty : Listed → Bool
  | .none => false
  | _ => true

/-- the JSON block as written by the user -/
structure CAConf where
  /-- `ca` (a `tls.ca_pool.source` module) is set; `bad` = the module fails to load at provision time -/
  caRaw : Listed
  trustedCACerts : Listed
  pemFiles : Listed
  trustedLeaf : Listed
  /-- `verifiers` is non-empty -/
  verifiersRaw : Bool
  mode : Mode
  deriving DecidableEq, Repr

/-- the Go struct while it is being provisioned: the raw fields (some get rewritten) and the
    unexported ones -/
structure CAState where
  caRaw : Bool
  /-- `len(TrustedCACerts) > 0` -/
  trustedCACerts : Bool
  pemFiles : Bool
  trustedLeaf : Bool
  verifiersRaw : Bool
  mode : Mode
  /-- `ca != nil` -/
  ca : Bool
  /-- `len(verifiers)` -/
  verifiers : Nat
  deriving DecidableEq, Repr

def CAConf.init (c : CAConf) : CAState :=
  ⟨c.caRaw.nonEmpty, c.trustedCACerts.nonEmpty, c.pemFiles.nonEmpty, c.trustedLeaf.nonEmpty, c.verifiersRaw, c.mode, false, 0⟩

/-- `ClientAuthentication.Active()` -/
def CAState.active (s : CAState) : Bool :=
  s.trustedCACerts || s.pemFiles || s.trustedLeaf || s.verifiersRaw || s.mode != .empty || s.caRaw || s.ca

/-- `ClientAuthentication.provision`; `none` = it returns an error.
    Quirks kept: a PEM file that cannot be converted and an inline pool that cannot be built make
    the function `return nil` (success!) on the spot. -/
def provisionCA (c : CAConf) (s : CAState) : Option CAState :=
  if s.caRaw && (s.trustedCACerts || s.pemFiles) then none            -- "conflicting config"
  else if c.pemFiles = .bad then some s                               -- convertPEMFilesToDER failed: `return nil`
  else if (s.trustedCACerts || s.pemFiles) && c.trustedCACerts = .bad then
    some { s with trustedCACerts := true }                            -- caPool.Provision failed: `return nil`
  else if s.trustedCACerts || s.pemFiles then
    some { s with trustedCACerts := true, ca := true }                -- (CARaw is nil here, see the first test)
  else if !s.caRaw then some s
  else if c.caRaw = .bad then none                                    -- ctx.LoadModule(clientauth, "CARaw") fails
  else some { s with caRaw := false, ca := true }                     -- LoadModule zeroes the raw field

/-- what `ConfigureTLSConfig` leaves in the `tls.Config` -/
structure TLSBits where
  auth : AuthType
  /-- `ClientCAs != nil` -/
  clientCAs : Bool
  /-- `VerifyPeerCertificate != nil` -/
  verifyPeer : Bool
  deriving DecidableEq, Repr

def modeAuth (s : CAState) : Option AuthType :=
  match s.mode with
  | .request => some .requestClientCert
  | .require => some .requireAnyClientCert
  | .verifyIfGiven => some .verifyClientCertIfGiven
  | .requireAndVerify => some .requireAndVerifyClientCert
  | .other => none                                                    -- "client auth mode not recognized"
  | .empty =>
    if s.trustedCACerts || s.pemFiles || s.trustedLeaf || s.caRaw || s.ca
    then some .requireAndVerifyClientCert else some .requireAnyClientCert

/-- `ConfigureTLSConfig`; `none` = error -/
def configureCA (c : CAConf) (s : CAState) : Option (CAState × TLSBits) :=
  if !s.active then some (s, ⟨.noClientCert, false, false⟩)
  else match modeAuth s with
    | none => none
    | some a =>
      if s.trustedLeaf && c.trustedLeaf = .bad then none              -- "parsing certificate"
      else some ({ s with verifiers := if s.trustedLeaf then s.verifiers + 1 else s.verifiers }, ⟨a, s.ca, true⟩)

/-- everything observable after `ConnectionPolicies.Provision` for one policy -/
structure Built where
  bits : TLSBits
  /-- `SessionTicketsDisabled` forced on -/
  ticketsOff : Bool
  /-- some certificate verifier is installed behind `VerifyPeerCertificate` -/
  hasVerifier : Bool
  /-- `Active()` asked after provisioning -/
  activeAfter : Bool
  deriving DecidableEq, Repr

/-- one policy through `buildStandardTLSConfig` (client-auth part) and the verifier-loading step;
    `conf = none` ⇔ `ClientAuthentication == nil`; result `none` = Provision fails -/
def provisionPolicyCA : Option CAConf → Option Built
  | none => some ⟨⟨.noClientCert, false, false⟩, false, false, false⟩
  | some c =>
    match provisionCA c c.init with
    | none => none
    | some s1 =>
      match configureCA c s1 with
      | none => none
      | some (s2, bits) =>
        -- `if len(VerifiersRaw) > 0 { LoadModule(…"VerifiersRaw") … }`: the raw field is zeroed
        some ⟨bits, true,
              decide ((if s2.verifiersRaw then s2.verifiers + 1 else s2.verifiers) > 0) && bits.verifyPeer,
              ({ s2 with verifiersRaw := false }).active⟩

/-- what `Server.hasTLSClientAuth` sees for this policy when App.Provision asks (before provisioning) -/
def activeBefore : Option CAConf → Bool
  | none => false
  | some c => c.init.active

end CaddyModel.C19
