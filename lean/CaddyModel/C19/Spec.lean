/-
C19 — the small abstract account the property talks about.

* `firstMatch`: walk the policies in configured order; the first one all of whose matchers accept
  the hello decides (config, or refusal if it says drop); nobody accepts ⇒ refusal.
  No index, no candidate list, no size threshold.
* `namesSameHost`: the equivalence the TLS side uses (`strings.ToLower` equality);
  `foldSame`: the equivalence the HTTP side uses (`strings.EqualFold`). They agree on ASCII names.
-/
import CaddyModel.C19.Model

namespace CaddyModel.C19

/-- all matchers of the policy accept the hello (order-free) -/
def Policy.matches (p : Policy) (h : Hello) : Bool := p.matchers.all (·.eval h)

def firstMatchFrom (k : Nat) (h : Hello) : List Policy → Choice
  | [] => .noMatch
  | p :: ps =>
    if p.matches h then (if p.drop then .dropped k else .config k)
    else firstMatchFrom (k + 1) h ps

/-- the policy the property says must be applied -/
def firstMatch (ps : List Policy) (h : Hello) : Choice := firstMatchFrom 0 h ps

/-- the handshake is refused -/
def Choice.refused : Choice → Bool
  | .config _ => false
  | _ => true

/-- the two names select the same TLS connection policies: equal after `strings.ToLower`
    (the comparison certmagic.MatchWildcard makes) -/
def namesSameHost (a b : Bytes) : Prop := lower a = lower b

instance (a b : Bytes) : Decidable (namesSameHost a b) := by unfold namesSameHost; infer_instance

/-- the two names are equal for `strings.EqualFold` (strict SNI-Host check, host matcher) -/
def foldSame (a b : Bytes) : Prop := foldKey a = foldKey b

instance (a b : Bytes) : Decidable (foldSame a b) := by unfold foldSame; infer_instance


/-- the policy has an `sni` matcher that lists `k` byte for byte (what the index is keyed on) -/
def Matcher.lists (k : Bytes) : Matcher → Bool
  | .sni names => names.contains k
  | .other _ => false

def Policy.lists (p : Policy) (k : Bytes) : Bool := p.matchers.any (·.lists k)

/-- decidable region in which a populated SNI index cannot change the outcome: the first policy
    that matches the hello (if any) lists the hello's server name byte for byte -/
def firstMatchListsName (h : Hello) : List Policy → Bool
  | [] => true
  | p :: ps => if p.matches h then p.lists h.sni else firstMatchListsName h ps

/-- the index is not consulted (small list), has no entry for the name, or agrees anyway -/
def indexHarmless (ps : List Policy) (h : Hello) : Bool :=
  decide (ps.length ≤ sniIndexThreshold) || !ps.any (·.lists h.sni) || firstMatchListsName h ps

/-- the name contains neither `[` nor `]` — true of every SNI that can complete a handshake on
    the pinned tree (certmagic's GetCertificate rejects such names; checked end to end by the
    harness, not modelled) -/
def noBrackets (s : Bytes) : Bool := s.all fun x => x != cLbr && x != cRbr

/-- the site is an exact host name, not a wildcard pattern -/
def noStar (s : Bytes) : Bool := !s.contains cStar

/-- a `Host` value for which MatchHost's bracket trimming changes the host it routes by
    (the excluded region of the strict SNI-Host clause) -/
def bracketTrimmed (host : Bytes) : Bool := routingHost host != enforcementHost host

end CaddyModel.C19
