import CaddyModel.C19.Props
import CaddyModel.C19.Witness
open CaddyModel.C19
#print axioms firstMatch_config_iff
#print axioms firstMatch_dropped_iff
#print axioms firstMatch_noMatch_iff
#print axioms matcher_order_irrelevant
#print axioms first_match_small
#print axioms first_match_dead_index
#print axioms live_index_first_match_iff
#print axioms live_index_partial
#print axioms first_match
#print axioms refused_iff
#print axioms sni_match_case_insensitive
#print axioms listed_name_matches
#print axioms strict_auto_enabled_iff
#print axioms strict_421
#print axioms strict_case_port_insensitive
#print axioms strict_binds_routing_host_partial
#print axioms strict_binds_catch_all_partial
#print axioms strict_pass_not_bracketTrimmed
#print axioms strict_binds_routing_host
#print axioms strict_binds_catch_all
#print axioms strict_binds_policy_name_partial
#print axioms client_auth_not_bypassed_partial
#print axioms built_auth_eq_spec
#print axioms active_iff_requests_client_cert
#print axioms no_mode_requires_certificate
#print axioms verifier_installed_iff
#print axioms active_after_provision_partial
#print axioms strict_default_iff_some_policy_requests_cert
#print axioms live_index_breaks_first_match
#print axioms strict_binds_routing_host_full_fails
#print axioms strict_unicode_fold_full_fails
#print axioms client_auth_not_bypassed_full_fails
#print axioms active_after_provision_full_fails
#print axioms swallowed_ca_load_error
