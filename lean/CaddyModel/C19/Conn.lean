/-
C19 — a CONNECTION: one handshake, then a sequence of requests.

The SNI is a property of the connection (crypto/tls fixes `ConnectionState.ServerName` at the
handshake); the Host header / `:authority` is chosen by the client for EVERY request (HTTP/1.1
keep-alive, HTTP/2 and HTTP/3 streams).  net/http calls `Server.ServeHTTP` once per request with a
context derived from the connection's context; caddy's `ConnContext` (app.go) puts the `net.Conn`
there (`ConnCtxKey`) and nothing else, `enforcementHandler` (server.go) reads `r.TLS.ServerName`
and `r.Host` and nothing else (Gen/Enforcement.lean, regenerated).  So the model of a connection
threads a connection context through the requests — and the request path hands it on unchanged.
-/
import CaddyModel.C19.Model

namespace CaddyModel.C19

/-- what a connection carries from its handshake to each of its requests -/
structure ConnCtx where
  /-- `tls.ConnectionState.ServerName` -/
  sni : Bytes
  deriving DecidableEq, Repr

/-- one request on a connection: `enforcementHandler` + the compiled routes (`serve`), and the
    connection context the request leaves behind — the one it found -/
def connStep (strict : Bool) (sites : List Bytes) (c : ConnCtx) (host : Bytes) : ConnCtx × Served :=
  (c, serve strict sites (some c.sni) host)

/-- the requests of a connection, in order -/
def serveConnFrom (strict : Bool) (sites : List Bytes) : ConnCtx → List Bytes → List Served
  | _, [] => []
  | c, h :: hs => (connStep strict sites c h).2 :: serveConnFrom strict sites (connStep strict sites c h).1 hs

def serveConn (strict : Bool) (sites : List Bytes) (sni : Bytes) (hosts : List Bytes) : List Served :=
  serveConnFrom strict sites ⟨sni⟩ hosts

/-! ### what a per-connection memo of the check would do (NOT the code; see `Witness.lean`)

"The ServerName cannot change for the lifetime of a connection, so compare once per connection":
a flag in the connection context, set by the first request that passes, exempts later requests. -/

structure MemoCtx where
  sni : Bytes
  checked : Bool
  deriving DecidableEq, Repr

def memoStep (strict : Bool) (sites : List Bytes) (c : MemoCtx) (host : Bytes) : MemoCtx × Served :=
  if c.checked then (c, .handler (route sites host))
  else match serve strict sites (some c.sni) host with
    | .misdirected => (c, .misdirected)
    | .handler k => (⟨c.sni, strict⟩, .handler k)

def serveConnMemoFrom (strict : Bool) (sites : List Bytes) : MemoCtx → List Bytes → List Served
  | _, [] => []
  | c, h :: hs => (memoStep strict sites c h).2 :: serveConnMemoFrom strict sites (memoStep strict sites c h).1 hs

end CaddyModel.C19
