/-
C08 — the glue in front of the policies: how `lb_policy <name> [args] { … }` of a Caddyfile becomes
a selection policy configuration (selectionpolicies.go: the twelve `UnmarshalCaddyfile` methods and
`loadFallbackPolicy`; caddyfile/adapter.go `UnmarshalModule`; caddyfile/dispenser.go `Next`,
`NextArg`, `nextOnSameLine`, `NextBlock`, `RemainingArgs`, `NextSegment`, `Prev`, `Val`).

The dispenser is modelled as what it is: a cursor over a flat list of tokens (text, line) plus a
nesting counter — braces are ordinary tokens, "same line" compares line numbers. Tokens are plain
(one file, no imports, no line breaks inside a token), so `isNextOnNewLine t1 t2 = t1.line < t2.line`.
`strconv.Atoi` is C16's transliteration; `caddy.ParseDuration` is a parameter (`dur`: token ↦
nanoseconds, supplied by the harness for the tokens of the case). Loops run on a fuel of
"number of tokens + 2". Core Lean only.
-/
import CaddyModel.C16.Args
import CaddyModel.C08.Model

namespace CaddyModel.C08

structure Tok where
  text : Bytes
  line : Nat
deriving DecidableEq, Repr

/-- `cur` = cursor + 1 (0 = the fresh dispenser's cursor -1) -/
structure Disp where
  toks : List Tok
  cur : Nat
  nest : Nat
deriving DecidableEq, Repr

def lbrace : Bytes := [123]
def rbrace : Bytes := [125]

/-- `Val()` -/
def Disp.val (d : Disp) : Bytes :=
  match d.cur with
  | 0 => []
  | c + 1 => match d.toks[c]? with
    | some t => t.text
    | none => []

/-- `Token()` -/
def Disp.tok (d : Disp) : Tok :=
  match d.cur with
  | 0 => ⟨[], 0⟩
  | c + 1 => match d.toks[c]? with
    | some t => t
    | none => ⟨[], 0⟩

/-- `Next()` -/
def Disp.next (d : Disp) : Bool × Disp :=
  if d.cur < d.toks.length then (true, { d with cur := d.cur + 1 }) else (false, d)

/-- `Prev()` -/
def Disp.prev (d : Disp) : Disp := { d with cur := d.cur - 1 }

/-- `nextOnSameLine()` -/
def Disp.nextOnSameLine (d : Disp) : Bool × Disp :=
  match d.cur with
  | 0 => (true, { d with cur := 1 })
  | c + 1 =>
    match d.toks[c]?, d.toks[c + 1]? with
    | some t1, some t2 => if t1.line < t2.line then (false, d) else (true, { d with cur := c + 2 })
    | _, _ => (false, d)

/-- `NextArg()` -/
def Disp.nextArg (d : Disp) : Bool × Disp :=
  if d.nextOnSameLine.1 then
    if d.nextOnSameLine.2.val = lbrace then (false, d.nextOnSameLine.2.prev) else (true, d.nextOnSameLine.2)
  else (false, d.nextOnSameLine.2)

/-- `NextBlock(init)` -/
def Disp.nextBlock (d : Disp) (init : Nat) : Bool × Disp :=
  if init < d.nest then
    if d.next.1 then
      if d.next.2.val = rbrace ∧ d.next.2.nextOnSameLine.1 = false then
        (decide (init < d.next.2.nest - 1), { d.next.2.nextOnSameLine.2 with nest := d.next.2.nest - 1 })
      else if d.next.2.val = lbrace ∧ d.next.2.nextOnSameLine.1 = false then
        (decide (init < d.next.2.nest + 1), { d.next.2.nextOnSameLine.2 with nest := d.next.2.nest + 1 })
      else
        -- `&&` short-circuits: nextOnSameLine runs (and may move the cursor) only for a brace
        if d.next.2.val = rbrace ∨ d.next.2.val = lbrace then
          (decide (init < d.next.2.nest), d.next.2.nextOnSameLine.2)
        else (decide (init < d.next.2.nest), d.next.2)
    else (false, d.next.2)
  else if d.nextOnSameLine.1 = false then (false, d.nextOnSameLine.2)
  else if d.nextOnSameLine.2.val ≠ lbrace then (false, d.nextOnSameLine.2.prev)
  else if d.nextOnSameLine.2.next.2.val = rbrace then (false, d.nextOnSameLine.2.next.2)
  else (true, { d.nextOnSameLine.2.next.2 with nest := d.nextOnSameLine.2.next.2.nest + 1 })

/-- `RemainingArgs()` -/
def remainingArgs : Nat → Disp → List Bytes × Disp
  | 0, d => ([], d)
  | fuel + 1, d =>
    if d.nextArg.1 then
      (d.nextArg.2.val :: (remainingArgs fuel d.nextArg.2).1, (remainingArgs fuel d.nextArg.2).2)
    else ([], d.nextArg.2)

/-- the first loop of `NextSegment()`: the arguments on the line, as tokens -/
def segArgs : Nat → Disp → List Tok × Disp
  | 0, d => ([], d)
  | fuel + 1, d =>
    if d.nextArg.1 then (d.nextArg.2.tok :: (segArgs fuel d.nextArg.2).1, (segArgs fuel d.nextArg.2).2)
    else ([], d.nextArg.2)

/-- the second loop of `NextSegment()`: the tokens of the block (opening brace included by the
    caller), until `NextBlock(nesting)` says no -/
def segBlock (init : Nat) : Nat → Bool → Disp → List Tok × Bool × Disp
  | 0, opened, d => ([], opened, d)
  | fuel + 1, opened, d =>
    if (d.nextBlock init).1 then
      if opened then
        ((d.nextBlock init).2.tok :: (segBlock init fuel true (d.nextBlock init).2).1,
          (segBlock init fuel true (d.nextBlock init).2).2)
      else
        -- rewind to append the opening brace
        ((d.nextBlock init).2.prev.tok :: (d.nextBlock init).2.tok :: (segBlock init fuel true (d.nextBlock init).2).1,
          (segBlock init fuel true (d.nextBlock init).2).2)
    else ([], opened, (d.nextBlock init).2)

/-- `NextSegment()` -/
def nextSegment (d : Disp) : List Tok × Disp :=
  (d.tok :: (segArgs (d.toks.length + 2) d).1
      ++ (segBlock (segArgs (d.toks.length + 2) d).2.nest (d.toks.length + 2) false (segArgs (d.toks.length + 2) d).2).1
      ++ (if (segBlock (segArgs (d.toks.length + 2) d).2.nest (d.toks.length + 2) false (segArgs (d.toks.length + 2) d).2).2.1
          then [(segBlock (segArgs (d.toks.length + 2) d).2.nest (d.toks.length + 2) false (segArgs (d.toks.length + 2) d).2).2.2.tok]
          else []),
    (segBlock (segArgs (d.toks.length + 2) d).2.nest (d.toks.length + 2) false (segArgs (d.toks.length + 2) d).2).2.2)

/-! ### the policies -/

/-- what `UnmarshalCaddyfile` leaves in one module -/
inductive PNode where
  | simple (kind : Nat)   -- 0 random, 1 least_conn, 2 round_robin, 3 first, 4 ip_hash, 5 client_ip_hash, 6 uri_hash
  | wrr (weights : List Int)
  | rc (choose : Int)
  | query (key : Bytes)
  | header (field : Bytes)
  | cookie (name secret : Bytes) (maxAge : Int)
deriving DecidableEq, Repr

/-- a policy with its chain of explicitly configured fallbacks (`FallbackRaw`), outermost first;
    a query / header / cookie node at the end has no fallback configured -/
abbrev PolCfg := List PNode

inductive CfRes where
  | ok (p : PolCfg)
  | err           -- `UnmarshalCaddyfile` / `UnmarshalModule` returns an error
  | fuel
deriving DecidableEq, Repr

def simpleKind (name : Bytes) : Option Nat :=
  if name = str "random" then some 0 else if name = str "least_conn" then some 1
  else if name = str "round_robin" then some 2 else if name = str "first" then some 3
  else if name = str "ip_hash" then some 4 else if name = str "client_ip_hash" then some 5
  else if name = str "uri_hash" then some 6 else none

/-- every weight parses and is not negative -/
def weightsOf : List Bytes → Option (List Int)
  | [] => some []
  | a :: rest =>
    match C16.atoi a, weightsOf rest with
    | some v, some ws => if v < 0 then none else some (v :: ws)
    | _, _ => none

/-- result of a loop / step: a value, an error returned by the code, or the model's fuel ran out -/
inductive Lr (σ : Type) where
  | ok (v : σ)
  | err
  | fuel
deriving DecidableEq, Repr

/-- state of the `for d.NextBlock(0)` loops of query / header / cookie -/
structure BlkState where
  fb : Option PolCfg
  maxAge : Int
deriving DecidableEq, Repr

/-- `for d.NextBlock(0) { switch d.Val() { … } }`; `err` = an error is returned;
    `cookie`: is `max_age` a known option? `loadFallback` = `UnmarshalModule` on a segment; the first
    number bounds the iterations -/
def blockLoop (dur : Bytes → Option Int) (cookie : Bool) (loadFallback : List Tok → CfRes) :
    Nat → Disp → BlkState → Lr BlkState
  | 0, _, _ => .fuel
  | n + 1, d, st =>
    if (d.nextBlock 0).1 then
      if (d.nextBlock 0).2.val = str "fallback" then
        if (d.nextBlock 0).2.nextArg.1 then
          if st.fb.isSome then .err   -- fallback selection policy already specified
          else
            -- loadFallbackPolicy: UnmarshalModule on the next segment
            match loadFallback (nextSegment (d.nextBlock 0).2.nextArg.2).1 with
            | .ok p => blockLoop dur cookie loadFallback n (nextSegment (d.nextBlock 0).2.nextArg.2).2 { st with fb := some p }
            | .err => .err
            | .fuel => .fuel
        else .err
      else if cookie ∧ (d.nextBlock 0).2.val = str "max_age" then
        if (d.nextBlock 0).2.nextArg.1 then
          if st.maxAge ≠ 0 then .err   -- cookie max_age already specified
          else match dur (d.nextBlock 0).2.nextArg.2.val with
            | none => .err
            | some v =>
              if v ≤ 0 then .err
              else if (d.nextBlock 0).2.nextArg.2.nextArg.1 then .err
              else blockLoop dur cookie loadFallback n (d.nextBlock 0).2.nextArg.2.nextArg.2 { st with maxAge := v }
        else .err
      else .err   -- unrecognized option
    else .ok st
/-- `UnmarshalModule(d, "…selection_policies."+name)` on the tokens of a segment -/
def parseSel (dur : Bytes → Option Int) : Nat → List Tok → CfRes
  | 0, _ => .fuel
  | fuel + 1, seg =>
    match seg with
    | [] => .err
    | t0 :: _ =>
      -- d := NewDispenser(seg)
      match simpleKind t0.text with
      | some k =>
        -- d.Next(); if d.NextArg() { return d.ArgErr() }
        if ((Disp.mk seg 0 0).next.2).nextArg.1 then .err else .ok [.simple k]
      | none =>
        if t0.text = str "weighted_round_robin" then
          match (remainingArgs (seg.length + 2) (Disp.mk seg 0 0).next.2).1 with
          | [] => .err
          | args => match weightsOf args with
            | some ws => .ok [.wrr ws]
            | none => .err
        else if t0.text = str "random_choose" then
          if ((Disp.mk seg 0 0).next.2).nextArg.1 then
            match C16.atoi ((Disp.mk seg 0 0).next.2).nextArg.2.val with
            | some v => .ok [.rc v]
            | none => .err
          else .err
        else if t0.text = str "query" ∨ t0.text = str "header" then
          if ((Disp.mk seg 0 0).next.2).nextArg.1 then
            match blockLoop dur false (parseSel dur fuel) (seg.length + 2) ((Disp.mk seg 0 0).next.2).nextArg.2 ⟨none, 0⟩ with
            | .ok st =>
              if t0.text = str "query" then .ok (.query ((Disp.mk seg 0 0).next.2).nextArg.2.val :: st.fb.getD [])
              else .ok (.header ((Disp.mk seg 0 0).next.2).nextArg.2.val :: st.fb.getD [])
            | .err => .err
            | .fuel => .fuel
          else .err
        else if t0.text = str "cookie" then
          -- args := d.RemainingArgs() on the fresh dispenser: the policy name is args[0]
          match (remainingArgs (seg.length + 2) (Disp.mk seg 0 0)).1 with
          | [_] =>
            (match blockLoop dur true (parseSel dur fuel) (seg.length + 2) (remainingArgs (seg.length + 2) (Disp.mk seg 0 0)).2 ⟨none, 0⟩ with
              | .ok st => .ok (.cookie [] [] st.maxAge :: st.fb.getD [])
              | .err => .err
              | .fuel => .fuel)
          | [_, n] =>
            (match blockLoop dur true (parseSel dur fuel) (seg.length + 2) (remainingArgs (seg.length + 2) (Disp.mk seg 0 0)).2 ⟨none, 0⟩ with
              | .ok st => .ok (.cookie n [] st.maxAge :: st.fb.getD [])
              | .err => .err
              | .fuel => .fuel)
          | [_, n, s] =>
            (match blockLoop dur true (parseSel dur fuel) (seg.length + 2) (remainingArgs (seg.length + 2) (Disp.mk seg 0 0)).2 ⟨none, 0⟩ with
              | .ok st => .ok (.cookie n s st.maxAge :: st.fb.getD [])
              | .err => .err
              | .fuel => .fuel)
          | _ => .err
        else .err   -- no such module

/-- `lb_policy <name> …`: the dispenser stands on the policy name; `UnmarshalModule` cuts out the
    segment that starts there (`NewFromNextSegment`) and hands it to the module -/
def parseLbPolicy (dur : Bytes → Option Int) (toks : List Tok) : CfRes :=
  parseSel dur (2 * toks.length + 4) (nextSegment (Disp.mk toks 0 0).next.2).1

/-! ### the `reverse_proxy` directive: upstreams, `lb_*` and passive health options
(reverseproxy/caddyfile.go `Handler.UnmarshalCaddyfile`: the upstream arguments, and of the block
loop the subdirectives `to`, `lb_policy`, `lb_retries`, `lb_try_duration`, `lb_try_interval`,
`max_fails`, `fail_duration`, `unhealthy_request_count`; every other subdirective is outside this
model and answered `err` like an unknown one). `parseUpstreamDialAddress` + `ParseNetworkAddress`
are a parameter (`addr`: token ↦ the dial addresses it stands for, `none` = rejected), upstream
tokens carry no URL scheme. -/

/-- what `UnmarshalCaddyfile` has filled in so far -/
structure RpCfg where
  ups : List Bytes            -- `h.Upstreams[i].Dial`
  pol : Option PolCfg         -- `h.LoadBalancing.SelectionPolicyRaw`
  retries : Int               -- `h.LoadBalancing.Retries`
  tryDur : Int                -- `TryDuration`
  tryInt : Int                -- `TryInterval`
  passive : Bool              -- `h.HealthChecks.Passive` is allocated
  maxFails : Int
  failDur : Int
  urc : Int                   -- `UnhealthyRequestCount`
deriving DecidableEq, Repr

def RpCfg.empty : RpCfg := ⟨[], none, 0, 0, 0, false, 0, 0, 0⟩

/-- `for _, up := range args { appendUpstream(up) }`; `none` = an address is rejected -/
def appendUps (addr : Bytes → Option (List Bytes)) : List Bytes → List Bytes → Option (List Bytes)
  | [], acc => some acc
  | a :: rest, acc =>
    match addr a with
    | some ds => appendUps addr rest (acc ++ ds)
    | none => none

/-- one iteration of the block loop, the dispenser standing on the subdirective's name;
    `none` = an error is returned -/
def rpStep (dur : Bytes → Option Int) (addr : Bytes → Option (List Bytes)) (d : Disp) (st : RpCfg) : Lr (Disp × RpCfg) :=
  if d.val = str "to" then
    match (remainingArgs (d.toks.length + 2) d).1 with
    | [] => .err
    | args => match appendUps addr args st.ups with
      | some ups => .ok ((remainingArgs (d.toks.length + 2) d).2, { st with ups := ups })
      | none => .err
  else if d.val = str "lb_policy" then
    if d.nextArg.1 then
      if st.pol.isSome then .err   -- load balancing selection policy already specified
      else match parseSel dur (2 * d.toks.length + 4) (nextSegment d.nextArg.2).1 with
        | .ok p => .ok ((nextSegment d.nextArg.2).2, { st with pol := some p })
        | .err => .err
        | .fuel => .fuel
    else .err
  else if d.val = str "lb_retries" then
    if d.nextArg.1 then
      match C16.atoi d.nextArg.2.val with
      | some v => .ok (d.nextArg.2, { st with retries := v })
      | none => .err
    else .err
  else if d.val = str "lb_try_duration" then
    if d.nextArg.1 then
      match dur d.nextArg.2.val with
      | some v => .ok (d.nextArg.2, { st with tryDur := v })
      | none => .err
    else .err
  else if d.val = str "lb_try_interval" then
    if d.nextArg.1 then
      match dur d.nextArg.2.val with
      | some v => .ok (d.nextArg.2, { st with tryInt := v })
      | none => .err
    else .err
  else if d.val = str "max_fails" then
    if d.nextArg.1 then
      match C16.atoi d.nextArg.2.val with
      | some v => .ok (d.nextArg.2, { st with passive := true, maxFails := v })
      | none => .err
    else .err
  else if d.val = str "fail_duration" then
    if d.nextArg.1 then
      match dur d.nextArg.2.val with
      | some v => .ok (d.nextArg.2, { st with passive := true, failDur := v })
      | none => .err
    else .err
  else if d.val = str "unhealthy_request_count" then
    if d.nextArg.1 then
      match C16.atoi d.nextArg.2.val with
      | some v => .ok (d.nextArg.2, { st with passive := true, urc := v })
      | none => .err
    else .err
  else .err   -- unrecognized subdirective (or one outside this model)

/-- `for d.NextBlock(0) { … }` -/
def rpLoop (dur : Bytes → Option Int) (addr : Bytes → Option (List Bytes)) : Nat → Disp → RpCfg → Lr RpCfg
  | 0, _, _ => .fuel
  | n + 1, d, st =>
    if (d.nextBlock 0).1 then
      match rpStep dur addr (d.nextBlock 0).2 st with
      | .ok (d', st') => rpLoop dur addr n d' st'
      | .err => .err
      | .fuel => .fuel
    else .ok st

/-- `Handler.UnmarshalCaddyfile` on the tokens of the directive (the first is `reverse_proxy`) -/
def parseReverseProxy (dur : Bytes → Option Int) (addr : Bytes → Option (List Bytes)) (toks : List Tok) : Lr RpCfg :=
  match appendUps addr (remainingArgs (toks.length + 2) (Disp.mk toks 0 0).next.2).1 [] with
  | some ups => rpLoop dur addr (toks.length + 2) (remainingArgs (toks.length + 2) (Disp.mk toks 0 0).next.2).2 { RpCfg.empty with ups := ups }
  | none => .err

end CaddyModel.C08
