/-
C08 — which upstreams an iteration of the proxy loop hands to `Select`
(reverseproxy.go `proxyLoopIteration` + `provisionUpstream`, upstreams.go `AUpstreams.GetUpstreams`,
`resolveIpVersion`, `MultiUpstreams.GetUpstreams`).

The selection policies are only as good as the pool they are handed: the static upstreams, or —
when a dynamic upstream source is configured and answers — the upstreams of the source, each
provisioned on the spot (`provisionUpstream`: shared `Host`, the handler's circuit breaker,
`unhealthy_request_count` as default `max_requests`, the passive health check policy). A source
that fails means the static upstreams; the `multi` source concatenates the answers of its sources
in order and skips those that fail or are empty (and never fails itself, so there is no way back to
the static upstreams). The `a` source turns the addresses of a name into upstreams `ip:port`
(port 80 by default), looking up only the IP versions its `versions` admit.
-/
import CaddyModel.C08.Model

namespace CaddyModel.C08

/-- the dial address of an upstream, symbolically: a configured / probe address, or what the `a`
    source makes of the IPv4 (IPv6) address number `id` and a port -/
inductive DName where
  | u (id : Nat)
  | a4 (id port : Nat)
  | a6 (id port : Nat)
deriving DecidableEq, Repr

/-- an upstream as configured, or as a source hands it out -/
structure DUp where
  name : DName
  max : Nat        -- its own `max_requests` (0 = none)
deriving DecidableEq, Repr

/-- `resolveIpVersion`: which lookup the `versions` option (each of ipv4 / ipv6 unset, true or
    false) asks for: 4 = "ip4", 6 = "ip6", 0 = "ip" (both) -/
def resolveIp (v4 v6 : Option Bool) : Nat :=
  let r4 := (v4 = none ∧ v6 = none) ∨ v4 = some true
  let r6 := (v6 = none ∧ v4 = none) ∨ v6 = some true
  if r4 ∧ ¬r6 then 4 else if ¬r4 ∧ r6 then 6 else 0

/-- a dynamic upstream source in one iteration -/
inductive Src where
  | probe (ok : Bool) (ups : List DUp)   -- some source: fails, or answers with these upstreams
  | a (six : Bool) (id : Nat) (port : Option Nat) (v4 v6 : Option Bool)
      -- the `a` source on a name that has exactly one address, an IPv6 one (`six`) or an IPv4 one
deriving DecidableEq, Repr

/-- `GetUpstreams`: `none` = an error -/
def srcResult : Src → Option (List DUp)
  | .probe ok ups => if ok then some ups else none
  | .a six id port v4 v6 =>
    if resolveIp v4 v6 = 0 ∨ (resolveIp v4 v6 = 6 ∧ six = true) ∨ (resolveIp v4 v6 = 4 ∧ six = false) then
      some [⟨(if six then DName.a6 id (port.getD 80) else DName.a4 id (port.getD 80)), 0⟩]
    else none   -- no address of a wanted version

/-- `MultiUpstreams.GetUpstreams` -/
def multiResult : List Src → List DUp
  | [] => []
  | s :: rest =>
    match srcResult s with
    | some ups => ups ++ multiResult rest
    | none => multiResult rest

inductive Dyn where
  | none
  | one (s : Src)
  | multi (l : List Src)
deriving Repr

/-- `proxyLoopIteration`: the upstreams of this iteration -/
def iterUpstreams (static : List DUp) : Dyn → List DUp
  | .none => static
  | .one s => (srcResult s).getD static
  | .multi l => multiResult l

/-- the handler options that `provisionUpstream` hands to every upstream -/
structure DCfg where
  m : Nat          -- `unhealthy_request_count`
  passive : Bool   -- passive health checks configured
  cb : Bool        -- a circuit breaker configured (and, in the cases, open)
deriving DecidableEq, Repr

/-- what `Select` sees of an upstream -/
structure Seen where
  name : DName
  max : Nat
  passive : Bool
  avail : Bool
deriving DecidableEq, Repr

/-- requests in flight on a dial address through *other* handlers (`hosts`: one `Host` per dial
    address for the whole process, whoever provisions an upstream with that address) -/
def loadOf (foreign : List (DName × Nat)) (n : DName) : Nat :=
  ((foreign.filter (fun x => x.1 = n)).map (·.2)).sum

/-- `provisionUpstream` + `Available()` (this handler has nothing in flight and no failures: an
    open circuit breaker, or the requests other handlers have in flight on the same address, make
    the upstream unavailable) -/
def provisionUp (c : DCfg) (foreign : List (DName × Nat)) (u : DUp) : Seen :=
  ⟨u.name, if u.max = 0 then c.m else u.max, c.passive,
    !c.cb && !(decide (0 < (if u.max = 0 then c.m else u.max)) && decide ((if u.max = 0 then c.m else u.max) ≤ loadOf foreign u.name))⟩

/-- the pool handed to `Select` -/
def handed (c : DCfg) (foreign : List (DName × Nat)) (static : List DUp) (d : Dyn) : List Seen :=
  (iterUpstreams static d).map (provisionUp c foreign)

end CaddyModel.C08
