/-
C08 — property theorems (kept apart from the helper lemmas).

Statement: every built-in selection policy returns only upstreams that are currently
available (healthy and below their request limit) and returns one whenever at least one is
available. Each policy also keeps its own contract: first picks the earliest available,
round-robin cycles through the available ones, least-connections and random-choose pick a
minimally loaded candidate, weighted round-robin honours the weights, hash policies send
equal keys to the same upstream and keep that choice when other upstreams are added,
removed or fail, and cookie affinity follows a valid cookie.

All theorems are for every pool (any size, order, availability pattern, loads, weights,
choose parameter), every counter value and every list of random draws. Clauses the unchanged
tree violates are stated in full in comments, refuted in Witness.lean (`…_full_fails`) and
proved here under an explicit decidable exclusion (`…_partial`).
-/
import CaddyModel.C08.Lemmas
import CaddyModel.C08.Keys
import CaddyModel.C10.Lemmas
import CaddyModel.C08.Witness
import CaddyModel.C08.Dynamic
import CaddyModel.C08.Wrappers

namespace CaddyModel.C08

/-! ## Available = Healthy ∧ ¬Full -/

/-- an upstream is available iff the active health flag is up, its recent failures are below
    the passive limit (if any), its circuit breaker (if any) is closed, and it is below its
    request limit (if any) -/
theorem available_iff (u : Up) :
    u.avail = true ↔
      (u.healthy = true ∧ (∀ m, u.maxFails = some m → u.fails < m) ∧ (∀ ok, u.cb = some ok → ok = true)) ∧
      ¬(0 < u.maxReq ∧ u.maxReq ≤ u.load) := by
  have key : (u.maxReq = 0 ∨ u.load < u.maxReq) ↔ (0 < u.maxReq → u.load < u.maxReq) := by omega
  unfold Up.avail Up.isHealthy Up.full
  cases hm : u.maxFails <;> cases hc : u.cb <;> simp [key, and_assoc]

/-! ## Safety: only available upstreams are returned — every policy, no exception -/

/-- whatever a policy (with any fallback chain) returns is an upstream of the pool that is
    available -/
theorem select_returns_available (p : Policy) (w : Bool) (pool : Pool) (ds : List Nat) (i : Nat)
    (h : (select w p pool ds).res = .sel i) : ∃ u, pool[i]? = some u ∧ u.avail = true :=
  select_safe p w pool ds i h

/-- weighted round robin additionally returns only upstreams with a positive weight (when
    there are at least two weights) -/
theorem weightedRR_returns_available_with_positive_weight (ws : List Nat) (pool : Pool) (c i : Nat)
    (h : (selWRR ws pool c).1 = .sel i) :
    (∃ u, pool[i]? = some u ∧ u.avail = true) ∧ (2 ≤ ws.length → ∃ w, ws[i]? = some w ∧ 0 < w) :=
  selWRR_sel h

/-! ## Liveness: an upstream is returned whenever one is available -/

/-- FULL STATEMENT (fails for round robin at the uint32 wrap-around, see
    `roundRobin_some_if_any_available_full_fails`; hash policies need a non-zero hash):
    `anyAvail pool → (select w p pool ds).res ≠ .none`.
    Proved for first, weighted_round_robin (an available upstream has a positive weight of its own), round_robin (counter not wrapping during the call), least_conn, random,
    random_choose, ip_hash / client_ip_hash / uri_hash / header / query (some available upstream
    hashes to a non-zero value — the code uses hash 0 as "none found") and cookie, through any
    chain of fallbacks. `liveOK` spells the exclusions out. -/
theorem select_some_if_any_available_partial : ∀ (p : Policy) (w : Bool) (pool : Pool) (ds : List Nat),
    liveOK pool p = true → anyAvail pool = true → (select w p pool ds).res ≠ .none
  | .first, w, pool, ds, _, ha => by
    simp only [select, selFirst]
    rcases firstGo_spec pool [] with ⟨_, h2⟩ | ⟨i, h1, _⟩
    · obtain ⟨v, hv, hav⟩ := anyAvail_iff.1 ha
      rw [h2 v hv] at hav; cases hav
    · simp at h1; rw [h1]; simp
  | .rr c, w, pool, ds, hl, ha => by
    simp only [select, selRR]
    obtain ⟨v, hv, hav⟩ := anyAvail_iff.1 ha
    obtain ⟨j, hj, hja⟩ := availAt_of_mem hv hav
    rw [if_neg (by omega)]
    simp [liveOK] at hl
    rcases rrGo_char pool (by omega) pool.length c hl with ⟨i, c', h1, _⟩ | ⟨_, h2⟩
    · rw [h1]; simp
    · obtain ⟨t, ht1, ht2, ht3⟩ := residue_hit pool.length c j hj
      have := h2 t ht1 ht2
      rw [ht3] at this
      rw [availB_true.2 hja] at this
      cases this
  | .wrr ws c, w, pool, ds, hl, ha => by
    simp only [select]
    obtain ⟨v, hv, _⟩ := anyAvail_iff.1 ha
    have hlen : pool.length ≠ 0 := fun h0 => by rw [List.length_eq_zero_iff.1 h0] at hv; cases hv
    simp only [liveOK, Bool.or_eq_true, decide_eq_true_eq, List.any_eq_true] at hl
    unfold selWRR
    rw [if_neg hlen]
    rcases hl with h2 | ⟨i, _, hi⟩
    · rw [if_pos h2]
      simp only [selFirst]
      rcases firstGo_spec pool [] with ⟨_, h2⟩ | ⟨j, h1, _⟩
      · obtain ⟨v, hv, hav⟩ := anyAvail_iff.1 ha
        rw [h2 v hv] at hav; cases hav
      · simp at h1; rw [h1]; simp
    · by_cases h2 : ws.length < 2
      · rw [if_pos h2]
        simp only [selFirst]
        rcases firstGo_spec pool [] with ⟨_, h2⟩ | ⟨j, h1, _⟩
        · obtain ⟨v, hv, hav⟩ := anyAvail_iff.1 ha
          rw [h2 v hv] at hav; cases hav
        · simp at h1; rw [h1]; simp
      · rw [if_neg h2]
        obtain ⟨_, x, _, hx, _, hpos⟩ := wrrUsable_iff.1 hi
        have := get_le_sum hx
        rw [if_neg (by omega)]
        obtain ⟨j, hj⟩ := wrrScan_live (wrrEff ws pool) pool
          (wrrIndexGo (wrrEff ws pool) 0 0 (inc32 c % (wrrEff ws pool).sum)) i hi
        simp only [hj]
        simp
  | .leastConn, w, pool, ds, _, ha => by
    simp only [select]
    intro hnone
    obtain ⟨v, hv, hav⟩ := anyAvail_iff.1 ha
    have := (selLeastConn_post pool ds).1 hnone v hv
    rw [this] at hav; cases hav
  | .random, w, pool, ds, _, ha => by
    simp only [select, selRandom]
    exact rndGo_live pool 0 .none 0 ds (Or.inr ⟨rfl, ha⟩)
  | .randomChoose k, w, pool, ds, hl, ha => by
    simp only [select]
    simp [liveOK] at hl
    have := selRandomChoose_fine ds hl ha
    intro hnone
    rw [hnone] at this
    cases this
  | .hash, w, pool, ds, hl, _ => by
    simp only [select]
    intro hnone
    simp [liveOK] at hl
    obtain ⟨v, hv, hav, hh⟩ := hl
    have := selHash_none hnone v hv hav
    omega
  | .keyed true fb, w, pool, ds, hl, _ => by
    simp only [select]
    intro hnone
    simp [liveOK] at hl
    obtain ⟨v, hv, hav, hh⟩ := hl
    have := selHash_none hnone v hv hav
    omega
  | .keyed false fb, w, pool, ds, hl, ha => by
    simp only [select]
    exact select_some_if_any_available_partial fb w pool ds (by simpa [liveOK] using hl) ha
  | .cookie none fb, w, pool, ds, hl, ha => by
    simp only [select]
    intro hnone
    exact select_some_if_any_available_partial fb w pool ds (by simpa [liveOK] using hl) ha (cookieRes_none hnone)
  | .cookie (some c) fb, w, pool, ds, hl, ha => by
    simp only [select]
    split
    · simp
    · intro hnone
      exact select_some_if_any_available_partial fb w pool ds (by simpa [liveOK] using hl) ha (cookieRes_none hnone)

/-- weighted round robin returns an upstream whenever an available upstream has a positive
    weight of its own (with fewer than two weights: whenever an upstream is available) -/
theorem weightedRR_some_if_any_available (ws : List Nat) (pool : Pool) (c : Nat)
    (h : (ws.length < 2 ∧ anyAvail pool = true) ∨
         (2 ≤ ws.length ∧ ∃ (i : Nat) (u : Up) (w : Nat), pool[i]? = some u ∧ u.avail = true ∧ ws[i]? = some w ∧ 0 < w)) :
    ∃ i, (selWRR ws pool c).1 = .sel i := by
  have hlive : liveOK pool (.wrr ws c) = true ∧ anyAvail pool = true := by
    rcases h with ⟨h2, ha⟩ | ⟨h2, i, u, w, hu, hav, hw, hpos⟩
    · exact ⟨by simp [liveOK, h2], ha⟩
    · have hi : i < pool.length := (List.getElem?_eq_some_iff.1 hu).1
      have hiw : i < ws.length := (List.getElem?_eq_some_iff.1 hw).1
      refine ⟨?_, anyAvail_iff.2 ⟨u, List.mem_of_getElem? hu, hav⟩⟩
      simp only [liveOK, Bool.or_eq_true, decide_eq_true_eq, List.any_eq_true]
      refine Or.inr ⟨i, by simp [wrrEff]; omega, ?_⟩
      rw [wrrUsable_eff]
      exact wrrUsable_iff.2 ⟨u, w, hu, hw, hav, hpos⟩
  have hne := select_some_if_any_available_partial (.wrr ws c) true pool [] hlive.1 hlive.2
  simp only [select] at hne
  rcases selWRR_none_or_sel ws pool c with h0 | h1
  · exact absurd h0 hne
  · exact h1

/-! ## No policy panics -/

/-- no `Select` panics when it is given a ResponseWriter, or when the request reaches no cookie
    policy (`nilSafe`: a cookie policy writes its cookie to the ResponseWriter) -/
theorem select_never_panics_of_nilSafe : ∀ (p : Policy) (w : Bool) (pool : Pool) (ds : List Nat),
    nilSafe w p = true → (select w p pool ds).res.isPanic = false
  | .first, w, pool, ds, _ => by simp only [select]; exact selFirst_noPanic pool
  | .rr c, w, pool, ds, _ => by simp only [select]; exact selRR_noPanic pool c
  | .wrr ws c, w, pool, ds, _ => by simp only [select]; exact selWRR_noPanic ws pool c
  | .leastConn, w, pool, ds, _ => by simp only [select]; exact (selLeastConn_post pool ds).2.2
  | .random, w, pool, ds, _ => by simp only [select, selRandom]; exact rndGo_noPanic pool 0 .none 0 ds rfl
  | .randomChoose k, w, pool, ds, _ => by simp only [select]; exact selRandomChoose_noPanic k pool ds
  | .hash, w, pool, ds, _ => by simp only [select]; exact selHash_noPanic pool
  | .keyed true fb, w, pool, ds, _ => by simp only [select]; exact selHash_noPanic pool
  | .keyed false fb, w, pool, ds, h2 => by
    simp only [select]
    exact select_never_panics_of_nilSafe fb w pool ds (by simpa [nilSafe] using h2)
  | .cookie none fb, w, pool, ds, h2 => by
    simp only [select]
    simp [nilSafe] at h2
    obtain ⟨hw, h2⟩ := h2
    subst hw
    have := select_never_panics_of_nilSafe fb true pool ds h2
    revert this
    cases (select true fb pool ds).res <;> simp [cookieRes, Res.isPanic]
  | .cookie (some c) fb, w, pool, ds, h2 => by
    simp only [select]
    split
    · rfl
    · simp [nilSafe] at h2
      obtain ⟨hw, h2⟩ := h2
      subst hw
      have := select_never_panics_of_nilSafe fb true pool ds h2
      revert this
      cases (select true fb pool ds).res <;> simp [cookieRes, Res.isPanic]

/-- **no selection panics**: the proxy handler's case — `Select` is called with a ResponseWriter —
    for every policy, through any chain of header / query / cookie fallbacks, every pool, every
    weight list (old code: `weightedRR_never_panics_old_code_fails_index` / `…_divide` in
    Witness.lean) -/
theorem select_never_panics (p : Policy) (pool : Pool) (ds : List Nat) :
    (select true p pool ds).res.isPanic = false :=
  select_never_panics_of_nilSafe p true pool ds (nilSafe_true p)

/-! ## first: the earliest available upstream -/

theorem first_is_earliest (pool : Pool) (i : Nat) (h : selFirst pool = .sel i) :
    ∀ j v, j < i → pool[j]? = some v → v.avail = false := by
  rcases firstGo_spec pool [] with ⟨h1, _⟩ | ⟨i', h1, _, h3⟩
  · simp [selFirst] at h; simp at h1; rw [h] at h1; cases h1
  · simp [selFirst] at h
    simp at h1
    rw [h] at h1
    cases h1
    intro j v hj hv
    exact h3 j v (Nat.zero_le _) hj (by simpa using hv)

/-! ## round robin: the available upstreams are visited in cyclic order -/

/-- One selection, counter not wrapping: the counter advances to the first value `c' > c`
    whose position `c' % n` is available, and that position is returned; all positions probed
    in between are unavailable. Since afterwards `c' % n = i`, the next selection continues
    right behind the upstream just returned: consecutive selections walk through the
    available upstreams in cyclic order.
    FULL STATEMENT (without `c + pool.length < 2^32`) fails:
    `roundRobin_cycles_full_fails`. -/
theorem roundRobin_next_partial (pool : Pool) (c : Nat) (hc : c + pool.length < u32) (ha : anyAvail pool = true) :
    ∃ i c', selRR pool c = (.sel i, c') ∧ c < c' ∧ c' ≤ c + pool.length ∧ i = c' % pool.length ∧
      (∃ u, pool[i]? = some u ∧ u.avail = true) ∧
      ∀ t, c < t → t < c' → availB pool (t % pool.length) = false :=
  selRR_char pool c hc ha

/-- **round robin cycles through the available upstreams.** A run of `m` consecutive selections
    (counter not wrapping) returns exactly the available positions among the consecutive counter
    values `c+1, c+2, …, c'` it consumed, in that order — i.e. the pool positions
    `(c+1) mod n, (c+2) mod n, …` with the unavailable ones left out. -/
theorem roundRobin_cycles_partial (pool : Pool) (ds : List Nat) (m c : Nat)
    (ha : anyAvail pool = true) (hc : c + m * pool.length < u32) :
    ∃ c', (run m (.rr c) pool ds).2 = .rr c' ∧ c ≤ c' ∧ c' ≤ c + m * pool.length ∧
      (run m (.rr c) pool ds).1.map (·.1) =
        ((List.range' (c + 1) (c' - c)).filter (fun t => availB pool (t % pool.length))).map
          (fun t => Res.sel (t % pool.length)) := by
  obtain ⟨c', h1, h2, h3, h4⟩ := rr_run pool ha ds m c hc
  refine ⟨c', h1, h2, h3, ?_⟩
  rw [h4, List.map_map]
  rfl

/-- **… each exactly once per cycle**: in `numAvail` consecutive selections, from any counter
    value (not wrapping), every available upstream is returned exactly once -/
theorem roundRobin_each_available_once_per_cycle_partial (pool : Pool) (c : Nat) (ds : List Nat)
    (ha : anyAvail pool = true) (hc : c + numAvail pool * pool.length < u32)
    (j : Nat) (hj : ∃ u, pool[j]? = some u ∧ u.avail = true) :
    ((run (numAvail pool) (.rr c) pool ds).1.map (·.1)).count (.sel j) = 1 :=
  rr_each_once pool c ds ha hc j hj

/-- nothing available: round robin returns nil after probing every position once -/
theorem roundRobin_none (pool : Pool) (c : Nat) (hc : c + pool.length < u32) (ha : anyAvail pool = false) :
    selRR pool c = (.none, c + pool.length) := by
  unfold selRR
  split
  · rename_i h0; simp [h0]
  · rename_i h0
    rcases rrGo_char pool (by omega) pool.length c hc with ⟨i, c', _, _, _, _, ⟨u, hu, hav⟩, _⟩ | ⟨h1, _⟩
    · have : anyAvail pool = true := anyAvail_iff.2 ⟨u, List.mem_of_getElem? hu, hav⟩
      rw [ha] at this; cases this
    · exact h1

/-! ## least_conn: a minimally loaded available upstream -/

theorem leastConn_minimal (pool : Pool) (ds : List Nat) (i : Nat) (h : (selLeastConn pool ds).1 = .sel i) :
    ∃ u, pool[i]? = some u ∧ ∀ v ∈ pool, v.avail = true → u.load ≤ v.load :=
  (selLeastConn_post pool ds).2.1 i h

/-! ## random_choose: the least loaded of min(choose, #available) distinct available candidates -/

/-- The returned upstream `i` is a least loaded member of a reservoir of
    `min (min choose |pool|) #available` pairwise distinct available upstreams. (Consequently at
    least that many available upstreams carry at least its load, and with
    `choose ≥ #available` it is a least loaded available upstream.) -/
theorem randomChoose_minimal (k : Nat) (pool : Pool) (ds : List Nat) (i : Nat)
    (h : (selRandomChoose k pool ds).1 = .sel i) :
    ∃ cands : List (Nat × Nat),
      (∀ c ∈ cands, ∃ u, pool[c.1]? = some u ∧ u.avail = true ∧ u.load = c.2) ∧
      (cands.map Prod.fst).Nodup ∧
      cands.length = min (min k pool.length) (numAvail pool) ∧
      ∃ l, (i, l) ∈ cands ∧ ∀ c ∈ cands, l ≤ c.2 :=
  selRandomChoose_spec h

/-- … consequently at least `min(choose, |pool|, #available)` available upstreams carry at least the
    load of the returned one (it cannot be, say, the single most loaded of three when `choose` is 2) -/
theorem randomChoose_at_least_that_many_not_less_loaded (k : Nat) (pool : Pool) (ds : List Nat) (i : Nat)
    (h : (selRandomChoose k pool ds).1 = .sel i) :
    ∃ u, pool[i]? = some u ∧ u.avail = true ∧
      min (min k pool.length) (numAvail pool) ≤ ((List.range pool.length).filter (loadedAt pool u.load)).length :=
  selRandomChoose_count h

/-! ## weighted round robin honours the weights

The weights that take part are those of the upstreams in the pool (`wrrEff ws pool`), their
sum `W` is the length of the cycle; a position is *usable* if its upstream is available and its
weight positive. All statements: two or more weights configured, `W > 0`, the uint32 counter does
not wrap inside the window. Old code: `weightedRR_honours_weights_old_code_fails…` in Witness.lean. -/

/-- One selection: the turn belongs to the upstream `o` whose interval
    `[w₀+…+w_{o-1}, w₀+…+w_o)` contains `(c+1) mod W` (its weight is positive); returned is the first
    usable position among `o, o+1, …` (cyclically) — `o` itself if it is usable; the turn of an
    upstream that cannot be used goes to the next one, as in round robin. -/
theorem weightedRR_honours_weights (ws : List Nat) (pool : Pool) (c : Nat) (hp : pool.length ≠ 0)
    (h2 : 2 ≤ ws.length) (hs : 0 < (wrrEff ws pool).sum) (hc : c + 1 < u32) :
    ∃ o w, (wrrEff ws pool)[o]? = some w ∧ 0 < w ∧
      wOffset (wrrEff ws pool) o ≤ (c + 1) % (wrrEff ws pool).sum ∧
      (c + 1) % (wrrEff ws pool).sum < wOffset (wrrEff ws pool) o + w ∧
      (selWRR ws pool c).2 = c + 1 ∧
      ((∃ k, k < (wrrEff ws pool).length ∧ (selWRR ws pool c).1 = .sel ((o + k) % (wrrEff ws pool).length) ∧
          wrrUsable ws pool ((o + k) % (wrrEff ws pool).length) = true ∧
          ∀ j, j < k → wrrUsable ws pool ((o + j) % (wrrEff ws pool).length) = false) ∨
       ((selWRR ws pool c).1 = .none ∧ ∀ j, wrrUsable ws pool j = false)) ∧
      (wrrUsable ws pool o = true → (selWRR ws pool c).1 = .sel o) := by
  obtain ⟨o, w, hown, hw, hpos, hlo, hhi, hres⟩ := wrrRes_char ws pool (c + 1) hs
  rw [selWRR_eq ws pool c hp h2 hs hc]
  refine ⟨o, w, hw, hpos, hlo, hhi, rfl, ?_, fun hu => wrrRes_owner_usable ws pool (c + 1) o hown hu⟩
  simp only [hres]
  rcases wrrScan_char (wrrEff ws pool) pool o (wrrEff ws pool).length 0 with ⟨k, _, hk, h3, h4, h5⟩ | ⟨h1, h2'⟩
  · refine Or.inl ⟨k, by omega, h3, by rw [← wrrUsable_eff]; exact h4, ?_⟩
    intro j hj
    rw [← wrrUsable_eff]
    exact h5 j (Nat.zero_le _) hj
  · refine Or.inr ⟨h1, ?_⟩
    intro j
    cases hj : wrrUsable ws pool j with
    | false => rfl
    | true =>
      obtain ⟨x, hx⟩ := wrrScan_live (wrrEff ws pool) pool o j (by rw [wrrUsable_eff]; exact hj)
      rw [h1] at hx; cases hx

/-- Over a cycle (`W` consecutive selections, from any counter value) a usable upstream is chosen
    at least as often as its weight says — whatever the state of the other upstreams. -/
theorem weightedRR_counts_at_least_weight (ws : List Nat) (pool : Pool) (c : Nat) (ds : List Nat)
    (hp : pool.length ≠ 0) (h2 : 2 ≤ ws.length) (hs : 0 < (wrrEff ws pool).sum)
    (hc : c + (wrrEff ws pool).sum < u32) (i w : Nat) (hw : (wrrEff ws pool)[i]? = some w)
    (hu : wrrUsable ws pool i = true) :
    w ≤ ((run (wrrEff ws pool).sum (.wrr ws c) pool ds).1.map (·.1)).count (.sel i) :=
  wrr_counts_ge ws pool c ds hp h2 hs hc i w hw hu

/-- … and exactly `wᵢ` times when every upstream with a positive weight is available (upstreams
    with weight 0, or beyond the weight list, may be in any state and are never chosen). -/
theorem weightedRR_counts_exact (ws : List Nat) (pool : Pool) (c : Nat) (ds : List Nat)
    (hp : pool.length ≠ 0) (h2 : 2 ≤ ws.length) (hs : 0 < (wrrEff ws pool).sum)
    (hc : c + (wrrEff ws pool).sum < u32)
    (hall : ∀ j v, (wrrEff ws pool)[j]? = some v → 0 < v → wrrUsable ws pool j = true)
    (i w : Nat) (hw : (wrrEff ws pool)[i]? = some w) :
    ((run (wrrEff ws pool).sum (.wrr ws c) pool ds).1.map (·.1)).count (.sel i) = w :=
  wrr_counts ws pool c ds hp h2 hs hc hall i w hw

/-! ## hash policies -/

/-- the result of rendezvous hashing, as an upstream record -/
theorem hash_result (pool : Pool) :
    (selHash pool = .none ∧ hashPick pool = none) ∨
    (∃ i u, selHash pool = .sel i ∧ hashPick pool = some u ∧ pool[i]? = some u) :=
  selHash_hashPick pool

/-- **equal keys go to the same upstream.** The choice of a hash policy is a function of the
    availability pattern and of the hashes of (upstream address ++ key) alone: no counter, no
    random draw, no load (beyond availability), nothing else in the request takes part; and
    the policy has no state that a selection could change. -/
theorem hash_sticky (p q : Pool) (w w' : Bool) (ds ds' : List Nat)
    (h : p.map (fun u => (u.avail, u.h)) = q.map (fun u => (u.avail, u.h))) :
    (select w .hash p ds).res = (select w' .hash q ds').res ∧ (select w .hash p ds).pol = .hash := by
  simp only [select, selHash]
  exact ⟨hashGo_congr p q 0 0 .none h, trivial⟩

/-- the chosen upstream is an available one with the highest hash (the first of them in pool
    order), and its hash is not 0 -/
theorem hash_picks_highest (pool : Pool) (u : Up) :
    hashPick pool = some u ↔
      ∃ A B, pool = A ++ u :: B ∧ u.avail = true ∧ 0 < u.h ∧
        (∀ a ∈ A, a.avail = true → a.h < u.h) ∧ (∀ b ∈ B, b.avail = true → b.h ≤ u.h) :=
  hashPick_iff pool u

/-- **removal of other upstreams keeps the choice**: the winning occurrence `u` of the pool stays
    chosen whatever other entries are taken out -/
theorem hash_stable_under_removal_of_others (pool : Pool) (u : Up) (h : hashPick pool = some u) :
    ∃ A B, pool = A ++ u :: B ∧
      ∀ A' B', A'.Sublist A → B'.Sublist B → hashPick (A' ++ u :: B') = some u := by
  obtain ⟨A, B, h1, h2, h3, h4, h5⟩ := (hashPick_iff pool u).1 h
  refine ⟨A, B, h1, fun A' B' hA hB => ?_⟩
  exact (hashPick_iff _ u).2 ⟨A', B', rfl, h2, h3, fun a ha => h4 a (hA.subset ha), fun b hb => h5 b (hB.subset hb)⟩

/-- **failure of other upstreams keeps the choice**: `f` changes the state of the other upstreams
    in any way that does not make an unavailable one available and keeps the hash of those that
    stay available (health flips, load changes, limits reached …) -/
theorem hash_stable_under_failure_of_others (pool : Pool) (u : Up) (f : Up → Up)
    (hf : ∀ x, (f x).avail = true → x.avail = true ∧ (f x).h = x.h) (h : hashPick pool = some u) :
    ∃ A B, pool = A ++ u :: B ∧ hashPick (A.map f ++ u :: B.map f) = some u := by
  obtain ⟨A, B, h1, h2, h3, h4, h5⟩ := (hashPick_iff pool u).1 h
  refine ⟨A, B, h1, (hashPick_iff _ u).2 ⟨A.map f, B.map f, rfl, h2, h3, ?_, ?_⟩⟩
  · intro a ha hav
    obtain ⟨x, hx, rfl⟩ := List.mem_map.1 ha
    obtain ⟨hx1, hx2⟩ := hf x hav
    rw [hx2]; exact h4 x hx hx1
  · intro b hb hav
    obtain ⟨x, hx, rfl⟩ := List.mem_map.1 hb
    obtain ⟨hx1, hx2⟩ := hf x hav
    rw [hx2]; exact h5 x hx hx1

/-- **adding an upstream moves a key only to the new upstream**: after inserting `v` anywhere, the
    key stays with `u` or goes to `v` (hypothesis: the available upstreams of the old pool have
    pairwise different hashes for this key — ties are broken by pool order) -/
theorem hash_stable_under_addition (X Y : Pool) (u v w : Up)
    (hties : ∀ a ∈ X ++ Y, ∀ b ∈ X ++ Y, a.avail = true → b.avail = true → a.h = b.h → a = b)
    (h : hashPick (X ++ Y) = some u) (h' : hashPick (X ++ v :: Y) = some w) : w = u ∨ w = v := by
  obtain ⟨hu1, hu2, hu3⟩ := hashPick_max h
  obtain ⟨hw1, hw2, hw3⟩ := hashPick_max h'
  by_cases hwv : w = v
  · exact Or.inr hwv
  · left
    have hwmem : w ∈ X ++ Y := by
      rcases List.mem_append.1 hw1 with hm | hm
      · exact List.mem_append_left _ hm
      · rcases List.mem_cons.1 hm with hm | hm
        · exact absurd hm hwv
        · exact List.mem_append_right _ hm
    have hu' : u ∈ X ++ v :: Y := by
      rcases List.mem_append.1 hu1 with hm | hm
      · exact List.mem_append_left _ hm
      · exact List.mem_append_right _ (List.mem_cons_of_mem _ hm)
    have h1 := hu3 w hwmem hw2
    have h2 := hw3 u hu' hu2
    exact hties w hwmem u hu1 hw2 hu2 (by omega)

/-- adding an upstream never leaves a key without upstream -/
theorem hash_addition_keeps_some (X Y : Pool) (u v : Up) (h : hashPick (X ++ Y) = some u) :
    hashPick (X ++ v :: Y) ≠ none := by
  obtain ⟨hu1, hu2, _⟩ := hashPick_max h
  obtain ⟨A, B, _, _, hpos, _, _⟩ := (hashPick_iff _ u).1 h
  intro hnone
  have := (hrw_none _ 0 none hnone).2 u (by
    rcases List.mem_append.1 hu1 with hm | hm
    · exact List.mem_append_left _ hm
    · exact List.mem_append_right _ (List.mem_cons_of_mem _ hm)) hu2
  omega

/-! ## header / query: hash the key if present, otherwise the fallback decides -/

theorem keyed_present_is_hash (fb : Policy) (w : Bool) (pool : Pool) (ds : List Nat) :
    (select w (.keyed true fb) pool ds).res = selHash pool ∧
    (select w (.keyed true fb) pool ds).pol = .keyed true fb ∧
    (select w (.keyed true fb) pool ds).draws = ds := by
  simp [select]

theorem keyed_absent_is_fallback (fb : Policy) (w : Bool) (pool : Pool) (ds : List Nat) :
    (select w (.keyed false fb) pool ds).res = (select w fb pool ds).res ∧
    (select w (.keyed false fb) pool ds).cookies = (select w fb pool ds).cookies ∧
    (select w (.keyed false fb) pool ds).pol = .keyed false (select w fb pool ds).pol := by
  simp [select]

/-! ## cookie affinity -/

/-- **a valid cookie is followed**: if the request's cookie names the dial address of an
    available upstream, the first such upstream is returned, the fallback policy is not
    consulted (its state and the draws are untouched) and no new cookie is written -/
theorem cookie_follows_valid_cookie (c : Nat) (fb : Policy) (w : Bool) (pool : Pool) (ds : List Nat)
    (hvalid : ∃ v ∈ pool, v.avail = true ∧ v.id = c) :
    ∃ i u, select w (.cookie (some c) fb) pool ds = ⟨.sel i, [], .cookie (some c) fb, ds⟩ ∧
      pool[i]? = some u ∧ u.avail = true ∧ u.id = c ∧
      ∀ j v, j < i → pool[j]? = some v → ¬(v.avail = true ∧ v.id = c) := by
  cases hgo : cookieGo c pool 0 with
  | some i =>
    obtain ⟨u, hu, hav, hid, _, hfirst⟩ := cookieGo_spec c pool [] i hgo
    refine ⟨i, u, by simp [select, hgo], by simpa using hu, hav, hid, ?_⟩
    intro j v hj hv
    exact hfirst j v (Nat.zero_le _) hj (by simpa using hv)
  | none =>
    exfalso
    obtain ⟨v, hv, hav, hid⟩ := hvalid
    -- the loop cannot miss `v`
    have hmiss : ∀ (rest : Pool) (i0 : Nat), cookieGo c rest i0 = none → ∀ x ∈ rest, ¬(x.avail = true ∧ x.id = c) := by
      intro rest
      induction rest with
      | nil => intro _ _ x hx; cases hx
      | cons y rest ih =>
        intro i0 h x hx
        unfold cookieGo at h
        split at h
        · cases h
        · rename_i hy
          rcases List.mem_cons.1 hx with hx | hx
          · subst hx; simpa using hy
          · exact ih _ h x hx
    exact hmiss pool 0 hgo v hv ⟨hav, hid⟩

/-- **without a valid cookie the fallback decides and the cookie of the selected upstream is
    written** (given a ResponseWriter) -/
theorem cookie_sets_cookie_of_selected (c : Option Nat) (fb : Policy) (pool : Pool) (ds : List Nat) (i : Nat)
    (hinvalid : ∀ x, c = some x → cookieGo x pool 0 = none)
    (h : (select true fb pool ds).res = .sel i) :
    ∃ u, pool[i]? = some u ∧
      (select true (.cookie c fb) pool ds).res = .sel i ∧
      (select true (.cookie c fb) pool ds).cookies = (select true fb pool ds).cookies ++ [u.id] := by
  obtain ⟨u, hu, _⟩ := select_safe fb true pool ds i h
  refine ⟨u, hu, ?_⟩
  cases c with
  | none => simp [select, h, cookieRes, cookieOf, hu]
  | some x => simp [select, hinvalid x rfl, h, cookieRes, cookieOf, hu]

/-- **the cookie round trip**: the cookie written for the selected upstream, sent back while that
    upstream is still available, selects an upstream with the same dial address (the first
    available one in pool order) -/
theorem cookie_round_trip (fb' : Policy) (pool : Pool) (ds' : List Nat) (i : Nat) (u : Up)
    (hu : pool[i]? = some u) (hav : u.avail = true) :
    ∃ j v, (select true (.cookie (some u.id) fb') pool ds').res = .sel j ∧ pool[j]? = some v ∧
      v.avail = true ∧ v.id = u.id ∧ j ≤ i := by
  obtain ⟨j, v, h1, h2, h3, h4, h5⟩ :=
    cookie_follows_valid_cookie u.id fb' true pool ds' ⟨u, List.mem_of_getElem? hu, hav, rfl⟩
  refine ⟨j, v, by rw [h1], h2, h3, h4, ?_⟩
  apply Nat.le_of_not_lt
  intro hlt
  exact h5 i u hlt hu ⟨hav, rfl⟩

/-! ## the proxy loop: "available" is judged against the requests really in flight

`prun` is the handler around `Select` (ServeHTTP loop, proxyLoopIteration, tryAgain, countFailure,
provisionUpstream): requests arrive (GET or POST; held in flight at the backend, or completing),
held requests complete; a round trip can fail (dial error / other error) and the loop retries
within `lb_retries`; the pool every `Select` sees carries, per address, the requests in flight and
the recent failures — for static upstreams and for upstreams handed out afresh by a dynamic source
alike (they share the per-address host state while somebody references it). -/

/-- the request limit that applies to an upstream: its own `max_requests` if it has one, otherwise
    the handler's `unhealthy_request_count` — and that is the limit `Full()` sees -/
theorem own_max_requests_overrides_unhealthy_request_count (c : PCfg) (us : List PUp) (ls fs : List Nat)
    (i : Nat) (u : Up) (h : (mkPool c us ls fs)[i]? = some u) :
    ∃ pu, us[i]? = some pu ∧ u.maxReq = (if pu.max = 0 then c.m else pu.max) ∧ ls[i]? = some u.load :=
  let ⟨pu, h1, h2, h3⟩ := mkPool_get c us ls fs i u h
  ⟨pu, h1, h3, h2⟩

/-- the in-flight number `Select` sees for an address is exactly the number of held requests
    that were sent to it and have not completed -/
theorem proxy_loads_are_requests_in_flight (c : PCfg) (p : Policy) (ds : List Nat) (evs : List Ev)
    (j l : Nat) (h : (prun c (pinit p c ds) evs).2.loads[j]? = some l) :
    l = (prun c (pinit p c ds) evs).2.held.count (some j) :=
  (prun_inv c evs _ (pinit_inv p c ds)).1 j l h

/-- every round trip of a request — the failed ones and the one that answers — goes to an address
    that is below its effective request limit at that moment; an address that was tried and failed
    is a failing one, the one that answers is not -/
theorem proxy_sends_only_below_limit (c : PCfg) (hold get : Bool) (s : PState) :
    (∀ j, some j ∈ (attempt c hold get c.retries .none s).1 →
      (∃ l u, s.loads[j]? = some l ∧ c.ups[j]? = some u ∧ (0 < effLimit c.m u → l < effLimit c.m u)) ∧
      badAt c.ups j ≠ 0) ∧
    (∀ i, (attempt c hold get c.retries .none s).2.1 = .sent i →
      (∃ l u, s.loads[i]? = some l ∧ c.ups[i]? = some u ∧ (0 < effLimit c.m u → l < effLimit c.m u)) ∧
      badAt c.ups i = 0) := by
  have post := attempt_post c hold get c.retries .none s
  exact ⟨post.tried_ok, fun i hi => ⟨(post.sent_ok i hi).1, (post.sent_ok i hi).2.1⟩⟩

/-- … hence, whatever the clients and the backends do and whatever the policy, no address ever
    carries more requests than its effective limit -/
theorem proxy_never_exceeds_request_limit (c : PCfg) (p : Policy) (ds : List Nat) (evs : List Ev)
    (j l : Nat) (u : PUp) (hl : (prun c (pinit p c ds) evs).2.loads[j]? = some l) (hu : c.ups[j]? = some u)
    (hpos : 0 < effLimit c.m u) : l ≤ effLimit c.m u :=
  (prun_inv c evs _ (pinit_inv p c ds)).2 j l u hl hu hpos

/-- static upstreams, failures remembered (`fail_duration`), `max_fails` 1: within one request no
    upstream is tried twice — a failed round trip makes the upstream unavailable for the next
    iteration — and the upstream that finally answers has not been tried before -/
theorem proxy_failed_upstream_not_tried_again (c : PCfg) (hold get : Bool) (s : PState)
    (hdyn : c.dyn = false) (hfd : c.fd = true) (hmf : c.mf ≤ 1) :
    ((attempt c hold get c.retries .none s).1.filter Option.isSome).Nodup ∧
    ∀ i, (attempt c hold get c.retries .none s).2.1 = .sent i → some i ∉ (attempt c hold get c.retries .none s).1 :=
  let ⟨h1, _, h3⟩ := attempt_no_retry_of_failed c hold get hdyn hfd hmf c.retries .none s
  ⟨h1, fun i hi => (h3 i hi).2⟩

/-- a request makes at most `lb_retries + 1` loop iterations (round trips and nil selections
    together); one that is proxied in the end has failed at most `lb_retries` times before -/
theorem proxy_attempts_bounded (c : PCfg) (hold get : Bool) (s : PState) :
    (attempt c hold get c.retries .none s).1.length ≤ c.retries + 1 ∧
    ∀ i, (attempt c hold get c.retries .none s).2.1 = .sent i →
      (attempt c hold get c.retries .none s).1.length ≤ c.retries :=
  (attempt_post c hold get c.retries .none s).bound

/-- a request that fails before its `lb_retries` are used up is one that must not be repeated: it
    is not retryable (and its last error was not a dial error) — every other failing request gets
    all its iterations -/
theorem proxy_gives_up_early_only_if_not_retryable (c : PCfg) (hold get : Bool) (s : PState) (code : Nat)
    (h : (attempt c hold get c.retries .none s).2.1 = .status code)
    (hl : (attempt c hold get c.retries .none s).1.length ≤ c.retries) : retryable c get = false :=
  attempt_gives_up_early c hold get c.retries .none s code h hl

/-- a request is refused with 503 only if the first `Select` found nothing: no upstream was
    available then (for the policies and under the exclusions of `select_some_if_any_available_partial`) -/
theorem proxy_refuses_only_when_nothing_available (c : PCfg) (hold get : Bool) (s : PState)
    (hl : liveOK (poolOf c s) s.pol = true)
    (h : (attempt c hold get c.retries .none s).2.1 = .status 503) :
    anyAvail (poolOf c s) = false := by
  have hnone := attempt_503_first_nil c hold get c.retries s h
  cases ha : anyAvail (poolOf c s) with
  | false => rfl
  | true => exact absurd hnone (select_some_if_any_available_partial s.pol true _ s.draws hl ha)

/-- while the handler's circuit breaker is open no request is proxied: every `Select` of the request
    returns nil (each upstream consults the breaker, static or dynamic) -/
theorem proxy_open_breaker_proxies_nothing (c : PCfg) (hold get : Bool) (left : Nat) (prev : PErr) (s : PState)
    (h : s.cb = some false) :
    (∀ i, (attempt c hold get left prev s).2.1 ≠ .sent i) ∧ ∀ j, some j ∉ (attempt c hold get left prev s).1 := by
  induction left generalizing prev s with
  | zero =>
    unfold attempt
    split
    · simp
    · rename_i i hsel; exact absurd hsel (tripped_none_available h i)
    · simp
    · simp
  | succ left ih =>
    unfold attempt
    split
    · split
      · have := ih (carried prev) (afterSel c s) h
        exact ⟨this.1, by intro j hj; simp at hj; exact this.2 j hj⟩
      · simp
    · rename_i i hsel; exact absurd hsel (tripped_none_available h i)
    · simp
    · simp

/-- `tryAgain`: no retry once `lb_retries` is used up, and after an error that is not a dial error
    (the upstream may have acted on the request) only a retryable request is tried again; dial
    errors and "no upstreams available" are retried for every request -/
theorem proxy_retry_rule (left : Nat) (e : PErr) (ok : Bool) :
    tryAgain left e ok = (decide (0 < left) && (e ≠ .other || ok)) := by
  cases e <;> simp [tryAgain]

/-- which requests are retryable: without `lb_retry_match` the GET requests (a POST is never
    repeated by default); with it exactly the requests its matcher set matches — also a POST if
    the operator says so, and then no longer a GET unless it matches too -/
theorem proxy_retry_match_rule (c : PCfg) (get : Bool) :
    retryable c get = (if c.rm = 0 then get else if c.rm = 1 then !get else if c.rm = 2 then get else true) := by
  unfold retryable
  split <;> simp_all

/-! ### every strike reaches the count `Healthy()` reads (the three `countFailure` call sites)

`countFailure` is called after a failed round trip (`proxyLoopIteration`), and from `reverseProxy`
for an answer whose status is listed in `unhealthy_status`. For a request that was held at the
backend both happen long after the selection — the upstream may have gone down in the meantime
(other requests failed, the circuit breaker opened). The count must not depend on that: a strike
that is dropped because the upstream "is down anyway" is missing from the window as soon as the
older strikes expire. -/

/-- static upstreams, failures remembered: the failed round trip of a held request is counted
    against its upstream — whatever state the upstream is in by then -/
theorem proxy_failure_of_held_request_is_counted (c : PCfg) (s : PState) (k i : Nat)
    (hdyn : c.dyn = false) (hfd : c.fd = true) :
    (afterLateFail c s k i).fails = incAt s.fails i := by
  simp [afterLateFail, dropFails, hdyn, hfd]

/-- … so with `max_fails` 1 no state that still remembers it selects that upstream -/
theorem proxy_upstream_of_failed_held_request_is_down (c : PCfg) (s s' : PState) (k i : Nat)
    (hdyn : c.dyn = false) (hfd : c.fd = true) (hmf : c.mf ≤ 1)
    (hs' : s'.fails = (afterLateFail c s k i).fails) : selRes c s' ≠ .sel i := by
  intro h
  have h0 := sel_has_no_fails hfd hmf h
  rw [hs', proxy_failure_of_held_request_is_counted c s k i hdyn hfd, incAt_get] at h0
  cases hi : s.fails[i]? <;> simp [hi] at h0

/-- … in particular the rest of that request's own proxy loop does not go back to it, and neither
    tries any upstream twice -/
theorem proxy_failed_held_request_moves_on (c : PCfg) (s : PState) (k i left : Nat) (get : Bool)
    (hdyn : c.dyn = false) (hfd : c.fd = true) (hmf : c.mf ≤ 1)
    (hk : s.held[k]? = some (some i)) (hinfo : s.info[k]? = some (left, get))
    (tried : List (Option Nat)) (fin : Final) (h : (pstep c s (.fail k)).1 = .late tried fin) :
    ∃ rest, tried = some i :: rest ∧ some i ∉ rest ∧ fin ≠ .sent i ∧ (rest.filter Option.isSome).Nodup := by
  simp only [pstep, hk, hinfo] at h
  have hcount := proxy_failure_of_held_request_is_counted c s k i hdyn hfd
  have hne : (afterLateFail c s k i).fails[i]? ≠ some 0 := by
    rw [hcount, incAt_get]
    cases hi : s.fails[i]? <;> simp
  split at h
  · obtain ⟨h1, h2, h3⟩ := attempt_no_retry_of_failed c false get hdyn hfd hmf (left - 1) .other (afterLateFail c s k i)
    injection h with ht hf
    refine ⟨_, ht.symm, fun hm => hne (h2 i hm), ?_, h1⟩
    intro hs
    exact hne (h3 i (by rw [hf]; exact hs)).1
  · injection h with ht hf
    exact ⟨[], ht.symm, by simp, by rw [← hf]; simp, by simp⟩

/-- an answer whose status is listed in `unhealthy_status` is passed on to the client and is a
    strike against the upstream (static upstreams, failures remembered) — at once for a request
    that completes, at the end of the round trip for one that was held -/
theorem proxy_bad_status_is_a_strike (c : PCfg) (s : PState) (i k : Nat)
    (hdyn : c.dyn = false) (hfd : c.fd = true) (hi : i ∈ c.strike) :
    (afterSent c false s i).fails = incAt s.fails i ∧
    (s.held[k]? = some (some i) → (pstep c s (.fin k)).2.fails = incAt s.fails i) := by
  refine ⟨by simp [afterSent, afterSel, dropFails, strikeInc, hdyn, hfd, hi], ?_⟩
  intro hk
  simp [pstep, pstep0, hk, dropFails, strikeInc, hdyn, hfd, hi]

/-- the retries a held request has left are the configured ones minus the iterations it had made -/
theorem proxy_held_request_remembers_its_retries (c : PCfg) (s : PState) (get : Bool) :
    (pstep c s (.arrive true get)).2.info =
      (pstep0 c s (.arrive true get)).2.info ++ [(c.retries - (attempt c true get c.retries .none s).1.length, get)] := by
  simp [pstep, addInfo]

/-! ### the pool an iteration hands to `Select` (static upstreams, dynamic upstream sources)

A policy can only keep its contract on the pool it is given. `handed` is that pool for one
iteration of the proxy loop: `proxyLoopIteration` (static upstreams, or the answer of the dynamic
source, each run through `provisionUpstream`), `MultiUpstreams`, the `a` source. -/

/-- **whatever the source, what `Select` sees carries the handler's options**: the passive health
    check policy (so `Healthy()` counts failures), the circuit breaker (an open one leaves nothing
    available), and `unhealthy_request_count` as the limit of an upstream without one of its own -/
theorem handed_upstreams_are_provisioned (c : DCfg) (foreign : List (DName × Nat)) (static : List DUp) (d : Dyn) (x : Seen)
    (h : x ∈ handed c foreign static d) :
    x.passive = c.passive ∧ (c.cb = true → x.avail = false) ∧
    x.avail = (!c.cb && !(decide (0 < x.max) && decide (x.max ≤ loadOf foreign x.name))) ∧ (0 < c.m → 0 < x.max) ∧
    ∃ u ∈ iterUpstreams static d, x.name = u.name ∧ (0 < u.max → x.max = u.max) ∧ (u.max = 0 → x.max = c.m) := by
  simp only [handed, List.mem_map] at h
  obtain ⟨u, hu, rfl⟩ := h
  refine ⟨rfl, ?_, rfl, ?_, u, hu, rfl, ?_, ?_⟩
  · intro hcb; simp [provisionUp, hcb]
  · intro hm; simp only [provisionUp]; split <;> omega
  · intro hm; simp only [provisionUp]; split <;> omega
  · intro hm; simp [provisionUp, hm]

/-- a dynamic source that fails means the static upstreams; one that answers replaces them — also
    when it answers with no upstream at all -/
theorem dynamic_source_error_falls_back_to_static (c : DCfg) (foreign : List (DName × Nat)) (static : List DUp) (s : Src) :
    (srcResult s = none → handed c foreign static (.one s) = handed c foreign static .none) ∧
    (∀ ups, srcResult s = some ups → handed c foreign static (.one s) = ups.map (provisionUp c foreign)) := by
  constructor
  · intro h; simp [handed, iterUpstreams, h]
  · intro ups h; simp [handed, iterUpstreams, h]

/-- `multi`: the answers of its sources, in the order of the sources; a source that fails is
    skipped; the static upstreams play no part -/
theorem multi_source_is_concatenation (c : DCfg) (foreign : List (DName × Nat)) (static : List DUp) (l1 l2 : List Src) (s : Src) :
    multiResult (l1 ++ l2) = multiResult l1 ++ multiResult l2 ∧
    (srcResult s = none → multiResult (l1 ++ s :: l2) = multiResult (l1 ++ l2)) ∧
    (∀ ups, srcResult s = some ups → multiResult (l1 ++ s :: l2) = multiResult l1 ++ ups ++ multiResult l2) ∧
    handed c foreign static (.multi l1) = handed c foreign [] (.multi l1) := by
  have happ : ∀ (a b : List Src), multiResult (a ++ b) = multiResult a ++ multiResult b := by
    intro a b
    induction a with
    | nil => simp [multiResult]
    | cons x xs ih =>
      simp only [List.cons_append, multiResult]
      split <;> simp [ih]
  refine ⟨happ l1 l2, ?_, ?_, rfl⟩
  · intro h; rw [happ, happ]; simp [multiResult, h]
  · intro ups h; rw [happ]; simp [multiResult, h]

/-- **one `Host` per dial address**: the requests in flight that `Full()` compares with the limit are
    those of the whole process — two upstreams with the same dial address and the same limit are
    available or not together, wherever they come from (static, a source, another source of
    `multi`), and an upstream is full through the requests of other handlers alone -/
theorem host_state_is_shared_by_dial_address (c : DCfg) (foreign : List (DName × Nat)) (static : List DUp) (d : Dyn)
    (x y : Seen) (hx : x ∈ handed c foreign static d) (hy : y ∈ handed c foreign static d)
    (hn : x.name = y.name) (hm : x.max = y.max) : x.avail = y.avail := by
  rw [(handed_upstreams_are_provisioned c foreign static d x hx).2.2.1,
    (handed_upstreams_are_provisioned c foreign static d y hy).2.2.1, hn, hm]

/-- the `a` source looks up only the IP versions its `versions` admit: a name with just an IPv4
    address yields nothing exactly when IPv6 is asked for and IPv4 is not (and the other way
    round); neither option set, or both false, means both versions; the port defaults to 80 -/
theorem a_source_versions_and_port (id : Nat) (port : Option Nat) (v4 v6 : Option Bool) :
    (srcResult (.a false id port v4 v6) = none ↔ (v6 = some true ∧ v4 ≠ some true)) ∧
    (srcResult (.a true id port v4 v6) = none ↔ (v4 = some true ∧ v6 ≠ some true)) ∧
    srcResult (.a false id none v4 v6) = srcResult (.a false id (some 80) v4 v6) ∧
    (srcResult (.a false id port v4 v6) ≠ none → srcResult (.a false id port v4 v6) = some [⟨.a4 id (port.getD 80), 0⟩]) := by
  refine ⟨?_, ?_, by simp [srcResult], ?_⟩
  · rcases v4 with _ | _ | _ <;> rcases v6 with _ | _ | _ <;> simp [srcResult, resolveIp]
  · rcases v4 with _ | _ | _ <;> rcases v6 with _ | _ | _ <;> simp [srcResult, resolveIp]
  · rcases v4 with _ | _ | _ <;> rcases v6 with _ | _ | _ <;> simp [srcResult, resolveIp]

/-! ## what the hash / header / query / cookie policies take from the request

`hashKey` is the string handed to `hostByHashing` (or `none`: the fallback decides); two requests
with the same key get the same hash column, hence (`hash_sticky`) the same upstream. -/

/-- **each policy reads only its own source**: ip_hash only `RemoteAddr`, client_ip_hash only the
    client address C10 determined (the `client_ip` var — never `RemoteAddr` or a forwarding header),
    uri_hash only the request URI, header only `req.Host` and the header map, query only the parsed
    query -/
theorem hashKey_reads_only_its_source (r r' : KReq) :
    (r.remoteAddr = r'.remoteAddr → hashKey .ipHash r = hashKey .ipHash r') ∧
    (r.clientIP = r'.clientIP → hashKey .clientIpHash r = hashKey .clientIpHash r') ∧
    (r.uri = r'.uri → hashKey .uriHash r = hashKey .uriHash r') ∧
    (∀ f, r.host = r'.host → r.header = r'.header → hashKey (.header f) r = hashKey (.header f) r') ∧
    (∀ k, r.query = r'.query → hashKey (.query k) r = hashKey (.query k) r') := by
  refine ⟨?_, ?_, ?_, ?_, ?_⟩
  · intro h; simp [hashKey, h]
  · intro h; simp [hashKey, h]
  · intro h; simp [hashKey, h]
  · intro f h1 h2; simp [hashKey, h1, h2]
  · intro k h; simp [hashKey, h]

/-- **the same client on another port has the same key**: when `net.SplitHostPort` accepts both
    addresses, the key of ip_hash (client_ip_hash) is the host part — the port takes no part -/
theorem ipHash_key_ignores_port (r r' : KReq) (h p p' : Bytes)
    (h1 : C10.splitHostPort r.remoteAddr = some (h, p)) (h2 : C10.splitHostPort r'.remoteAddr = some (h, p')) :
    hashKey .ipHash r = some h ∧ hashKey .ipHash r' = some h := by
  simp [hashKey, hostOnly, h1, h2]

theorem clientIpHash_key_ignores_port (r r' : KReq) (h p p' : Bytes)
    (h1 : C10.splitHostPort r.clientIP = some (h, p)) (h2 : C10.splitHostPort r'.clientIP = some (h, p')) :
    hashKey .clientIpHash r = some h ∧ hashKey .clientIpHash r' = some h := by
  simp [hashKey, hostOnly, h1, h2]

/-- an address `net.SplitHostPort` rejects (no port, bare IPv6, unix socket …) is the key as a whole -/
theorem ipHash_key_whole_if_unsplittable (r : KReq) (h : C10.splitHostPort r.remoteAddr = none) :
    hashKey .ipHash r = some r.remoteAddr := by
  simp [hashKey, hostOnly, h]

/-- **header policy**: field `Host` (spelled exactly so) means `req.Host` when that is not empty;
    otherwise the key is the first value, on the wire, of the fields whose canonical name is the
    canonical name of the configured field; no such field, or an empty first value: the fallback decides -/
theorem header_key (field host uri remote cip : Bytes) (w : List (Bytes × Bytes)) (q ck : List (Bytes × Bytes)) :
    hashKey (.header field) ⟨remote, cip, uri, host, C10.fromWire w, q, ck⟩ =
      if field = hostField ∧ host ≠ [] then some host
      else match C10.wireValues w (C10.canonKey field) with
        | [] => none
        | v :: _ => if v = [] then none else some v := by
  simp only [hashKey, headerGet, C10.hValues_fromWire]
  split
  · rfl
  · cases C10.wireValues w (C10.canonKey field) with
    | nil => simp
    | cons v vs => simp

/-- **query policy**: the key is all values of the parameter, in URL order, joined by commas (so a
    client cannot steer the choice by adding a value the upstream would ignore); no value, or only
    empty ones joined to "": the fallback decides -/
theorem query_key (key : Bytes) (r : KReq) :
    hashKey (.query key) r =
      if C10.joinWith [44] ((r.query.filter (fun kv => kv.1 = key)).map (·.2)) = [] then none
      else some (C10.joinWith [44] ((r.query.filter (fun kv => kv.1 = key)).map (·.2))) := rfl

/-- **cookie policy**: the first cookie with the configured name counts, later ones are ignored -/
theorem cookie_first_cookie_wins (name v : Bytes) (pre rest : List (Bytes × Bytes))
    (h : ∀ c ∈ pre, c.1 ≠ name) : cookieValue name (pre ++ (name, v) :: rest) = some v := by
  induction pre with
  | nil => simp [cookieValue]
  | cons c pre ih =>
    obtain ⟨n, x⟩ := c
    have hn : n ≠ name := h (n, x) (List.mem_cons_self ..)
    simp only [List.cons_append, cookieValue, if_neg hn]
    exact ih (fun c hc => h c (List.mem_cons_of_mem _ hc))

/-! ## `lb_policy` in a Caddyfile

`parseLbPolicy` is `caddyfile.UnmarshalModule` on a dispenser standing on the policy name: the
dispenser as a cursor over (text, line) tokens, every policy's `UnmarshalCaddyfile`,
`loadFallbackPolicy`. -/

/-- **the weights are configured in the order written**: `weighted_round_robin w₁ … wₙ` on one line
    gives `Weights = [w₁, …, wₙ]` — the i-th argument is the weight of the i-th upstream, each read by
    `strconv.Atoi` and not negative -/
theorem caddyfile_weights_in_order (dur : Bytes → Option Int) (l fuel : Nat) (args : List Bytes) (ws : List Int)
    (hne : args ≠ []) (hb : ∀ a ∈ args, a ≠ lbrace) (hw : weightsOf args = some ws) :
    parseSel dur (fuel + 1) (⟨str "weighted_round_robin", l⟩ :: args.map (fun a => ⟨a, l⟩)) = .ok [.wrr ws] ∧
    ws.length = args.length ∧
    ∀ (i : Nat) (a : Bytes), args[i]? = some a → ∃ w, ws[i]? = some w ∧ C16.atoi a = some w ∧ 0 ≤ w := by
  refine ⟨?_, weightsOf_spec args ws hw⟩
  have hk : simpleKind (str "weighted_round_robin") = none := by decide
  have hr := remainingArgs_same_line l 0 args [] ⟨str "weighted_round_robin", l⟩
    ((⟨str "weighted_round_robin", l⟩ :: args.map (fun a => (⟨a, l⟩ : Tok))).length + 2) hb rfl (by simp; omega)
  simp only [List.nil_append, List.length_nil, Nat.zero_add, List.singleton_append] at hr
  unfold parseSel
  simp only [hk]
  have hnext : (Disp.mk (⟨str "weighted_round_robin", l⟩ :: args.map (fun a => (⟨a, l⟩ : Tok))) 0 0).next.2
      = ⟨⟨str "weighted_round_robin", l⟩ :: args.map (fun a => (⟨a, l⟩ : Tok)), 1, 0⟩ := by
    simp [Disp.next]
  rw [if_pos trivial, hnext, hr]
  cases args with
  | nil => exact absurd rfl hne
  | cons a rest => simp [hw]

/-- a weight that is negative, not a number, or no weight at all is a configuration error -/
theorem caddyfile_bad_weights_rejected (dur : Bytes → Option Int) (l fuel : Nat) (args : List Bytes)
    (hb : ∀ a ∈ args, a ≠ lbrace) (hw : args = [] ∨ weightsOf args = none) :
    parseSel dur (fuel + 1) (⟨str "weighted_round_robin", l⟩ :: args.map (fun a => ⟨a, l⟩)) = .err := by
  have hk : simpleKind (str "weighted_round_robin") = none := by decide
  have hr := remainingArgs_same_line l 0 args [] ⟨str "weighted_round_robin", l⟩
    ((⟨str "weighted_round_robin", l⟩ :: args.map (fun a => (⟨a, l⟩ : Tok))).length + 2) hb rfl (by simp; omega)
  simp only [List.nil_append, List.length_nil, Nat.zero_add, List.singleton_append] at hr
  unfold parseSel
  simp only [hk]
  have hnext : (Disp.mk (⟨str "weighted_round_robin", l⟩ :: args.map (fun a => (⟨a, l⟩ : Tok))) 0 0).next.2
      = ⟨⟨str "weighted_round_robin", l⟩ :: args.map (fun a => (⟨a, l⟩ : Tok)), 1, 0⟩ := by
    simp [Disp.next]
  rw [if_pos trivial, hnext, hr]
  rcases hw with h | h
  · subst h; rfl
  · cases args with
    | nil => rfl
    | cons a rest => simp [h]

/-- **the Caddyfile model never runs out of fuel** — neither the loops over the tokens (every
    iteration moves the dispenser's cursor forward) nor the nesting of fallback policies (every nested
    segment is shorter than the one it sits in): the outcome `fuel` does not occur, so an `err` of the
    model is an error the code returns and a finished loop is a loop the code finished -/
theorem caddyfile_lb_policy_never_runs_out_of_fuel (dur : Bytes → Option Int) (toks : List Tok) :
    parseLbPolicy dur toks ≠ .fuel :=
  parseLbPolicy_fuel dur toks

theorem caddyfile_reverse_proxy_never_runs_out_of_fuel (dur : Bytes → Option Int)
    (addr : Bytes → Option (List Bytes)) (toks : List Tok) : parseReverseProxy dur addr toks ≠ .fuel :=
  parseReverseProxy_fuel dur addr toks

/-- the argument loops (`RemainingArgs`, the first loop of `NextSegment`) have fuel to spare: more
    fuel gives the same result, from any cursor position -/
theorem caddyfile_argument_loops_have_fuel_to_spare (d : Disp) (more : Nat) :
    remainingArgs (d.toks.length + 2) d = remainingArgs (d.toks.length + 2 + more) d ∧
    segArgs (d.toks.length + 2) d = segArgs (d.toks.length + 2 + more) d :=
  ⟨remainingArgs_fuel _ _ d (by omega) (by omega), segArgs_fuel _ _ d (by omega) (by omega)⟩

/-- a policy without options (random, least_conn, round_robin, first, ip_hash, client_ip_hash,
    uri_hash) written alone is that policy; with anything behind it on the line it is an error -/
theorem caddyfile_simple_policy (dur : Bytes → Option Int) (fuel l k : Nat) (name a : Bytes)
    (hk : simpleKind name = some k) (ha : a ≠ lbrace) :
    parseSel dur (fuel + 1) [⟨name, l⟩] = .ok [.simple k] ∧
    parseSel dur (fuel + 1) [⟨name, l⟩, ⟨a, l⟩] = .err :=
  ⟨parseSel_simple_alone dur fuel l k name hk, parseSel_simple_with_argument dur fuel l k name a hk ha⟩

/-- `header <field>`: the field name is configured verbatim (no case folding: `Host` and `host`
    stay different, see `header_key`), without a fallback (`Provision` supplies random) -/
theorem caddyfile_header_field_verbatim (dur : Bytes → Option Int) (fuel l : Nat) (F : Bytes) (hF : F ≠ lbrace) :
    parseSel dur (fuel + 1) [⟨str "header", l⟩, ⟨F, l⟩] = .ok [.header F] :=
  parseSel_header_field dur fuel l F hF

/-- a second `fallback` in the block of a query / header / cookie policy is an error — the fallback
    in force is never silently replaced -/
theorem caddyfile_second_fallback_rejected (dur : Bytes → Option Int) (cookie : Bool) (lf : List Tok → CfRes)
    (n : Nat) (d : Disp) (st : BlkState) (hb : (d.nextBlock 0).1 = true)
    (hv : (d.nextBlock 0).2.val = str "fallback") (ha : (d.nextBlock 0).2.nextArg.1 = true)
    (hfb : st.fb.isSome = true) : blockLoop dur cookie lf (n + 1) d st = .err := by
  unfold blockLoop
  simp only [hb, hv, ha, hfb, if_true]

/-! ### the `reverse_proxy` directive: `lb_policy` once, `lb_retries`, the passive limits -/

/-- a second `lb_policy` in the same `reverse_proxy` block is an error ("already specified") — the
    policy in force is never silently replaced -/
theorem caddyfile_second_lb_policy_rejected (dur : Bytes → Option Int) (addr : Bytes → Option (List Bytes))
    (d : Disp) (st : RpCfg) (hv : d.val = str "lb_policy") (hp : st.pol.isSome = true) :
    rpStep dur addr d st = .err := by
  have h1 : str "lb_policy" ≠ str "to" := by decide
  unfold rpStep
  simp only [hv, h1, if_false, if_true, hp]
  split <;> rfl

/-- `lb_retries <n>` sets the retry count read by `tryAgain`, and nothing else -/
theorem caddyfile_lb_retries (dur : Bytes → Option Int) (addr : Bytes → Option (List Bytes))
    (d : Disp) (st : RpCfg) (v : Int) (hv : d.val = str "lb_retries") (ha : d.nextArg.1 = true)
    (hn : C16.atoi d.nextArg.2.val = some v) :
    rpStep dur addr d st = .ok (d.nextArg.2, { st with retries := v }) := by
  have h1 : str "lb_retries" ≠ str "to" := by decide
  have h2 : str "lb_retries" ≠ str "lb_policy" := by decide
  unfold rpStep
  simp only [hv, h1, h2, if_false, if_true, ha, hn]

/-- `unhealthy_request_count <n>` becomes `Passive.UnhealthyRequestCount` — the request limit of
    every upstream without a `max_requests` of its own (`own_max_requests_overrides_unhealthy_request_count`) —
    and allocates the passive health checks; nothing else changes -/
theorem caddyfile_unhealthy_request_count (dur : Bytes → Option Int) (addr : Bytes → Option (List Bytes))
    (d : Disp) (st : RpCfg) (v : Int) (hv : d.val = str "unhealthy_request_count") (ha : d.nextArg.1 = true)
    (hn : C16.atoi d.nextArg.2.val = some v) :
    rpStep dur addr d st = .ok (d.nextArg.2, { st with passive := true, urc := v }) := by
  have h1 : str "unhealthy_request_count" ≠ str "to" := by decide
  have h2 : str "unhealthy_request_count" ≠ str "lb_policy" := by decide
  have h3 : str "unhealthy_request_count" ≠ str "lb_retries" := by decide
  have h4 : str "unhealthy_request_count" ≠ str "lb_try_duration" := by decide
  have h5 : str "unhealthy_request_count" ≠ str "lb_try_interval" := by decide
  have h6 : str "unhealthy_request_count" ≠ str "max_fails" := by decide
  have h7 : str "unhealthy_request_count" ≠ str "fail_duration" := by decide
  unfold rpStep
  simp only [hv, h1, h2, h3, h4, h5, h6, h7, if_false, if_true, ha, hn]

/-- **the sticky cookie can come back**: it is `Secure` (and `SameSite=None`) exactly when the
    request arrived over TLS or a *trusted* proxy says `X-Forwarded-Proto: https` (last value) — so
    over plain HTTP it is never marked Secure (a browser would not return it), and -/
theorem sticky_cookie_secure_iff (tls trusted : Bool) (xfp : List Bytes) (ma : Int) :
    (stickyAttrs tls trusted xfp ma).secure = true ↔
      tls = true ∨ (trusted = true ∧ xfp.getLast? = some httpsBytes) := by
  simp [stickyAttrs, proxyHttps]

/-- … an untrusted client cannot influence the attributes through `X-Forwarded-Proto` -/
theorem sticky_cookie_ignores_untrusted_forwarded_proto (tls : Bool) (xfp xfp' : List Bytes) (ma : Int) :
    stickyAttrs tls false xfp ma = stickyAttrs tls false xfp' ma := by
  simp [stickyAttrs, proxyHttps]

theorem sticky_cookie_samesite_none_iff_secure (tls trusted : Bool) (xfp : List Bytes) (ma : Int) :
    (stickyAttrs tls trusted xfp ma).sameSiteNone = (stickyAttrs tls trusted xfp ma).secure := rfl

/-! ## active health checks: when an upstream counts as healthy -/

theorem ahStep_one_one (s : AhState) (r : Bool) : (ahStep 1 1 s r).healthy = r := by
  unfold ahStep
  cases r <;> cases hh : s.healthy <;> simp

/-- with the default thresholds `passes` = `fails` = 1 the `healthy` flag that `Healthy()` /
    `Available()` read is the result of the last active health check — and that is also what the
    documented rule (`ahSpecRun`: consecutive results) says. (For larger thresholds the counters are
    cumulative, see the observation `activeHealth_counts_are_cumulative_observation` in Witness.lean;
    how the checker decides is an input of the property, not a clause of it.) -/
theorem activeHealth_default_thresholds_flag_is_last_result : ∀ (rs : List Bool) (s : AhState) (t : AhSpec),
    (ahRun 1 1 s rs).map (·.healthy) = ahSpecRun 1 1 t rs ∧ (ahRun 1 1 s rs).map (·.healthy) = rs
  | [], _, _ => ⟨rfl, rfl⟩
  | r :: rs, s, t => by
    have h1 : (ahStep 1 1 s r).healthy = r := ahStep_one_one s r
    have h2 : (ahSpecStep 1 1 t r).healthy = r := by
      unfold ahSpecStep
      cases r <;> simp
    obtain ⟨ih1, ih2⟩ := activeHealth_default_thresholds_flag_is_last_result rs (ahStep 1 1 s r) (ahSpecStep 1 1 t r)
    simp only [ahRun, ahSpecRun, List.map_cons, h1, h2]
    exact ⟨by rw [ih1], by rw [ih2]⟩

/-! ## the draw list: random and least_conn use at most one draw per upstream -/

/-- the model never runs out of draws when given one draw per upstream -/
theorem random_never_runs_out_of_draws (pool : Pool) (ds : List Nat) (h : pool.length ≤ ds.length) :
    (selRandom pool ds).1 ≠ .starved :=
  rndGo_not_starved pool 0 .none 0 ds (by simp) h

theorem leastConn_never_runs_out_of_draws (pool : Pool) (ds : List Nat) (h : pool.length ≤ ds.length) :
    (selLeastConn pool ds).1 ≠ .starved :=
  lcGo_not_starved pool 0 .none 0 none ds (by simp) h

/-- random_choose needs at most one draw per upstream plus one (reservoir loop, then leastRequests),
    provided no draw falls into the sliver `Int31n` rejects: `Int31() ≤ 2^31 − |pool|` for every draw
    (the rejected range is smaller than `n ≤ |pool|`; probability `< |pool| / 2^31` per draw) -/
theorem randomChoose_never_runs_out_of_draws (k : Nat) (pool : Pool) (ds : List Nat)
    (ha : ∀ d ∈ ds, int31 d + pool.length ≤ 2147483648) (hl : pool.length + 1 ≤ ds.length) :
    (selRandomChoose k pool ds).1 ≠ .starved :=
  selRandomChoose_draws k pool ds ha hl

/-! ## non-vacuity: the hypotheses are met by concrete non-trivial instances (kernel-evaluated) -/

/-- healthy flag, passive failures 1 < 2, breaker closed, load 3 below the limit 4, hash `h` -/
def exUp (id load h : Nat) : Up := ⟨id, true, 1, some 2, some true, load, 4, h⟩
/-- unavailable: at its request limit -/
def exFull (id : Nat) : Up := ⟨id, true, 0, none, none, 2, 2, 99⟩
/-- unavailable: passive failures at the limit -/
def exFailed (id : Nat) : Up := ⟨id, true, 2, some 2, none, 0, 0, 98⟩

def exPool : Pool := [exFull 1, exUp 2 3 7, exFailed 3, exUp 4 1 9, exUp 5 1 5]

-- available_iff: both directions are inhabited
example : (exUp 2 3 7).avail = true ∧ (exFull 1).avail = false ∧ (exFailed 3).avail = false ∧
    (⟨9, true, 0, none, some false, 0, 0, 0⟩ : Up).avail = false ∧ (⟨9, false, 0, none, none, 0, 0, 0⟩ : Up).avail = false := by decide

-- select_returns_available: cookie → header(absent) → random_choose 2 returns upstream 4 of 0..4
example : (select true (.cookie none (.randomChoose 2)) exPool [5, 3]).res = .sel 4 := by decide
-- weightedRR_returns_available_with_positive_weight
example : (selWRR [2, 1, 1, 0, 3] exPool 3).1 = .sel 4 := by decide

-- select_some_if_any_available_partial: hypotheses hold on a four-level chain ending in round robin
example : liveOK exPool (.cookie (some 77) (.keyed false (.keyed false (.rr 4294967000)))) = true ∧
    anyAvail exPool = true := by decide
example : liveOK exPool (.keyed true .first) = true ∧ liveOK exPool (.randomChoose 2) = true := by decide

-- weightedRR_some_if_any_available: both alternatives
example : exPool[3]? = some (exUp 4 1 9) ∧ (exUp 4 1 9).avail = true ∧ [0, 0, 1, 2, 0][3]? = some 2 ∧
    (selWRR [0, 0, 1, 2, 0] exPool 0).1 = .sel 3 := by decide
example : anyAvail exPool = true ∧ (selWRR [5] exPool 0).1 = .sel 1 := by decide

-- select_never_panics: the inputs on which the old weighted round robin panicked
example : (select true (.wrr [1, 1] 0) [exFull 1, exUp 2 0 0, exUp 3 0 0] []).res = .sel 1 ∧
    (select true (.wrr [0, 0] 0) [exUp 1 0 0] []).res = .none := by decide
example : nilSafe true (.cookie none (.keyed false (.wrr [1, 1, 1, 1, 1] 3))) = true ∧
    nilSafe false (.keyed false (.cookie none .first)) = false := by decide
-- the `nilSafe` hypothesis is needed only for a caller that hands `Select` a nil ResponseWriter: the cookie
-- policy then dereferences it (old behaviour of header/query fallbacks before 4a929dc, kept as a regression case)
example : (select false (.cookie none .first) exPool []).res = .panicNil := by decide
example : (select true (.keyed false (.cookie none .first)) exPool []).res = .sel 1 ∧
    (select true (.keyed false (.cookie none .first)) exPool []).cookies = [2] := by decide

-- first_is_earliest
example : selFirst exPool = .sel 1 := by decide

-- roundRobin_next_partial: from counter 6 (position 1) the next available position is 3, counter 8
example : 6 + exPool.length < u32 ∧ anyAvail exPool = true ∧ selRR exPool 6 = (.sel 3, 8) := by decide
-- roundRobin_cycles_partial / each_available_once: three available upstreams (positions 1, 3, 4) in cyclic order
example : numAvail exPool = 3 ∧ 6 + 7 * exPool.length < u32 ∧
    (run 7 (.rr 6) exPool []).1.map (·.1) = [.sel 3, .sel 4, .sel 1, .sel 3, .sel 4, .sel 1, .sel 3] := by decide
-- roundRobin_none
example : anyAvail [exFull 1, exFailed 2] = false ∧ selRR [exFull 1, exFailed 2] 5 = (.none, 7) := by decide

-- leastConn_minimal: loads 3,1,1 among the available → one of the two with load 1 (draw decides)
example : (selLeastConn exPool [0]).1 = .sel 4 ∧ (selLeastConn exPool [1]).1 = .sel 3 := by decide

-- randomChoose_minimal: three available upstreams, choose 2; the third replaces reservoir slot 0
-- (draw 0 → Intn(3) = 0): candidates are upstreams 4 and 3 (loads 1, 1); the draw 2^32 picks the second
example : (selRandomChoose 2 exPool [0, 4294967296]).1 = .sel 3 := by decide
example : (selRandomChoose 2 exPool [8589934592]).1 = .sel 3 := by decide

-- weightedRR_honours_weights / counts_exact: all available, weights 2,0,3; counters 1..5 → 0,2,2,2,0
def exAll : Pool := [exUp 1 0 0, exUp 2 0 0, exUp 3 0 0]
example : (run 5 (.wrr [2, 0, 3] 0) exAll []).1.map (·.1) = [.sel 0, .sel 2, .sel 2, .sel 2, .sel 0] := by decide
example : 7 + (wrrEff [2, 0, 3] exAll).sum < u32 ∧
    (run 5 (.wrr [2, 0, 3] 7) exAll []).1.map (·.1) = [.sel 2, .sel 2, .sel 0, .sel 0, .sel 2] := by decide
-- counts_at_least_weight: weights 2,5,1 with the middle upstream at its limit: its five turns go to the next one;
-- upstream 0 keeps its 2, upstream 2 gets 1 + 5
example : (wrrEff [2, 5, 1] [exUp 1 0 0, exFull 2, exUp 3 0 0]).sum = 8 ∧
    (run 8 (.wrr [2, 5, 1] 0) [exUp 1 0 0, exFull 2, exUp 3 0 0] []).1.map (·.1)
      = [.sel 0, .sel 2, .sel 2, .sel 2, .sel 2, .sel 2, .sel 2, .sel 0] := by decide
-- more weights than upstreams: the third weight takes no part (cycle 3)
example : (wrrEff [1, 2, 3] [exUp 1 0 0, exUp 2 0 0]).sum = 3 := by decide

-- hash: upstream 3 (hash 9) wins; it survives removal / failure of the others; a new upstream with hash 8 changes nothing
example : selHash exPool = .sel 3 ∧ hashPick exPool = some (exUp 4 1 9) := by decide
example : hashPick [exUp 2 3 7, exUp 4 1 9] = some (exUp 4 1 9) ∧
    hashPick [exFull 1, exUp 2 3 7, exFailed 3, exUp 4 1 9, exFull 5] = some (exUp 4 1 9) ∧
    hashPick [exFull 1, exUp 6 0 8, exUp 2 3 7, exFailed 3, exUp 4 1 9, exUp 5 1 5] = some (exUp 4 1 9) ∧
    hashPick [exFull 1, exUp 6 0 11, exUp 2 3 7, exFailed 3, exUp 4 1 9, exUp 5 1 5] = some (exUp 6 0 11) := by decide
-- hash_sticky: loads and draws differ, availability and hashes agree
example : (select true .hash exPool [1, 2]).res = (select false .hash [exFull 1, exUp 2 0 7, exFailed 3, exUp 4 2 9, exUp 5 0 5] []).res := by decide

-- keyed
example : (select true (.keyed true (.rr 0)) exPool []).res = .sel 3 ∧ (select true (.keyed false (.rr 0)) exPool []).res = .sel 1 := by decide

-- cookie: a valid cookie for dial 5 is followed (no draw used, no cookie written); an invalid one (dial 3 is
-- unavailable) falls back to random and writes the cookie of the selected upstream; sent back, it is followed
example : select true (.cookie (some 5) .random) exPool [7] = ⟨.sel 4, [], .cookie (some 5) .random, [7]⟩ := by decide
example : (select true (.cookie (some 3) .random) exPool [0, 1, 1]).res = .sel 1 ∧
    (select true (.cookie (some 3) .random) exPool [0, 1, 1]).cookies = [2] ∧
    (select true (.cookie (some 2) .random) exPool []).res = .sel 1 := by decide

-- the draw list: one draw per upstream is enough
example : exPool.length ≤ [3, 0, 1, 0, 0].length ∧ (selRandom exPool [3, 0, 1, 0, 0]).1 = .sel 3 ∧ (selRandom exPool [3]).1 = .starved := by decide

-- the proxy loop. static upstreams 7 (dial fails), 9, 11 (own max_requests 2); unhealthy_request_count 1,
-- fail_duration set, lb_retries 2, policy first:
def exCfg : PCfg := ⟨false, 1, true, 0, 2, [⟨7, 0, 1⟩, ⟨9, 0, 0⟩, ⟨11, 2, 0⟩], false, 0, []⟩
-- held GET: 7 fails (counted), retried on 9 and held there; GET: 9 is at its limit 1 → 11; POST → 11 (limit 2 of its own);
-- the held request completes
example : (prun exCfg (pinit .first exCfg []) [.arrive true true, .arrive false true, .arrive false false, .fin 0]).1
      = [.req [some 0] (.sent 1), .req [] (.sent 2), .req [] (.sent 2), .done] ∧
    (prun exCfg (pinit .first exCfg []) [.arrive true true, .arrive false true]).2.loads = [0, 1, 0] ∧
    (prun exCfg (pinit .first exCfg []) [.arrive true true, .arrive false true]).2.fails = [1, 0, 0] := by decide
-- own max_requests 2 beats unhealthy_request_count 1: two held requests fit on address 11, the third is refused
example : (prun ⟨false, 1, false, 0, 0, [⟨11, 2, 0⟩], false, 0, []⟩ (pinit .first ⟨false, 1, false, 0, 0, [⟨11, 2, 0⟩], false, 0, []⟩ [])
    [.arrive true true, .arrive true true, .arrive true true]).1
      = [.req [] (.sent 0), .req [] (.sent 0), .req [none] (.status 503)] := by decide
-- "other" error: a GET is retried (lb_retries 1, no failure counting: the same upstream again), a POST is not
example : (prun ⟨false, 0, false, 0, 1, [⟨7, 0, 2⟩, ⟨9, 0, 0⟩], false, 0, []⟩ (pinit .first ⟨false, 0, false, 0, 1, [⟨7, 0, 2⟩, ⟨9, 0, 0⟩], false, 0, []⟩ [])
    [.arrive false true, .arrive false false]).1
      = [.req [some 0, some 0] (.status 502), .req [some 0] (.status 502)] := by decide
-- dynamic upstreams: the failure count lives only as long as somebody references the host, so without other
-- traffic the failing upstream is selected again (static: the example above moves on)
example : (prun { exCfg with dyn := true } (pinit .first { exCfg with dyn := true } []) [.arrive false true]).1
      = [.req [some 0, some 0, some 0] (.status 502)] := by decide
-- proxy_refuses_only_when_nothing_available: hypotheses inhabited
example : liveOK (poolOf exCfg ⟨.first, [0, 1, 2], [1, 0, 0], [some 1, some 2, some 2], [], none, []⟩) .first = true ∧
    (attempt exCfg false true exCfg.retries .none ⟨.first, [0, 1, 2], [1, 0, 0], [some 1, some 2, some 2], [], none, []⟩).2.1 = .status 503 := by decide

-- keys: "10.0.0.5:1234" and "10.0.0.5:80" → "10.0.0.5"; "[fd00::1]:443" → "fd00::1"; "fd00::1" (no port) stays whole
example : C10.splitHostPort (str "10.0.0.5:1234") = some (str "10.0.0.5", str "1234") ∧
    C10.splitHostPort (str "10.0.0.5:80") = some (str "10.0.0.5", str "80") ∧
    C10.splitHostPort (str "[fd00::1]:443") = some (str "fd00::1", str "443") ∧
    C10.splitHostPort (str "fd00::1") = none := by decide
def exReq : KReq := ⟨str "10.0.0.5:1234", str "192.168.1.9", str "/a?k=1&k=2&z=3", str "example.com",
  C10.fromWire [(str "x-key", str "v1"), (str "X-Other", str "o"), (str "X-KEY", str "v2")],
  [(str "k", str "1"), (str "k", str "2"), (str "z", str "3")], [(str "sid", str "x1"), (str "lb", str "t3"), (str "lb", str "t5")]⟩
example : hashKey .ipHash exReq = some (str "10.0.0.5") ∧ hashKey .clientIpHash exReq = some (str "192.168.1.9") ∧
    hashKey (.header (str "X-Key")) exReq = some (str "v1") ∧ hashKey (.header (str "Host")) exReq = some (str "example.com") ∧
    hashKey (.header (str "host")) exReq = none ∧ hashKey (.header (str "X-None")) exReq = none ∧
    hashKey (.query (str "k")) exReq = some (str "1,2") ∧ hashKey (.query (str "q")) exReq = none ∧
    cookieValue (str "lb") exReq.cookies = some (str "t3") := by decide

-- lb_policy in a Caddyfile: every policy, a chain of fallbacks, and what careless text does
def exDur : Bytes → Option Int := fun t => if t = str "30s" then some 30000000000 else if t = str "0s" then some 0 else none
example : parseLbPolicy exDur [⟨str "first", 1⟩] = .ok [.simple 3] ∧
    parseLbPolicy exDur [⟨str "first", 1⟩, ⟨str "x", 1⟩] = .err ∧
    parseLbPolicy exDur [⟨str "weighted_round_robin", 1⟩, ⟨str "3", 1⟩, ⟨str "0", 1⟩, ⟨str "+2", 1⟩] = .ok [.wrr [3, 0, 2]] ∧
    parseLbPolicy exDur [⟨str "weighted_round_robin", 1⟩, ⟨str "3", 1⟩, ⟨str "-1", 1⟩] = .err ∧
    parseLbPolicy exDur [⟨str "weighted_round_robin", 1⟩] = .err ∧
    parseLbPolicy exDur [⟨str "random_choose", 1⟩, ⟨str "3", 1⟩] = .ok [.rc 3] ∧
    parseLbPolicy exDur [⟨str "random_choose", 1⟩] = .err ∧
    parseLbPolicy exDur [⟨str "no_such_policy", 1⟩] = .err := by decide
-- header → cookie (name, max_age) → first; the default fallback is left to Provision (no node after `cookie`)
example : parseLbPolicy exDur
    [⟨str "header", 1⟩, ⟨str "X-Key", 1⟩, ⟨lbrace, 1⟩, ⟨str "fallback", 2⟩, ⟨str "cookie", 2⟩, ⟨str "lb", 2⟩, ⟨str "s3", 2⟩, ⟨lbrace, 2⟩,
     ⟨str "max_age", 3⟩, ⟨str "30s", 3⟩, ⟨str "fallback", 4⟩, ⟨str "first", 4⟩, ⟨rbrace, 5⟩, ⟨rbrace, 6⟩]
    = .ok [.header (str "X-Key"), .cookie (str "lb") (str "s3") 30000000000, .simple 3] ∧
  parseLbPolicy exDur [⟨str "cookie", 1⟩] = .ok [.cookie [] [] 0] ∧
  parseLbPolicy exDur [⟨str "cookie", 1⟩, ⟨lbrace, 1⟩, ⟨str "max_age", 2⟩, ⟨str "0s", 2⟩, ⟨rbrace, 3⟩] = .err ∧
  parseLbPolicy exDur [⟨str "query", 1⟩, ⟨str "k", 1⟩, ⟨lbrace, 1⟩, ⟨str "fallback", 2⟩, ⟨str "first", 2⟩, ⟨str "fallback", 3⟩,
     ⟨str "random", 3⟩, ⟨rbrace, 4⟩] = .err := by decide
-- a stray argument after the header field: the block (and the fallback in it) is silently ignored
example : parseLbPolicy exDur [⟨str "header", 1⟩, ⟨str "X-Key", 1⟩, ⟨str "extra", 1⟩, ⟨lbrace, 1⟩, ⟨str "fallback", 2⟩,
    ⟨str "first", 2⟩, ⟨rbrace, 3⟩] = .ok [.header (str "X-Key")] := by decide
-- caddyfile_weights_in_order / bad_weights_rejected: hypotheses inhabited
example : weightsOf [str "3", str "0", str "+2"] = some [3, 0, 2] ∧ weightsOf [str "3", str "x"] = none := by decide

-- randomChoose_never_runs_out_of_draws: hypotheses inhabited (5 upstreams, 6 draws, all accepted); a draw in
-- the rejected sliver (Int31() = 2^31-1 with n = 3) makes Intn draw again
example : (∀ d ∈ [0, 4294967296, 8589934592, 3, 5, 7], int31 d + exPool.length ≤ 2147483648) ∧
    exPool.length + 1 ≤ [0, 4294967296, 8589934592, 3, 5, 7].length ∧
    (selRandomChoose 2 exPool [0, 4294967296, 8589934592, 3, 5, 7]).1 = .sel 3 := by decide
example : intn 3 [9223372036854775807, 4294967296 * 7] = some (1, []) ∧ intn 3 [9223372036854775807] = none := by decide

-- circuit breaker configured: while it is open requests are refused (also with dynamic upstreams), afterwards proxied again
example : (prun { exCfg with cb := true, dyn := true } (pinit .first { exCfg with cb := true, dyn := true } [])
    [.arrive false true, .trip, .arrive false true, .untrip, .arrive false true]).1
      = [.req [some 0, some 0, some 0] (.status 502), .done, .req [none, none, none] (.status 503), .done,
         .req [some 0, some 0, some 0] (.status 502)] ∧
    (prun { exCfg with cb := true } (pinit .first { exCfg with cb := true } []) [.trip, .arrive true true, .untrip, .arrive true true]).1
      = [.done, .req [none, none, none] (.status 503), .done, .req [some 0] (.sent 1)] := by decide

-- the reverse_proxy directive: upstream arguments and `to` (a port range expands), lb_policy with a fallback chain,
-- lb_retries, the passive options; a second lb_policy and an unknown subdirective are errors
def exAddr : Bytes → Option (List Bytes) := fun t =>
  if t = str "a:80" then some [str "a:80"] else if t = str "b:81-82" then some [str "b:81", str "b:82"] else none
example : parseReverseProxy exDur exAddr
    [⟨str "reverse_proxy", 1⟩, ⟨str "a:80", 1⟩, ⟨lbrace, 1⟩, ⟨str "to", 2⟩, ⟨str "b:81-82", 2⟩,
     ⟨str "lb_policy", 3⟩, ⟨str "header", 3⟩, ⟨str "X-Key", 3⟩, ⟨lbrace, 3⟩, ⟨str "fallback", 4⟩, ⟨str "first", 4⟩, ⟨rbrace, 5⟩,
     ⟨str "lb_retries", 6⟩, ⟨str "3", 6⟩, ⟨str "unhealthy_request_count", 7⟩, ⟨str "20", 7⟩, ⟨str "fail_duration", 8⟩, ⟨str "30s", 8⟩,
     ⟨rbrace, 9⟩]
    = .ok ⟨[str "a:80", str "b:81", str "b:82"], some [.header (str "X-Key"), .simple 3], 3, 0, 0, true, 0, 30000000000, 20⟩ ∧
  parseReverseProxy exDur exAddr [⟨str "reverse_proxy", 1⟩, ⟨lbrace, 1⟩, ⟨str "lb_policy", 2⟩, ⟨str "first", 2⟩,
     ⟨str "lb_policy", 3⟩, ⟨str "random", 3⟩, ⟨rbrace, 4⟩] = .err ∧
  parseReverseProxy exDur exAddr [⟨str "reverse_proxy", 1⟩, ⟨lbrace, 1⟩, ⟨str "lb_retries", 2⟩, ⟨str "3", 2⟩, ⟨str "junk", 2⟩, ⟨rbrace, 3⟩] = .err ∧
  parseReverseProxy exDur exAddr [⟨str "reverse_proxy", 1⟩, ⟨str "nope", 1⟩] = .err := by decide

-- lb_retry_match `method POST`: now the POST is retried after an "other" error (and reaches the second upstream
-- once the first is marked failed), the GET is not
example : (prun { exCfg with rm := 1, ups := [⟨7, 0, 2⟩, ⟨9, 0, 0⟩] } (pinit .first { exCfg with rm := 1, ups := [⟨7, 0, 2⟩, ⟨9, 0, 0⟩] } [])
    [.arrive false false, .arrive false true]).1 = [.req [some 0] (.sent 1), .req [] (.sent 1)] ∧
  (prun { exCfg with rm := 1, fd := false, ups := [⟨7, 0, 2⟩, ⟨9, 0, 0⟩] } (pinit .first { exCfg with rm := 1, fd := false, ups := [⟨7, 0, 2⟩, ⟨9, 0, 0⟩] } [])
    [.arrive false false, .arrive false true]).1 = [.req [some 0, some 0, some 0] (.status 502), .req [some 0] (.status 502)] := by decide

-- randomChoose_at_least_that_many_not_less_loaded: loads 3,1,1 among the available; the returned one has load 1,
-- all three available upstreams carry at least that; 2 = min(choose 2, 5, 3 available) ≤ 3
example : ((List.range exPool.length).filter (loadedAt exPool 1)).length = 3 ∧
    ((List.range exPool.length).filter (loadedAt exPool 3)).length = 1 := by decide
-- proxy_failed_upstream_not_tried_again: two failing upstreams, then the good one; each tried once
example : (attempt { exCfg with ups := [⟨7, 0, 1⟩, ⟨9, 0, 2⟩, ⟨11, 0, 0⟩] } false true 2 .none
    (pinit .first { exCfg with ups := [⟨7, 0, 1⟩, ⟨9, 0, 2⟩, ⟨11, 0, 0⟩] } [])).1 = [some 0, some 1] ∧
  (attempt { exCfg with ups := [⟨7, 0, 1⟩, ⟨9, 0, 2⟩, ⟨11, 0, 0⟩] } false true 2 .none
    (pinit .first { exCfg with ups := [⟨7, 0, 1⟩, ⟨9, 0, 2⟩, ⟨11, 0, 0⟩] } [])).2.1 = .sent 2 := by decide

-- sticky cookie: plain HTTP → not Secure; TLS → Secure; trusted proxy with last X-Forwarded-Proto https → Secure;
-- an earlier https followed by http → not; max_age 90s → Max-Age 90, 500ms → none
example : stickyAttrs false false [str "https"] 0 = ⟨false, false, 0⟩ ∧ stickyAttrs true false [] 90000000000 = ⟨true, true, 90⟩ ∧
    stickyAttrs false true [str "http", str "https"] 0 = ⟨true, true, 0⟩ ∧
    stickyAttrs false true [str "https", str "http"] 500000000 = ⟨false, false, 0⟩ := by decide

-- active health checks with the default thresholds: the flag is the last result
example : (ahRun 1 1 ahInit [false, true, true, false]).map (·.healthy) = [false, true, true, false] ∧
    ahSpecRun 1 1 ⟨true, true, 0⟩ [false, true, true, false] = [false, true, true, false] := by decide
-- thresholds 3: three failures in a row mark it unhealthy, three passes in a row healthy again (here code and rule agree)
example : (ahRun 3 3 ahInit [false, false, false, true, true, true]).map (·.healthy) = [true, true, false, false, false, true] ∧
    ahSpecRun 3 3 ⟨true, true, 0⟩ [false, false, false, true, true, true] = [true, true, false, false, false, true] := by decide

/-- two upstreams, `first`, one retry, a circuit breaker, failures remembered; upstream 1 answers with a bad status -/
def lateCfg : PCfg := ⟨false, 0, true, 0, 1, [⟨7, 0, 0⟩, ⟨9, 0, 0⟩], true, 0, [1]⟩

-- proxy_failure_of_held_request_is_counted / proxy_upstream_of_failed_held_request_is_down: a request is held on
-- upstream 0, the breaker opens, its round trip fails (the retry finds nothing: 502), the breaker closes: the
-- strike was counted although the upstream was down when it happened — the next request goes to upstream 1;
-- proxy_bad_status_is_a_strike: … which answers with a listed status, so the one after that is refused
example : (prun lateCfg (pinit .first lateCfg []) [.arrive true true, .trip, .fail 0, .untrip, .arrive false true, .arrive false true]).1
      = [.req [] (.sent 0), .done, .late [some 0, none] (.status 502), .done, .req [] (.sent 1), .req [none, none] (.status 503)] ∧
    (prun lateCfg (pinit .first lateCfg []) [.arrive true true, .trip, .fail 0, .untrip, .arrive false true, .arrive false true]).2.fails = [1, 1] := by decide
-- proxy_failed_held_request_moves_on / proxy_held_request_remembers_its_retries: two requests held on upstream 0;
-- the first fails and moves on to upstream 1 (bad status: a strike); the second fails while upstream 0 is down
-- already — counted all the same (2) — and finds nothing left
example : (prun lateCfg (pinit .first lateCfg []) [.arrive true true, .arrive true true, .fail 0, .fail 1]).1
      = [.req [] (.sent 0), .req [] (.sent 0), .late [some 0] (.sent 1), .late [some 0, none] (.status 502)] ∧
    (prun lateCfg (pinit .first lateCfg []) [.arrive true true, .arrive true true, .fail 0, .fail 1]).2.fails = [2, 1] ∧
    (prun lateCfg (pinit .first lateCfg []) [.arrive true true, .arrive true true]).2.info = [(1, true), (1, true)] := by decide

-- handed_upstreams_are_provisioned / dynamic_source_error_falls_back_to_static: unhealthy_request_count 2, passive
-- checks, an open breaker; the source answers → its upstreams, provisioned; it fails → the static one
example : handed ⟨2, true, true⟩ [] [⟨.u 1, 0⟩] (.one (.probe true [⟨.u 10, 0⟩, ⟨.u 11, 3⟩])) = [⟨.u 10, 2, true, false⟩, ⟨.u 11, 3, true, false⟩] ∧
    handed ⟨2, true, true⟩ [] [⟨.u 1, 0⟩] (.one (.probe false [⟨.u 10, 0⟩])) = [⟨.u 1, 2, true, false⟩] ∧
    handed ⟨0, false, false⟩ [] [⟨.u 1, 0⟩] (.one (.probe true [])) = [] := by decide
-- host_state_is_shared_by_dial_address: other handlers have 2 requests in flight on address 10 and 1 on the address the
-- `a` source yields: with unhealthy_request_count 2 the first is full, also where a second source hands it out again
example : handed ⟨2, true, false⟩ [(.u 10, 2), (.a4 5 80, 1)] [] (.multi [.probe true [⟨.u 10, 0⟩, ⟨.u 11, 0⟩], .a false 5 none none none,
      .probe true [⟨.u 10, 0⟩, ⟨.u 10, 3⟩]]) =
    [⟨.u 10, 2, true, false⟩, ⟨.u 11, 2, true, true⟩, ⟨.a4 5 80, 2, true, true⟩, ⟨.u 10, 2, true, false⟩, ⟨.u 10, 3, true, true⟩] := by decide
-- multi_source_is_concatenation / a_source_versions_and_port: an `a` source asked for IPv6 only on a name with an
-- IPv4 address fails and is skipped, the probe source and an `a` source (default port) follow in order
example : handed ⟨0, true, false⟩ [] [⟨.u 1, 0⟩] (.multi [.a false 5 (some 8080) (some false) (some true), .probe true [⟨.u 20, 1⟩],
      .a true 3 none none none]) = [⟨.u 20, 1, true, true⟩, ⟨.a6 3 80, 0, true, true⟩] ∧
    handed ⟨0, true, false⟩ [] [⟨.u 1, 0⟩] (.multi [.probe false []]) = [] ∧
    resolveIp (some false) (some false) = 0 ∧ resolveIp (some true) none = 4 ∧ resolveIp none (some false) = 0 := by decide

/-! ## Dial addresses with placeholders: `fillDialInfo` runs after `Select`

The selection contract speaks about *available* upstreams (healthy, below their limit). Whether the
dial address of the selected upstream can be filled in for the request at hand is found out only
afterwards (hosts.go `fillDialInfo`), and a failure there ends the request: -/

/-- a request whose selected upstream has a dial address that cannot be filled in ends right there,
    whatever `lb_retries` allows and whatever error the loop carried: no round trip, no retry -/
theorem dialinfo_failure_ends_request (c : PCfg) (unf : List Nat) (get : Bool) (left : Nat) (prev : PErr)
    (s : PState) (i : Nat) (hsel : selRes c s = .sel i) (hu : i ∈ unf) :
    attemptD c unf get left prev s = ([], .dialInfo i, afterDialInfo c s) := by
  cases left <;> simp [attemptD, hsel, hu]

example : attemptD ⟨false, 0, true, 0, 3, [⟨7, 0, 0⟩, ⟨9, 0, 0⟩], false, 0, []⟩ [0] true 3 .none
      (pinit .first ⟨false, 0, true, 0, 3, [⟨7, 0, 0⟩, ⟨9, 0, 0⟩], false, 0, []⟩ [])
    = ([], .dialInfo 0, pinit .first ⟨false, 0, true, 0, 3, [⟨7, 0, 0⟩, ⟨9, 0, 0⟩], false, 0, []⟩ []) := by decide

/-- … and touches no counter: requests in flight, held requests, the breaker and (static
    upstreams) the remembered failures are what they were — the upstream stays exactly as available
    as it was; only the policy has moved (its counter, the random draws), as by one `Select` -/
theorem dialinfo_failure_touches_no_counter (c : PCfg) (s : PState) :
    (afterDialInfo c s).loads = s.loads ∧ (afterDialInfo c s).held = s.held ∧ (afterDialInfo c s).cb = s.cb ∧
    (c.dyn = false → (afterDialInfo c s).fails = s.fails) ∧
    (afterDialInfo c s).pol = (select true s.pol (poolOf c s) s.draws).pol ∧
    (afterDialInfo c s).draws = (select true s.pol (poolOf c s) s.draws).draws := by
  refine ⟨rfl, rfl, rfl, ?_, rfl, rfl⟩
  intro h
  simp [afterDialInfo, afterSel, dropFails, h]

-- round robin: the refused request has used up a turn (counter 5 → 6), nothing else has changed
example : (afterDialInfo ⟨false, 0, true, 0, 3, [⟨7, 0, 0⟩, ⟨9, 0, 0⟩], false, 0, []⟩
      (pinit (.rr 5) ⟨false, 0, true, 0, 3, [⟨7, 0, 0⟩, ⟨9, 0, 0⟩], false, 0, []⟩ [])).pol = .rr 6 := by decide

/-- nothing is ever dialled at an address that could not be filled in: the upstream a request is
    sent to and every upstream whose round trip failed had a usable dial address; a request that
    ends in `fillDialInfo` does so for an upstream whose address is unusable -/
theorem dialinfo_only_filled_addresses_are_dialled (c : PCfg) (unf : List Nat) (get : Bool) (left : Nat)
    (prev : PErr) (s : PState) :
    (∀ i, (attemptD c unf get left prev s).2.1 = .dialInfo i → i ∈ unf) ∧
    (∀ i, (attemptD c unf get left prev s).2.1 = .fin (.sent i) → i ∉ unf) ∧
    (∀ j, some j ∈ (attemptD c unf get left prev s).1 → j ∉ unf) := by
  induction left generalizing prev s with
  | zero =>
    unfold attemptD
    split
    · simp
    · rename_i i hsel
      by_cases hc : i ∈ unf
      · simp [hc]
      · have hn : i ∉ unf := hc
        by_cases hb : badAt c.ups i = 0
        · simp [hc, hb]
        · simp [hc, hb]
    · simp
    · simp
  | succ left ih =>
    unfold attemptD
    split
    · split
      · have := ih (carried prev) (afterSel c s)
        refine ⟨this.1, this.2.1, ?_⟩
        intro j hj; simp at hj; exact this.2.2 j hj
      · simp
    · rename_i i hsel
      by_cases hc : i ∈ unf
      · simp [hc]
      · have hn : i ∉ unf := hc
        by_cases hb : badAt c.ups i = 0
        · simp [hc, hb]
        · by_cases ht : tryAgain (left + 1) (errAt c i) (retryable c get) = true
          · have := ih (errAt c i) (afterFail c s i)
            simp only [List.contains_eq_mem, decide_eq_true_eq, hc, hb, ht, if_true, if_false]
            refine ⟨this.1, this.2.1, ?_⟩
            intro j hj; simp at hj
            rcases hj with rfl | hj
            · exact hn
            · exact this.2.2 j hj
          · simp [hc, hb, ht]
    · simp
    · simp

-- upstream 0 fails its round trip, upstream 1 cannot be dialled for this request, upstream 2 would answer
example : (attemptD ⟨false, 0, true, 0, 3, [⟨7, 0, 2⟩, ⟨9, 0, 0⟩, ⟨11, 0, 0⟩], false, 0, []⟩ [1] true 3 .none
      (pinit .first ⟨false, 0, true, 0, 3, [⟨7, 0, 2⟩, ⟨9, 0, 0⟩, ⟨11, 0, 0⟩], false, 0, []⟩ [])).1 = [some 0] ∧
    (attemptD ⟨false, 0, true, 0, 3, [⟨7, 0, 2⟩, ⟨9, 0, 0⟩, ⟨11, 0, 0⟩], false, 0, []⟩ [1] true 3 .none
      (pinit .first ⟨false, 0, true, 0, 3, [⟨7, 0, 2⟩, ⟨9, 0, 0⟩, ⟨11, 0, 0⟩], false, 0, []⟩ [])).2.1 = .dialInfo 1 := by decide

/-- when every dial address can be filled in, the loop is the proxy loop of the `proxy_*` theorems
    (a request that is not held): placeholders that resolve change nothing -/
theorem dialinfo_all_filled_is_plain_loop (c : PCfg) (get : Bool) (left : Nat) (prev : PErr) (s : PState) :
    attemptD c [] get left prev s =
      ((attempt c false get left prev s).1, .fin (attempt c false get left prev s).2.1, (attempt c false get left prev s).2.2) := by
  induction left generalizing prev s with
  | zero =>
    unfold attemptD attempt
    cases selRes c s <;> simp
    split <;> simp
  | succ left ih =>
    unfold attemptD attempt
    cases selRes c s <;> simp [ih]
    · split <;> simp
    · split
      · simp
      · split <;> simp

example : attemptD ⟨false, 0, true, 0, 1, [⟨7, 0, 2⟩, ⟨9, 0, 0⟩], false, 0, []⟩ [] true 1 .none
      (pinit .first ⟨false, 0, true, 0, 1, [⟨7, 0, 2⟩, ⟨9, 0, 0⟩], false, 0, []⟩ [])
    = ([some 0], .fin (.sent 1), (attempt ⟨false, 0, true, 0, 1, [⟨7, 0, 2⟩, ⟨9, 0, 0⟩], false, 0, []⟩ false true 1 .none
      (pinit .first ⟨false, 0, true, 0, 1, [⟨7, 0, 2⟩, ⟨9, 0, 0⟩], false, 0, []⟩ [])).2.2) := by decide

/-- the upstream whose dial address failed was an *available* one: the selection contract (only
    available upstreams) is kept — being available says nothing about the dial address -/
theorem dialinfo_failed_upstream_was_available (c : PCfg) (s : PState) (i : Nat) (hsel : selRes c s = .sel i) :
    ∃ u, (poolOf c s)[i]? = some u ∧ u.avail = true :=
  select_returns_available s.pol true (poolOf c s) s.draws i hsel

/-- OBSERVATION (no clause of C08: the policy did return an available upstream). Static upstreams,
    policy `first`: because the refusal is not a strike and ends the request, an upstream whose dial
    address cannot be filled in keeps being selected — every later request whose placeholders
    resolve as badly ends the same way, however many other upstreams are available and however
    many retries are allowed -/
theorem first_keeps_selecting_unfillable_upstream (c : PCfg) (hdyn : c.dyn = false) (i : Nat) :
    ∀ (rs : List (Bool × List Nat)) (s : PState), s.pol = .first → selRes c s = .sel i → (∀ r ∈ rs, i ∈ r.2) →
      (drun c s rs).1 = rs.map (fun _ => ([], .dialInfo i)) := by
  intro rs
  induction rs with
  | nil => intro s _ _ _; rfl
  | cons r rs ih =>
    intro s hp hsel hall
    obtain ⟨get, unf⟩ := r
    have hu : i ∈ unf := hall (get, unf) (by simp)
    have h1 := dialinfo_failure_ends_request c unf get c.retries .none s i hsel hu
    have hpol : (afterDialInfo c s).pol = .first := by simp [afterDialInfo, afterSel, hp, select]
    have hpool : poolOf c (afterDialInfo c s) = poolOf c s := by
      simp [poolOf, afterDialInfo, afterSel, dropFails, hdyn]
    have hsel' : selRes c (afterDialInfo c s) = .sel i := by
      have : selRes c s = selFirst (poolOf c s) := by simp [selRes, hp, select]
      simp [selRes, hpol, hpool, select]
      rw [← this]; exact hsel
    have := ih (afterDialInfo c s) hpol hsel' (fun r hr => hall r (by simp [hr]))
    simp [drun, h1, this]

-- three requests, three retries allowed, upstream 1 available and dialable throughout: all three end in fillDialInfo for upstream 0
example : (drun ⟨false, 0, true, 0, 3, [⟨7, 0, 0⟩, ⟨9, 0, 0⟩], false, 0, []⟩
      (pinit .first ⟨false, 0, true, 0, 3, [⟨7, 0, 0⟩, ⟨9, 0, 0⟩], false, 0, []⟩ []) [(true, [0]), (false, [0]), (true, [0])]).1
    = [([], .dialInfo 0), ([], .dialInfo 0), ([], .dialInfo 0)] := by decide

/-! ## The other producers of a reverse_proxy handler: `forward_auth`, `php_fastcgi` -/

/-- the wrappers' walk leaves a plain `reverse_proxy` segment alone … -/
theorem wrapper_strip_rp_is_identity (dur : Bytes → Option Int) :
    ∀ (body : List (List Tok)) (n : Nat) (hdr uri : Bool), stripBody .rp dur n hdr uri body = some (body, uri) := by
  intro body
  induction body with
  | nil => intro n hdr uri; rfl
  | cons l rest ih =>
    intro n hdr uri
    unfold stripBody
    by_cases hc : isClose l = true
    · simp [hc, ih]
    · by_cases hn : n = 1
      · simp [hc, hn, ownRule, ih]
      · simp [hc, hn, ih]

theorem groupLines_flatten : ∀ toks : List Tok, (groupLines toks).flatten = toks := by
  intro toks
  induction toks with
  | nil => rfl
  | cons t ts ih =>
    unfold groupLines
    split
    · rename_i u us rest h
      rw [h] at ih
      split <;> simp_all
    · rename_i h
      cases ts with
      | nil => simp
      | cons a as =>
        exfalso
        revert h
        unfold groupLines
        split <;> (try split) <;> simp

/-- … so the `reverse_proxy` directive is `Handler.UnmarshalCaddyfile` on its tokens, and the
    wrappers differ from it only by the tokens they take out -/
theorem wrapper_rp_is_reverse_proxy (dur : Bytes → Option Int) (addr : Bytes → Option (List Bytes)) (toks : List Tok)
    (h : toks ≠ []) : parseWrapper .rp dur addr toks = parseReverseProxy dur addr toks := by
  have hf := groupLines_flatten toks
  unfold parseWrapper wrapperTokens
  cases hg : groupLines toks with
  | nil => rw [hg] at hf; simp at hf; exact absurd hf.symm (by simpa using h)
  | cons head body =>
    rw [hg] at hf
    simp [wrapper_strip_rp_is_identity dur body 1 false false]
    simp at hf
    rw [hf]

/-- `forward_auth` without a `uri` subdirective directly inside its block is refused, whatever
    else is written -/
theorem forward_auth_requires_uri (dur : Bytes → Option Int) (addr : Bytes → Option (List Bytes)) (head : List Tok)
    (body ls : List (List Tok)) (toks : List Tok) (hg : groupLines toks = head :: body)
    (hs : stripBody .fa dur 1 false false body = some (ls, false)) :
    parseWrapper .fa dur addr toks = .err := by
  simp [parseWrapper, wrapperTokens, hg, hs]

/-- the tokens of a segment, one inner list per line, numbered from line 1 -/
private def seg (ls : List (List String)) : List Tok :=
  (ls.zipIdx.map fun x => x.1.map fun t => (⟨str t, x.2 + 1⟩ : Tok)).flatten

-- wrapper_rp_is_reverse_proxy / forward_auth: `uri` and `copy_headers` are taken out, `lb_policy first` and
-- `lb_retries 2` reach the handler; nothing written → no policy (Provision: random), no retries, no passive checks
example : parseWrapper .fa (fun _ => none) (fun a => some [a])
      (seg [["forward_auth", "a:80", "{"], ["uri", "authz"], ["lb_policy", "first"], ["copy_headers", "X"], ["lb_retries", "2"], ["}"]])
    = .ok { RpCfg.empty with ups := [str "a:80"], pol := some [.simple 3], retries := 2 } ∧
    parseWrapper .fa (fun _ => none) (fun a => some [a]) (seg [["forward_auth", "a:80", "{"], ["uri", "authz"], ["}"]])
    = .ok { RpCfg.empty with ups := [str "a:80"] } ∧
    wrapperCaseOK .fa (seg [["forward_auth", "a:80", "{"], ["uri", "authz"], ["lb_policy", "first"], ["copy_headers", "X"], ["lb_retries", "2"], ["}"]]) = true := by decide
-- forward_auth_requires_uri: no `uri`, or only one inside a nested block → refused; `uri` with a second argument leaves a token
-- reverse_proxy does not know → refused
example : parseWrapper .fa (fun _ => none) (fun a => some [a]) (seg [["forward_auth", "a:80", "{"], ["lb_retries", "2"], ["}"]]) = .err ∧
    parseWrapper .fa (fun _ => none) (fun a => some [a]) (seg [["forward_auth", "a:80", "{"], ["uri", "x", "y"], ["}"]]) = .err ∧
    stripBody .fa (fun _ => none) 1 false false (groupLines (seg [["lb_retries", "2"], ["}"]])) = some (groupLines (seg [["lb_retries", "2"], ["}"]]), false) := by decide
-- php_fastcgi: its own subdirectives are taken out, `max_fails 3` makes passive health checks; `env` with one argument is refused
example : parseWrapper .php (fun _ => none) (fun a => some [a])
      (seg [["php_fastcgi", "a:9000", "{"], ["root", "srv"], ["env", "K", "v"], ["max_fails", "3"], ["capture_stderr"], ["}"]])
    = .ok { RpCfg.empty with ups := [str "a:9000"], passive := true, maxFails := 3 } ∧
    parseWrapper .php (fun _ => none) (fun a => some [a]) (seg [["php_fastcgi", "a:9000", "{"], ["env", "K"], ["}"]]) = .err ∧
    parseWrapper .rp (fun _ => none) (fun a => some [a]) (seg [["reverse_proxy", "a:9000", "{"], ["root", "srv"], ["}"]]) = .err := by decide

end CaddyModel.C08
