/-
C08 — executable model of the built-in load-balancing selection policies
(modules/caddyhttp/reverseproxy/selectionpolicies.go) and of `Upstream.Available`
(hosts.go:71-92), as the code is NOW (quirks included).

* Everything the Go code leaves to `math/rand` is an explicit list of raw draws
  (`Int63()` values) consumed left to right: `weakrand.Int() % n` is `d % n`,
  `weakrand.Intn(n)` is `intn` below (Go's `Int31n`, rejection loop included).
  Running out of draws is the explicit outcome `starved` (a model artefact, the Go
  source never runs dry).
* `hash(up.String() + key)` (xxhash) and `hashCookie(secret, up.Dial)` (HMAC) are
  abstract: every upstream record carries `h`, the hash of its dial address with the
  request's effective key, and `id`, its dial identity (two upstreams have the same
  cookie token iff they have the same `id`).
* Go panics (index out of range, nil pointer dereference) are explicit outcomes.
* The request-derived facts a policy looks at sit in the policy term itself:
  `keyed present fb` (header / query: is the key present and non-empty?),
  `cookie c fb` (does the request carry the cookie of dial `c`?).
Structural recursion only; the loops recurse over the pool (or the loop bound).
-/
namespace CaddyModel.C08

/-- one upstream as `Select` sees it -/
structure Up where
  id : Nat                 -- dial identity
  healthy : Bool           -- active health flag (`Upstream.unhealthy == 0`)
  fails : Nat              -- `Host.Fails()`
  maxFails : Option Nat    -- passive health policy present ⇒ `Fails() < MaxFails`
  cb : Option Bool         -- circuit breaker present ⇒ `cb.OK()`
  load : Nat               -- `Host.NumRequests()`
  maxReq : Nat             -- `MaxRequests` (0 = unlimited)
  h : Nat                  -- `hash(dial ++ key)` for the request's effective key
deriving DecidableEq, Repr

/-- `Upstream.Healthy` (hosts.go:77-86) -/
def Up.isHealthy (u : Up) : Bool :=
  u.healthy
    && (match u.maxFails with | none => true | some m => decide (u.fails < m))
    && (match u.cb with | none => true | some ok => ok)

/-- `Upstream.Full` (hosts.go:90-92) -/
def Up.full (u : Up) : Bool := decide (0 < u.maxReq) && decide (u.maxReq ≤ u.load)

/-- `Upstream.Available` (hosts.go:71-73) -/
def Up.avail (u : Up) : Bool := u.isHealthy && !u.full

abbrev Pool := List Up

/-- what one `Select` call does -/
inductive Res where
  | none                -- returned nil
  | sel (i : Nat)       -- returned `pool[i]`
  | panicIdx            -- Go: index out of range
  | panicNil            -- Go: nil pointer dereference (`http.SetCookie` on a nil ResponseWriter)
  | starved             -- model artefact: the draw list was too short
deriving DecidableEq, Repr

/-- uint32 wrap-around of the round-robin counters -/
def u32 : Nat := 4294967296

def inc32 (c : Nat) : Nat := (c + 1) % u32

/-! ### math/rand -/

/-- `Int31()` of a raw `Int63()` value -/
def int31 (r : Nat) : Nat := r / 4294967296

/-- largest accepted `Int31()` value in `Int31n(n)` -/
def intnMax (n : Nat) : Nat := 2147483647 - 2147483648 % n

/-- `weakrand.Intn(n)` for `0 < n ≤ 2^31-1`: draws until a value is accepted -/
def intn (n : Nat) : List Nat → Option (Nat × List Nat)
  | [] => none
  | r :: rest => if intnMax n < int31 r then intn n rest else some (int31 r % n, rest)

/-! ### first (selectionpolicies.go:365-372) -/

def firstGo : Pool → Nat → Res
  | [], _ => .none
  | u :: rest, i => if u.avail then .sel i else firstGo rest (i + 1)

def selFirst (pool : Pool) : Res := firstGo pool 0

/-! ### round_robin (selectionpolicies.go:328-341) -/

/-- the `for i < n` loop: `fuel` is the number of iterations left, `c` the counter -/
def rrGo (pool : Pool) : Nat → Nat → Res × Nat
  | 0, c => (.none, c)
  | fuel + 1, c =>
    match pool[inc32 c % pool.length]? with
    | some u => if u.avail then (.sel (inc32 c % pool.length), inc32 c) else rrGo pool fuel (inc32 c)
    | none => (.panicIdx, inc32 c)

def selRR (pool : Pool) (c : Nat) : Res × Nat :=
  if pool.length = 0 then (.none, c) else rrGo pool pool.length c

/-! ### weighted_round_robin (selectionpolicies.go:131-182) -/

/-- the loop that finds the owner of position `cw` in the cycle of configured weights (`owner`
    keeps its zero value if the loop ends without a hit) -/
def wrrIndexGo : List Nat → Nat → Nat → Nat → Nat
  | [], _, _, _ => 0
  | w :: ws, i, tot, cw => if cw < tot + w then i else wrrIndexGo ws (i + 1) (tot + w) cw

/-- `weights[i] > 0 && pool[i].Available()` -/
def wrrUsable (ws : List Nat) (pool : Pool) (i : Nat) : Bool :=
  match pool[i]?, ws[i]? with
  | some u, some w => decide (0 < w) && u.avail
  | _, _ => false

/-- the loop `for k < n`: the first usable position among owner, owner+1, … (cyclically over
    the weight list); `fuel` is the number of iterations left -/
def wrrScan (ws : List Nat) (pool : Pool) (owner : Nat) : Nat → Nat → Res
  | 0, _ => .none
  | fuel + 1, k =>
    if wrrUsable ws pool ((owner + k) % ws.length) then .sel ((owner + k) % ws.length)
    else wrrScan ws pool owner fuel (k + 1)

/-- the weights that take part: those of upstreams that are in the pool -/
def wrrEff (ws : List Nat) (pool : Pool) : List Nat := ws.take pool.length

/-- `ws` = configured weights (`totalWeight` from `Provision` is `ws.sum`) -/
def selWRR (ws : List Nat) (pool : Pool) (c : Nat) : Res × Nat :=
  if pool.length = 0 then (.none, c)
  else if ws.length < 2 then (selFirst pool, c)
  else if (wrrEff ws pool).sum = 0 then (.none, c)
  else (wrrScan (wrrEff ws pool) pool (wrrIndexGo (wrrEff ws pool) 0 0 (inc32 c % (wrrEff ws pool).sum))
          (wrrEff ws pool).length 0, inc32 c)

/-! ### random (selectRandomHost, selectionpolicies.go:796-814) -/

def rndGo : Pool → Nat → Res → Nat → List Nat → Res × List Nat
  | [], _, best, _, ds => (best, ds)
  | u :: rest, i, best, count, ds =>
    if u.avail then
      match ds with
      | [] => (.starved, [])
      | d :: ds' =>
        if d % (count + 1) = 0 then rndGo rest (i + 1) (.sel i) (count + 1) ds'
        else rndGo rest (i + 1) best (count + 1) ds'
    else rndGo rest (i + 1) best count ds

def selRandom (pool : Pool) (ds : List Nat) : Res × List Nat := rndGo pool 0 .none 0 ds

/-! ### least_conn (selectionpolicies.go:276-302) -/

/-- `leastReqs == -1 || numReqs < leastReqs` -/
def lcReset (load : Nat) : Option Nat → Bool
  | none => true
  | some l => decide (load < l)

def lcLeast (load : Nat) (least : Option Nat) : Option Nat := if lcReset load least then some load else least

def lcCount (load : Nat) (least : Option Nat) (count : Nat) : Nat := if lcReset load least then 0 else count

def lcGo : Pool → Nat → Res → Nat → Option Nat → List Nat → Res × List Nat
  | [], _, best, _, _, ds => (best, ds)
  | u :: rest, i, best, count, least, ds =>
    if u.avail then
      if lcLeast u.load least = some u.load then
        if lcCount u.load least count + 1 = 1 then
          lcGo rest (i + 1) (.sel i) (lcCount u.load least count + 1) (lcLeast u.load least) ds
        else match ds with
          | [] => (.starved, [])
          | d :: ds' =>
            if d % (lcCount u.load least count + 1) = 0 then
              lcGo rest (i + 1) (.sel i) (lcCount u.load least count + 1) (lcLeast u.load least) ds'
            else lcGo rest (i + 1) best (lcCount u.load least count + 1) (lcLeast u.load least) ds'
      else lcGo rest (i + 1) best (lcCount u.load least count) (lcLeast u.load least) ds
    else lcGo rest (i + 1) best count least ds

def selLeastConn (pool : Pool) (ds : List Nat) : Res × List Nat := lcGo pool 0 .none 0 none ds

/-! ### random_choose (selectionpolicies.go:228-252) and leastRequests (821-854) -/

/-- a reservoir entry: pool index and the load of that upstream -/
abbrev Cand := Nat × Nat

/-- the reservoir loop; `none` = starved -/
def rcGo (k : Nat) : Pool → Nat → List Cand → Nat → List Nat → Option (List Cand × List Nat)
  | [], _, ch, _, ds => some (ch, ds)
  | u :: rest, i, ch, seen, ds =>
    if u.avail then
      if ch.length < k then rcGo k rest (i + 1) (ch ++ [(i, u.load)]) (seen + 1) ds
      else match intn (seen + 1) ds with
        | none => none
        | some (j, ds') =>
          if j < k then rcGo k rest (i + 1) (ch.set j (i, u.load)) (seen + 1) ds'
          else rcGo k rest (i + 1) ch (seen + 1) ds'
    else rcGo k rest (i + 1) ch seen ds

/-- `reqs < bestReqs || bestReqs == -1` -/
def lrReset (l : Nat) : Option Nat → Bool
  | none => true
  | some b => decide (l < b)

/-- the loop of leastRequests: `inl i` = early return of a candidate without requests,
    `inr best` = the candidates with the least number of requests -/
def lrGo : List Cand → List Nat → Option Nat → Sum Nat (List Nat)
  | [], best, _ => .inr best
  | (i, l) :: rest, best, br =>
    if l = 0 then .inl i
    else if lrReset l br then lrGo rest [i] (some l)
    else if br = some l then lrGo rest (best ++ [i]) br
    else lrGo rest best br

def lrPick (best : List Nat) (ds : List Nat) : Res × List Nat :=
  match best with
  | [] => (.none, ds)
  | [i] => (.sel i, ds)
  | _ => match intn best.length ds with
    | none => (.starved, [])
    | some (j, ds') => match best[j]? with
      | some i => (.sel i, ds')
      | none => (.panicIdx, ds')

def leastRequests (ch : List Cand) (ds : List Nat) : Res × List Nat :=
  if ch.length = 0 then (.none, ds)
  else match lrGo ch [] none with
    | .inl i => (.sel i, ds)
    | .inr best => lrPick best ds

/-- `k` = the provisioned `Choose` -/
def selRandomChoose (k : Nat) (pool : Pool) (ds : List Nat) : Res × List Nat :=
  match rcGo (min k pool.length) pool 0 [] 0 ds with
  | none => (.starved, [])
  | some (ch, ds') => leastRequests ch ds'

/-! ### hostByHashing (selectionpolicies.go:857-876) -/

def hashGo : Pool → Nat → Nat → Res → Res
  | [], _, _, best => best
  | u :: rest, i, hi, best =>
    if u.avail && decide (hi < u.h) then hashGo rest (i + 1) u.h (.sel i) else hashGo rest (i + 1) hi best

def selHash (pool : Pool) : Res := hashGo pool 0 0 .none

/-! ### cookie (selectionpolicies.go:672-724): the loop looking for the cookie's upstream -/

def cookieGo (c : Nat) : Pool → Nat → Option Nat
  | [], _ => none
  | u :: rest, i => if u.avail && u.id = c then some i else cookieGo c rest (i + 1)

/-! ### policies -/

/-- a provisioned policy as one request sees it -/
inductive Policy where
  | first
  | rr (c : Nat)                          -- c = RoundRobinSelection.robin
  | wrr (ws : List Nat) (c : Nat)         -- c = WeightedRoundRobinSelection.index
  | leastConn
  | random
  | randomChoose (k : Nat)
  | hash                                  -- ip_hash / client_ip_hash / uri_hash
  | keyed (present : Bool) (fb : Policy)  -- header / query
  | cookie (c : Option Nat) (fb : Policy) -- c = dial identity whose token the request's cookie carries
deriving DecidableEq, Repr

/-- result of one `Select`: what was returned, the Set-Cookie tokens written (dial
    identities), the policy with its counters advanced, the draws left -/
structure Out where
  res : Res
  cookies : List Nat
  pol : Policy
  draws : List Nat
deriving DecidableEq, Repr

/-- `selectNewHost` (selectionpolicies.go:675-704) after the fallback returned `r`:
    `http.SetCookie(w, …)` dereferences `w`; `w = false` models a caller handing `Select` a nil
    ResponseWriter (the proxy handler never does; header / query policies pass their own `w`
    on to the fallback since 4a929dc) -/
def cookieRes (w : Bool) : Res → Res
  | .sel i => if w then .sel i else .panicNil
  | r => r

/-- the token written by `selectNewHost` -/
def cookieOf (w : Bool) (pool : Pool) : Res → List Nat
  | .sel i => match pool[i]? with
    | some u => if w then [u.id] else []
    | none => []
  | _ => []

/-- `w`: is the ResponseWriter handed to `Select` non-nil? -/
def select : Bool → Policy → Pool → List Nat → Out
  | _, .first, pool, ds => ⟨selFirst pool, [], .first, ds⟩
  | _, .rr c, pool, ds => ⟨(selRR pool c).1, [], .rr (selRR pool c).2, ds⟩
  | _, .wrr ws c, pool, ds => ⟨(selWRR ws pool c).1, [], .wrr ws (selWRR ws pool c).2, ds⟩
  | _, .leastConn, pool, ds => ⟨(selLeastConn pool ds).1, [], .leastConn, (selLeastConn pool ds).2⟩
  | _, .random, pool, ds => ⟨(selRandom pool ds).1, [], .random, (selRandom pool ds).2⟩
  | _, .randomChoose k, pool, ds => ⟨(selRandomChoose k pool ds).1, [], .randomChoose k, (selRandomChoose k pool ds).2⟩
  | _, .hash, pool, ds => ⟨selHash pool, [], .hash, ds⟩
  | _, .keyed true fb, pool, ds => ⟨selHash pool, [], .keyed true fb, ds⟩
  | w, .keyed false fb, pool, ds =>
    -- `s.fallback.Select(pool, req, w)`
    ⟨(select w fb pool ds).res, (select w fb pool ds).cookies, .keyed false (select w fb pool ds).pol,
      (select w fb pool ds).draws⟩
  | w, .cookie none fb, pool, ds =>
    ⟨cookieRes w (select w fb pool ds).res, (select w fb pool ds).cookies ++ cookieOf w pool (select w fb pool ds).res,
      .cookie none (select w fb pool ds).pol, (select w fb pool ds).draws⟩
  | w, .cookie (some c) fb, pool, ds =>
    match cookieGo c pool 0 with
    | some i => ⟨.sel i, [], .cookie (some c) fb, ds⟩
    | none =>
      ⟨cookieRes w (select w fb pool ds).res, (select w fb pool ds).cookies ++ cookieOf w pool (select w fb pool ds).res,
        .cookie (some c) (select w fb pool ds).pol, (select w fb pool ds).draws⟩

/-- `n` selections in a row on the same pool, as the proxy handler calls them (non-nil
    ResponseWriter); counters and draws carried along -/
def run : Nat → Policy → Pool → List Nat → List (Res × List Nat) × Policy
  | 0, p, _, _ => ([], p)
  | n + 1, p, pool, ds =>
    (((select true p pool ds).res, (select true p pool ds).cookies)
        :: (run n (select true p pool ds).pol pool (select true p pool ds).draws).1,
      (run n (select true p pool ds).pol pool (select true p pool ds).draws).2)

/-! ### provisioning (RandomChoiceSelection.Provision / Validate) -/

/-- `none` = the config is rejected -/
def provision : Policy → Option Policy
  | .randomChoose k => if k = 0 then some (.randomChoose 2) else if k < 2 then none else some (.randomChoose k)
  | .keyed b fb => (provision fb).map (.keyed b)
  | .cookie c fb => (provision fb).map (.cookie c)
  | p => some p

/-! ### the proxy loop around `Select` (reverseproxy.go: ServeHTTP loop, proxyLoopIteration, tryAgain,
reverseProxy, provisionUpstream; healthchecks.go: countFailure)

One handler, one list of upstream addresses — static, or handed out afresh by a dynamic upstream
source for every iteration of the loop (the upstream values are new each time, but `fillHost` ties
them to the shared per-address `Host` in the global pool; an iteration keeps every address
referenced until it ends, and an entry nobody references any more is dropped together with its
counters). State besides the policy: requests in flight and recent failures per address.
An iteration: `Select`; nil → the error carried over from the previous iteration, or 503;
otherwise `countRequest(+1)`, round trip, `countRequest(-1)`; a failed round trip is remembered by
`countFailure` (passive health checks with a `fail_duration`) and `tryAgain` decides whether the
loop goes on: `lb_retries` not used up, and — unless the error is a dial error or "no upstreams" —
the request is a GET, or matches `lb_retry_match` if that is configured. `try_duration` = 0, so `try_interval` stays 0.
Requests overlap only through requests that are *held* at the backend. -/

/-- one upstream of the handler: dial identity, its own `max_requests` (0 = none), and what
    the backend does with a round trip: 0 = answers, 1 = the dial fails, 2 = another error -/
structure PUp where
  id : Nat
  max : Nat
  bad : Nat
deriving DecidableEq, Repr

/-- the handler configuration: dynamic upstream source?, `unhealthy_request_count` (0 = none),
    `fail_duration` set?, `max_fails` (0 = default), `lb_retries`, the upstreams -/
structure PCfg where
  dyn : Bool
  m : Nat
  fd : Bool
  mf : Nat
  retries : Nat
  ups : List PUp
  cb : Bool := false   -- a circuit breaker is configured (`h.CB`, handed to every upstream by `provisionUpstream`)
  rm : Nat := 0        -- `lb_retry_match`: 0 = none, else one matcher set `method`: 1 = POST, 2 = GET, 3 = GET POST
  strike : List Nat := []  -- positions of the upstreams whose backend answers with a status listed in `unhealthy_status`
deriving DecidableEq, Repr

/-- are passive health checks configured at all (then every upstream gets the policy)? -/
def PCfg.passive (c : PCfg) : Bool := decide (0 < c.m) || c.fd || decide (0 < c.mf)

/-- `Provision`: `MaxFails` defaults to 1 -/
def PCfg.maxFails (c : PCfg) : Option Nat := if c.passive then some (if c.mf = 0 then 1 else c.mf) else none

/-- `provisionUpstream`: `unhealthy_request_count` is the default for upstreams without a
    `max_requests` of their own -/
def effLimit (m : Nat) (u : PUp) : Nat := if u.max = 0 then m else u.max

/-- the pool `Select` sees -/
def mkPool (c : PCfg) : List PUp → List Nat → List Nat → Pool
  | u :: us, l :: ls, f :: fs => ⟨u.id, true, f, c.maxFails, none, l, effLimit c.m u, 0⟩ :: mkPool c us ls fs
  | _, _, _ => []

def incAt : List Nat → Nat → List Nat
  | [], _ => []
  | l :: ls, 0 => (l + 1) :: ls
  | l :: ls, i + 1 => l :: incAt ls i

def decAt : List Nat → Nat → List Nat
  | [], _ => []
  | l :: ls, 0 => (l - 1) :: ls
  | l :: ls, i + 1 => l :: decAt ls i

/-- a client-side event -/
inductive Ev where
  | arrive (hold get : Bool)  -- a request arrives; held at the backend if it gets there?; GET (else POST)
  | fin (k : Nat)             -- the backend answers the k-th held request
  | trip                      -- the circuit breaker opens (`OK()` = false)
  | untrip                    -- … and closes again
  | fail (k : Nat)            -- the round trip of the k-th held request ends with an error (not a dial error)
deriving DecidableEq, Repr

/-- the error the loop carries from one iteration to the next -/
inductive PErr where
  | none | noUpstream | dial | other
deriving DecidableEq, Repr

/-- how a request ends -/
inductive Final where
  | sent (i : Nat)   -- proxied to address number i
  | status (code : Nat)  -- 503 no upstreams available / 502 the last error
  | crashed          -- Select panicked
  | starved
deriving DecidableEq, Repr

/-- what the client of an event sees; `tried` = the addresses whose round trip failed, `none`
    for an iteration in which `Select` returned nil -/
inductive EvOut where
  | req (tried : List (Option Nat)) (fin : Final)
  | done            -- a held request completed
  | idle            -- that request was not in flight (it had been refused, or completed before)
  | late (tried : List (Option Nat)) (fin : Final)  -- a held request whose round trip failed: the rest of its proxy loop
deriving DecidableEq, Repr

structure PState where
  pol : Policy
  loads : List Nat            -- requests in flight per address
  fails : List Nat            -- recent failures per address
  held : List (Option Nat)    -- per held-request so far: the address it is in flight on
  draws : List Nat
  cb : Option Bool := none    -- the handler's circuit breaker, if one is configured: is it closed?
  info : List (Nat × Bool) := []  -- per held-request so far: the retries it had left when it was held, and is it a GET
deriving DecidableEq, Repr

/-- the pool `Select` sees in state `s`: every upstream consults the handler's circuit breaker -/
def poolOf (c : PCfg) (s : PState) : Pool := (mkPool c c.ups s.loads s.fails).map (fun u => { u with cb := s.cb })

def setNone : List (Option Nat) → Nat → List (Option Nat)
  | [], _ => []
  | _ :: hs, 0 => none :: hs
  | h :: hs, k + 1 => h :: setNone hs k

def badAt (ups : List PUp) (i : Nat) : Nat :=
  match ups[i]? with
  | some u => u.bad
  | none => 0

/-- is any held request in flight (keeping the dynamic upstreams' hosts referenced)? -/
def anyHeld (held : List (Option Nat)) : Bool := held.any Option.isSome

/-- the end of an iteration with dynamic upstreams: nobody else holds the hosts → they are gone -/
def dropFails (c : PCfg) (held : List (Option Nat)) (fails : List Nat) : List Nat :=
  if c.dyn && !anyHeld held then fails.map (fun _ => 0) else fails

/-- may a request be retried after an error that is neither a dial error nor "no upstreams"?
    Without `lb_retry_match`: GET only; with it: exactly the requests a matcher set matches -/
def retryable (c : PCfg) (get : Bool) : Bool :=
  match c.rm with
  | 0 => get
  | 1 => !get
  | 2 => get
  | _ => true

/-- `tryAgain` with `left` retries still allowed; `ok` = `retryable` -/
def tryAgain (left : Nat) (e : PErr) (ok : Bool) : Bool :=
  decide (0 < left) && (match e with
    | .other => ok
    | _ => true)

def statusOf : PErr → Nat
  | .noUpstream => 503
  | _ => 502

/-- what `Select` returns in state `s` -/
def selRes (c : PCfg) (s : PState) : Res := (select true s.pol (poolOf c s) s.draws).res

/-- the state after that `Select`: policy counters and draws advanced -/
def afterSel (c : PCfg) (s : PState) : PState :=
  { s with pol := (select true s.pol (poolOf c s) s.draws).pol,
           draws := (select true s.pol (poolOf c s) s.draws).draws }

/-- no upstream: the error of the previous iteration is kept, or it is "no upstreams available" -/
def carried (prev : PErr) : PErr := if prev = .none then .noUpstream else prev

/-- the error of a failed round trip to address `i` -/
def errAt (c : PCfg) (i : Nat) : PErr := if badAt c.ups i = 1 then .dial else .other

/-- after a failed round trip to `i`: `countFailure`, end of the iteration -/
def afterFail (c : PCfg) (s : PState) (i : Nat) : PState :=
  { afterSel c s with fails := dropFails c s.held (if c.fd then incAt s.fails i else s.fails) }

/-- `reverseProxy` after the round trip: a response whose status is listed in `unhealthy_status`
    is a strike against the upstream (`countFailure`), although it is passed on to the client -/
def strikeInc (c : PCfg) (fails : List Nat) (i : Nat) : List Nat :=
  if c.fd && c.strike.contains i then incAt fails i else fails

/-- after the round trip to `i` succeeded (and the request stays there if it is held) -/
def afterSent (c : PCfg) (hold : Bool) (s : PState) (i : Nat) : PState :=
  { afterSel c s with
    loads := if hold then incAt s.loads i else s.loads,
    fails := if hold then s.fails else dropFails c s.held (strikeInc c s.fails i),
    held := if hold then s.held ++ [some i] else s.held }

/-- the proxy loop for one request: first argument = retries still allowed (`lb_retries` minus the
    retries made), `prev` = the error carried over from the previous iteration -/
def attempt (c : PCfg) (hold get : Bool) : Nat → PErr → PState → List (Option Nat) × Final × PState
  | 0, prev, s =>
    match selRes c s with
    | .none => ([none], .status (statusOf (carried prev)), afterSel c s)
    | .sel i =>
      if badAt c.ups i = 0 then ([], .sent i, afterSent c hold s i)
      else ([some i], .status 502, afterFail c s i)
    | .starved => ([], .starved, s)
    | _ => ([], .crashed, s)
  | left + 1, prev, s =>
    match selRes c s with
    | .none =>
      if tryAgain (left + 1) (carried prev) (retryable c get) then
        (none :: (attempt c hold get left (carried prev) (afterSel c s)).1,
          (attempt c hold get left (carried prev) (afterSel c s)).2)
      else ([none], .status (statusOf (carried prev)), afterSel c s)
    | .sel i =>
      if badAt c.ups i = 0 then ([], .sent i, afterSent c hold s i)
      else if tryAgain (left + 1) (errAt c i) (retryable c get) then
        (some i :: (attempt c hold get left (errAt c i) (afterFail c s i)).1,
          (attempt c hold get left (errAt c i) (afterFail c s i)).2)
      else ([some i], .status 502, afterFail c s i)
    | .starved => ([], .starved, s)
    | _ => ([], .crashed, s)

/-- one event, without the failing release of a held request -/
def pstep0 (c : PCfg) (s : PState) : Ev → EvOut × PState
  | .arrive hold get =>
    (.req (attempt c hold get c.retries .none s).1 (attempt c hold get c.retries .none s).2.1,
      match (attempt c hold get c.retries .none s).2.1 with
      | .sent _ => (attempt c hold get c.retries .none s).2.2
      | _ => if hold then { (attempt c hold get c.retries .none s).2.2 with
                              held := (attempt c hold get c.retries .none s).2.2.held ++ [none] }
             else (attempt c hold get c.retries .none s).2.2)
  | .fin k =>
    match s.held[k]? with
    | some (some i) =>
      (.done, { s with loads := decAt s.loads i, held := setNone s.held k,
                        fails := dropFails c (setNone s.held k) (strikeInc c s.fails i) })
    | _ => (.idle, s)
  | .trip => (.done, { s with cb := s.cb.map (fun _ => false) })
  | .untrip => (.done, { s with cb := s.cb.map (fun _ => true) })
  | .fail _ => (.idle, s)

/-- a held request remembers where in its proxy loop it is -/
def addInfo (hold : Bool) (x : Nat × Bool) (s : PState) : PState :=
  if hold then { s with info := s.info ++ [x] } else s

/-- the state right after the round trip of the held request on `i` has failed: `countRequest(-1)`,
    `countFailure`, end of the iteration -/
def afterLateFail (c : PCfg) (s : PState) (k i : Nat) : PState :=
  { s with loads := decAt s.loads i, held := setNone s.held k,
           fails := dropFails c (setNone s.held k) (if c.fd then incAt s.fails i else s.fails) }

/-- one event. A held request whose round trip fails in the end (`fail k`) is where every other
    failed iteration is: the failure is counted — whatever has happened to the upstream in the
    meantime — and `tryAgain` decides with the retries the request had left -/
def pstep (c : PCfg) (s : PState) : Ev → EvOut × PState
  | .arrive hold get =>
    ((pstep0 c s (.arrive hold get)).1,
      addInfo hold (c.retries - (attempt c hold get c.retries .none s).1.length, get) (pstep0 c s (.arrive hold get)).2)
  | .fail k =>
    match s.held[k]?, s.info[k]? with
    | some (some i), some (left, get) =>
      if tryAgain left .other (retryable c get) then
        (.late (some i :: (attempt c false get (left - 1) .other (afterLateFail c s k i)).1)
            (attempt c false get (left - 1) .other (afterLateFail c s k i)).2.1,
          (attempt c false get (left - 1) .other (afterLateFail c s k i)).2.2)
      else (.late [some i] (.status 502), afterLateFail c s k i)
    | _, _ => (.idle, s)
  | e => pstep0 c s e

def prun (c : PCfg) : PState → List Ev → List EvOut × PState
  | s, [] => ([], s)
  | s, e :: es => ((pstep c s e).1 :: (prun c (pstep c s e).2 es).1, (prun c (pstep c s e).2 es).2)

def pinit (p : Policy) (c : PCfg) (ds : List Nat) : PState :=
  ⟨p, c.ups.map (fun _ => 0), c.ups.map (fun _ => 0), [], ds, if c.cb then some true else none, []⟩

/-! ### active health checks: when the `healthy` flag flips
(healthchecks.go `doActiveHealthCheck`: `markHealthy` / `markUnhealthy`; `Provision`: `passes` and
`fails` below 1 mean 1). Every check counts a pass or a fail; the flag flips when the counter has
reached its threshold, and only a flip resets the counters (`resetHealth`) — a result of the other
kind does not. -/

structure AhState where
  healthy : Bool
  passes : Nat     -- `Host.activePasses`
  fails : Nat      -- `Host.activeFails`
deriving DecidableEq, Repr

/-- one active health check with result `ok`; `p`, `f` = the provisioned `Passes`, `Fails` -/
def ahStep (p f : Nat) (s : AhState) (ok : Bool) : AhState :=
  if ok then
    -- markHealthy: countHealthPass(1); passes >= Passes && setHealthy(true) changed something → resetHealth
    if p ≤ s.passes + 1 ∧ s.healthy = false then ⟨true, 0, 0⟩ else { s with passes := s.passes + 1 }
  else
    -- markUnhealthy: countHealthFail(1); fails >= Fails && setHealthy(false) changed something → resetHealth
    if f ≤ s.fails + 1 ∧ s.healthy = true then ⟨false, 0, 0⟩ else { s with fails := s.fails + 1 }

/-- the states after each check of a sequence of results, from a state -/
def ahRun (p f : Nat) : AhState → List Bool → List AhState
  | _, [] => []
  | s, r :: rs => ahStep p f s r :: ahRun p f (ahStep p f s r) rs

/-- a new upstream: healthy, nothing counted -/
def ahInit : AhState := ⟨true, 0, 0⟩

/-- `Provision`: thresholds below 1 are 1 -/
def ahThreshold (n : Nat) : Nat := if n < 1 then 1 else n

/-! ### dial addresses with placeholders: `fillDialInfo` after `Select`
(hosts.go `Upstream.fillDialInfo`, reverseproxy.go `proxyLoopIteration`: `dialInfo, err :=
upstream.fillDialInfo(repl); if err != nil { return true, … }`). The dial address of an upstream may
carry placeholders; they are filled in per request, *after* the upstream has been selected, and
the result must parse as a network address that stands for exactly one socket. If it does not, the
iteration returns `done = true`: the request ends there (502 through `statusError`) — no round
trip, no `countRequest`, no `countFailure`, no `tryAgain`, whatever `lb_retries` says; the policy
has been called, so its counter and the draws have moved. `unf` = the positions of the upstreams
whose dial address cannot be filled in for the request at hand. -/

/-- how a request ends when dial addresses may be unfillable -/
inductive DFin where
  | fin (f : Final)
  | dialInfo (i : Nat)   -- `making dial info: …` for the selected upstream i
deriving DecidableEq, Repr

/-- the state after an iteration that ended in `fillDialInfo`: only `Select` has run (and, with
    dynamic upstreams, the deferred `hosts.Delete`) -/
def afterDialInfo (c : PCfg) (s : PState) : PState :=
  { afterSel c s with fails := dropFails c s.held s.fails }

/-- the proxy loop for one request (not held at the backend) -/
def attemptD (c : PCfg) (unf : List Nat) (get : Bool) : Nat → PErr → PState → List (Option Nat) × DFin × PState
  | 0, prev, s =>
    match selRes c s with
    | .none => ([none], .fin (.status (statusOf (carried prev))), afterSel c s)
    | .sel i =>
      if unf.contains i then ([], .dialInfo i, afterDialInfo c s)
      else if badAt c.ups i = 0 then ([], .fin (.sent i), afterSent c false s i)
      else ([some i], .fin (.status 502), afterFail c s i)
    | .starved => ([], .fin .starved, s)
    | _ => ([], .fin .crashed, s)
  | left + 1, prev, s =>
    match selRes c s with
    | .none =>
      if tryAgain (left + 1) (carried prev) (retryable c get) then
        (none :: (attemptD c unf get left (carried prev) (afterSel c s)).1,
          (attemptD c unf get left (carried prev) (afterSel c s)).2)
      else ([none], .fin (.status (statusOf (carried prev))), afterSel c s)
    | .sel i =>
      if unf.contains i then ([], .dialInfo i, afterDialInfo c s)
      else if badAt c.ups i = 0 then ([], .fin (.sent i), afterSent c false s i)
      else if tryAgain (left + 1) (errAt c i) (retryable c get) then
        (some i :: (attemptD c unf get left (errAt c i) (afterFail c s i)).1,
          (attemptD c unf get left (errAt c i) (afterFail c s i)).2)
      else ([some i], .fin (.status 502), afterFail c s i)
    | .starved => ([], .fin .starved, s)
    | _ => ([], .fin .crashed, s)

/-- a sequence of requests, each with its own set of unfillable dial addresses -/
def drun (c : PCfg) : PState → List (Bool × List Nat) → List (List (Option Nat) × DFin) × PState
  | s, [] => ([], s)
  | s, (get, unf) :: rs =>
    (((attemptD c unf get c.retries .none s).1, (attemptD c unf get c.retries .none s).2.1)
        :: (drun c (attemptD c unf get c.retries .none s).2.2 rs).1,
      (drun c (attemptD c unf get c.retries .none s).2.2 rs).2)

end CaddyModel.C08
