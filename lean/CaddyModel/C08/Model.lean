/-
C08 — executable model of the built-in load-balancing selection policies
(modules/caddyhttp/reverseproxy/selectionpolicies.go) and of `Upstream.Available`
(hosts.go:71-92), as the code is NOW (quirks included).

* Everything the Go code leaves to `math/rand` is an explicit list of raw draws
  (`Int63()` values) consumed left to right: `weakrand.Int() % n` is `d % n`,
  `weakrand.Intn(n)` is `intn` below (Go's `Int31n`, rejection loop included).
  Running out of draws is the explicit outcome `starved` (a model artefact, the Go
  source never runs dry).
* `hash(up.String() + key)` (xxhash) and `hashCookie(secret, up.Dial)` (HMAC) are
  abstract: every upstream record carries `h`, the hash of its dial address with the
  request's effective key, and `id`, its dial identity (two upstreams have the same
  cookie token iff they have the same `id`).
* Go panics (index out of range, nil pointer dereference) are explicit outcomes.
* The request-derived facts a policy looks at sit in the policy term itself:
  `keyed present fb` (header / query: is the key present and non-empty?),
  `cookie c fb` (does the request carry the cookie of dial `c`?).
Structural recursion only; the loops recurse over the pool (or the loop bound).
-/
namespace CaddyModel.C08

/-- one upstream as `Select` sees it -/
structure Up where
  id : Nat                 -- dial identity
  healthy : Bool           -- active health flag (`Upstream.unhealthy == 0`)
  fails : Nat              -- `Host.Fails()`
  maxFails : Option Nat    -- passive health policy present ⇒ `Fails() < MaxFails`
  cb : Option Bool         -- circuit breaker present ⇒ `cb.OK()`
  load : Nat               -- `Host.NumRequests()`
  maxReq : Nat             -- `MaxRequests` (0 = unlimited)
  h : Nat                  -- `hash(dial ++ key)` for the request's effective key
deriving DecidableEq, Repr

/-- `Upstream.Healthy` (hosts.go:77-86) -/
def Up.isHealthy (u : Up) : Bool :=
  u.healthy
    && (match u.maxFails with | none => true | some m => decide (u.fails < m))
    && (match u.cb with | none => true | some ok => ok)

/-- `Upstream.Full` (hosts.go:90-92) -/
def Up.full (u : Up) : Bool := decide (0 < u.maxReq) && decide (u.maxReq ≤ u.load)

/-- `Upstream.Available` (hosts.go:71-73) -/
def Up.avail (u : Up) : Bool := u.isHealthy && !u.full

abbrev Pool := List Up

/-- what one `Select` call does -/
inductive Res where
  | none                -- returned nil
  | sel (i : Nat)       -- returned `pool[i]`
  | panicIdx            -- Go: index out of range
  | panicNil            -- Go: nil pointer dereference (`http.SetCookie` on a nil ResponseWriter)
  | starved             -- model artefact: the draw list was too short
deriving DecidableEq, Repr

/-- uint32 wrap-around of the round-robin counters -/
def u32 : Nat := 4294967296

def inc32 (c : Nat) : Nat := (c + 1) % u32

/-! ### math/rand -/

/-- `Int31()` of a raw `Int63()` value -/
def int31 (r : Nat) : Nat := r / 4294967296

/-- largest accepted `Int31()` value in `Int31n(n)` -/
def intnMax (n : Nat) : Nat := 2147483647 - 2147483648 % n

/-- `weakrand.Intn(n)` for `0 < n ≤ 2^31-1`: draws until a value is accepted -/
def intn (n : Nat) : List Nat → Option (Nat × List Nat)
  | [] => none
  | r :: rest => if intnMax n < int31 r then intn n rest else some (int31 r % n, rest)

/-! ### first (selectionpolicies.go:365-372) -/

def firstGo : Pool → Nat → Res
  | [], _ => .none
  | u :: rest, i => if u.avail then .sel i else firstGo rest (i + 1)

def selFirst (pool : Pool) : Res := firstGo pool 0

/-! ### round_robin (selectionpolicies.go:328-341) -/

/-- the `for i < n` loop: `fuel` is the number of iterations left, `c` the counter -/
def rrGo (pool : Pool) : Nat → Nat → Res × Nat
  | 0, c => (.none, c)
  | fuel + 1, c =>
    match pool[inc32 c % pool.length]? with
    | some u => if u.avail then (.sel (inc32 c % pool.length), inc32 c) else rrGo pool fuel (inc32 c)
    | none => (.panicIdx, inc32 c)

def selRR (pool : Pool) (c : Nat) : Res × Nat :=
  if pool.length = 0 then (.none, c) else rrGo pool pool.length c

/-! ### weighted_round_robin (selectionpolicies.go:131-182) -/

/-- the loop that finds the owner of position `cw` in the cycle of configured weights (`owner`
    keeps its zero value if the loop ends without a hit) -/
def wrrIndexGo : List Nat → Nat → Nat → Nat → Nat
  | [], _, _, _ => 0
  | w :: ws, i, tot, cw => if cw < tot + w then i else wrrIndexGo ws (i + 1) (tot + w) cw

/-- `weights[i] > 0 && pool[i].Available()` -/
def wrrUsable (ws : List Nat) (pool : Pool) (i : Nat) : Bool :=
  match pool[i]?, ws[i]? with
  | some u, some w => decide (0 < w) && u.avail
  | _, _ => false

/-- the loop `for k < n`: the first usable position among owner, owner+1, … (cyclically over
    the weight list); `fuel` is the number of iterations left -/
def wrrScan (ws : List Nat) (pool : Pool) (owner : Nat) : Nat → Nat → Res
  | 0, _ => .none
  | fuel + 1, k =>
    if wrrUsable ws pool ((owner + k) % ws.length) then .sel ((owner + k) % ws.length)
    else wrrScan ws pool owner fuel (k + 1)

/-- the weights that take part: those of upstreams that are in the pool -/
def wrrEff (ws : List Nat) (pool : Pool) : List Nat := ws.take pool.length

/-- `ws` = configured weights (`totalWeight` from `Provision` is `ws.sum`) -/
def selWRR (ws : List Nat) (pool : Pool) (c : Nat) : Res × Nat :=
  if pool.length = 0 then (.none, c)
  else if ws.length < 2 then (selFirst pool, c)
  else if (wrrEff ws pool).sum = 0 then (.none, c)
  else (wrrScan (wrrEff ws pool) pool (wrrIndexGo (wrrEff ws pool) 0 0 (inc32 c % (wrrEff ws pool).sum))
          (wrrEff ws pool).length 0, inc32 c)

/-! ### random (selectRandomHost, selectionpolicies.go:796-814) -/

def rndGo : Pool → Nat → Res → Nat → List Nat → Res × List Nat
  | [], _, best, _, ds => (best, ds)
  | u :: rest, i, best, count, ds =>
    if u.avail then
      match ds with
      | [] => (.starved, [])
      | d :: ds' =>
        if d % (count + 1) = 0 then rndGo rest (i + 1) (.sel i) (count + 1) ds'
        else rndGo rest (i + 1) best (count + 1) ds'
    else rndGo rest (i + 1) best count ds

def selRandom (pool : Pool) (ds : List Nat) : Res × List Nat := rndGo pool 0 .none 0 ds

/-! ### least_conn (selectionpolicies.go:276-302) -/

/-- `leastReqs == -1 || numReqs < leastReqs` -/
def lcReset (load : Nat) : Option Nat → Bool
  | none => true
  | some l => decide (load < l)

def lcLeast (load : Nat) (least : Option Nat) : Option Nat := if lcReset load least then some load else least

def lcCount (load : Nat) (least : Option Nat) (count : Nat) : Nat := if lcReset load least then 0 else count

def lcGo : Pool → Nat → Res → Nat → Option Nat → List Nat → Res × List Nat
  | [], _, best, _, _, ds => (best, ds)
  | u :: rest, i, best, count, least, ds =>
    if u.avail then
      if lcLeast u.load least = some u.load then
        if lcCount u.load least count + 1 = 1 then
          lcGo rest (i + 1) (.sel i) (lcCount u.load least count + 1) (lcLeast u.load least) ds
        else match ds with
          | [] => (.starved, [])
          | d :: ds' =>
            if d % (lcCount u.load least count + 1) = 0 then
              lcGo rest (i + 1) (.sel i) (lcCount u.load least count + 1) (lcLeast u.load least) ds'
            else lcGo rest (i + 1) best (lcCount u.load least count + 1) (lcLeast u.load least) ds'
      else lcGo rest (i + 1) best (lcCount u.load least count) (lcLeast u.load least) ds
    else lcGo rest (i + 1) best count least ds

def selLeastConn (pool : Pool) (ds : List Nat) : Res × List Nat := lcGo pool 0 .none 0 none ds

/-! ### random_choose (selectionpolicies.go:228-252) and leastRequests (821-854) -/

/-- a reservoir entry: pool index and the load of that upstream -/
abbrev Cand := Nat × Nat

/-- the reservoir loop; `none` = starved -/
def rcGo (k : Nat) : Pool → Nat → List Cand → Nat → List Nat → Option (List Cand × List Nat)
  | [], _, ch, _, ds => some (ch, ds)
  | u :: rest, i, ch, seen, ds =>
    if u.avail then
      if ch.length < k then rcGo k rest (i + 1) (ch ++ [(i, u.load)]) (seen + 1) ds
      else match intn (seen + 1) ds with
        | none => none
        | some (j, ds') =>
          if j < k then rcGo k rest (i + 1) (ch.set j (i, u.load)) (seen + 1) ds'
          else rcGo k rest (i + 1) ch (seen + 1) ds'
    else rcGo k rest (i + 1) ch seen ds

/-- `reqs < bestReqs || bestReqs == -1` -/
def lrReset (l : Nat) : Option Nat → Bool
  | none => true
  | some b => decide (l < b)

/-- the loop of leastRequests: `inl i` = early return of a candidate without requests,
    `inr best` = the candidates with the least number of requests -/
def lrGo : List Cand → List Nat → Option Nat → Sum Nat (List Nat)
  | [], best, _ => .inr best
  | (i, l) :: rest, best, br =>
    if l = 0 then .inl i
    else if lrReset l br then lrGo rest [i] (some l)
    else if br = some l then lrGo rest (best ++ [i]) br
    else lrGo rest best br

def lrPick (best : List Nat) (ds : List Nat) : Res × List Nat :=
  match best with
  | [] => (.none, ds)
  | [i] => (.sel i, ds)
  | _ => match intn best.length ds with
    | none => (.starved, [])
    | some (j, ds') => match best[j]? with
      | some i => (.sel i, ds')
      | none => (.panicIdx, ds')

def leastRequests (ch : List Cand) (ds : List Nat) : Res × List Nat :=
  if ch.length = 0 then (.none, ds)
  else match lrGo ch [] none with
    | .inl i => (.sel i, ds)
    | .inr best => lrPick best ds

/-- `k` = the provisioned `Choose` -/
def selRandomChoose (k : Nat) (pool : Pool) (ds : List Nat) : Res × List Nat :=
  match rcGo (min k pool.length) pool 0 [] 0 ds with
  | none => (.starved, [])
  | some (ch, ds') => leastRequests ch ds'

/-! ### hostByHashing (selectionpolicies.go:857-876) -/

def hashGo : Pool → Nat → Nat → Res → Res
  | [], _, _, best => best
  | u :: rest, i, hi, best =>
    if u.avail && decide (hi < u.h) then hashGo rest (i + 1) u.h (.sel i) else hashGo rest (i + 1) hi best

def selHash (pool : Pool) : Res := hashGo pool 0 0 .none

/-! ### cookie (selectionpolicies.go:672-724): the loop looking for the cookie's upstream -/

def cookieGo (c : Nat) : Pool → Nat → Option Nat
  | [], _ => none
  | u :: rest, i => if u.avail && u.id = c then some i else cookieGo c rest (i + 1)

/-! ### policies -/

/-- a provisioned policy as one request sees it -/
inductive Policy where
  | first
  | rr (c : Nat)                          -- c = RoundRobinSelection.robin
  | wrr (ws : List Nat) (c : Nat)         -- c = WeightedRoundRobinSelection.index
  | leastConn
  | random
  | randomChoose (k : Nat)
  | hash                                  -- ip_hash / client_ip_hash / uri_hash
  | keyed (present : Bool) (fb : Policy)  -- header / query
  | cookie (c : Option Nat) (fb : Policy) -- c = dial identity whose token the request's cookie carries
deriving DecidableEq, Repr

/-- result of one `Select`: what was returned, the Set-Cookie tokens written (dial
    identities), the policy with its counters advanced, the draws left -/
structure Out where
  res : Res
  cookies : List Nat
  pol : Policy
  draws : List Nat
deriving DecidableEq, Repr

/-- `selectNewHost` (selectionpolicies.go:675-704) after the fallback returned `r`:
    `http.SetCookie(w, …)` dereferences `w`; `w = false` models a caller handing `Select` a nil
    ResponseWriter (the proxy handler never does; header / query policies pass their own `w`
    on to the fallback since 4a929dc) -/
def cookieRes (w : Bool) : Res → Res
  | .sel i => if w then .sel i else .panicNil
  | r => r

/-- the token written by `selectNewHost` -/
def cookieOf (w : Bool) (pool : Pool) : Res → List Nat
  | .sel i => match pool[i]? with
    | some u => if w then [u.id] else []
    | none => []
  | _ => []

/-- `w`: is the ResponseWriter handed to `Select` non-nil? -/
def select : Bool → Policy → Pool → List Nat → Out
  | _, .first, pool, ds => ⟨selFirst pool, [], .first, ds⟩
  | _, .rr c, pool, ds => ⟨(selRR pool c).1, [], .rr (selRR pool c).2, ds⟩
  | _, .wrr ws c, pool, ds => ⟨(selWRR ws pool c).1, [], .wrr ws (selWRR ws pool c).2, ds⟩
  | _, .leastConn, pool, ds => ⟨(selLeastConn pool ds).1, [], .leastConn, (selLeastConn pool ds).2⟩
  | _, .random, pool, ds => ⟨(selRandom pool ds).1, [], .random, (selRandom pool ds).2⟩
  | _, .randomChoose k, pool, ds => ⟨(selRandomChoose k pool ds).1, [], .randomChoose k, (selRandomChoose k pool ds).2⟩
  | _, .hash, pool, ds => ⟨selHash pool, [], .hash, ds⟩
  | _, .keyed true fb, pool, ds => ⟨selHash pool, [], .keyed true fb, ds⟩
  | w, .keyed false fb, pool, ds =>
    -- `s.fallback.Select(pool, req, w)`
    ⟨(select w fb pool ds).res, (select w fb pool ds).cookies, .keyed false (select w fb pool ds).pol,
      (select w fb pool ds).draws⟩
  | w, .cookie none fb, pool, ds =>
    ⟨cookieRes w (select w fb pool ds).res, (select w fb pool ds).cookies ++ cookieOf w pool (select w fb pool ds).res,
      .cookie none (select w fb pool ds).pol, (select w fb pool ds).draws⟩
  | w, .cookie (some c) fb, pool, ds =>
    match cookieGo c pool 0 with
    | some i => ⟨.sel i, [], .cookie (some c) fb, ds⟩
    | none =>
      ⟨cookieRes w (select w fb pool ds).res, (select w fb pool ds).cookies ++ cookieOf w pool (select w fb pool ds).res,
        .cookie (some c) (select w fb pool ds).pol, (select w fb pool ds).draws⟩

/-- `n` selections in a row on the same pool, as the proxy handler calls them (non-nil
    ResponseWriter); counters and draws carried along -/
def run : Nat → Policy → Pool → List Nat → List (Res × List Nat) × Policy
  | 0, p, _, _ => ([], p)
  | n + 1, p, pool, ds =>
    (((select true p pool ds).res, (select true p pool ds).cookies)
        :: (run n (select true p pool ds).pol pool (select true p pool ds).draws).1,
      (run n (select true p pool ds).pol pool (select true p pool ds).draws).2)

/-! ### provisioning (RandomChoiceSelection.Provision / Validate) -/

/-- `none` = the config is rejected -/
def provision : Policy → Option Policy
  | .randomChoose k => if k = 0 then some (.randomChoose 2) else if k < 2 then none else some (.randomChoose k)
  | .keyed b fb => (provision fb).map (.keyed b)
  | .cookie c fb => (provision fb).map (.cookie c)
  | p => some p

/-! ### the proxy loop around `Select` (reverseproxy.go, proxyLoopIteration / reverseProxy)

One handler, one list of upstream addresses (static, or handed out afresh by a dynamic upstream
source for every request: the upstream values are new each time, but `fillHost` ties them to the
shared per-address `Host` in the global pool, which a request keeps referenced until its loop
iteration ends). The only state besides the policy is the number of requests in flight per
address: `countRequest(+1)` after a successful `Select`, `countRequest(-1)` when the round trip is
over. Requests overlap only through requests that are *held* at the backend. No retries
(`try_duration` = `retries` = 0): a nil selection is answered with 503. -/

/-- the pool `Select` sees: address `ids[i]` with `loads[i]` requests in flight and the limit `m`
    (`unhealthy_request_count`, copied to `MaxRequests` by `provisionUpstream`; with it comes the
    passive policy, `MaxFails` defaulted to 1, no failures recorded) -/
def mkPool (m : Nat) : List Nat → List Nat → Pool
  | id :: ids, l :: ls => ⟨id, true, 0, if m = 0 then none else some 1, none, l, m, 0⟩ :: mkPool m ids ls
  | _, _ => []

def incAt : List Nat → Nat → List Nat
  | [], _ => []
  | l :: ls, 0 => (l + 1) :: ls
  | l :: ls, i + 1 => l :: incAt ls i

def decAt : List Nat → Nat → List Nat
  | [], _ => []
  | l :: ls, 0 => (l - 1) :: ls
  | l :: ls, i + 1 => l :: decAt ls i

/-- a client-side event -/
inductive Ev where
  | hold            -- a request arrives and stays in flight at the backend
  | quick           -- a request arrives and completes
  | fin (k : Nat)   -- the backend answers the k-th held request
deriving DecidableEq, Repr

/-- what the client of an event sees -/
inductive EvOut where
  | sent (i : Nat)  -- proxied to address number i
  | refused         -- 503, no upstreams available
  | crashed         -- Select panicked
  | starved
  | done            -- a held request completed
  | idle            -- that request was not in flight (it had been refused, or completed before)
deriving DecidableEq, Repr

structure PState where
  pol : Policy
  loads : List Nat            -- requests in flight per address
  held : List (Option Nat)    -- per `hold` event so far: the address it is in flight on
  draws : List Nat
deriving DecidableEq, Repr

def outOf : Res → EvOut
  | .sel i => .sent i
  | .none => .refused
  | .starved => .starved
  | _ => .crashed

def selIdx : Res → Option Nat
  | .sel i => some i
  | _ => none

def setNone : List (Option Nat) → Nat → List (Option Nat)
  | [], _ => []
  | _ :: hs, 0 => none :: hs
  | h :: hs, k + 1 => h :: setNone hs k

/-- one event on a handler with limit `m` and addresses `ids` -/
def pstep (m : Nat) (ids : List Nat) (s : PState) : Ev → EvOut × PState
  | .quick =>
    (outOf (select true s.pol (mkPool m ids s.loads) s.draws).res,
      { s with pol := (select true s.pol (mkPool m ids s.loads) s.draws).pol,
               draws := (select true s.pol (mkPool m ids s.loads) s.draws).draws })
  | .hold =>
    (outOf (select true s.pol (mkPool m ids s.loads) s.draws).res,
      { pol := (select true s.pol (mkPool m ids s.loads) s.draws).pol,
        draws := (select true s.pol (mkPool m ids s.loads) s.draws).draws,
        loads := match selIdx (select true s.pol (mkPool m ids s.loads) s.draws).res with
          | some i => incAt s.loads i
          | none => s.loads,
        held := s.held ++ [selIdx (select true s.pol (mkPool m ids s.loads) s.draws).res] })
  | .fin k =>
    match s.held[k]? with
    | some (some i) => (.done, { s with loads := decAt s.loads i, held := setNone s.held k })
    | _ => (.idle, s)

def prun (m : Nat) (ids : List Nat) : PState → List Ev → List EvOut × PState
  | s, [] => ([], s)
  | s, e :: es => ((pstep m ids s e).1 :: (prun m ids (pstep m ids s e).2 es).1, (prun m ids (pstep m ids s e).2 es).2)

def pinit (p : Policy) (ids : List Nat) (ds : List Nat) : PState := ⟨p, ids.map (fun _ => 0), [], ds⟩

end CaddyModel.C08
