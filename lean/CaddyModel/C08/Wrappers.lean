/-
C08 — the other producers of a reverse_proxy handler in a Caddyfile: `forward_auth`
(reverseproxy/forwardauth/caddyfile.go `parseCaddyfile`) and `php_fastcgi`
(reverseproxy/fastcgi/caddyfile.go `parsePHPFastCGI`). Both walk over the tokens of their segment
(`for dispenser.Next() { for dispenser.NextBlock(0) { if dispenser.Nesting() != 1 { continue } … } }`),
take out the subdirectives that are their own (`DeleteN`), reset the dispenser and hand what is left
to `reverseproxy.Handler.UnmarshalCaddyfile` — the load-balancing and health-check options of the
handler they build are whatever that parser makes of the remaining tokens (Caddyfile.lean
`parseReverseProxy`); neither wrapper sets a selection policy, retries or health checks of its own.

The segment is modelled line by line (a *laid-out* segment: the directive line ends in `{` if there
is a block, every `}` stands alone on its line, a `{` only ends a line, line numbers increase): the
wrapper's loop then looks at the first token of each line directly inside the block (nesting 1).
Core Lean only.
-/
import CaddyModel.C08.Caddyfile

namespace CaddyModel.C08

inductive WKind where
  | rp | fa | php
deriving DecidableEq, Repr

/-- consecutive tokens with the same line number -/
def groupLines : List Tok → List (List Tok)
  | [] => []
  | t :: ts =>
    match groupLines ts with
    | (u :: us) :: rest => if u.line = t.line then (t :: u :: us) :: rest else [t] :: (u :: us) :: rest
    | _ => [[t]]

def lineNo : List Tok → Nat
  | [] => 0
  | t :: _ => t.line

def isClose (l : List Tok) : Bool := l.map (·.text) == [rbrace]

def endsOpen (l : List Tok) : Bool :=
  match l.getLast? with
  | some t => t.text == lbrace
  | none => false

def isBrace (t : Tok) : Bool := t.text == lbrace || t.text == rbrace

/-- braces only where the layout wants them: at most a `{` at the very end, or the line is `}` -/
def lineOK (l : List Tok) : Bool :=
  isClose l || (!l.isEmpty && (l.dropLast.all (fun t => !isBrace t)) &&
    (match l.getLast? with | some t => t.text != rbrace | none => false) && l != [⟨lbrace, lineNo l⟩])

/-- the body of a block opened at nesting `n`: lines up to the `}` that brings the nesting back
    to 0 — which must be the last line -/
def bodyOK : Nat → List (List Tok) → Bool
  | _, [] => false
  | n, l :: rest =>
    lineOK l &&
    (if isClose l then
      (if n = 1 then rest.isEmpty else bodyOK (n - 1) rest)
     else if endsOpen l then decide (n < 6) && bodyOK (n + 1) rest
     else bodyOK n rest)

def increasing : List Nat → Bool
  | a :: b :: rest => decide (a < b) && increasing (b :: rest)
  | _ => true

/-- a laid-out segment -/
def laidOut (toks : List Tok) : Bool :=
  match groupLines toks with
  | [] => false
  | head :: body =>
    lineOK head && !isClose head && increasing ((head :: body).map lineNo) &&
    (if endsOpen head then decide (2 ≤ head.length) && bodyOK 1 body else body.isEmpty)

/-- what a wrapper does with a line directly inside its block whose first token is `name`, `n` =
    number of tokens on the line: `none` = not one of its subdirectives (left for reverse_proxy);
    `some none` = error; `some (some k)` = the first `k` tokens are deleted.
    `hdr` = `copy_headers` has named a header already -/
def ownRule (k : WKind) (dur : Bytes → Option Int) (hdr : Bool) (l : List Tok) : Option (Option Nat) :=
  match k, l with
  | .rp, _ => none
  | _, [] => none
  | .fa, name :: args =>
    if name.text = str "uri" then (if args.isEmpty then some none else some (some 2))
    else if name.text = str "copy_headers" then (if args.isEmpty && !hdr then some none else some (some l.length))
    else none
  | .php, name :: args =>
    if name.text = str "root" then (if args.isEmpty then some none else some (some 2))
    else if name.text = str "split" then (if args.isEmpty then some none else some (some l.length))
    else if name.text = str "env" then (if args.length = 2 then some (some l.length) else some none)
    else if name.text = str "index" then (if args.length = 1 then some (some l.length) else some none)
    else if name.text = str "try_files" then (if args.isEmpty then some none else some (some l.length))
    else if name.text = str "resolve_root_symlink" || name.text = str "capture_stderr" then some (some l.length)
    else if name.text = str "dial_timeout" || name.text = str "read_timeout" || name.text = str "write_timeout" then
      (match args with
       | [] => some none
       | a :: _ => if (dur a.text).isSome then some (some 2) else some none)
    else none

/-- the wrapper's walk over the block: the lines that are left (in order), whether `uri` was seen;
    `none` = the wrapper returns an error -/
def stripBody (k : WKind) (dur : Bytes → Option Int) : Nat → Bool → Bool → List (List Tok) → Option (List (List Tok) × Bool)
  | _, _, uri, [] => some ([], uri)
  | n, hdr, uri, l :: rest =>
    if isClose l then (stripBody k dur (n - 1) hdr uri rest).map (fun x => (l :: x.1, x.2))
    else if n = 1 then
      match ownRule k dur hdr l with
      | some none => none
      | some (some d) =>
        (stripBody k dur n (hdr || decide ((l.map (·.text)).head? = some (str "copy_headers") ∧ 2 ≤ l.length))
            (uri || decide ((l.map (·.text)).head? = some (str "uri"))) rest).map
          (fun x => (if (l.drop d).isEmpty then x.1 else l.drop d :: x.1, x.2))
      | none => (stripBody k dur (if endsOpen l then n + 1 else n) hdr uri rest).map (fun x => (l :: x.1, x.2))
    else (stripBody k dur (if endsOpen l then n + 1 else n) hdr uri rest).map (fun x => (l :: x.1, x.2))

/-- the tokens handed to `Handler.UnmarshalCaddyfile`; `none` = the wrapper itself refuses -/
def wrapperTokens (k : WKind) (dur : Bytes → Option Int) (toks : List Tok) : Option (List Tok) :=
  match groupLines toks with
  | [] => none
  | head :: body =>
    match stripBody k dur 1 false false body with
    | none => none
    | some (ls, uri) => if k = .fa && !uri then none else some (head ++ ls.flatten)

/-- the handler a `reverse_proxy` / `forward_auth` / `php_fastcgi` directive builds, as far as load
    balancing and passive health checks go -/
def parseWrapper (k : WKind) (dur : Bytes → Option Int) (addr : Bytes → Option (List Bytes)) (toks : List Tok) : Lr RpCfg :=
  match wrapperTokens k dur toks with
  | some ts => parseReverseProxy dur addr ts
  | none => .err

/-- the names a wrapper takes out of the block -/
def ownNames : WKind → List Bytes
  | .rp => []
  | .fa => [str "uri", str "copy_headers"]
  | .php => [str "root", str "split", str "env", str "index", str "try_files", str "resolve_root_symlink",
      str "capture_stderr", str "dial_timeout", str "read_timeout", str "write_timeout"]

/-- no line that starts with one of the wrapper's own names opens a block (`copy_headers { … }` is
    outside this model) -/
def ownFlat (k : WKind) (toks : List Tok) : Bool :=
  (groupLines toks).all fun l =>
    match l with
    | t :: _ => !((ownNames k).contains t.text && endsOpen l)
    | [] => true

/-- letters, digits and `_ . : -` only (no quoting, no placeholders, no matcher tokens), not `import` -/
def plainByte (b : UInt8) : Bool :=
  (48 ≤ b && b ≤ 57) || (65 ≤ b && b ≤ 90) || (97 ≤ b && b ≤ 122) || b = 95 || b = 46 || b = 58 || b = 45

def plainTok (t : Tok) : Bool := isBrace t || (!t.text.isEmpty && t.text.all plainByte && t.text != str "import")

def wrapperCaseOK (k : WKind) (toks : List Tok) : Bool :=
  toks.all plainTok && laidOut toks && ownFlat k toks &&
  (match toks with
   | t :: _ => t.text == (match k with | .rp => str "reverse_proxy" | .fa => str "forward_auth" | .php => str "php_fastcgi")
   | [] => false)

end CaddyModel.C08
