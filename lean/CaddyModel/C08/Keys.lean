/-
C08 — what the hash / header / query / cookie policies take from the request
(selectionpolicies.go: IPHashSelection / ClientIPHashSelection / URIHashSelection /
HeaderHashSelection / QueryHashSelection / CookieHashSelection .Select, the lines before
`hostByHashing` resp. the cookie loop). The Go standard-library glue (`net.SplitHostPort`,
`http.Header.Get` with `CanonicalMIMEHeaderKey`) is C10's byte-level transliteration;
`url.Values` (the parsed query, pairs in URL order) and `req.Cookies()` (name/value pairs in
header order) are inputs. Core Lean only.
-/
import CaddyModel.C10.Glue
import CaddyModel.C08.Model

namespace CaddyModel.C08

open CaddyModel.C10 (splitHostPort hValues joinWith Header)

/-- the parts of an `http.Request` the policies look at -/
structure KReq where
  remoteAddr : Bytes            -- req.RemoteAddr
  clientIP : Bytes              -- GetVar(ClientIPVarKey): the client address C10 determined
  uri : Bytes                   -- req.RequestURI
  host : Bytes                  -- req.Host
  header : Header               -- req.Header
  query : List (Bytes × Bytes)  -- req.URL.Query(): (key, value) in URL order
  cookies : List (Bytes × Bytes) -- req.Cookies(): (name, value) in header order
deriving DecidableEq, Repr

/-- which policy asks -/
inductive KeySrc where
  | ipHash
  | clientIpHash
  | uriHash
  | header (field : Bytes)
  | query (key : Bytes)
deriving DecidableEq, Repr

/-- `host, _, err := net.SplitHostPort(a); if err != nil { host = a }` -/
def hostOnly (a : Bytes) : Bytes :=
  match splitHostPort a with
  | some (h, _) => h
  | none => a

/-- `http.Header.Get`: the first value under the canonical key, "" if there is none -/
def headerGet (h : Header) (field : Bytes) : Bytes :=
  match hValues h field with
  | v :: _ => v
  | [] => []

def hostField : Bytes := [72, 111, 115, 116]   -- "Host"

/-- `req.URL.Query()[key]` -/
def queryValues (q : List (Bytes × Bytes)) (key : Bytes) : List Bytes := (q.filter (fun kv => kv.1 = key)).map (·.2)

/-- the string handed to `hostByHashing`; `none` = the policy hands over to its fallback -/
def hashKey : KeySrc → KReq → Option Bytes
  | .ipHash, r => some (hostOnly r.remoteAddr)
  | .clientIpHash, r => some (hostOnly r.clientIP)
  | .uriHash, r => some r.uri
  | .header field, r =>
    if field = hostField ∧ r.host ≠ [] then some r.host
    else if headerGet r.header field = [] then none
    else some (headerGet r.header field)
  | .query key, r =>
    if joinWith [44] (queryValues r.query key) = [] then none
    else some (joinWith [44] (queryValues r.query key))

/-- `req.Cookie(name)`: the value of the first cookie with that name -/
def cookieValue (name : Bytes) : List (Bytes × Bytes) → Option Bytes
  | [] => none
  | (n, v) :: rest => if n = name then some v else cookieValue name rest

/-! ### the sticky cookie written by `selectNewHost` (selectionpolicies.go:675-704) -/

/-- the attributes that decide whether a browser sends the cookie back -/
structure CkAttrs where
  secure : Bool
  sameSiteNone : Bool
  maxAge : Int        -- seconds, 0 = no Max-Age attribute
deriving DecidableEq, Repr

def httpsBytes : Bytes := [104, 116, 116, 112, 115]   -- "https"

/-- `lastHeaderValue(req.Header, "X-Forwarded-Proto")` = "https", consulted only for a trusted proxy -/
def proxyHttps (trusted : Bool) (xfp : List Bytes) : Bool := trusted && (xfp.getLast? == some httpsBytes)

/-- `tls`: `req.TLS != nil`; `trusted`: the `trusted_proxy` var (C10); `xfp`: the values of
    X-Forwarded-Proto in header order; `maxAgeNs`: the configured `max_age` in nanoseconds -/
def stickyAttrs (tls trusted : Bool) (xfp : List Bytes) (maxAgeNs : Int) : CkAttrs :=
  ⟨tls || proxyHttps trusted xfp, tls || proxyHttps trusted xfp,
    if 0 < maxAgeNs then maxAgeNs / 1000000000 else 0⟩

end CaddyModel.C08
