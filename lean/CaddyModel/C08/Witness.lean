/-
C08 — proved counter-examples: clauses of the property the unchanged tree violates.
Each `…_full_fails` refutes the full-strength statement kept in the comment of the matching
`…_partial` theorem in Props.lean; `witnessLines` are the same inputs as protocol lines,
replayed on the real code on every run (they must keep failing there, as known findings).
-/
import CaddyModel.C08.Spec

namespace CaddyModel.C08

/-- a plain upstream: no passive policy, no circuit breaker, no limit, no load -/
def upW (id : Nat) (healthy : Bool) : Up := ⟨id, healthy, 0, none, none, 0, 0, 0⟩

/-- a counter-example: `n` consecutive selections of policy `p` on `pool` (no draws needed) -/
structure Wit where
  p : Policy
  pool : Pool
  n : Nat

def Wit.results (w : Wit) : List Res := (run w.n w.p w.pool []).1.map (·.1)

def wPanicIndex : Wit := ⟨.wrr [1, 1] 0, [upW 1 false, upW 2 true, upW 3 true], 1⟩
def wPanicDivide : Wit := ⟨.wrr [0, 0] 0, [upW 1 true], 1⟩
def wRRWrapNil : Wit := ⟨.rr 4294967294, [upW 1 false, upW 2 false, upW 3 true], 1⟩
def wRRWrapRepeat : Wit := ⟨.rr 4294967294, [upW 1 true, upW 2 true, upW 3 true], 2⟩
def wWeightsDown : Wit := ⟨.wrr [1, 3, 1] 0, [upW 1 false, upW 2 true, upW 3 true], 5⟩
def wWeightsShortPool : Wit := ⟨.wrr [1, 2, 3] 0, [upW 1 true, upW 2 true], 6⟩

/-- FULL: no selection panics. Fails: weighted round robin indexes `r.Weights[i]` for every
    available upstream; pool longer than the weight list (weights 1,1; first of three down). -/
theorem select_never_panics_full_fails_index : wPanicIndex.results = [.panicIdx] := by decide

/-- FULL: no selection panics. Fails: `… % r.totalWeight` with two or more weights, all 0. -/
theorem select_never_panics_full_fails_divide : wPanicDivide.results = [.panicDiv] := by decide

/-- FULL: round robin returns an upstream whenever one is available. Fails when the uint32
    counter wraps and the pool size does not divide 2^32: from counter 2^32-2 the probes visit
    positions 0, 0, 1 of a pool of three — position 2, the only available one, is skipped. -/
theorem roundRobin_some_if_any_available_full_fails :
    anyAvail wRRWrapNil.pool = true ∧ wRRWrapNil.results = [.none] := by decide

/-- FULL: consecutive round-robin selections walk through the available upstreams in cyclic
    order. Fails at the same wrap-around: upstream 0 is returned twice in a row although all
    three upstreams are available. -/
theorem roundRobin_cycles_full_fails : wRRWrapRepeat.results = [.sel 0, .sel 0] := by decide

/-- FULL: weighted round robin honours the weights (an upstream with a larger weight is not
    chosen less often over a cycle). Fails when an upstream is down: weights 1,3,1, first
    upstream unavailable; over the 5 selections of a cycle the weight-3 upstream (index 1) is
    chosen twice, the weight-1 upstream (index 2) three times. -/
theorem weightedRR_honours_weights_full_fails :
    wWeightsDown.results = [.sel 2, .sel 2, .sel 2, .sel 1, .sel 1] := by decide

/-- the same clause fails when there are more weights than upstreams: weights 1,2,3 on two
    available upstreams; over the 6 selections of a cycle the weight-1 upstream is chosen four
    times, the weight-2 upstream twice -/
theorem weightedRR_honours_weights_full_fails_short_pool :
    wWeightsShortPool.results = [.sel 1, .sel 1, .sel 0, .sel 0, .sel 0, .sel 0] := by decide

/-! ### the same counter-examples as protocol lines (rendered from the terms above) -/

def showOpt : Option Nat → String
  | none => "-"
  | some n => toString n

def showUp (u : Up) : String :=
  ":".intercalate [toString u.id, if u.healthy then "1" else "0", toString u.fails, showOpt u.maxFails,
    (match u.cb with | none => "-" | some true => "1" | some false => "0"),
    toString u.load, toString u.maxReq, toString u.h]

def showNats (l : List Nat) : String := if l.isEmpty then "-" else ",".intercalate (l.map toString)

def showPolicy : Policy → String
  | .first => "first"
  | .rr c => "rr:" ++ toString c
  | .wrr ws c => "wrr:" ++ toString c ++ ":" ++ showNats ws
  | .leastConn => "lc"
  | .random => "rnd"
  | .randomChoose k => "rc:" ++ toString k
  | .hash => "urih"
  | .keyed true fb => "hdr+>" ++ showPolicy fb
  | .keyed false fb => "hdr->" ++ showPolicy fb
  | .cookie c fb => "ck:" ++ showOpt c ++ ">" ++ showPolicy fb

def Wit.line (w : Wit) : String :=
  "C08 sel " ++ showPolicy w.p ++ " " ++ (if w.pool.isEmpty then "-" else ",".intercalate (w.pool.map showUp))
    ++ " " ++ toString w.n ++ " 0 -"

/-- counter-example lines replayed on the implementation on every run -/
def witnessLines : List String :=
  [wPanicIndex, wPanicDivide, wRRWrapNil, wRRWrapRepeat, wWeightsDown, wWeightsShortPool].map Wit.line

end CaddyModel.C08
