/-
C08 — proved counter-examples: clauses of the property the unchanged tree violates.
Each `…_full_fails` refutes the full-strength statement kept in the comment of the matching
`…_partial` theorem in Props.lean; `witnessLines` are the same inputs as protocol lines,
replayed on the real code on every run (they must keep failing there, as known findings).
-/
import CaddyModel.C08.Spec

namespace CaddyModel.C08

/-- a plain upstream: no passive policy, no circuit breaker, no limit, no load -/
def upW (id : Nat) (healthy : Bool) : Up := ⟨id, healthy, 0, none, none, 0, 0, 0⟩

/-- FULL: no selection panics. Fails: weighted round robin indexes `r.Weights[i]` for every
    available upstream; pool longer than the weight list (weights 1,1; first of three down). -/
theorem select_never_panics_full_fails_index :
    (select true (.wrr [1, 1] 0) [upW 1 false, upW 2 true, upW 3 true] []).res = .panicIdx := by decide

/-- FULL: no selection panics. Fails: `… % r.totalWeight` with two or more weights, all 0. -/
theorem select_never_panics_full_fails_divide :
    (select true (.wrr [0, 0] 0) [upW 1 true] []).res = .panicDiv := by decide

/-- FULL: no selection panics. Fails: a header / query policy whose key is absent calls its
    fallback with a nil ResponseWriter; a cookie fallback then sets a cookie on it. -/
theorem select_never_panics_full_fails_nil_writer :
    (select true (.keyed false (.cookie none .first)) [upW 1 true] []).res = .panicNil := by decide

/-- FULL: round robin returns an upstream whenever one is available. Fails when the uint32
    counter wraps and the pool size does not divide 2^32: from counter 2^32-2 the probes visit
    positions 0, 0, 1 of a pool of three — position 2, the only available one, is skipped. -/
theorem roundRobin_some_if_any_available_full_fails :
    anyAvail [upW 1 false, upW 2 false, upW 3 true] = true ∧
    (selRR [upW 1 false, upW 2 false, upW 3 true] 4294967294).1 = .none := by decide

/-- FULL: consecutive round-robin selections walk through the available upstreams in cyclic
    order. Fails at the same wrap-around: upstream 0 is returned twice in a row although all
    three upstreams are available. -/
theorem roundRobin_cycles_full_fails :
    (run 2 (.rr 4294967294) [upW 1 true, upW 2 true, upW 3 true] []).1.map (·.1) = [.sel 0, .sel 0] := by decide

/-- FULL: weighted round robin honours the weights (an upstream with a larger weight is not
    chosen less often over a cycle). Fails when an upstream is down: weights 1,3,1, first
    upstream unavailable; over the 5 selections of a cycle the weight-3 upstream (index 1) is
    chosen twice, the weight-1 upstream (index 2) three times. -/
theorem weightedRR_honours_weights_full_fails :
    (run 5 (.wrr [1, 3, 1] 0) [upW 1 false, upW 2 true, upW 3 true] []).1.map (·.1)
      = [.sel 2, .sel 2, .sel 2, .sel 1, .sel 1] := by decide

/-- the same clause fails when there are more weights than upstreams: weights 1,2,3 on two
    available upstreams; over the 6 selections of a cycle the weight-1 upstream is chosen four
    times, the weight-2 upstream twice -/
theorem weightedRR_honours_weights_full_fails_short_pool :
    (run 6 (.wrr [1, 2, 3] 0) [upW 1 true, upW 2 true] []).1.map (·.1)
      = [.sel 1, .sel 1, .sel 0, .sel 0, .sel 0, .sel 0] := by decide

/-- counter-example lines replayed on the implementation on every run -/
def witnessLines : List String := [
  "C08 sel wrr:0:1,1 1:0:0:-:-:0:0:0,2:1:0:-:-:0:0:0,3:1:0:-:-:0:0:0 1 0 -",
  "C08 sel wrr:0:0,0 1:1:0:-:-:0:0:0 1 0 -",
  "C08 sel hdr->ck:->first 1:1:0:-:-:0:0:0 1 0 -",
  "C08 sel rr:4294967294 1:0:0:-:-:0:0:0,2:0:0:-:-:0:0:0,3:1:0:-:-:0:0:0 1 0 -",
  "C08 sel rr:4294967294 1:1:0:-:-:0:0:0,2:1:0:-:-:0:0:0,3:1:0:-:-:0:0:0 2 0 -",
  "C08 sel wrr:0:1,3,1 1:0:0:-:-:0:0:0,2:1:0:-:-:0:0:0,3:1:0:-:-:0:0:0 5 0 -",
  "C08 sel wrr:0:1,2,3 1:1:0:-:-:0:0:0,2:1:0:-:-:0:0:0 6 0 -"
]

end CaddyModel.C08
