/-
C08 — proved counter-examples: clauses of the property the unchanged tree violates.
Each `…_full_fails` refutes the full-strength statement kept in the comment of the matching
`…_partial` theorem in Props.lean; `witnessLines` are the same inputs as protocol lines,
replayed on the real code on every run (they must keep failing there, as known findings).
-/
import CaddyModel.C08.Spec

namespace CaddyModel.C08

/-- a plain upstream: no passive policy, no circuit breaker, no limit, no load -/
def upW (id : Nat) (healthy : Bool) : Up := ⟨id, healthy, 0, none, none, 0, 0, 0⟩

/-- a counter-example: `n` consecutive selections of policy `p` on `pool` (no draws needed) -/
structure Wit where
  p : Policy
  pool : Pool
  n : Nat

def Wit.results (w : Wit) : List Res := (run w.n w.p w.pool []).1.map (·.1)

def wRRWrapNil : Wit := ⟨.rr 4294967294, [upW 1 false, upW 2 false, upW 3 true], 1⟩
def wRRWrapRepeat : Wit := ⟨.rr 4294967294, [upW 1 true, upW 2 true, upW 3 true], 2⟩

/-- FULL: round robin returns an upstream whenever one is available. Fails when the uint32
    counter wraps and the pool size does not divide 2^32: from counter 2^32-2 the probes visit
    positions 0, 0, 1 of a pool of three — position 2, the only available one, is skipped. -/
theorem roundRobin_some_if_any_available_full_fails :
    anyAvail wRRWrapNil.pool = true ∧ wRRWrapNil.results = [.none] := by decide

/-- FULL: consecutive round-robin selections walk through the available upstreams in cyclic
    order. Fails at the same wrap-around: upstream 0 is returned twice in a row although all
    three upstreams are available. -/
theorem roundRobin_cycles_full_fails : wRRWrapRepeat.results = [.sel 0, .sel 0] := by decide

/-! ### weighted round robin before its repair

`WeightedRoundRobinSelection.Select` used to (1) drop the zero weights, (2) find the index of the
current cycle position among the *positive* weights, (3) collect the available upstreams with a
non-zero weight (indexing `r.Weights[i]` for every available upstream, stopping once as many
were collected as there are positive weights) and (4) return the collected upstream number
`index mod (number collected)`. The old loops are kept here to show what the clauses now
proved at full strength in Props.lean exclude. -/

inductive OldRes where
  | none | sel (i : Nat) | panicIdx | panicDiv
deriving DecidableEq, Repr

def oldCollect (ws : List Nat) (cap : Nat) : Pool → Nat → List Nat → Option (List Nat)
  | [], _, acc => some acc
  | u :: rest, i, acc =>
    if u.avail then
      match ws[i]? with
      | none => none
      | some w =>
        if w = 0 then oldCollect ws cap rest (i + 1) acc
        else if acc.length + 1 = cap then some (acc ++ [i])
        else oldCollect ws cap rest (i + 1) (acc ++ [i])
    else oldCollect ws cap rest (i + 1) acc

def oldPosWeights (ws : List Nat) : List Nat := ws.filter (0 < ·)

def oldPick (idx : Nat) (ups : List Nat) : OldRes :=
  if ups.length = 0 then .none
  else match ups[idx % ups.length]? with
    | some i => .sel i
    | none => .panicIdx

/-- the old `Select` with two or more weights on a non-empty pool, at counter `c` -/
def oldSelWRR (ws : List Nat) (pool : Pool) (c : Nat) : OldRes :=
  if ws.sum = 0 then .panicDiv
  else match oldCollect ws (oldPosWeights ws).length pool 0 [] with
    | none => .panicIdx
    | some ups => oldPick (wrrIndexGo (oldPosWeights ws) 0 0 (inc32 c % ws.sum)) ups

def oldRun (ws : List Nat) (pool : Pool) : Nat → Nat → List OldRes
  | 0, _ => []
  | n + 1, c => oldSelWRR ws pool c :: oldRun ws pool n (inc32 c)

def wPanicIndex : Wit := ⟨.wrr [1, 1] 0, [upW 1 false, upW 2 true, upW 3 true], 1⟩
def wPanicDivide : Wit := ⟨.wrr [0, 0] 0, [upW 1 true], 1⟩
def wWeightsDown : Wit := ⟨.wrr [1, 3, 1] 0, [upW 1 false, upW 2 true, upW 3 true], 5⟩
def wWeightsShortPool : Wit := ⟨.wrr [1, 2, 3] 0, [upW 1 true, upW 2 true], 6⟩

/-- old code: `r.Weights[i]` out of range when the pool is longer than the weight list -/
theorem weightedRR_never_panics_old_code_fails_index :
    oldRun [1, 1] wPanicIndex.pool 1 0 = [.panicIdx] ∧ wPanicIndex.results = [.sel 1] := by decide

/-- old code: `… % r.totalWeight` with two or more weights, all 0; now nil (every upstream is disabled) -/
theorem weightedRR_never_panics_old_code_fails_divide :
    oldRun [0, 0] wPanicDivide.pool 1 0 = [.panicDiv] ∧ wPanicDivide.results = [.none] := by decide

/-- old code: weights 1,3,1 with the first upstream down — over the 5 selections of a cycle the
    weight-3 upstream (index 1) was chosen twice, the weight-1 upstream (index 2) three times.
    Now: every upstream keeps its own share and the turn of the unavailable one goes to the next. -/
theorem weightedRR_honours_weights_old_code_fails :
    oldRun [1, 3, 1] wWeightsDown.pool 5 0 = [.sel 2, .sel 2, .sel 2, .sel 1, .sel 1] ∧
    wWeightsDown.results = [.sel 1, .sel 1, .sel 1, .sel 2, .sel 1] := by decide

/-- old code: more weights than upstreams (1,2,3 on two) — the weight-1 upstream was chosen four
    times in a cycle of 6, the weight-2 upstream twice. Now the weight of the upstream that is not
    in the pool takes no part: a cycle of 3, one turn for the first and two for the second. -/
theorem weightedRR_honours_weights_old_code_fails_short_pool :
    oldRun [1, 2, 3] wWeightsShortPool.pool 6 0 = [.sel 1, .sel 1, .sel 0, .sel 0, .sel 0, .sel 0] ∧
    wWeightsShortPool.results = [.sel 1, .sel 1, .sel 0, .sel 1, .sel 1, .sel 0] := by decide

/-! ### observation (no clause of the property): active health check counters are cumulative

How the active health checker decides the `healthy` flag is an input of the property, not part of
it. Recorded as an observation: `passes` / `fails` are documented as numbers of *consecutive*
results, but the counters are only reset when the flag flips — a result of the other kind does not
reset them. -/

/-- observation: with `fails` 2 the results fail, pass, fail mark the upstream unhealthy although no
    two checks in a row failed (the documented rule `ahSpecRun` keeps it healthy) -/
theorem activeHealth_counts_are_cumulative_observation :
    (ahRun 1 2 ahInit [false, true, false]).map (·.healthy) = [true, true, false] ∧
    ahSpecRun 1 2 ⟨true, true, 0⟩ [false, true, false] = [true, true, true] := by decide

/-- observation: with `passes` 2 an unhealthy upstream is healthy again after pass, fail, pass -/
theorem activeHealth_counts_are_cumulative_observation_passes :
    (ahRun 2 1 ahInit [false, true, false, true]).map (·.healthy) = [false, false, false, true] ∧
    ahSpecRun 2 1 ⟨true, true, 0⟩ [false, true, false, true] = [false, false, false, false] := by decide

/-! ### the same counter-examples as protocol lines (rendered from the terms above) -/

def showOpt : Option Nat → String
  | none => "-"
  | some n => toString n

def showUp (u : Up) : String :=
  ":".intercalate [toString u.id, if u.healthy then "1" else "0", toString u.fails, showOpt u.maxFails,
    (match u.cb with | none => "-" | some true => "1" | some false => "0"),
    toString u.load, toString u.maxReq, toString u.h]

def showNats (l : List Nat) : String := if l.isEmpty then "-" else ",".intercalate (l.map toString)

def showPolicy : Policy → String
  | .first => "first"
  | .rr c => "rr:" ++ toString c
  | .wrr ws c => "wrr:" ++ toString c ++ ":" ++ showNats ws
  | .leastConn => "lc"
  | .random => "rnd"
  | .randomChoose k => "rc:" ++ toString k
  | .hash => "urih"
  | .keyed true fb => "hdr+>" ++ showPolicy fb
  | .keyed false fb => "hdr->" ++ showPolicy fb
  | .cookie c fb => "ck:" ++ showOpt c ++ ">" ++ showPolicy fb

def Wit.line (w : Wit) : String :=
  "C08 sel " ++ showPolicy w.p ++ " " ++ (if w.pool.isEmpty then "-" else ",".intercalate (w.pool.map showUp))
    ++ " " ++ toString w.n ++ " 0 -"

/-- counter-example lines replayed on the implementation on every run -/
def witnessLines : List String :=
  [wRRWrapNil, wRRWrapRepeat].map Wit.line

end CaddyModel.C08
