import CaddyModel.C08.Model

namespace CaddyModel.C08

/-- counter-example lines replayed on the implementation on every run -/
def witnessLines : List String := []

end CaddyModel.C08
