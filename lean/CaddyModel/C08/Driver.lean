/-
C08 line-protocol driver.

  sel <policy> <pool> <n> <v> <rand>

policy  chain joined by `>`; inner nodes `hdr+ hdr- hhost+ hhost- qry+ qry-` (header / query policy, key
        present `+` or absent `-`), `ck:-` / `ck:<id>` (cookie policy; the request carries the cookie
        of dial <id>); last element is the leaf: `first`, `rr:<counter>`, `wrr:<counter>:<w,w,…|->`,
        `lc`, `rnd`, `rc:<choose>`, `iph`, `ciph`, `urih`
pool    `-` or upstreams joined by `,`; upstream = `id:healthy:fails:maxfails:cb:load:maxreq:hash`
        (maxfails `-` = no passive policy, cb `-` = no circuit breaker, else 0/1)
n       number of consecutive selections (1..64)
v       request variant (used by the harness only to build the HTTP request)
rand    `-` or `<seed>:<d,d,…>` raw Int63 draws of math/rand after Seed(seed)

  prx <dyn|sta> <policy> <m> <ids> <script> <rand>
        the proxy loop around Select: one reverse_proxy handler with the addresses <ids> (`-` or ids joined
        by `,`, pairwise different) as static upstreams (`sta`) or handed out afresh for every request by a
        dynamic upstream source (`dyn`), unhealthy_request_count <m> (0 = none), policy one of first,
        rr:<c>, lc, rnd, rc:<k>; script = events joined by `,`: `h` a request arrives and is held in flight
        at the backend, `q` a request arrives and completes, `f<k>` the k-th held request (0-based) completes.
        answer `<o>,<o>,… c=<counter|-> n=<in-flight per address|->`, o = address index | `503` | `ok` | `-`

answer  `<r>,<r>,… c=<counter|-> a=<availability bits|->`, r = `nil` | `<i>` | `<i>+ck<id>` | `panic:idx` | `panic:nil`;
        `err:provision` if the policy is rejected; `starved` if the draws run out; `bad-op` if malformed.
-/
import CaddyModel.C08.Model
import CaddyModel.C08.Witness

namespace CaddyModel.C08

/-- strict decimal: `0` or `[1-9][0-9]*`, at most 20 digits, value ≤ max -/
def num (max : Nat) (s : String) : Option Nat :=
  match s.toList with
  | [] => none
  | ['0'] => some 0
  | '0' :: _ => none
  | cs =>
    if cs.length ≤ 20 && cs.all (fun c => '0' ≤ c && c ≤ '9') then
      if cs.foldl (fun a c => a * 10 + (c.toNat - 48)) 0 ≤ max then some (cs.foldl (fun a c => a * 10 + (c.toNat - 48)) 0) else none
    else none

def small : Nat := 1000000
def max63 : Nat := 9223372036854775807
def max64 : Nat := 18446744073709551615

def optNum (s : String) : Option (Option Nat) :=
  if s == "-" then some none else (num small s).map some

def optBool (s : String) : Option (Option Bool) :=
  if s == "-" then some none else if s == "0" then some (some false) else if s == "1" then some (some true) else none

def parseUp (s : String) : Option Up :=
  match s.splitOn ":" with
  | [id, hl, f, mf, cb, ld, mr, h] => do
    let id ← num small id
    let hl ← optBool hl
    let hl ← hl
    let f ← num small f
    let mf ← optNum mf
    let cb ← optBool cb
    let ld ← num small ld
    let mr ← num small mr
    let h ← num max64 h
    pure ⟨id, hl, f, mf, cb, ld, mr, h⟩
  | _ => none

def parsePool (s : String) : Option Pool :=
  if s == "-" then some [] else
  match (s.splitOn ",").mapM parseUp with
  | some p => if p.length ≤ 64 then some p else none
  | none => none

def parseNums (max : Nat) (s : String) : Option (List Nat) :=
  if s == "-" then some [] else (s.splitOn ",").mapM (num max)

def parseLeaf (s : String) : Option Policy :=
  match s.splitOn ":" with
  | ["first"] => some .first
  | ["rr", c] => (num (u32 - 1) c).map .rr
  | ["wrr", c, ws] => do
    let c ← num (u32 - 1) c
    let ws ← parseNums small ws
    if ws.length ≤ 64 then pure (.wrr ws c) else none
  | ["lc"] => some .leastConn
  | ["rnd"] => some .random
  | ["rc", k] => (num small k).map .randomChoose
  | ["iph"] => some .hash
  | ["ciph"] => some .hash
  | ["urih"] => some .hash
  | _ => none

def parseNode (s : String) : Option (Policy → Policy) :=
  match s.splitOn ":" with
  | ["hdr+"] => some (.keyed true)
  | ["hdr-"] => some (.keyed false)
  | ["hhost+"] => some (.keyed true)
  | ["hhost-"] => some (.keyed false)
  | ["qry+"] => some (.keyed true)
  | ["qry-"] => some (.keyed false)
  | ["ck", c] => (optNum c).map .cookie
  | _ => none

/-- reversed chain: leaf first -/
def parseChainRev : List String → Option Policy
  | [] => none
  | leaf :: nodes => do
    let l ← parseLeaf leaf
    nodes.foldlM (fun acc s => do pure ((← parseNode s) acc)) l

def isHostNode (s : String) : Bool := s == "hhost+" || s == "hhost-"

/-- at most 5 elements, at most one `hhost` node (they would all read the same `req.Host`) -/
def parsePolicy (s : String) : Option Policy :=
  if (s.splitOn ">").length ≤ 5 && ((s.splitOn ">").filter isHostNode).length ≤ 1 then
    parseChainRev (s.splitOn ">").reverse
  else none

def parseRand (s : String) : Option (List Nat) :=
  if s == "-" then some [] else
  match s.splitOn ":" with
  | [seed, ds] => do
    let _ ← num max63 seed
    let ds ← parseNums max63 ds
    if ds.length ≤ 4096 then pure ds else none
  | _ => none

def showRes : Res × List Nat → String
  | (.none, _) => "nil"
  | (.sel i, cks) => cks.foldl (fun s c => s ++ "+ck" ++ toString c) (toString i)
  | (.panicIdx, _) => "panic:idx"
  | (.panicNil, _) => "panic:nil"
  | (.starved, _) => "starved"

/-- the counter of the chain's leaf -/
def counterOf : Policy → String
  | .rr c => toString c
  | .wrr _ c => toString c
  | .keyed _ fb => counterOf fb
  | .cookie _ fb => counterOf fb
  | _ => "-"

def availBits (pool : Pool) : String :=
  if pool.isEmpty then "-" else String.ofList (pool.map fun u => if u.avail then '1' else '0')

def isStarved : Res × List Nat → Bool
  | (.starved, _) => true
  | _ => false

def answer (p : Policy) (pool : Pool) (n : Nat) (ds : List Nat) : String :=
  match provision p with
  | none => "err:provision"
  | some p =>
    if (run n p pool ds).1.any isStarved then "starved"
    else ",".intercalate ((run n p pool ds).1.map showRes) ++ " c=" ++ counterOf (run n p pool ds).2
      ++ " a=" ++ availBits pool

/-- `h` | `q` | `f<k>` -/
def parseEv (s : String) : Option Ev :=
  match s.toList with
  | ['h'] => some .hold
  | ['q'] => some .quick
  | 'f' :: ks => (num 64 (String.ofList ks)).map .fin
  | _ => none

/-- every `f<k>` refers to a `hold` that has happened -/
def scriptOK : List Ev → Nat → Bool
  | [], _ => true
  | .hold :: es, n => scriptOK es (n + 1)
  | .quick :: es, n => scriptOK es n
  | .fin k :: es, n => decide (k < n) && scriptOK es n

/-- the policies the proxy-loop cases use (no hash, cookie or weighted policies) -/
def proxyPolicy : Policy → Bool
  | .first => true
  | .rr _ => true
  | .leastConn => true
  | .random => true
  | .randomChoose _ => true
  | _ => false

def showEvOut : EvOut → String
  | .sent i => toString i
  | .refused => "503"
  | .crashed => "panic"
  | .starved => "starved"
  | .done => "ok"
  | .idle => "-"

def proxyAnswer (p : Policy) (m : Nat) (ids : List Nat) (evs : List Ev) (ds : List Nat) : String :=
  match provision p with
  | none => "err:provision"
  | some p =>
    if (prun m ids (pinit p ids ds) evs).1.any (· == .starved) then "starved"
    else ",".intercalate ((prun m ids (pinit p ids ds) evs).1.map showEvOut)
      ++ " c=" ++ counterOf (prun m ids (pinit p ids ds) evs).2.pol
      ++ " n=" ++ (if ids.isEmpty then "-" else ",".intercalate ((prun m ids (pinit p ids ds) evs).2.loads.map toString))

def handle : List String → String
  | ["prx", mode, pol, m, ids, script, rnd] =>
    match parseLeaf pol, num 1000 m, parseNums small ids, (script.splitOn ",").mapM parseEv, parseRand rnd with
    | some p, some m, some ids, some evs, some ds =>
      if (mode == "dyn" || mode == "sta") && proxyPolicy p && ids.length ≤ 16 && decide ids.Nodup
          && evs.length ≤ 32 && scriptOK evs 0 then proxyAnswer p m ids evs ds
      else "bad-op"
    | _, _, _, _, _ => "bad-op"
  | ["sel", pol, pool, n, v, rnd] =>
    match parsePolicy pol, parsePool pool, num 64 n, num small v, parseRand rnd with
    | some p, some pl, some n, some _, some ds => if n = 0 then "bad-op" else answer p pl n ds
    | _, _, _, _, _ => "bad-op"
  | _ => "bad-op"

end CaddyModel.C08
