/-
C08 line-protocol driver.

  sel <policy> <pool> <n> <v> <rand>

policy  chain joined by `>`; inner nodes `hdr+ hdr- hhost+ hhost- qry+ qry-` (header / query policy, key
        present `+` or absent `-`), `ck:-` / `ck:<id>` (cookie policy; the request carries the cookie
        of dial <id>); last element is the leaf: `first`, `rr:<counter>`, `wrr:<counter>:<w,w,…|->`,
        `lc`, `rnd`, `rc:<choose>`, `iph`, `ciph`, `urih`
pool    `-` or upstreams joined by `,`; upstream = `id:healthy:fails:maxfails:cb:load:maxreq:hash`
        (maxfails `-` = no passive policy, cb `-` = no circuit breaker, else 0/1)
n       number of consecutive selections (1..64)
v       request variant (used by the harness only to build the HTTP request)
rand    `-` or `<seed>:<d,d,…>` raw Int63 draws of math/rand after Seed(seed)

  prx <dyn|sta> <policy|-> <m>:<fd>:<mf>:<r> <ups> <script> <rand>
  pd <dyn|sta> <policy|-> <m>:<fd>:<mf>:<r>[:0[:<rm>]] <ups> <requests> <rand>
        the proxy loop when every dial address is a placeholder filled in per request (fillDialInfo after Select);
        ups as for prx (kinds o d e); requests joined by `,`: `q`/`Q` + one letter per upstream: g = filled in with a
        good address, r m w z = the dial info cannot be made (port range, named port, reversed range, port > 65535).
        answer as for prx; a request that ends in fillDialInfo for upstream i: `di<i>`
  dy <m>:<fd>:<mf>:<cb> <static ups> <none|one|multi> <sources> <j|c|p> <foreign load>   the pool an iteration hands to Select
        the proxy loop around Select: one reverse_proxy handler whose upstreams are static (`sta`) or handed
        out afresh for every loop iteration by a dynamic upstream source (`dyn`); policy one of first,
        rr:<c>, lc, rnd, rc:<k>, or `-` = none configured (default); passive health checks:
        unhealthy_request_count <m> (0 = none), fail_duration set <fd> (0/1), max_fails <mf> (0 = default);
        lb_retries <r> (0-8). ups = `-` or `id:max:bad` joined by `,` (ids pairwise different): the upstream's
        own max_requests (0 = none) and what its backend does: `o` answers, `d` dial error, `e` other error.
        script = events joined by `,`: `h`/`H` a GET/POST request arrives and, once proxied, is held in flight
        at the backend, `q`/`Q` a GET/POST request arrives and completes, `f<k>` the k-th held request
        (0-based) completes, `T`/`U` the handler's circuit breaker (configured by a fifth `:1` in the
        settings) opens / closes; a sixth setting is lb_retry_match: 0 none, 1 `method POST`, 2 `method GET`,
        3 `method GET POST`. answer `<o>,<o>,… c=<counter|-> n=<in flight per address|-> f=<fails per address|->`,
        o for a request = failed attempts `<i>!` / `-` (Select returned nil) and the end `<i>` | `503` | `502`,
        joined by `/`; o for `f<k>` = `ok` | `-`

  key <src> <remote> <clientip> <uri> <host> <headers> <query> <key|fb> <table>
        what a hash policy takes from the request: src = `iph` | `ciph` | `urih` | `hdr:<field hex>` | `qry:<key hex>`;
        req.RemoteAddr, the client_ip var, req.RequestURI, req.Host (hex); headers = `-` or `name:value;…` (hex, wire
        order); query = `-` or `key:value;…` (hex, the parsed URL query in order); then the key the harness expects
        (hex, `fb` = fallback) and the hashes of the 8 probe upstreams with that key. answer `<i>` (probe upstream
        chosen) | `fb` (the fallback decided) | `key:<hex>` (model only: it derives another key)
  ck <name> <cookies>
        what the cookie policy takes from the request (name `-` = none configured, the default `lb`): cookies = `-` or `name:value;…` (hex, header order); a value
        `t<j>` stands for the HMAC token of probe upstream j (0-7). answer `<j>` | `fb`

  cf <tokens> <durations>
        `lb_policy` in a Caddyfile: the tokens of the segment that starts at the policy name, `texthex.line` joined by
        `,` (braces are tokens); durations = `-` or `tokenhex:nanoseconds,…`: what caddy.ParseDuration returns for the
        tokens it accepts. answer `ok <node>>…` (the module and its chain of configured fallbacks: `s<k>`, `wrr[w,…]`,
        `rc[k]`, `qry[hex]`, `hdr[hex]`, `ck[name,secret,max_age ns]`) | `err`

  rp <tokens> <durations> <addresses>
        the `reverse_proxy` directive of a Caddyfile (upstream arguments, `to`, `lb_policy`, `lb_retries`,
        `lb_try_duration`, `lb_try_interval`, `max_fails`, `fail_duration`, `unhealthy_request_count`): tokens and
        durations as for `cf`; addresses = `-` or `tokenhex:dialhex|dialhex,…`: the dial addresses the tokens accepted
        as upstream addresses stand for. answer `ok ups=<dial,…|-> pol=<chain|-> r=<retries> td=<ns> ti=<ns>
        p=<max_fails,fail_duration ns,unhealthy_request_count|->` | `err`

  tim <try_duration ms> <try_interval ms>
        lb_try_duration / lb_try_interval on the real clock with an upstream whose dial always fails; not modelled:
        the answer is `ok`, the harness's oracle checks the two load-independent bounds (round trips ≤ ⌈duration /
        interval⌉ + 1 with the default interval 250 ms; the handler does not give up before the duration is over)

  sc <tls 0|1> <trusted proxy 0|1> <X-Forwarded-Proto values hex,…|-> <max_age ns>
        the attributes of the sticky cookie a cookie policy writes. answer `secure=<0|1> ss=<none|-> ma=<seconds>`

  ah <passes> <fails> <script>
        active health checks of one upstream: the configured thresholds (0 = not configured) and the results of the
        consecutive checks, `p` pass / `f` fail (the first is the check `Provision` starts right away).
        answer after every check `h<healthy 0|1>:<passes counted>:<fails counted>`, joined by `,`

answer  `<r>,<r>,… c=<counter|-> a=<availability bits|->`, r = `nil` | `<i>` | `<i>+ck<id>` | `panic:idx` | `panic:nil`;
        `err:provision` if the policy is rejected; `starved` if the draws run out; `bad-op` if malformed.
-/
import CaddyModel.C08.Model
import CaddyModel.C08.Keys
import CaddyModel.C08.Caddyfile
import CaddyModel.C08.Witness
import CaddyModel.C08.Dynamic
import CaddyModel.C08.Wrappers

namespace CaddyModel.C08

/-- strict decimal: `0` or `[1-9][0-9]*`, at most 20 digits, value ≤ max -/
def num (max : Nat) (s : String) : Option Nat :=
  match s.toList with
  | [] => none
  | ['0'] => some 0
  | '0' :: _ => none
  | cs =>
    if cs.length ≤ 20 && cs.all (fun c => '0' ≤ c && c ≤ '9') then
      if cs.foldl (fun a c => a * 10 + (c.toNat - 48)) 0 ≤ max then some (cs.foldl (fun a c => a * 10 + (c.toNat - 48)) 0) else none
    else none

def small : Nat := 1000000
def max63 : Nat := 9223372036854775807
def max64 : Nat := 18446744073709551615

def optNum (s : String) : Option (Option Nat) :=
  if s == "-" then some none else (num small s).map some

def optBool (s : String) : Option (Option Bool) :=
  if s == "-" then some none else if s == "0" then some (some false) else if s == "1" then some (some true) else none

def parseUp (s : String) : Option Up :=
  match s.splitOn ":" with
  | [id, hl, f, mf, cb, ld, mr, h] => do
    let id ← num small id
    let hl ← optBool hl
    let hl ← hl
    let f ← num small f
    let mf ← optNum mf
    let cb ← optBool cb
    let ld ← num small ld
    let mr ← num small mr
    let h ← num max64 h
    pure ⟨id, hl, f, mf, cb, ld, mr, h⟩
  | _ => none

def parsePool (s : String) : Option Pool :=
  if s == "-" then some [] else
  match (s.splitOn ",").mapM parseUp with
  | some p => if p.length ≤ 64 then some p else none
  | none => none

def parseNums (max : Nat) (s : String) : Option (List Nat) :=
  if s == "-" then some [] else (s.splitOn ",").mapM (num max)

def parseLeaf (s : String) : Option Policy :=
  match s.splitOn ":" with
  | ["first"] => some .first
  | ["rr", c] => (num (u32 - 1) c).map .rr
  | ["wrr", c, ws] => do
    let c ← num (u32 - 1) c
    let ws ← parseNums small ws
    if ws.length ≤ 64 then pure (.wrr ws c) else none
  | ["lc"] => some .leastConn
  | ["rnd"] => some .random
  | ["rc", k] => (num small k).map .randomChoose
  | ["iph"] => some .hash
  | ["ciph"] => some .hash
  | ["urih"] => some .hash
  | _ => none

def parseNode (s : String) : Option (Policy → Policy) :=
  match s.splitOn ":" with
  | ["hdr+"] => some (.keyed true)
  | ["hdr-"] => some (.keyed false)
  | ["hhost+"] => some (.keyed true)
  | ["hhost-"] => some (.keyed false)
  | ["qry+"] => some (.keyed true)
  | ["qry-"] => some (.keyed false)
  | ["ck", c] => (optNum c).map .cookie
  | _ => none

/-- reversed chain: leaf first -/
def parseChainRev : List String → Option Policy
  | [] => none
  | leaf :: nodes => do
    let l ← parseLeaf leaf
    nodes.foldlM (fun acc s => do pure ((← parseNode s) acc)) l

def isHostNode (s : String) : Bool := s == "hhost+" || s == "hhost-"

/-- at most 5 elements, at most one `hhost` node (they would all read the same `req.Host`) -/
def parsePolicy (s : String) : Option Policy :=
  if (s.splitOn ">").length ≤ 5 && ((s.splitOn ">").filter isHostNode).length ≤ 1 then
    parseChainRev (s.splitOn ">").reverse
  else none

def parseRand (s : String) : Option (List Nat) :=
  if s == "-" then some [] else
  match s.splitOn ":" with
  | [seed, ds] => do
    let _ ← num max63 seed
    let ds ← parseNums max63 ds
    if ds.length ≤ 4096 then pure ds else none
  | _ => none

def showRes : Res × List Nat → String
  | (.none, _) => "nil"
  | (.sel i, cks) => cks.foldl (fun s c => s ++ "+ck" ++ toString c) (toString i)
  | (.panicIdx, _) => "panic:idx"
  | (.panicNil, _) => "panic:nil"
  | (.starved, _) => "starved"

/-- the counter of the chain's leaf -/
def counterOf : Policy → String
  | .rr c => toString c
  | .wrr _ c => toString c
  | .keyed _ fb => counterOf fb
  | .cookie _ fb => counterOf fb
  | _ => "-"

def availBits (pool : Pool) : String :=
  if pool.isEmpty then "-" else String.ofList (pool.map fun u => if u.avail then '1' else '0')

def isStarved : Res × List Nat → Bool
  | (.starved, _) => true
  | _ => false

def answer (p : Policy) (pool : Pool) (n : Nat) (ds : List Nat) : String :=
  match provision p with
  | none => "err:provision"
  | some p =>
    if (run n p pool ds).1.any isStarved then "starved"
    else ",".intercalate ((run n p pool ds).1.map showRes) ++ " c=" ++ counterOf (run n p pool ds).2
      ++ " a=" ++ availBits pool

/-- `h` `q` (GET, held / completing) | `H` `Q` (POST) | `f<k>` the backend answers held request k | `x<k>` … its round trip fails -/
def parseEv (s : String) : Option Ev :=
  match s.toList with
  | ['h'] => some (.arrive true true)
  | ['q'] => some (.arrive false true)
  | ['H'] => some (.arrive true false)
  | ['Q'] => some (.arrive false false)
  | ['T'] => some .trip
  | ['U'] => some .untrip
  | 'f' :: ks => (num 64 (String.ofList ks)).map .fin
  | 'x' :: ks => (num 64 (String.ofList ks)).map .fail
  | _ => none

/-- every `f<k>` refers to a held request that has arrived -/
def scriptOK : List Ev → Nat → Bool
  | [], _ => true
  | .arrive hold _ :: es, n => scriptOK es (if hold then n + 1 else n)
  | .fin k :: es, n => decide (k < n) && scriptOK es n
  | .fail k :: es, n => decide (k < n) && scriptOK es n
  | _ :: es, n => scriptOK es n

/-- the policies the proxy-loop cases use (no hash, cookie or weighted policies) -/
def proxyPolicy : Policy → Bool
  | .first => true
  | .rr _ => true
  | .leastConn => true
  | .random => true
  | .randomChoose _ => true
  | _ => false

/-- `-` = no selection policy configured (`Provision` defaults to random) -/
def parseProxyPolicy (s : String) : Option Policy :=
  if s == "-" then some .random else
  match parseLeaf s with
  | some p => if proxyPolicy p then some p else none
  | none => none

def parsePUp (s : String) : Option PUp :=
  match s.splitOn ":" with
  | [id, mx, bad] => do
    let id ← num small id
    let mx ← num 1000 mx
    let b ← (if bad == "o" || bad == "s" then some 0 else if bad == "d" then some 1 else if bad == "e" then some 2 else none)
    pure ⟨id, mx, b⟩
  | _ => none

def parsePUps (s : String) : Option (List PUp) :=
  if s == "-" then some [] else (s.splitOn ",").mapM parsePUp

/-- the positions of the upstreams of kind `s`: the backend answers with a status listed in `unhealthy_status` -/
def strikesOf (s : String) : List Nat :=
  if s == "-" then [] else
  ((s.splitOn ",").zipIdx.filter (fun x => x.1.endsWith ":s")).map (·.2)

/-- `<unhealthy_request_count>:<fail_duration 0|1>:<max_fails>:<lb_retries>[:<circuit breaker 0|1>[:<lb_retry_match 0-3>]]` -/
def parsePCfg (dyn : Bool) (s : String) (ups : List PUp) (strike : List Nat) : Option PCfg :=
  match s.splitOn ":" with
  | [m, fd, mf, r] => do
    let m ← num 1000 m
    let fd ← optBool fd
    let fd ← fd
    let mf ← num 1000 mf
    let r ← num 8 r
    pure ⟨dyn, m, fd, mf, r, ups, false, 0, strike⟩
  | [m, fd, mf, r, cb] => do
    let m ← num 1000 m
    let fd ← optBool fd
    let fd ← fd
    let mf ← num 1000 mf
    let r ← num 8 r
    let cb ← optBool cb
    let cb ← cb
    pure ⟨dyn, m, fd, mf, r, ups, cb, 0, strike⟩
  | [m, fd, mf, r, cb, rm] => do
    let m ← num 1000 m
    let fd ← optBool fd
    let fd ← fd
    let mf ← num 1000 mf
    let r ← num 8 r
    let cb ← optBool cb
    let cb ← cb
    let rm ← num 3 rm
    pure ⟨dyn, m, fd, mf, r, ups, cb, rm, strike⟩
  | _ => none

def showFinal : Final → String
  | .sent i => toString i
  | .status c => toString c
  | .crashed => "panic"
  | .starved => "starved"

def showTried : Option Nat → String
  | some i => toString i ++ "!"
  | none => "-"

def showEvOut : EvOut → String
  | .req tried fin => "/".intercalate (tried.map showTried ++ [showFinal fin])
  | .late tried fin => "/".intercalate (tried.map showTried ++ [showFinal fin])
  | .done => "ok"
  | .idle => "-"

def evStarved : EvOut → Bool
  | .req _ .starved => true
  | .late _ .starved => true
  | _ => false

def showNatList (l : List Nat) : String := if l.isEmpty then "-" else ",".intercalate (l.map toString)

def proxyAnswer (p : Policy) (c : PCfg) (evs : List Ev) (ds : List Nat) : String :=
  match provision p with
  | none => "err:provision"
  | some p =>
    if (prun c (pinit p c ds) evs).1.any evStarved then "starved"
    else ",".intercalate ((prun c (pinit p c ds) evs).1.map showEvOut)
      ++ " c=" ++ counterOf (prun c (pinit p c ds) evs).2.pol
      ++ " n=" ++ showNatList (prun c (pinit p c ds) evs).2.loads
      ++ " f=" ++ showNatList (prun c (pinit p c ds) evs).2.fails

/-! ### `dy` lines: the pool an iteration of the proxy loop hands to `Select` -/

/-- `-` or `id:max+id:max+…` -/
def parseDUps (s : String) : Option (List DUp) :=
  if s == "-" then some [] else
  (s.splitOn "+").mapM fun x =>
    match x.splitOn ":" with
    | [id, mx] => do pure ⟨.u (← num small id), ← num 1000 mx⟩
    | _ => none

def tri (s : String) : Option (Option Bool) :=
  if s == "n" then some none else if s == "t" then some (some true) else if s == "f" then some (some false) else none

/-- `p.<o|e>.<ups>` a probe source answering / failing; `a.<4|6>.<id>.<port|->.<ipv4 n|t|f>.<ipv6 n|t|f>` the `a` source -/
def parseSrc (s : String) : Option Src :=
  match s.splitOn "." with
  | ["p", ok, ups] => do
    let ups ← parseDUps ups
    if ok == "o" then pure (.probe true ups) else if ok == "e" then pure (.probe false ups) else none
  | ["a", fam, id, port, v4, v6] => do
    let id ← num 9 id
    let port ← (if port == "-" then some none else (num 65535 port).map some)
    let v4 ← tri v4
    let v6 ← tri v6
    if id = 0 || port == some 0 then none
    else if fam == "4" then pure (.a false id port v4 v6) else if fam == "6" then pure (.a true id port v4 v6) else none
  | _ => none

/-- `<unhealthy_request_count>:<fail_duration 0|1>:<max_fails>:<circuit breaker 0|1>` -/
def parseDCfg (s : String) : Option DCfg :=
  match s.splitOn ":" with
  | [m, fd, mf, cb] => do
    let m ← num 1000 m
    let fd ← optBool fd
    let fd ← fd
    let mf ← num 1000 mf
    let cb ← optBool cb
    let cb ← cb
    pure ⟨m, decide (0 < m) || fd || decide (0 < mf), cb⟩
  | _ => none

/-- `u<id>` | `a4.<id>.<port>` | `a6.<id>.<port>` -/
def parseDName (s : String) : Option DName :=
  match s.toList with
  | 'u' :: r => (num small (String.ofList r)).map .u
  | _ =>
    match s.splitOn "." with
    | ["a4", id, port] => do pure (.a4 (← num 9 id) (← num 65535 port))
    | ["a6", id, port] => do pure (.a6 (← num 9 id) (← num 65535 port))
    | _ => none

/-- `-` or `<name>=<k>+…`: k (1-4) requests are in flight on that address through another handler -/
def parseForeign (s : String) : Option (List (DName × Nat)) :=
  if s == "-" then some [] else
  (s.splitOn "+").mapM fun x =>
    match x.splitOn "=" with
    | [n, k] => do
      let k ← num 4 k
      if k = 0 then none else pure (← parseDName n, k)
    | _ => none

def showDName : DName → String
  | .u id => "u" ++ toString id
  | .a4 id port => "a4." ++ toString id ++ "." ++ toString port
  | .a6 id port => "a6." ++ toString id ++ "." ++ toString port

def bit (b : Bool) : String := if b then "1" else "0"

def showHanded (l : List Seen) : String :=
  (if l.isEmpty then "-" else ",".intercalate (l.map fun x =>
    showDName x.name ++ ":" ++ toString x.max ++ ":" ++ bit x.passive ++ ":" ++ bit x.avail)) ++ " 503"

/-- `-` or `hex:hex;hex:hex;…` -/
def parsePairs (s : String) : Option (List (Bytes × Bytes)) :=
  if s == "-" then some [] else
  (s.splitOn ";").mapM fun kv =>
    match kv.splitOn ":" with
    | [k, v] => do pure ((← Hex.decode k), (← Hex.decode v))
    | _ => none

def parseKeySrc (s : String) : Option KeySrc :=
  match s.splitOn ":" with
  | ["iph"] => some .ipHash
  | ["ciph"] => some .clientIpHash
  | ["urih"] => some .uriHash
  | ["hdr", f] => (Hex.decode f).map .header
  | ["qry", k] => (Hex.decode k).map .query
  | _ => none

/-- the probe pool of the `key` op: 8 available upstreams with the given hashes -/
def probePool (hs : List Nat) : Pool := hs.map fun h => ⟨0, true, 0, none, none, 0, 0, h⟩

def showSel : Res → String
  | .sel i => toString i
  | .none => "nil"
  | _ => "panic"

/-- cookie reference: `t<j>` = the token of probe upstream j, anything else matches no upstream -/
def tokenIdx (v : Bytes) : Option Nat :=
  match v with
  | 116 :: [d] => if 48 ≤ d ∧ d ≤ 55 then some (d.toNat - 48) else none
  | _ => none

/-- optional `-`, then strict decimal ≤ max -/
def sint (max : Nat) (s : String) : Option Int :=
  match s.toList with
  | '-' :: ds => (num max (String.ofList ds)).map (fun n => -(n : Int))
  | _ => (num max s).map (fun n => (n : Int))

def parseTok (s : String) : Option Tok :=
  match s.splitOn "." with
  | [t, l] => do pure ⟨← Hex.decode t, ← num 1000 l⟩
  | _ => none

def parseDurTable (s : String) : Option (List (Bytes × Int)) :=
  if s == "-" then some [] else
  (s.splitOn ",").mapM fun kv =>
    match kv.splitOn ":" with
    | [k, v] => do pure ((← Hex.decode k), (← sint max63 v))
    | _ => none

def durOf (tbl : List (Bytes × Int)) (t : Bytes) : Option Int := (tbl.find? (·.1 == t)).map (·.2)

def showInts (l : List Int) : String := ",".intercalate (l.map toString)

def showPNode : PNode → String
  | .simple k => "s" ++ toString k
  | .wrr ws => "wrr[" ++ showInts ws ++ "]"
  | .rc k => "rc[" ++ toString k ++ "]"
  | .query k => "qry[" ++ Hex.encode k ++ "]"
  | .header f => "hdr[" ++ Hex.encode f ++ "]"
  | .cookie n sec a => "ck[" ++ Hex.encode n ++ "," ++ Hex.encode sec ++ "," ++ toString a ++ "]"

def showCfRes : CfRes → String
  | .ok p => "ok " ++ ">".intercalate (p.map showPNode)
  | .err => "err"
  | .fuel => "model-out-of-fuel"

/-- `-` or `tokenhex:dialhex|dialhex,…` (`_` = no address at all) -/
def parseAddrTable (s : String) : Option (List (Bytes × List Bytes)) :=
  if s == "-" then some [] else
  (s.splitOn ",").mapM fun kv =>
    match kv.splitOn ":" with
    | [k, v] => do
      let k ← Hex.decode k
      let ds ← (if v == "_" then some [] else (v.splitOn "|").mapM Hex.decode)
      pure (k, ds)
    | _ => none

def addrOf (tbl : List (Bytes × List Bytes)) (t : Bytes) : Option (List Bytes) := (tbl.find? (·.1 == t)).map (·.2)

def showRp : Lr RpCfg → String
  | .err => "err"
  | .fuel => "model-out-of-fuel"
  | .ok c =>
    "ok ups=" ++ (if c.ups.isEmpty then "-" else ",".intercalate (c.ups.map Hex.encode))
      ++ " pol=" ++ (match c.pol with | none => "-" | some p => ">".intercalate (p.map showPNode))
      ++ " r=" ++ toString c.retries ++ " td=" ++ toString c.tryDur ++ " ti=" ++ toString c.tryInt
      ++ " p=" ++ (if c.passive then toString c.maxFails ++ "," ++ toString c.failDur ++ "," ++ toString c.urc else "-")

def showAh (s : AhState) : String :=
  "h" ++ (if s.healthy then "1" else "0") ++ ":" ++ toString s.passes ++ ":" ++ toString s.fails

def prxLine (mode pol cfg upsS script rnd : String) : String :=
  match parseProxyPolicy pol, parsePUps upsS, (script.splitOn ",").mapM parseEv, parseRand rnd with
  | some p, some ups, some evs, some ds =>
    match parsePCfg (mode == "dyn") cfg ups (strikesOf upsS) with
    | some c =>
      if (mode == "dyn" || mode == "sta") && ups.length ≤ 16 && decide (ups.map (·.id)).Nodup
          && evs.length ≤ 32 && scriptOK evs 0 then proxyAnswer p c evs ds
      else "bad-op"
    | none => "bad-op"
  | _, _, _, _ => "bad-op"

/-! ### `pd` lines: dial addresses with placeholders (`fillDialInfo` after `Select`) -/

/-- one request: `q` / `Q` (GET / POST) and one letter per upstream: `g` = the placeholder of its dial
    address is filled in with a good address, `r` port range, `m` named port, `w` reversed range,
    `z` port above 65535 = the dial info cannot be made -/
def parseDReq (n : Nat) (s : String) : Option (Bool × List Nat) :=
  match s.toList with
  | m :: ls =>
    if (m = 'q' || m = 'Q') && ls.length = n
        && ls.all (fun ch => ch = 'g' || ch = 'r' || ch = 'm' || ch = 'w' || ch = 'z') then
      some (m = 'q', (ls.zipIdx.filter (fun x => x.1 ≠ 'g')).map (·.2))
    else none
  | [] => none

def showDFin : DFin → String
  | .fin f => showFinal f
  | .dialInfo i => "di" ++ toString i

def showDOut (x : List (Option Nat) × DFin) : String := "/".intercalate (x.1.map showTried ++ [showDFin x.2])

def dStarved : List (Option Nat) × DFin → Bool
  | (_, .fin .starved) => true
  | _ => false

def pdAnswer (p : Policy) (c : PCfg) (rs : List (Bool × List Nat)) (ds : List Nat) : String :=
  match provision p with
  | none => "err:provision"
  | some p =>
    if (drun c (pinit p c ds) rs).1.any dStarved then "starved"
    else ",".intercalate ((drun c (pinit p c ds) rs).1.map showDOut)
      ++ " c=" ++ counterOf (drun c (pinit p c ds) rs).2.pol
      ++ " n=" ++ showNatList (drun c (pinit p c ds) rs).2.loads
      ++ " f=" ++ showNatList (drun c (pinit p c ds) rs).2.fails

def pdLine (mode pol cfg upsS reqs rnd : String) : String :=
  match parseProxyPolicy pol, parsePUps upsS, parseRand rnd with
  | some p, some ups, some ds =>
    match parsePCfg (mode == "dyn") cfg ups [], (reqs.splitOn ",").mapM (parseDReq ups.length) with
    | some c, some rs =>
      if (mode == "dyn" || mode == "sta") && 0 < ups.length && ups.length ≤ 8 && decide (ups.map (·.id)).Nodup
          && (strikesOf upsS).isEmpty && !c.cb && rs.length ≤ 16 then pdAnswer p c rs ds
      else "bad-op"
    | _, _ => "bad-op"
  | _, _, _ => "bad-op"

def handle : List String → String
  | ["ah", p, f, script] =>
    match num 20 p, num 20 f, (script.toList.mapM fun c => if c = 'p' then some true else if c = 'f' then some false else none) with
    | some p, some f, some rs =>
      if rs.isEmpty || 24 < rs.length then "bad-op"
      else ",".intercalate ((ahRun (ahThreshold p) (ahThreshold f) ahInit rs).map showAh)
    | _, _, _ => "bad-op"
  | ["sc", tls, trusted, xfp, ma] =>
    match optBool tls, optBool trusted, (if xfp == "-" then some [] else (xfp.splitOn ",").mapM Hex.decode), sint max63 ma with
    | some (some tls), some (some tr), some xfp, some ma =>
      "secure=" ++ (if (stickyAttrs tls tr xfp ma).secure then "1" else "0")
        ++ " ss=" ++ (if (stickyAttrs tls tr xfp ma).sameSiteNone then "none" else "-")
        ++ " ma=" ++ toString (stickyAttrs tls tr xfp ma).maxAge
    | _, _, _, _ => "bad-op"
  | ["tim", dms, ims] =>
    -- lb_try_duration / lb_try_interval on the real clock: checked by the harness's oracle only
    match num 2000 dms, num 2000 ims with
    | some d, some _ => if d = 0 then "bad-op" else "ok"
    | _, _ => "bad-op"
  | ["rp", toks, durs, addrs] =>
    match (toks.splitOn ",").mapM parseTok, parseDurTable durs, parseAddrTable addrs with
    | some toks, some tbl, some atbl =>
      if toks.length ≤ 64 then showRp (parseReverseProxy (durOf tbl) (addrOf atbl) toks) else "bad-op"
    | _, _, _ => "bad-op"
  | ["wr", kind, toks, durs, addrs] =>
    -- a reverse_proxy / forward_auth / php_fastcgi directive through the whole Caddyfile adapter
    match (if kind == "rp" then some WKind.rp else if kind == "fa" then some WKind.fa else if kind == "php" then some WKind.php else none),
          (toks.splitOn ",").mapM parseTok, parseDurTable durs, parseAddrTable addrs with
    | some k, some toks, some tbl, some atbl =>
      if toks.length ≤ 64 && wrapperCaseOK k toks then showRp (parseWrapper k (durOf tbl) (addrOf atbl) toks) else "bad-op"
    | _, _, _, _ => "bad-op"
  | ["cf", toks, durs] =>
    match (toks.splitOn ",").mapM parseTok, parseDurTable durs with
    | some toks, some tbl => if toks.length ≤ 48 then showCfRes (parseLbPolicy (durOf tbl) toks) else "bad-op"
    | _, _ => "bad-op"
  | ["key", src, remote, cip, uri, host, hdrs, qry, lkey, tbl] =>
    match parseKeySrc src, Hex.decode remote, Hex.decode cip, Hex.decode uri, Hex.decode host, parsePairs hdrs,
          parsePairs qry, parseNums max64 tbl with
    | some src, some remote, some cip, some uri, some host, some hdrs, some qry, some tbl =>
      match (if lkey == "fb" then some none else (Hex.decode lkey).map some) with
      | none => "bad-op"
      | some lk =>
        if (lk.isNone && tbl.length ≠ 0) || (lk.isSome && tbl.length ≠ 8) then "bad-op"
        else match hashKey src ⟨remote, cip, uri, host, C10.fromWire hdrs, qry, []⟩, lk with
          | none, none => "fb"
          | none, some _ => "fb"
          | some k, some l => if k = l then showSel (selHash (probePool tbl)) else "key:" ++ Hex.encode k
          | some k, none => "key:" ++ Hex.encode k
    | _, _, _, _, _, _, _, _ => "bad-op"
  | ["ck", name, cks] =>
    match Hex.decode name, parsePairs cks with
    | some name, some cks =>
      -- an empty name = none configured: `Provision` defaults it to `lb`
      match cookieValue (if name.isEmpty then str "lb" else name) cks with
      | some v => (match tokenIdx v with | some j => toString j | none => "fb")
      | none => "fb"
    | _, _ => "bad-op"
  | ["pd", mode, pol, cfg, upsS, reqs, rnd] => pdLine mode pol cfg upsS reqs rnd
  | ["prx", mode, pol, cfg, upsS, script, rnd] => prxLine mode pol cfg upsS script rnd
  -- a trailing `c`: the same configuration delivered as a Caddyfile — the same handler
  | ["prx", mode, pol, cfg, upsS, script, rnd, "c"] => prxLine mode pol cfg upsS script rnd
  | ["dy", cfg, static, kind, srcs, via, foreign] =>
    -- `via`: the configuration is delivered as JSON (j) or as a Caddyfile (c, p) — the same handler either way
    match parseDCfg cfg, parseDUps static, (if srcs == "-" then some [] else (srcs.splitOn ";").mapM parseSrc), parseForeign foreign with
    | some c, some st, some l, some fo =>
      if st.length ≤ 16 && l.length ≤ 8 && fo.length ≤ 4 && (via == "j" || via == "c" || via == "p") then
        match kind, l with
        | "none", [] => showHanded (handed c fo st .none)
        | "one", [x] => showHanded (handed c fo st (.one x))
        | "multi", l => showHanded (handed c fo st (.multi l))
        | _, _ => "bad-op"
      else "bad-op"
    | _, _, _, _ => "bad-op"
  | ["sel", pol, pool, n, v, rnd] =>
    match parsePolicy pol, parsePool pool, num 64 n, num small v, parseRand rnd with
    | some p, some pl, some n, some _, some ds => if n = 0 then "bad-op" else answer p pl n ds
    | _, _, _, _, _ => "bad-op"
  | _ => "bad-op"

end CaddyModel.C08
