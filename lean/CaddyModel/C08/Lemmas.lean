/-
C08 — helper lemmas: loop invariants of the policy loops.
Convention: a loop over `rest` with index `pre.length` runs on the pool `pre ++ rest`.
-/
import CaddyModel.C08.Spec
import CaddyModel.C08.Caddyfile

namespace CaddyModel.C08

theorem availAt_mid (pre : Pool) (u : Up) (rest : Pool) (h : u.avail = true) :
    AvailAt (pre ++ u :: rest) pre.length := ⟨u, by simp, h⟩

theorem safe_none (pool : Pool) : Safe pool .none := by intro i h; cases h

theorem snoc_append (pre : Pool) (u : Up) (rest : Pool) : (pre ++ [u]) ++ rest = pre ++ u :: rest := by simp

theorem snoc_length (pre : Pool) (u : Up) : (pre ++ [u]).length = pre.length + 1 := by simp

/-! ### safety of every loop -/

theorem firstGo_safe : ∀ (rest pre : Pool), Safe (pre ++ rest) (firstGo rest pre.length)
  | [], pre => by intro i h; simp [firstGo] at h
  | u :: rest, pre => by
    unfold firstGo
    split
    · intro i h; cases h; exact availAt_mid pre u rest ‹_›
    · have := firstGo_safe rest (pre ++ [u])
      rwa [snoc_append, snoc_length] at this

theorem selFirst_safe (pool : Pool) : Safe pool (selFirst pool) := by
  have := firstGo_safe pool []
  simpa [selFirst] using this

theorem rrGo_safe (pool : Pool) : ∀ (fuel c : Nat), Safe pool (rrGo pool fuel c).1
  | 0, c => by simp [rrGo, safe_none]
  | fuel + 1, c => by
    unfold rrGo
    split
    · rename_i u hu
      split
      · intro i h; cases h; exact ⟨u, hu, ‹_›⟩
      · exact rrGo_safe pool fuel _
    · intro i h; cases h

theorem selRR_safe (pool : Pool) (c : Nat) : Safe pool (selRR pool c).1 := by
  unfold selRR
  split
  · exact safe_none pool
  · exact rrGo_safe pool _ _

theorem rndGo_safe : ∀ (rest pre : Pool) (best : Res) (count : Nat) (ds : List Nat),
    Safe (pre ++ rest) best → Safe (pre ++ rest) (rndGo rest pre.length best count ds).1
  | [], pre, best, count, ds, hb => by simpa [rndGo] using hb
  | u :: rest, pre, best, count, ds, hb => by
    unfold rndGo
    split
    · rename_i hu
      split
      · intro i h; cases h
      · rename_i d ds'
        split
        · have := rndGo_safe rest (pre ++ [u]) (.sel pre.length) (count + 1) ds'
          rw [snoc_append, snoc_length] at this
          exact this (by intro i h; cases h; exact availAt_mid pre u rest hu)
        · have := rndGo_safe rest (pre ++ [u]) best (count + 1) ds'
          rw [snoc_append, snoc_length] at this
          exact this hb
    · have := rndGo_safe rest (pre ++ [u]) best count ds
      rw [snoc_append, snoc_length] at this
      exact this hb

theorem selRandom_safe (pool : Pool) (ds : List Nat) : Safe pool (selRandom pool ds).1 := by
  have := rndGo_safe pool [] .none 0 ds
  simpa [selRandom] using this (safe_none _)

theorem lcGo_safe : ∀ (rest pre : Pool) (best : Res) (count : Nat) (least : Option Nat) (ds : List Nat),
    Safe (pre ++ rest) best → Safe (pre ++ rest) (lcGo rest pre.length best count least ds).1
  | [], pre, best, count, least, ds, hb => by simpa [lcGo] using hb
  | u :: rest, pre, best, count, least, ds, hb => by
    unfold lcGo
    split
    · rename_i hu
      have hnew : Safe (pre ++ u :: rest) (.sel pre.length) := by
        intro i h; cases h; exact availAt_mid pre u rest hu
      split
      · split
        · have := lcGo_safe rest (pre ++ [u]) (.sel pre.length) (lcCount u.load least count + 1) (lcLeast u.load least) ds
          rw [snoc_append, snoc_length] at this
          exact this hnew
        · split
          · intro i h; cases h
          · rename_i d ds'
            split
            · have := lcGo_safe rest (pre ++ [u]) (.sel pre.length) (lcCount u.load least count + 1) (lcLeast u.load least) ds'
              rw [snoc_append, snoc_length] at this
              exact this hnew
            · have := lcGo_safe rest (pre ++ [u]) best (lcCount u.load least count + 1) (lcLeast u.load least) ds'
              rw [snoc_append, snoc_length] at this
              exact this hb
      · have := lcGo_safe rest (pre ++ [u]) best (lcCount u.load least count) (lcLeast u.load least) ds
        rw [snoc_append, snoc_length] at this
        exact this hb
    · have := lcGo_safe rest (pre ++ [u]) best count least ds
      rw [snoc_append, snoc_length] at this
      exact this hb

theorem selLeastConn_safe (pool : Pool) (ds : List Nat) : Safe pool (selLeastConn pool ds).1 := by
  have := lcGo_safe pool [] .none 0 none ds
  simpa [selLeastConn] using this (safe_none _)

theorem hashGo_safe : ∀ (rest pre : Pool) (hi : Nat) (best : Res),
    Safe (pre ++ rest) best → Safe (pre ++ rest) (hashGo rest pre.length hi best)
  | [], pre, hi, best, hb => by simpa [hashGo] using hb
  | u :: rest, pre, hi, best, hb => by
    unfold hashGo
    split
    · rename_i hu
      have := hashGo_safe rest (pre ++ [u]) u.h (.sel pre.length)
      rw [snoc_append, snoc_length] at this
      apply this
      intro i h; cases h
      simp at hu
      exact availAt_mid pre u rest hu.1
    · have := hashGo_safe rest (pre ++ [u]) hi best
      rw [snoc_append, snoc_length] at this
      exact this hb

theorem selHash_safe (pool : Pool) : Safe pool (selHash pool) := by
  have := hashGo_safe pool [] 0 .none
  simpa [selHash] using this (safe_none _)

/-! ### weighted round robin: only usable positions (available, positive weight of their own) are returned -/

theorem wrrUsable_iff {ws : List Nat} {pool : Pool} {i : Nat} :
    wrrUsable ws pool i = true ↔ ∃ u w, pool[i]? = some u ∧ ws[i]? = some w ∧ u.avail = true ∧ 0 < w := by
  unfold wrrUsable
  cases hp : pool[i]? <;> cases hw : ws[i]? <;> simp
  exact And.comm

/-- what the scan loop does: the first usable position among owner+k, owner+k+1, … -/
theorem wrrScan_char (ws : List Nat) (pool : Pool) (owner : Nat) : ∀ (fuel k : Nat),
    (∃ k', k ≤ k' ∧ k' < k + fuel ∧ wrrScan ws pool owner fuel k = .sel ((owner + k') % ws.length) ∧
      wrrUsable ws pool ((owner + k') % ws.length) = true ∧
      ∀ j, k ≤ j → j < k' → wrrUsable ws pool ((owner + j) % ws.length) = false) ∨
    (wrrScan ws pool owner fuel k = .none ∧
      ∀ j, k ≤ j → j < k + fuel → wrrUsable ws pool ((owner + j) % ws.length) = false)
  | 0, k => Or.inr ⟨rfl, fun j h1 h2 => by omega⟩
  | fuel + 1, k => by
    unfold wrrScan
    split
    · rename_i hu
      exact Or.inl ⟨k, Nat.le_refl _, by omega, rfl, hu, fun j h1 h2 => by omega⟩
    · rename_i hu
      have hf : wrrUsable ws pool ((owner + k) % ws.length) = false := by simpa using hu
      rcases wrrScan_char ws pool owner fuel (k + 1) with ⟨k', h1, h2, h3, h4, h5⟩ | ⟨h1, h2⟩
      · refine Or.inl ⟨k', by omega, by omega, h3, h4, ?_⟩
        intro j hj1 hj2
        by_cases hjk : j = k
        · subst hjk; exact hf
        · exact h5 j (by omega) hj2
      · refine Or.inr ⟨h1, ?_⟩
        intro j hj1 hj2
        by_cases hjk : j = k
        · subst hjk; exact hf
        · exact h2 j (by omega) (by omega)

theorem wrrUsable_eff {ws : List Nat} {pool : Pool} {i : Nat} :
    wrrUsable (wrrEff ws pool) pool i = wrrUsable ws pool i := by
  unfold wrrUsable wrrEff
  cases hp : pool[i]? with
  | none => rfl
  | some u =>
    have hi : i < pool.length := (List.getElem?_eq_some_iff.1 hp).1
    rw [List.getElem?_take_of_lt hi]

theorem selWRR_sel {ws : List Nat} {pool : Pool} {c i : Nat} (h : (selWRR ws pool c).1 = .sel i) :
    AvailAt pool i ∧ (2 ≤ ws.length → ∃ w, ws[i]? = some w ∧ 0 < w) := by
  unfold selWRR at h
  split at h
  · cases h
  · split at h
    · exact ⟨selFirst_safe pool i h, fun h2 => by omega⟩
    · split at h
      · cases h
      · simp only at h
        rcases wrrScan_char (wrrEff ws pool) pool _ (wrrEff ws pool).length 0 with ⟨k', _, _, h3, h4, _⟩ | ⟨h1, _⟩
        · rw [h3] at h
          cases h
          rw [wrrUsable_eff] at h4
          obtain ⟨u, w, hu, hw, hav, hpos⟩ := wrrUsable_iff.1 h4
          exact ⟨⟨u, hu, hav⟩, fun _ => ⟨w, hw, hpos⟩⟩
        · rw [h1] at h; cases h

theorem selWRR_safe (ws : List Nat) (pool : Pool) (c : Nat) : Safe pool (selWRR ws pool c).1 :=
  fun _ h => (selWRR_sel h).1

/-! ### math/rand -/

theorem intn_lt {n : Nat} (hn : 0 < n) : ∀ {ds : List Nat} {j : Nat} {ds' : List Nat},
    intn n ds = some (j, ds') → j < n
  | [], j, ds', h => by simp [intn] at h
  | r :: rest, j, ds', h => by
    unfold intn at h
    split at h
    · exact intn_lt hn h
    · simp at h; rw [← h.1]; exact Nat.mod_lt _ hn

/-! ### random_choose: the reservoir holds distinct available candidates -/

/-- a reservoir entry names an available pool position together with its load -/
def CandOK (pool : Pool) (c : Cand) : Prop := ∃ u, pool[c.1]? = some u ∧ u.avail = true ∧ u.load = c.2

structure RcInv (pool : Pool) (bound : Nat) (ch : List Cand) : Prop where
  ok : ∀ c ∈ ch, CandOK pool c ∧ c.1 < bound
  nodup : (ch.map Prod.fst).Nodup

theorem nodup_set {α : Type} : ∀ (l : List α) (j : Nat) (a : α), l.Nodup → a ∉ l → (l.set j a).Nodup
  | [], _, _, h, _ => by simp
  | x :: xs, 0, a, h, ha => by
    simp only [List.set_cons_zero]
    rw [List.nodup_cons] at h ⊢
    exact ⟨fun hm => ha (List.mem_cons_of_mem _ hm), h.2⟩
  | x :: xs, j + 1, a, h, ha => by
    simp only [List.set_cons_succ]
    rw [List.nodup_cons] at h ⊢
    refine ⟨?_, nodup_set xs j a h.2 (fun hm => ha (List.mem_cons_of_mem _ hm))⟩
    intro hm
    rcases List.mem_or_eq_of_mem_set hm with hm | hm
    · exact h.1 hm
    · subst hm; exact ha (List.mem_cons_self ..)

theorem numAvail_snoc (pre : Pool) (u : Up) :
    numAvail (pre ++ [u]) = numAvail pre + (if u.avail then 1 else 0) := by
  unfold numAvail
  rw [List.filter_append]
  by_cases h : u.avail = true <;> simp [h]

theorem rcGo_inv (k : Nat) : ∀ (rest pre : Pool) (ch : List Cand) (seen : Nat) (ds : List Nat)
    (out : List Cand) (ds' : List Nat),
    RcInv (pre ++ rest) pre.length ch → ch.length = min k seen → seen = numAvail pre →
    rcGo k rest pre.length ch seen ds = some (out, ds') →
    RcInv (pre ++ rest) (pre ++ rest).length out ∧ out.length = min k (numAvail (pre ++ rest))
  | [], pre, ch, seen, ds, out, ds', hinv, hlen, hseen, h => by
    simp [rcGo] at h
    obtain ⟨h1, _⟩ := h
    subst h1
    simp only [List.append_nil] at hinv ⊢
    exact ⟨hinv, by rw [hlen, hseen]⟩
  | u :: rest, pre, ch, seen, ds, out, ds', hinv, hlen, hseen, h => by
    unfold rcGo at h
    have hlt : ∀ c ∈ ch, c.1 < pre.length := fun c hc => (hinv.ok c hc).2
    split at h
    · rename_i hu
      have hcand : CandOK (pre ++ u :: rest) (pre.length, u.load) := ⟨u, by simp, hu, rfl⟩
      have hfresh : pre.length ∉ ch.map Prod.fst := by
        intro hm
        obtain ⟨c, hc, hce⟩ := List.mem_map.1 hm
        have := hlt c hc
        omega
      have hseen' : seen + 1 = numAvail (pre ++ [u]) := by rw [numAvail_snoc, hseen]; simp [hu]
      split at h
      · rename_i hk
        have := rcGo_inv k rest (pre ++ [u]) (ch ++ [(pre.length, u.load)]) (seen + 1) ds out ds'
        rw [snoc_append, snoc_length] at this
        refine this ⟨?_, ?_⟩ ?_ hseen' h
        · intro c hc
          rcases List.mem_append.1 hc with hc | hc
          · exact ⟨(hinv.ok c hc).1, by have := hlt c hc; omega⟩
          · simp at hc; subst hc; exact ⟨hcand, by simp⟩
        · rw [List.map_append, List.nodup_append]
          refine ⟨hinv.nodup, by simp, ?_⟩
          intro a ha b hb
          simp at hb
          subst hb
          intro hab; subst hab; exact hfresh ha
        · simp; omega
      · rename_i hk
        split at h
        · cases h
        · rename_i j ds'' hj
          split at h
          · rename_i hjk
            have := rcGo_inv k rest (pre ++ [u]) (ch.set j (pre.length, u.load)) (seen + 1) ds'' out ds'
            rw [snoc_append, snoc_length] at this
            refine this ⟨?_, ?_⟩ ?_ hseen' h
            · intro c hc
              rcases List.mem_or_eq_of_mem_set hc with hc | hc
              · exact ⟨(hinv.ok c hc).1, by have := hlt c hc; omega⟩
              · subst hc; exact ⟨hcand, by simp⟩
            · rw [List.map_set]
              exact nodup_set _ _ _ hinv.nodup hfresh
            · simp; omega
          · have := rcGo_inv k rest (pre ++ [u]) ch (seen + 1) ds'' out ds'
            rw [snoc_append, snoc_length] at this
            refine this ⟨?_, hinv.nodup⟩ ?_ hseen' h
            · intro c hc
              exact ⟨(hinv.ok c hc).1, by have := hlt c hc; omega⟩
            · omega
    · rename_i hu
      have := rcGo_inv k rest (pre ++ [u]) ch seen ds out ds'
      rw [snoc_append, snoc_length] at this
      refine this ⟨?_, hinv.nodup⟩ hlen ?_ h
      · intro c hc
        exact ⟨(hinv.ok c hc).1, by have := hlt c hc; omega⟩
      · rw [numAvail_snoc, hseen]; simp [hu]

/-! ### leastRequests returns a candidate with the least load -/

/-- `(i, l)` is a candidate and no candidate has fewer requests -/
def MinCand (ch : List Cand) (i : Nat) : Prop := ∃ l, (i, l) ∈ ch ∧ ∀ c ∈ ch, l ≤ c.2

/-- invariant of the leastRequests loop after the candidates `done` -/
def LrInv (done : List Cand) (best : List Nat) (br : Option Nat) : Prop :=
  (done = [] ∧ best = [] ∧ br = none) ∨
  (∃ m, br = some m ∧ best ≠ [] ∧ (∀ i ∈ best, (i, m) ∈ done) ∧ ∀ c ∈ done, m ≤ c.2)

/-- what the leastRequests loop returns for the candidates `all` -/
def LrPost (all : List Cand) : Sum Nat (List Nat) → Prop
  | .inl i => MinCand all i
  | .inr b => (all = [] ∧ b = []) ∨ (b ≠ [] ∧ ∀ i ∈ b, MinCand all i)

theorem lrGo_spec : ∀ (rest done : List Cand) (best : List Nat) (br : Option Nat),
    LrInv done best br → LrPost (done ++ rest) (lrGo rest best br)
  | [], done, best, br, hinv => by
    simp only [lrGo, List.append_nil, LrPost]
    rcases hinv with ⟨h1, h2, _⟩ | ⟨m, _, hne, hmem, hmin⟩
    · exact Or.inl ⟨h1, h2⟩
    · exact Or.inr ⟨hne, fun i hi => ⟨m, hmem i hi, hmin⟩⟩
  | (i, l) :: rest, done, best, br, hinv => by
    unfold lrGo
    split
    · rename_i hl
      subst hl
      exact ⟨0, by simp, fun c _ => Nat.zero_le _⟩
    · rename_i hl
      have happ : done ++ (i, l) :: rest = (done ++ [(i, l)]) ++ rest := by simp
      split
      · rename_i hr
        rw [happ]
        apply lrGo_spec rest (done ++ [(i, l)]) [i] (some l)
        refine Or.inr ⟨l, rfl, by simp, by simp, ?_⟩
        intro c hc
        rcases List.mem_append.1 hc with hc | hc
        · rcases hinv with ⟨h1, _, _⟩ | ⟨m, hbr, _, _, hmin⟩
          · subst h1; cases hc
          · subst hbr
            simp [lrReset] at hr
            have := hmin c hc
            omega
        · simp at hc; subst hc; exact Nat.le_refl _
      · rename_i hr
        rcases hinv with ⟨_, _, h3⟩ | ⟨m, hbr, hne, hmem, hmin⟩
        · subst h3; simp [lrReset] at hr
        · subst hbr
          simp [lrReset] at hr
          split
          · rename_i heq
            simp at heq
            subst heq
            rw [happ]
            apply lrGo_spec rest (done ++ [(i, m)]) (best ++ [i]) (some m)
            refine Or.inr ⟨m, rfl, by simp, ?_, ?_⟩
            · intro x hx
              rcases List.mem_append.1 hx with hx | hx
              · exact List.mem_append_left _ (hmem x hx)
              · simp at hx; subst hx; simp
            · intro c hc
              rcases List.mem_append.1 hc with hc | hc
              · exact hmin c hc
              · simp at hc; subst hc; exact Nat.le_refl _
          · rw [happ]
            apply lrGo_spec rest (done ++ [(i, l)]) best (some m)
            refine Or.inr ⟨m, rfl, hne, ?_, ?_⟩
            · intro x hx; exact List.mem_append_left _ (hmem x hx)
            · intro c hc
              rcases List.mem_append.1 hc with hc | hc
              · exact hmin c hc
              · simp at hc; subst hc; exact hr

theorem lrPick_mem {best : List Nat} {ds : List Nat} {i : Nat} (h : (lrPick best ds).1 = .sel i) : i ∈ best := by
  unfold lrPick at h
  split at h
  · cases h
  · cases h; simp
  · split at h
    · cases h
    · split at h
      · rename_i x hx
        cases h
        exact List.mem_of_getElem? hx
      · cases h

theorem leastRequests_spec {ch : List Cand} {ds : List Nat} {i : Nat}
    (h : (leastRequests ch ds).1 = .sel i) : MinCand ch i := by
  unfold leastRequests at h
  split at h
  · cases h
  · have hs := lrGo_spec ch [] [] none (Or.inl ⟨rfl, rfl, rfl⟩)
    simp only [List.nil_append] at hs
    split at h
    · rename_i j hj
      rw [hj] at hs
      cases h
      exact hs
    · rename_i best hb
      rw [hb] at hs
      simp only [LrPost] at hs
      have hm := lrPick_mem h
      rcases hs with ⟨_, hb0⟩ | ⟨_, hall⟩
      · subst hb0; cases hm
      · exact hall i hm

/-- what `random_choose` guarantees about the upstream it returns -/
theorem selRandomChoose_spec {k : Nat} {pool : Pool} {ds : List Nat} {i : Nat}
    (h : (selRandomChoose k pool ds).1 = .sel i) :
    ∃ ch : List Cand, (∀ c ∈ ch, CandOK pool c) ∧ (ch.map Prod.fst).Nodup ∧
      ch.length = min (min k pool.length) (numAvail pool) ∧ MinCand ch i := by
  unfold selRandomChoose at h
  split at h
  · cases h
  · rename_i ch ds' hrc
    have := rcGo_inv (min k pool.length) pool [] [] 0 ds ch ds' ⟨by simp, by simp⟩ (by simp) (by simp [numAvail])
      (by simpa using hrc)
    simp only [List.nil_append] at this
    exact ⟨ch, fun c hc => (this.1.ok c hc).1, this.1.nodup, this.2, leastRequests_spec h⟩

theorem selRandomChoose_safe (k : Nat) (pool : Pool) (ds : List Nat) : Safe pool (selRandomChoose k pool ds).1 := by
  intro i h
  obtain ⟨ch, hok, _, _, l, hmem, _⟩ := selRandomChoose_spec h
  obtain ⟨u, hu, hav, _⟩ := hok _ hmem
  exact ⟨u, hu, hav⟩

/-! ### cookie -/

theorem cookieGo_spec (c : Nat) : ∀ (rest pre : Pool) (i : Nat), cookieGo c rest pre.length = some i →
    ∃ u, (pre ++ rest)[i]? = some u ∧ u.avail = true ∧ u.id = c ∧ pre.length ≤ i ∧
      ∀ j v, pre.length ≤ j → j < i → (pre ++ rest)[j]? = some v → ¬(v.avail = true ∧ v.id = c)
  | [], pre, i, h => by simp [cookieGo] at h
  | u :: rest, pre, i, h => by
    unfold cookieGo at h
    split at h
    · rename_i hu
      simp at hu h
      subst h
      exact ⟨u, by simp, hu.1, hu.2, Nat.le_refl _, fun j v h1 h2 => by omega⟩
    · rename_i hu
      have := cookieGo_spec c rest (pre ++ [u]) i
      rw [snoc_append, snoc_length] at this
      obtain ⟨v, hv, hav, hid, hle, hfirst⟩ := this h
      refine ⟨v, hv, hav, hid, by omega, ?_⟩
      intro j x h1 h2 hx
      by_cases hj : j = pre.length
      · subst hj
        simp at hx
        subst hx
        simpa using hu
      · exact hfirst j x (by omega) h2 hx

/-! ### every policy is safe -/

theorem cookieRes_sel {w : Bool} {r : Res} {i : Nat} (h : cookieRes w r = .sel i) : r = .sel i := by
  unfold cookieRes at h
  split at h
  · split at h
    · exact h
    · cases h
  · exact h

theorem select_safe : ∀ (p : Policy) (w : Bool) (pool : Pool) (ds : List Nat), Safe pool (select w p pool ds).res
  | .first, w, pool, ds => by simp only [select]; exact selFirst_safe pool
  | .rr c, w, pool, ds => by simp only [select]; exact selRR_safe pool c
  | .wrr ws c, w, pool, ds => by simp only [select]; exact selWRR_safe ws pool c
  | .leastConn, w, pool, ds => by simp only [select]; exact selLeastConn_safe pool ds
  | .random, w, pool, ds => by simp only [select]; exact selRandom_safe pool ds
  | .randomChoose k, w, pool, ds => by simp only [select]; exact selRandomChoose_safe k pool ds
  | .hash, w, pool, ds => by simp only [select]; exact selHash_safe pool
  | .keyed true fb, w, pool, ds => by simp only [select]; exact selHash_safe pool
  | .keyed false fb, w, pool, ds => by simp only [select]; exact select_safe fb w pool ds
  | .cookie none fb, w, pool, ds => by
    simp only [select]
    intro i h
    exact select_safe fb w pool ds i (cookieRes_sel h)
  | .cookie (some c) fb, w, pool, ds => by
    simp only [select]
    split
    · rename_i j hj
      intro i h
      cases h
      obtain ⟨u, hu, hav, _⟩ := cookieGo_spec c pool [] j hj
      exact ⟨u, by simpa using hu, hav⟩
    · intro i h
      exact select_safe fb w pool ds i (cookieRes_sel h)

/-! ### first: the earliest available upstream -/

theorem firstGo_spec : ∀ (rest pre : Pool),
    (firstGo rest pre.length = .none ∧ ∀ v ∈ rest, v.avail = false) ∨
    (∃ i, firstGo rest pre.length = .sel i ∧ pre.length ≤ i ∧
      ∀ j v, pre.length ≤ j → j < i → (pre ++ rest)[j]? = some v → v.avail = false)
  | [], pre => by simp [firstGo]
  | u :: rest, pre => by
    unfold firstGo
    split
    · exact Or.inr ⟨pre.length, rfl, Nat.le_refl _, fun j v h1 h2 => by omega⟩
    · rename_i hu
      have := firstGo_spec rest (pre ++ [u])
      rw [snoc_append, snoc_length] at this
      rcases this with ⟨h1, h2⟩ | ⟨i, h1, h2, h3⟩
      · refine Or.inl ⟨h1, ?_⟩
        intro v hv
        rcases List.mem_cons.1 hv with hv | hv
        · subst hv; simpa using hu
        · exact h2 v hv
      · refine Or.inr ⟨i, h1, by omega, ?_⟩
        intro j v hj1 hj2 hv
        by_cases hj : j = pre.length
        · subst hj
          simp at hv
          subst hv
          simpa using hu
        · exact h3 j v (by omega) hj2 hv

theorem anyAvail_iff {pool : Pool} : anyAvail pool = true ↔ ∃ v ∈ pool, v.avail = true := by
  simp [anyAvail]

/-! ### round robin: the result is the first available probe position -/

theorem inc32_of_lt {c : Nat} (h : c + 1 < u32) : inc32 c = c + 1 := by
  unfold inc32; exact Nat.mod_eq_of_lt h

theorem availB_true {pool : Pool} {i : Nat} : availB pool i = true ↔ AvailAt pool i := by
  unfold availB AvailAt
  cases pool[i]? <;> simp

/-- what one run of the round-robin loop does when the counter does not wrap -/
theorem rrGo_char (pool : Pool) (hn : 0 < pool.length) : ∀ (fuel c : Nat), c + fuel < u32 →
    (∃ i c', rrGo pool fuel c = (.sel i, c') ∧ c < c' ∧ c' ≤ c + fuel ∧ i = c' % pool.length ∧ AvailAt pool i ∧
      ∀ t, c < t → t < c' → availB pool (t % pool.length) = false) ∨
    (rrGo pool fuel c = (.none, c + fuel) ∧ ∀ t, c < t → t ≤ c + fuel → availB pool (t % pool.length) = false)
  | 0, c, _ => Or.inr ⟨by simp [rrGo], fun t h1 h2 => by omega⟩
  | fuel + 1, c, hc => by
    have hinc : inc32 c = c + 1 := inc32_of_lt (by omega)
    unfold rrGo
    rw [hinc]
    have hlt : (c + 1) % pool.length < pool.length := Nat.mod_lt _ hn
    split
    · rename_i u hu
      split
      · rename_i hav
        exact Or.inl ⟨_, c + 1, rfl, by omega, by omega, rfl, ⟨u, hu, hav⟩, fun t h1 h2 => by omega⟩
      · rename_i hav
        have hfalse : availB pool ((c + 1) % pool.length) = false := by
          unfold availB; rw [hu]; simpa using hav
        rcases rrGo_char pool hn fuel (c + 1) (by omega) with ⟨i, c', h1, h2, h3, h4, h5, h6⟩ | ⟨h1, h2⟩
        · refine Or.inl ⟨i, c', h1, by omega, by omega, h4, h5, ?_⟩
          intro t ht1 ht2
          by_cases ht : t = c + 1
          · subst ht; exact hfalse
          · exact h6 t (by omega) ht2
        · refine Or.inr ⟨by rw [h1]; congr 1; omega, ?_⟩
          intro t ht1 ht2
          by_cases ht : t = c + 1
          · subst ht; exact hfalse
          · exact h2 t (by omega) (by omega)
    · rename_i hnone
      have := List.getElem?_eq_none_iff.1 hnone
      omega

/-- among `n` consecutive counter values every residue modulo `n` occurs -/
theorem residue_hit (n c j : Nat) (hj : j < n) : ∃ t, c < t ∧ t ≤ c + n ∧ t % n = j := by
  have hc := Nat.div_add_mod c n
  have hr : c % n < n := Nat.mod_lt _ (by omega)
  by_cases h : c % n < j
  · refine ⟨n * (c / n) + j, by omega, by omega, ?_⟩
    rw [Nat.mul_add_mod_self_left]; exact Nat.mod_eq_of_lt hj
  · refine ⟨n * (c / n) + (n + j), by omega, by omega, ?_⟩
    rw [Nat.mul_add_mod_self_left, Nat.add_mod_left]; exact Nat.mod_eq_of_lt hj

theorem availAt_of_mem {pool : Pool} {v : Up} (hv : v ∈ pool) (ha : v.avail = true) : ∃ j, j < pool.length ∧ AvailAt pool j := by
  obtain ⟨j, hj, hget⟩ := List.getElem_of_mem hv
  exact ⟨j, hj, v, by simp [hj, hget], ha⟩

/-! ### random: something is chosen as soon as one upstream is available -/

theorem rndGo_live : ∀ (rest : Pool) (i : Nat) (best : Res) (count : Nat) (ds : List Nat),
    (best ≠ .none ∨ (count = 0 ∧ anyAvail rest = true)) → (rndGo rest i best count ds).1 ≠ .none
  | [], i, best, count, ds, h => by
    rcases h with h | ⟨_, h⟩
    · simpa [rndGo] using h
    · simp [anyAvail] at h
  | u :: rest, i, best, count, ds, h => by
    unfold rndGo
    split
    · rename_i hu
      split
      · simp
      · rename_i d ds'
        split
        · exact rndGo_live rest _ _ _ _ (Or.inl (by simp))
        · rename_i hd
          rcases h with h | ⟨h, _⟩
          · exact rndGo_live rest _ _ _ _ (Or.inl h)
          · subst h; simp [Nat.mod_one] at hd
    · rename_i hu
      apply rndGo_live rest
      rcases h with h | ⟨h1, h2⟩
      · exact Or.inl h
      · refine Or.inr ⟨h1, ?_⟩
        simp [anyAvail] at h2 ⊢
        rcases h2 with h2 | h2
        · exact absurd h2 hu
        · exact h2

/-! ### least_conn: the result carries the least load among the available upstreams -/

/-- invariant of the least_conn loop after the upstreams `pre` of `pool` -/
def LcInv (pool pre : Pool) (best : Res) (least : Option Nat) : Prop :=
  (least = none ∧ best = .none ∧ ∀ v ∈ pre, v.avail = false) ∨
  (∃ m j u, least = some m ∧ best = .sel j ∧ pool[j]? = some u ∧ u.load = m ∧
    ∀ v ∈ pre, v.avail = true → m ≤ v.load)

/-- what least_conn guarantees: nil only if nothing is available; a returned upstream is
    minimally loaded among the available ones -/
def LcPost (pool : Pool) (r : Res) : Prop :=
  (r = .none → ∀ v ∈ pool, v.avail = false) ∧
  (∀ i, r = .sel i → ∃ u, pool[i]? = some u ∧ ∀ v ∈ pool, v.avail = true → u.load ≤ v.load) ∧
  r.isPanic = false

theorem lcGo_spec : ∀ (rest pre : Pool) (best : Res) (count : Nat) (least : Option Nat) (ds : List Nat),
    LcInv (pre ++ rest) pre best least → LcPost (pre ++ rest) (lcGo rest pre.length best count least ds).1
  | [], pre, best, count, least, ds, hinv => by
    simp only [lcGo, List.append_nil] at hinv ⊢
    rcases hinv with ⟨_, h2, h3⟩ | ⟨m, j, u, _, h2, h3, h4, h5⟩
    · subst h2; exact ⟨fun _ => h3, fun i h => (by cases h), rfl⟩
    · subst h2
      refine ⟨fun h => (by cases h), fun i h => ?_, rfl⟩
      cases h
      exact ⟨u, h3, fun v hv ha => by rw [h4]; exact h5 v hv ha⟩
  | u :: rest, pre, best, count, least, ds, hinv => by
    have hmid : (pre ++ u :: rest)[pre.length]? = some u := by simp
    -- the invariant after `u` when `u` becomes / stays / is not the best
    have hnewbest : ∀ m, m = u.load → (∀ v ∈ pre, v.avail = true → m ≤ v.load) →
        LcInv (pre ++ u :: rest) (pre ++ [u]) (.sel pre.length) (some m) := by
      intro m hm hall
      refine Or.inr ⟨m, pre.length, u, rfl, rfl, hmid, hm.symm, ?_⟩
      intro v hv ha
      rcases List.mem_append.1 hv with hv | hv
      · exact hall v hv ha
      · simp at hv; subst hv; omega
    unfold lcGo
    split
    · rename_i hu
      split
      · rename_i hleast
        -- numReqs == leastReqs after the update
        have hall : ∀ v ∈ pre, v.avail = true → u.load ≤ v.load := by
          intro v hv ha
          rcases hinv with ⟨_, _, h3⟩ | ⟨m, j, x, h1, _, _, _, h5⟩
          · rw [h3 v hv] at ha; cases ha
          · subst h1
            have := h5 v hv ha
            unfold lcLeast at hleast
            split at hleast
            · rename_i hr; simp [lcReset] at hr; omega
            · simp at hleast; omega
        rw [hleast]
        split
        · have := lcGo_spec rest (pre ++ [u]) (.sel pre.length) (lcCount u.load least count + 1) (some u.load) ds
          rw [snoc_append, snoc_length] at this
          exact this (hnewbest _ rfl hall)
        · split
          · exact ⟨fun h => (by cases h), fun i h => (by cases h), rfl⟩
          · rename_i d ds'
            split
            · have := lcGo_spec rest (pre ++ [u]) (.sel pre.length) (lcCount u.load least count + 1) (some u.load) ds'
              rw [snoc_append, snoc_length] at this
              exact this (hnewbest _ rfl hall)
            · have := lcGo_spec rest (pre ++ [u]) best (lcCount u.load least count + 1) (some u.load) ds'
              rw [snoc_append, snoc_length] at this
              apply this
              -- `u` ties with the current best, which is kept
              rcases hinv with ⟨h1, _, _⟩ | ⟨m, j, x, h1, h2, h3, h4, h5⟩
              · subst h1
                rename_i hc _
                simp [lcCount, lcReset] at hc
              · subst h1
                have hm : m = u.load := by
                  unfold lcLeast at hleast
                  split at hleast
                  · rename_i hr
                    rename_i hc _
                    simp [lcCount, hr] at hc
                  · simpa using hleast
                refine Or.inr ⟨u.load, j, x, rfl, h2, h3, by omega, ?_⟩
                intro v hv ha
                rcases List.mem_append.1 hv with hv | hv
                · have := h5 v hv ha; omega
                · simp at hv; subst hv; omega
      · rename_i hleast
        -- `u` is more loaded than the current least: nothing changes
        have := lcGo_spec rest (pre ++ [u]) best (lcCount u.load least count) (lcLeast u.load least) ds
        rw [snoc_append, snoc_length] at this
        apply this
        rcases hinv with ⟨h1, _, _⟩ | ⟨m, j, x, h1, h2, h3, h4, h5⟩
        · subst h1; simp [lcLeast, lcReset] at hleast
        · subst h1
          have hr : lcReset u.load (some m) = false := by
            cases hh : lcReset u.load (some m)
            · rfl
            · simp [lcLeast, hh] at hleast
          have hlt : m < u.load := by
            simp [lcReset] at hr
            simp [lcLeast, lcReset, hr] at hleast
            omega
          refine Or.inr ⟨m, j, x, by simp [lcLeast, hr], h2, h3, h4, ?_⟩
          intro v hv ha
          rcases List.mem_append.1 hv with hv | hv
          · exact h5 v hv ha
          · simp at hv; subst hv; omega
    · rename_i hu
      have := lcGo_spec rest (pre ++ [u]) best count least ds
      rw [snoc_append, snoc_length] at this
      apply this
      rcases hinv with ⟨h1, h2, h3⟩ | ⟨m, j, x, h1, h2, h3, h4, h5⟩
      · refine Or.inl ⟨h1, h2, ?_⟩
        intro v hv
        rcases List.mem_append.1 hv with hv | hv
        · exact h3 v hv
        · simp at hv; subst hv; simpa using hu
      · refine Or.inr ⟨m, j, x, h1, h2, h3, h4, ?_⟩
        intro v hv ha
        rcases List.mem_append.1 hv with hv | hv
        · exact h5 v hv ha
        · simp at hv; subst hv; rw [ha] at hu; exact absurd rfl hu

/-! ### random_choose: a non-empty reservoir yields an upstream -/

/-- the result is an upstream, or the draws ran out -/
def Res.fine : Res → Bool
  | .sel _ => true
  | .starved => true
  | _ => false

theorem lrPick_fine {best : List Nat} (ds : List Nat) (h : best ≠ []) : (lrPick best ds).1.fine = true := by
  unfold lrPick
  split
  · exact absurd rfl h
  · rfl
  · split
    · rfl
    · rename_i j ds' hj
      have hlen : 0 < best.length := List.length_pos_iff.2 h
      have := intn_lt hlen hj
      split
      · rfl
      · rename_i hnone
        have := List.getElem?_eq_none_iff.1 hnone
        omega

theorem leastRequests_fine {ch : List Cand} (ds : List Nat) (h : ch ≠ []) : (leastRequests ch ds).1.fine = true := by
  unfold leastRequests
  split
  · rename_i h0; exact absurd (List.length_eq_zero_iff.1 h0) h
  · have hs := lrGo_spec ch [] [] none (Or.inl ⟨rfl, rfl, rfl⟩)
    simp only [List.nil_append] at hs
    split
    · rfl
    · rename_i best hb
      rw [hb] at hs
      simp only [LrPost] at hs
      rcases hs with ⟨h1, _⟩ | ⟨h1, _⟩
      · exact absurd h1 h
      · exact lrPick_fine ds h1

theorem numAvail_pos {pool : Pool} (h : anyAvail pool = true) : 0 < numAvail pool := by
  obtain ⟨v, hv, ha⟩ := anyAvail_iff.1 h
  unfold numAvail
  exact List.length_pos_iff.2 (List.ne_nil_of_mem (List.mem_filter.2 ⟨hv, ha⟩))

theorem selRandomChoose_fine {k : Nat} {pool : Pool} (ds : List Nat) (hk : 1 ≤ k) (h : anyAvail pool = true) :
    (selRandomChoose k pool ds).1.fine = true := by
  unfold selRandomChoose
  split
  · rfl
  · rename_i ch ds' hrc
    have := rcGo_inv (min k pool.length) pool [] [] 0 ds ch ds' ⟨by simp, by simp⟩ (by simp) (by simp [numAvail])
      (by simpa using hrc)
    simp only [List.nil_append] at this
    have hpos := numAvail_pos h
    have hlen : 0 < pool.length := by
      obtain ⟨v, hv, _⟩ := anyAvail_iff.1 h
      exact List.length_pos_iff.2 (List.ne_nil_of_mem hv)
    apply leastRequests_fine
    intro hnil
    rw [hnil] at this
    simp at this
    omega

/-- random_choose never panics -/
theorem selRandomChoose_noPanic (k : Nat) (pool : Pool) (ds : List Nat) : (selRandomChoose k pool ds).1.isPanic = false := by
  unfold selRandomChoose
  split
  · rfl
  · rename_i ch ds' _
    by_cases h : ch = []
    · subst h; simp [leastRequests, Res.isPanic]
    · have := leastRequests_fine ds' h
      revert this
      cases (leastRequests ch ds').1 <;> simp [Res.fine, Res.isPanic]

/-! ### rendezvous hashing on upstream records -/

/-- `best` (an index) and `bu` (a record) denote the same upstream of `pool` -/
def Corr (pool : Pool) (r : Res) (o : Option Up) : Prop :=
  (r = .none ∧ o = none) ∨ (∃ j u, r = .sel j ∧ o = some u ∧ pool[j]? = some u)

theorem hashGo_hrw : ∀ (rest pre : Pool) (hi : Nat) (best : Res) (bu : Option Up),
    Corr (pre ++ rest) best bu → Corr (pre ++ rest) (hashGo rest pre.length hi best) (hrw rest hi bu)
  | [], pre, hi, best, bu, h => by simpa [hashGo, hrw] using h
  | u :: rest, pre, hi, best, bu, h => by
    unfold hashGo hrw
    split
    · have := hashGo_hrw rest (pre ++ [u]) u.h (.sel pre.length) (some u)
      rw [snoc_append, snoc_length] at this
      exact this (Or.inr ⟨pre.length, u, rfl, rfl, by simp⟩)
    · have := hashGo_hrw rest (pre ++ [u]) hi best bu
      rw [snoc_append, snoc_length] at this
      exact this h

theorem selHash_hashPick (pool : Pool) : Corr pool (selHash pool) (hashPick pool) := by
  have := hashGo_hrw pool [] 0 .none none (Or.inl ⟨rfl, rfl⟩)
  simpa [selHash, hashPick] using this

/-- the occurrence `u` between `A` and `B` wins the rendezvous started with `hi` -/
def Win (hi : Nat) (A : Pool) (u : Up) (B : Pool) : Prop :=
  u.avail = true ∧ hi < u.h ∧ (∀ a ∈ A, a.avail = true → a.h < u.h) ∧ (∀ b ∈ B, b.avail = true → b.h ≤ u.h)

theorem hrw_keep : ∀ (B : Pool) (hi : Nat) (best : Option Up), (∀ b ∈ B, b.avail = true → b.h ≤ hi) → hrw B hi best = best
  | [], _, _, _ => rfl
  | b :: B, hi, best, h => by
    unfold hrw
    split
    · rename_i hb
      simp at hb
      have := h b (List.mem_cons_self ..) hb.1
      omega
    · exact hrw_keep B hi best (fun x hx => h x (List.mem_cons_of_mem _ hx))

theorem hrw_of_win : ∀ (A : Pool) (u : Up) (B : Pool) (hi : Nat) (best : Option Up),
    Win hi A u B → hrw (A ++ u :: B) hi best = some u
  | [], u, B, hi, best, ⟨h1, h2, _, h4⟩ => by
    simp only [List.nil_append]
    unfold hrw
    rw [if_pos (by simp [h1, h2])]
    exact hrw_keep B u.h (some u) h4
  | a :: A, u, B, hi, best, ⟨h1, h2, h3, h4⟩ => by
    simp only [List.cons_append]
    unfold hrw
    split
    · rename_i ha
      simp at ha
      exact hrw_of_win A u B a.h (some a)
        ⟨h1, h3 a (List.mem_cons_self ..) ha.1, fun x hx => h3 x (List.mem_cons_of_mem _ hx), h4⟩
    · exact hrw_of_win A u B hi best ⟨h1, h2, fun x hx => h3 x (List.mem_cons_of_mem _ hx), h4⟩

theorem win_of_hrw : ∀ (P : Pool) (hi : Nat) (best : Option Up) (u : Up), hrw P hi best = some u →
    (best = some u ∧ ∀ p ∈ P, p.avail = true → p.h ≤ hi) ∨ ∃ A B, P = A ++ u :: B ∧ Win hi A u B
  | [], hi, best, u, h => by
    simp [hrw] at h
    exact Or.inl ⟨h, fun p hp => by cases hp⟩
  | p :: P, hi, best, u, h => by
    unfold hrw at h
    split at h
    · rename_i hp
      simp at hp
      rcases win_of_hrw P p.h (some p) u h with ⟨h1, h2⟩ | ⟨A, B, h1, h2, h3, h4, h5⟩
      · simp at h1
        subst h1
        exact Or.inr ⟨[], P, rfl, hp.1, hp.2, fun a ha => (by cases ha), h2⟩
      · subst h1
        refine Or.inr ⟨p :: A, B, rfl, h2, by omega, ?_, h5⟩
        intro a ha hav
        rcases List.mem_cons.1 ha with ha | ha
        · subst ha; exact h3
        · exact h4 a ha hav
    · rename_i hp
      have hple : p.avail = true → p.h ≤ hi := by
        intro hav
        simp [hav] at hp
        exact hp
      rcases win_of_hrw P hi best u h with ⟨h1, h2⟩ | ⟨A, B, h1, h2, h3, h4, h5⟩
      · refine Or.inl ⟨h1, ?_⟩
        intro x hx hav
        rcases List.mem_cons.1 hx with hx | hx
        · subst hx; exact hple hav
        · exact h2 x hx hav
      · subst h1
        refine Or.inr ⟨p :: A, B, rfl, h2, h3, ?_, h5⟩
        intro a ha hav
        rcases List.mem_cons.1 ha with ha | ha
        · subst ha; have := hple hav; omega
        · exact h4 a ha hav

/-- rendezvous hashing picks `u` iff some occurrence of `u` is available, has a non-zero hash,
    beats every available upstream before it and is not beaten by any after it -/
theorem hashPick_iff (P : Pool) (u : Up) : hashPick P = some u ↔ ∃ A B, P = A ++ u :: B ∧ Win 0 A u B := by
  constructor
  · intro h
    rcases win_of_hrw P 0 none u h with ⟨h1, _⟩ | h
    · cases h1
    · exact h
  · rintro ⟨A, B, h1, h2⟩
    subst h1
    exact hrw_of_win A u B 0 none h2

theorem hrw_none : ∀ (P : Pool) (hi : Nat) (best : Option Up), hrw P hi best = none →
    best = none ∧ ∀ p ∈ P, p.avail = true → p.h ≤ hi
  | [], hi, best, h => by simp [hrw] at h; exact ⟨h, fun p hp => by cases hp⟩
  | p :: P, hi, best, h => by
    unfold hrw at h
    split at h
    · have := (hrw_none P p.h (some p) h).1
      cases this
    · rename_i hp
      obtain ⟨h1, h2⟩ := hrw_none P hi best h
      refine ⟨h1, ?_⟩
      intro x hx hav
      rcases List.mem_cons.1 hx with hx | hx
      · subst hx; simp [hav] at hp; exact hp
      · exact h2 x hx hav

theorem selHash_none {pool : Pool} (h : selHash pool = .none) : ∀ p ∈ pool, p.avail = true → p.h = 0 := by
  have hc := selHash_hashPick pool
  rw [h] at hc
  rcases hc with ⟨_, h2⟩ | ⟨j, u, h1, _⟩
  · intro p hp hav
    have := (hrw_none pool 0 none h2).2 p hp hav
    omega
  · cases h1

theorem selHash_noPanic (pool : Pool) : (selHash pool).isPanic = false := by
  rcases selHash_hashPick pool with ⟨h, _⟩ | ⟨j, u, h, _⟩ <;> rw [h] <;> rfl

/-! ### which loops can panic -/

theorem selFirst_noPanic (pool : Pool) : (selFirst pool).isPanic = false := by
  unfold selFirst
  rcases firstGo_spec pool [] with ⟨h, _⟩ | ⟨i, h, _⟩ <;> simp at h <;> rw [h] <;> rfl

theorem rrGo_noPanic (pool : Pool) (hn : 0 < pool.length) : ∀ (fuel c : Nat), (rrGo pool fuel c).1.isPanic = false
  | 0, c => rfl
  | fuel + 1, c => by
    unfold rrGo
    split
    · split
      · rfl
      · exact rrGo_noPanic pool hn fuel _
    · rename_i hnone
      have := List.getElem?_eq_none_iff.1 hnone
      have := Nat.mod_lt (inc32 c) hn
      omega

theorem selRR_noPanic (pool : Pool) (c : Nat) : (selRR pool c).1.isPanic = false := by
  unfold selRR
  split
  · rfl
  · exact rrGo_noPanic pool (by omega) _ _

theorem rndGo_noPanic : ∀ (rest : Pool) (i : Nat) (best : Res) (count : Nat) (ds : List Nat),
    best.isPanic = false → (rndGo rest i best count ds).1.isPanic = false
  | [], _, _, _, _, h => by simpa [rndGo] using h
  | u :: rest, i, best, count, ds, h => by
    unfold rndGo
    split
    · split
      · rfl
      · split
        · exact rndGo_noPanic rest _ _ _ _ rfl
        · exact rndGo_noPanic rest _ _ _ _ h
    · exact rndGo_noPanic rest _ _ _ _ h

theorem selLeastConn_post (pool : Pool) (ds : List Nat) : LcPost pool (selLeastConn pool ds).1 := by
  have := lcGo_spec pool [] .none 0 none ds (Or.inl ⟨rfl, rfl, by simp⟩)
  simpa [selLeastConn] using this

theorem wrrScan_noPanic (ws : List Nat) (pool : Pool) (owner fuel k : Nat) :
    (wrrScan ws pool owner fuel k).isPanic = false := by
  rcases wrrScan_char ws pool owner fuel k with ⟨k', _, _, h, _⟩ | ⟨h, _⟩ <;> rw [h] <;> rfl

theorem selWRR_noPanic (ws : List Nat) (pool : Pool) (c : Nat) : (selWRR ws pool c).1.isPanic = false := by
  unfold selWRR
  split
  · rfl
  · split
    · exact selFirst_noPanic pool
    · split
      · rfl
      · exact wrrScan_noPanic _ _ _ _ _

theorem selWRR_none_or_sel (ws : List Nat) (pool : Pool) (c : Nat) :
    (selWRR ws pool c).1 = .none ∨ ∃ i, (selWRR ws pool c).1 = .sel i := by
  unfold selWRR
  split
  · exact Or.inl rfl
  · split
    · rcases firstGo_spec pool [] with ⟨h, _⟩ | ⟨i, h, _⟩
      · exact Or.inl (by simpa [selFirst] using h)
      · exact Or.inr ⟨i, by simpa [selFirst] using h⟩
    · split
      · exact Or.inl rfl
      · rcases wrrScan_char (wrrEff ws pool) pool
            (wrrIndexGo (wrrEff ws pool) 0 0 (inc32 c % (wrrEff ws pool).sum)) (wrrEff ws pool).length 0
          with ⟨k', _, _, h, _⟩ | ⟨h, _⟩
        · exact Or.inr ⟨_, h⟩
        · exact Or.inl h

/-- scanning a whole turn of the weight list from any owner finds a usable position if there is one -/
theorem wrrScan_live (ws : List Nat) (pool : Pool) (owner i : Nat) (hi : wrrUsable ws pool i = true) :
    ∃ j, wrrScan ws pool owner ws.length 0 = .sel j := by
  obtain ⟨u, w, _, hw, _, _⟩ := wrrUsable_iff.1 hi
  have hlt : i < ws.length := (List.getElem?_eq_some_iff.1 hw).1
  rcases wrrScan_char ws pool owner ws.length 0 with ⟨k', _, _, h, _⟩ | ⟨_, h2⟩
  · exact ⟨_, h⟩
  · exfalso
    obtain ⟨t, ht1, ht2, ht3⟩ := residue_hit ws.length (owner + ws.length - 1) i hlt
    have hk := h2 (t - owner - ws.length) (Nat.zero_le _) (by omega)
    have : owner + (t - owner - ws.length) + ws.length = t := by omega
    rw [← Nat.add_mod_right, this, ht3, hi] at hk
    cases hk

/-- the pool index owning position `cw` of the weight cycle: the `i` with
    `tot + w₀ + … + w_{i-1} ≤ cw < tot + w₀ + … + w_i` -/
def ownerGo : List Nat → Nat → Nat → Nat → Option Nat
  | [], _, _, _ => none
  | w :: ws, i, tot, cw => if cw < tot + w then some i else ownerGo ws (i + 1) (tot + w) cw

/-- the code's owner loop computes that index -/
theorem wrrIndexGo_eq_owner : ∀ (ws : List Nat) (i0 tot cw i : Nat), ownerGo ws i0 tot cw = some i →
    wrrIndexGo ws i0 tot cw = i
  | [], _, _, _, _, h => by simp [ownerGo] at h
  | w :: ws, i0, tot, cw, i, h => by
    unfold ownerGo at h
    unfold wrrIndexGo
    split at h
    · rename_i hc; rw [if_pos hc]; cases h; rfl
    · rename_i hc; rw [if_neg hc]; exact wrrIndexGo_eq_owner ws _ _ _ _ h

/-! ### weighted round robin: every upstream owns its share of the cycle -/

theorem ownerGo_spec : ∀ (ws : List Nat) (i0 tot cw i : Nat), tot ≤ cw → ownerGo ws i0 tot cw = some i →
    ∃ k w, i = i0 + k ∧ ws[k]? = some w ∧ tot + (ws.take k).sum ≤ cw ∧ cw < tot + (ws.take k).sum + w
  | [], _, _, _, _, _, h => by simp [ownerGo] at h
  | w :: ws, i0, tot, cw, i, hle, h => by
    unfold ownerGo at h
    split at h
    · cases h
      exact ⟨0, w, rfl, rfl, by simpa using hle, by simpa using ‹cw < tot + w›⟩
    · obtain ⟨k, w', h1, h2, h3, h4⟩ := ownerGo_spec ws (i0 + 1) (tot + w) cw i (by omega) h
      refine ⟨k + 1, w', by omega, by simpa using h2, ?_, ?_⟩
      · simp [List.take_succ_cons, List.sum_cons]; omega
      · simp [List.take_succ_cons, List.sum_cons]; omega

theorem ownerGo_some : ∀ (ws : List Nat) (i0 tot cw : Nat), tot ≤ cw → cw < tot + ws.sum →
    ∃ i, ownerGo ws i0 tot cw = some i
  | [], _, _, _, h0, h => by simp at h; omega
  | w :: ws, i0, tot, cw, h0, h => by
    unfold ownerGo
    split
    · exact ⟨i0, rfl⟩
    · exact ownerGo_some ws (i0 + 1) (tot + w) cw (by omega) (by simp [List.sum_cons] at h; omega)

/-! ### further helpers used by the property theorems -/

theorem cookieRes_none {w : Bool} {r : Res} (h : cookieRes w r = .none) : r = .none := by
  unfold cookieRes at h
  split at h
  · split at h <;> cases h
  · exact h

theorem hashGo_congr : ∀ (p q : Pool) (i hi : Nat) (best : Res),
    p.map (fun u => (u.avail, u.h)) = q.map (fun u => (u.avail, u.h)) → hashGo p i hi best = hashGo q i hi best
  | [], [], _, _, _, _ => rfl
  | [], _ :: _, _, _, _, h => by simp at h
  | _ :: _, [], _, _, _, h => by simp at h
  | u :: p, v :: q, i, hi, best, h => by
    simp only [List.map_cons, List.cons.injEq, Prod.mk.injEq] at h
    obtain ⟨⟨h1, h2⟩, h3⟩ := h
    unfold hashGo
    rw [h1, h2]
    split
    · exact hashGo_congr p q _ _ _ h3
    · exact hashGo_congr p q _ _ _ h3

theorem hashPick_max {pool : Pool} {u : Up} (h : hashPick pool = some u) :
    u ∈ pool ∧ u.avail = true ∧ ∀ p ∈ pool, p.avail = true → p.h ≤ u.h := by
  obtain ⟨A, B, h1, h2, _, h4, h5⟩ := (hashPick_iff pool u).1 h
  subst h1
  refine ⟨by simp, h2, ?_⟩
  intro p hp hav
  rcases List.mem_append.1 hp with hp | hp
  · exact Nat.le_of_lt (h4 p hp hav)
  · rcases List.mem_cons.1 hp with hp | hp
    · subst hp; exact Nat.le_refl _
    · exact h5 p hp hav

theorem rndGo_not_starved : ∀ (rest : Pool) (i : Nat) (best : Res) (count : Nat) (ds : List Nat),
    best ≠ .starved → rest.length ≤ ds.length → (rndGo rest i best count ds).1 ≠ .starved
  | [], _, _, _, _, h, _ => by simpa [rndGo] using h
  | u :: rest, i, best, count, ds, h, hl => by
    unfold rndGo
    split
    · cases ds with
      | nil => simp at hl
      | cons d ds' =>
        simp only
        simp at hl
        split
        · exact rndGo_not_starved rest _ _ _ _ (by simp) hl
        · exact rndGo_not_starved rest _ _ _ _ h hl
    · exact rndGo_not_starved rest _ _ _ _ h (by simp at hl; omega)

theorem lcGo_not_starved : ∀ (rest : Pool) (i : Nat) (best : Res) (count : Nat) (least : Option Nat) (ds : List Nat),
    best ≠ .starved → rest.length ≤ ds.length → (lcGo rest i best count least ds).1 ≠ .starved
  | [], _, _, _, _, _, h, _ => by simpa [lcGo] using h
  | u :: rest, i, best, count, least, ds, h, hl => by
    unfold lcGo
    simp at hl
    split
    · split
      · split
        · exact lcGo_not_starved rest _ _ _ _ _ (by simp) (by omega)
        · cases ds with
          | nil => simp at hl
          | cons d ds' =>
            simp only
            simp at hl
            split
            · exact lcGo_not_starved rest _ _ _ _ _ (by simp) hl
            · exact lcGo_not_starved rest _ _ _ _ _ h hl
      · exact lcGo_not_starved rest _ _ _ _ _ h (by omega)
    · exact lcGo_not_starved rest _ _ _ _ _ h (by omega)

/-! ### counting over a window of consecutive counter values -/

theorem countP_window_shift (p : Nat → Bool) (W : Nat) (hp : ∀ t, p (t + W) = p t) (s : Nat) :
    (List.range' (s + 1) W).countP p = (List.range' s W).countP p := by
  cases W with
  | zero => simp
  | succ k =>
    rw [List.range'_succ (s := s), List.range'_1_concat (s := s + 1)]
    rw [List.countP_cons, List.countP_append]
    have : p (s + 1 + k) = p s := by rw [← hp s]; congr 1; omega
    simp [this]

theorem countP_window (p : Nat → Bool) (W : Nat) (hp : ∀ t, p (t + W) = p t) :
    ∀ s, (List.range' s W).countP p = (List.range' 0 W).countP p
  | 0 => rfl
  | s + 1 => by rw [countP_window_shift p W hp s, countP_window p W hp s]

/-- `w` of the `W` positions of a cycle lie in an interval of length `w` -/
theorem countP_interval (a w W : Nat) (h : a + w ≤ W) :
    (List.range' 0 W).countP (fun t => decide (a ≤ t ∧ t < a + w)) = w := by
  have hW : W = a + (w + (W - a - w)) := by omega
  rw [hW, ← List.range'_append_1, ← List.range'_append_1, List.countP_append, List.countP_append]
  have h1 : (List.range' 0 a).countP (fun t => decide (a ≤ t ∧ t < a + w)) = 0 := by
    rw [List.countP_eq_zero]; intro t ht; simp at ht ⊢; omega
  have h2 : (List.range' (0 + a) w).countP (fun t => decide (a ≤ t ∧ t < a + w)) = w := by
    have hl : (List.range' (0 + a) w).length = w := by simp
    have : (List.range' (0 + a) w).countP (fun t => decide (a ≤ t ∧ t < a + w)) = (List.range' (0 + a) w).length := by
      rw [List.countP_eq_length]; intro t ht; simp at ht ⊢; omega
    rw [this, hl]
  have h3 : (List.range' (0 + a + w) (W - a - w)).countP (fun t => decide (a ≤ t ∧ t < a + w)) = 0 := by
    rw [List.countP_eq_zero]; intro t ht; simp at ht ⊢; omega
  rw [h1, h2, h3]
  simp

/-- in any `n` consecutive counter values exactly one has residue `j` -/
theorem countP_residue (n j s : Nat) (hj : j < n) :
    (List.range' s n).countP (fun t => decide (t % n = j)) = 1 := by
  rw [countP_window _ n (fun t => by simp)]
  have := countP_interval j 1 n (by omega)
  refine Eq.trans ?_ this
  apply List.countP_congr
  intro t ht
  simp at ht
  simp [Nat.mod_eq_of_lt ht]
  omega

/-! ### round robin over a run of selections -/

/-- one round-robin selection when something is available and the counter does not wrap -/
theorem selRR_char (pool : Pool) (c : Nat) (hc : c + pool.length < u32) (ha : anyAvail pool = true) :
    ∃ i c', selRR pool c = (.sel i, c') ∧ c < c' ∧ c' ≤ c + pool.length ∧ i = c' % pool.length ∧
      AvailAt pool i ∧ ∀ t, c < t → t < c' → availB pool (t % pool.length) = false := by
  obtain ⟨v, hv, hav⟩ := anyAvail_iff.1 ha
  obtain ⟨j, hj, hja⟩ := availAt_of_mem hv hav
  unfold selRR
  rw [if_neg (by omega)]
  rcases rrGo_char pool (by omega) pool.length c hc with h | ⟨_, h2⟩
  · exact h
  · obtain ⟨t, ht1, ht2, ht3⟩ := residue_hit pool.length c j hj
    have := h2 t ht1 ht2
    rw [ht3, availB_true.2 hja] at this
    cases this

theorem run_rr_succ (m : Nat) (pool : Pool) (c : Nat) (ds : List Nat) :
    run (m + 1) (.rr c) pool ds =
      (((selRR pool c).1, []) :: (run m (.rr (selRR pool c).2) pool ds).1, (run m (.rr (selRR pool c).2) pool ds).2) := by
  simp [run, select]

/-- the probe positions a run of round-robin selections walks over, filtered by availability -/
def rrProbes (pool : Pool) (s k : Nat) : List Nat :=
  (List.range' s k).filter (fun t => availB pool (t % pool.length))

theorem rrProbes_append (pool : Pool) (s k l : Nat) :
    rrProbes pool s (k + l) = rrProbes pool s k ++ rrProbes pool (s + k) l := by
  unfold rrProbes
  rw [← List.range'_append_1, List.filter_append]

/-- **the selections of a run are exactly the available positions among the consecutive
    counter values the run consumed** -/
theorem rr_run (pool : Pool) (ha : anyAvail pool = true) (ds : List Nat) : ∀ (m c : Nat),
    c + m * pool.length < u32 →
    ∃ c', (run m (.rr c) pool ds).2 = .rr c' ∧ c ≤ c' ∧ c' ≤ c + m * pool.length ∧
      (run m (.rr c) pool ds).1 = (rrProbes pool (c + 1) (c' - c)).map (fun t => (Res.sel (t % pool.length), []))
  | 0, c, _ => ⟨c, rfl, Nat.le_refl _, by omega, by simp [run, rrProbes]⟩
  | m + 1, c, hc => by
    have hmul : (m + 1) * pool.length = m * pool.length + pool.length := Nat.succ_mul _ _
    obtain ⟨i, c1, h1, h2, h3, h4, h5, h6⟩ := selRR_char pool c (by omega) ha
    obtain ⟨c', g1, g2, g3, g4⟩ := rr_run pool ha ds m c1 (by omega)
    refine ⟨c', ?_, by omega, by omega, ?_⟩
    · rw [run_rr_succ, h1]; exact g1
    · rw [run_rr_succ, h1]
      simp only
      rw [g4]
      have hsplit : c' - c = (c1 - c - 1) + 1 + (c' - c1) := by omega
      rw [hsplit, rrProbes_append, rrProbes_append]
      have hfirst : rrProbes pool (c + 1) (c1 - c - 1) = [] := by
        unfold rrProbes
        rw [List.filter_eq_nil_iff]
        intro t ht
        simp at ht
        simp [h6 t (by omega) (by omega)]
      have hmid : rrProbes pool (c + 1 + (c1 - c - 1)) 1 = [c1] := by
        have : c + 1 + (c1 - c - 1) = c1 := by omega
        rw [this]
        unfold rrProbes
        have hav : availB pool (c1 % pool.length) = true := by rw [← h4]; exact availB_true.2 h5
        simp [List.range', hav]
      rw [hfirst, hmid]
      have : c + 1 + (c1 - c - 1 + 1) = c1 + 1 := by omega
      rw [this, h4]
      simp

theorem run_length : ∀ (m : Nat) (p : Policy) (pool : Pool) (ds : List Nat), (run m p pool ds).1.length = m
  | 0, _, _, _ => rfl
  | m + 1, p, pool, ds => by simp [run, run_length m]

/-- availability counted over positions = availability counted over upstreams -/
theorem countP_availB : ∀ (rest pre : Pool),
    (List.range' pre.length rest.length).countP (fun i => availB (pre ++ rest) i) = rest.countP Up.avail
  | [], pre => by simp
  | u :: rest, pre => by
    have := countP_availB rest (pre ++ [u])
    rw [snoc_append, snoc_length] at this
    rw [List.length_cons, List.range'_succ, List.countP_cons, List.countP_cons, this]
    have : availB (pre ++ u :: rest) pre.length = u.avail := by simp [availB]
    rw [this]

theorem rrProbes_cycle_length (pool : Pool) (s : Nat) : (rrProbes pool s pool.length).length = numAvail pool := by
  unfold rrProbes numAvail
  rw [← List.countP_eq_length_filter, ← List.countP_eq_length_filter]
  rw [countP_window _ pool.length (fun t => by simp)]
  have := countP_availB pool []
  simp only [List.length_nil, List.nil_append] at this
  rw [← this]
  apply List.countP_congr
  intro t ht
  simp at ht
  rw [Nat.mod_eq_of_lt ht]

/-- `numAvail` selections consume the available positions of exactly one cycle of probes -/
theorem rrProbes_numAvail (pool : Pool) (s d : Nat) (h : (rrProbes pool s d).length = numAvail pool) :
    rrProbes pool s d = rrProbes pool s pool.length := by
  have hc := rrProbes_cycle_length pool
  by_cases hd : d ≤ pool.length
  · have : pool.length = d + (pool.length - d) := by omega
    rw [this, rrProbes_append]
    have hl := hc s
    rw [this, rrProbes_append, List.length_append, h] at hl
    have : rrProbes pool (s + d) (pool.length - d) = [] := List.length_eq_zero_iff.1 (by omega)
    rw [this]; simp
  · have : d = pool.length + (d - pool.length) := by omega
    rw [this, rrProbes_append]
    rw [this, rrProbes_append, List.length_append, hc s] at h
    have : rrProbes pool (s + pool.length) (d - pool.length) = [] := List.length_eq_zero_iff.1 (by omega)
    rw [this]; simp

/-- **every available upstream is chosen exactly once in `numAvail` consecutive selections** -/
theorem rr_each_once (pool : Pool) (c : Nat) (ds : List Nat) (ha : anyAvail pool = true)
    (hc : c + numAvail pool * pool.length < u32) (j : Nat) (hj : AvailAt pool j) :
    ((run (numAvail pool) (.rr c) pool ds).1.map (·.1)).count (.sel j) = 1 := by
  obtain ⟨c', _, _, _, h4⟩ := rr_run pool ha ds (numAvail pool) c hc
  have hlen := run_length (numAvail pool) (.rr c) pool ds
  rw [h4, List.length_map] at hlen
  rw [h4, rrProbes_numAvail pool (c + 1) (c' - c) hlen]
  rw [List.map_map, List.count_eq_countP, List.countP_map]
  unfold rrProbes
  rw [List.countP_filter]
  obtain ⟨u, hu, _⟩ := hj
  have hjlt : j < pool.length := (List.getElem?_eq_some_iff.1 hu).1
  refine Eq.trans ?_ (countP_residue pool.length j (c + 1) hjlt)
  apply List.countP_congr
  intro t _
  simp
  intro h1
  rw [h1]; exact availB_true.2 ⟨u, hu, ‹_›⟩

/-! ### weighted round robin over a cycle -/

theorem run_wrr_succ (m : Nat) (ws : List Nat) (pool : Pool) (c : Nat) (ds : List Nat) :
    run (m + 1) (.wrr ws c) pool ds =
      (((selWRR ws pool c).1, []) :: (run m (.wrr ws (selWRR ws pool c).2) pool ds).1,
        (run m (.wrr ws (selWRR ws pool c).2) pool ds).2) := by
  simp [run, select]

theorem ownerGo_ge : ∀ (ws : List Nat) (i0 tot t j : Nat), ownerGo ws i0 tot t = some j → i0 ≤ j
  | [], _, _, _, _, h => by simp [ownerGo] at h
  | w :: ws, i0, tot, t, j, h => by
    unfold ownerGo at h
    split at h
    · cases h; exact Nat.le_refl _
    · have := ownerGo_ge ws (i0 + 1) (tot + w) t j h; omega

/-- position `i0 + k` owns exactly `ws[k]` of the `ws.sum` positions of the cycle -/
theorem countP_owner : ∀ (ws : List Nat) (i0 tot k : Nat),
    (List.range' tot ws.sum).countP (fun t => ownerGo ws i0 tot t == some (i0 + k)) = (ws[k]?).getD 0
  | [], _, _, _ => by simp
  | w :: ws, i0, tot, k => by
    rw [List.sum_cons, ← List.range'_append_1, List.countP_append]
    have hfirst : ∀ t ∈ List.range' tot w, ownerGo (w :: ws) i0 tot t = some i0 := by
      intro t ht
      simp at ht
      unfold ownerGo
      rw [if_pos (by omega)]
    have hsecond : ∀ t ∈ List.range' (tot + w) ws.sum, ownerGo (w :: ws) i0 tot t = ownerGo ws (i0 + 1) (tot + w) t := by
      intro t ht
      simp at ht
      conv => lhs; unfold ownerGo
      rw [if_neg (by omega)]
    cases k with
    | zero =>
      have h1 : (List.range' tot w).countP (fun t => ownerGo (w :: ws) i0 tot t == some (i0 + 0)) = w := by
        have hl : (List.range' tot w).length = w := by simp
        have : (List.range' tot w).countP (fun t => ownerGo (w :: ws) i0 tot t == some (i0 + 0)) = (List.range' tot w).length := by
          rw [List.countP_eq_length]; intro t ht; simp [hfirst t ht]
        rw [this, hl]
      have h2 : (List.range' (tot + w) ws.sum).countP (fun t => ownerGo (w :: ws) i0 tot t == some (i0 + 0)) = 0 := by
        rw [List.countP_eq_zero]
        intro t ht
        rw [hsecond t ht]
        intro hcon
        simp at hcon
        have := ownerGo_ge ws (i0 + 1) (tot + w) t i0 hcon
        omega
      rw [h1, h2]; simp
    | succ k =>
      have h1 : (List.range' tot w).countP (fun t => ownerGo (w :: ws) i0 tot t == some (i0 + (k + 1))) = 0 := by
        rw [List.countP_eq_zero]; intro t ht; rw [hfirst t ht]; simp
      have h2 : (List.range' (tot + w) ws.sum).countP (fun t => ownerGo (w :: ws) i0 tot t == some (i0 + (k + 1)))
          = (List.range' (tot + w) ws.sum).countP (fun t => ownerGo ws (i0 + 1) (tot + w) t == some (i0 + 1 + k)) := by
        apply List.countP_congr
        intro t ht
        rw [hsecond t ht]
        have : i0 + (k + 1) = i0 + 1 + k := by omega
        rw [this]
      rw [h1, h2, countP_owner ws (i0 + 1) (tot + w) k]
      simp

/-- the upstream owning counter value `t` in the cycle of the weights `ws` -/
def ownerRes (ws : List Nat) (t : Nat) : Res :=
  match ownerGo ws 0 0 (t % ws.sum) with
  | some i => .sel i
  | none => .none

/-- what weighted round robin returns at counter value `t` (two or more weights, a positive cycle) -/
def wrrRes (ws : List Nat) (pool : Pool) (t : Nat) : Res :=
  wrrScan (wrrEff ws pool) pool (wrrIndexGo (wrrEff ws pool) 0 0 (t % (wrrEff ws pool).sum)) (wrrEff ws pool).length 0

theorem selWRR_eq (ws : List Nat) (pool : Pool) (c : Nat) (hp : pool.length ≠ 0) (h2 : 2 ≤ ws.length)
    (hs : 0 < (wrrEff ws pool).sum) (hc : c + 1 < u32) : selWRR ws pool c = (wrrRes ws pool (c + 1), c + 1) := by
  unfold selWRR wrrRes
  rw [if_neg hp, if_neg (by omega), if_neg (by omega), inc32_of_lt hc]

/-- the owner of the current cycle position, and the first usable position from there on -/
theorem wrrRes_char (ws : List Nat) (pool : Pool) (t : Nat) (hs : 0 < (wrrEff ws pool).sum) :
    ∃ o w, ownerGo (wrrEff ws pool) 0 0 (t % (wrrEff ws pool).sum) = some o ∧ (wrrEff ws pool)[o]? = some w ∧ 0 < w ∧
      wOffset (wrrEff ws pool) o ≤ t % (wrrEff ws pool).sum ∧ t % (wrrEff ws pool).sum < wOffset (wrrEff ws pool) o + w ∧
      wrrRes ws pool t = wrrScan (wrrEff ws pool) pool o (wrrEff ws pool).length 0 := by
  have hcw : t % (wrrEff ws pool).sum < (wrrEff ws pool).sum := Nat.mod_lt _ hs
  obtain ⟨o, hown⟩ := ownerGo_some (wrrEff ws pool) 0 0 (t % (wrrEff ws pool).sum) (Nat.zero_le _) (by omega)
  obtain ⟨k, w, hk, hw, hlo, hhi⟩ := ownerGo_spec (wrrEff ws pool) 0 0 (t % (wrrEff ws pool).sum) o (Nat.zero_le _) hown
  have hko : k = o := by omega
  subst hko
  refine ⟨k, w, hown, hw, by omega, by simpa [wOffset] using hlo, by simpa [wOffset] using hhi, ?_⟩
  unfold wrrRes
  rw [wrrIndexGo_eq_owner _ _ _ _ _ hown]

/-- if the owner is usable, it is returned -/
theorem wrrRes_owner_usable (ws : List Nat) (pool : Pool) (t o : Nat)
    (hown : ownerGo (wrrEff ws pool) 0 0 (t % (wrrEff ws pool).sum) = some o)
    (hu : wrrUsable ws pool o = true) : wrrRes ws pool t = .sel o := by
  obtain ⟨_, w, _, hw, _, _⟩ := wrrUsable_iff.1 (wrrUsable_eff (ws := ws) ▸ hu)
  have hlt : o < (wrrEff ws pool).length := (List.getElem?_eq_some_iff.1 hw).1
  unfold wrrRes
  rw [wrrIndexGo_eq_owner _ _ _ _ _ hown]
  have hlen : (wrrEff ws pool).length = (wrrEff ws pool).length - 1 + 1 := by omega
  rw [hlen]
  unfold wrrScan
  simp only [Nat.add_zero, Nat.mod_eq_of_lt hlt]
  rw [wrrUsable_eff, hu]
  simp

theorem wrr_run (ws : List Nat) (pool : Pool) (ds : List Nat) (hp : pool.length ≠ 0) (h2 : 2 ≤ ws.length)
    (hs : 0 < (wrrEff ws pool).sum) : ∀ (m c : Nat), c + m < u32 →
    (run m (.wrr ws c) pool ds).1.map (·.1) = (List.range' (c + 1) m).map (wrrRes ws pool) ∧
    (run m (.wrr ws c) pool ds).2 = .wrr ws (c + m)
  | 0, c, _ => by simp [run]
  | m + 1, c, hc => by
    obtain ⟨g1, g2⟩ := wrr_run ws pool ds hp h2 hs m (c + 1) (by omega)
    rw [run_wrr_succ, selWRR_eq ws pool c hp h2 hs (by omega)]
    simp only [List.map_cons, List.range'_succ]
    exact ⟨by rw [g1], by rw [g2]; congr 1; omega⟩

/-- over a cycle, a usable upstream is chosen at least as often as its weight says — whatever
    the other upstreams do -/
theorem wrr_counts_ge (ws : List Nat) (pool : Pool) (c : Nat) (ds : List Nat) (hp : pool.length ≠ 0)
    (h2 : 2 ≤ ws.length) (hs : 0 < (wrrEff ws pool).sum) (hc : c + (wrrEff ws pool).sum < u32)
    (i w : Nat) (hw : (wrrEff ws pool)[i]? = some w) (hu : wrrUsable ws pool i = true) :
    w ≤ ((run (wrrEff ws pool).sum (.wrr ws c) pool ds).1.map (·.1)).count (.sel i) := by
  rw [(wrr_run ws pool ds hp h2 hs _ c hc).1]
  rw [List.count_eq_countP, List.countP_map]
  have hown := countP_owner (wrrEff ws pool) 0 0 i
  simp only [Nat.zero_add, hw, Option.getD_some] at hown
  have hwin := countP_window (fun t => ownerGo (wrrEff ws pool) 0 0 (t % (wrrEff ws pool).sum) == some i)
    (wrrEff ws pool).sum (fun t => by simp) (c + 1)
  have hbase : (List.range' 0 (wrrEff ws pool).sum).countP
      (fun t => ownerGo (wrrEff ws pool) 0 0 (t % (wrrEff ws pool).sum) == some i) = w := by
    refine Eq.trans ?_ hown
    apply List.countP_congr
    intro t ht
    simp at ht
    rw [Nat.mod_eq_of_lt ht]
  rw [← hbase, ← hwin]
  apply List.countP_mono_left
  intro t _ ht
  simp at ht
  simp [Function.comp, wrrRes_owner_usable ws pool t i ht hu]

/-- … and exactly as often when every position with a positive weight is usable -/
theorem wrr_counts (ws : List Nat) (pool : Pool) (c : Nat) (ds : List Nat) (hp : pool.length ≠ 0)
    (h2 : 2 ≤ ws.length) (hs : 0 < (wrrEff ws pool).sum) (hc : c + (wrrEff ws pool).sum < u32)
    (hall : ∀ j v, (wrrEff ws pool)[j]? = some v → 0 < v → wrrUsable ws pool j = true)
    (i w : Nat) (hw : (wrrEff ws pool)[i]? = some w) :
    ((run (wrrEff ws pool).sum (.wrr ws c) pool ds).1.map (·.1)).count (.sel i) = w := by
  rw [(wrr_run ws pool ds hp h2 hs _ c hc).1]
  rw [List.count_eq_countP, List.countP_map]
  have hown := countP_owner (wrrEff ws pool) 0 0 i
  simp only [Nat.zero_add, hw, Option.getD_some] at hown
  have hwin := countP_window (fun t => ownerGo (wrrEff ws pool) 0 0 (t % (wrrEff ws pool).sum) == some i)
    (wrrEff ws pool).sum (fun t => by simp) (c + 1)
  have hbase : (List.range' 0 (wrrEff ws pool).sum).countP
      (fun t => ownerGo (wrrEff ws pool) 0 0 (t % (wrrEff ws pool).sum) == some i) = w := by
    refine Eq.trans ?_ hown
    apply List.countP_congr
    intro t ht
    simp at ht
    rw [Nat.mod_eq_of_lt ht]
  rw [← hbase, ← hwin]
  apply List.countP_congr
  intro t _
  obtain ⟨o, v, hown', hv, hpos, _, _, _⟩ := wrrRes_char ws pool t hs
  rw [hown']
  simp only [Function.comp, wrrRes_owner_usable ws pool t o hown' (hall o v hv hpos)]
  simp

theorem get_le_sum : ∀ {l : List Nat} {i w : Nat}, l[i]? = some w → w ≤ l.sum
  | [], _, _, h => by simp at h
  | x :: l, 0, w, h => by simp at h; subst h; simp
  | x :: l, i + 1, w, h => by
    simp at h
    have := get_le_sum h
    simp [List.sum_cons]; omega

/-- with a ResponseWriter no policy term can hit the nil dereference -/
theorem nilSafe_true : ∀ (p : Policy), nilSafe true p = true
  | .first => rfl
  | .rr _ => rfl
  | .wrr _ _ => rfl
  | .leastConn => rfl
  | .random => rfl
  | .randomChoose _ => rfl
  | .hash => rfl
  | .keyed true _ => rfl
  | .keyed false fb => by simp [nilSafe, nilSafe_true fb]
  | .cookie _ fb => by simp [nilSafe, nilSafe_true fb]

/-! ### the proxy loop: in-flight counts, failures, retries -/

theorem avail_below_limit {u : Up} (h : u.avail = true) (hm : 0 < u.maxReq) : u.load < u.maxReq := by
  simp [Up.avail, Up.full] at h
  omega

theorem incAt_get : ∀ (ls : List Nat) (i j : Nat), (incAt ls i)[j]? = if j = i then (ls[j]?).map (· + 1) else ls[j]?
  | [], i, j => by simp [incAt]
  | l :: ls, 0, 0 => by simp [incAt]
  | l :: ls, 0, j + 1 => by simp [incAt]
  | l :: ls, i + 1, 0 => by simp [incAt]
  | l :: ls, i + 1, j + 1 => by
    simp only [incAt, List.getElem?_cons_succ, incAt_get ls i j]
    by_cases h : j = i <;> simp [h]

theorem decAt_get : ∀ (ls : List Nat) (i j : Nat), (decAt ls i)[j]? = if j = i then (ls[j]?).map (· - 1) else ls[j]?
  | [], i, j => by simp [decAt]
  | l :: ls, 0, 0 => by simp [decAt]
  | l :: ls, 0, j + 1 => by simp [decAt]
  | l :: ls, i + 1, 0 => by simp [decAt]
  | l :: ls, i + 1, j + 1 => by
    simp only [decAt, List.getElem?_cons_succ, decAt_get ls i j]
    by_cases h : j = i <;> simp [h]

theorem incAt_length : ∀ (ls : List Nat) (i : Nat), (incAt ls i).length = ls.length
  | [], _ => rfl
  | _ :: _, 0 => rfl
  | l :: ls, i + 1 => by simp [incAt, incAt_length ls i]

theorem decAt_length : ∀ (ls : List Nat) (i : Nat), (decAt ls i).length = ls.length
  | [], _ => rfl
  | _ :: _, 0 => rfl
  | l :: ls, i + 1 => by simp [decAt, decAt_length ls i]

theorem all_le_of_get {ls : List Nat} {m : Nat} (h : ∀ (j l : Nat), ls[j]? = some l → l ≤ m) : ∀ x ∈ ls, x ≤ m := by
  intro x hx
  obtain ⟨j, hj, hget⟩ := List.getElem_of_mem hx
  exact h j x (by simp [hj, hget])

theorem get_le_of_all {ls : List Nat} {m : Nat} (h : ∀ x ∈ ls, x ≤ m) : ∀ (j l : Nat), ls[j]? = some l → l ≤ m :=
  fun _ l hl => h l (List.mem_of_getElem? hl)

theorem count_setNone : ∀ (hs : List (Option Nat)) (k i j : Nat), hs[k]? = some (some i) →
    (setNone hs k).count (some j) = hs.count (some j) - (if j = i then 1 else 0)
  | [], k, i, j, h => by simp at h
  | x :: hs, 0, i, j, h => by
    simp at h; subst h
    simp only [setNone, List.count_cons]
    by_cases hji : j = i <;> simp [hji]
    intro hij; exact absurd hij.symm hji
  | x :: hs, k + 1, i, j, h => by
    simp at h
    have ih := count_setNone hs k i j h
    simp only [setNone, List.count_cons, ih]
    have hpos : j = i → 0 < hs.count (some j) := by
      intro hji; subst hji
      exact List.count_pos_iff.2 (List.mem_of_getElem? h)
    by_cases hji : j = i
    · have := hpos hji
      subst hji
      by_cases hx : x = some j <;> simp [hx] <;> omega
    · simp [hji]

theorem mkPool_get (c : PCfg) : ∀ (us : List PUp) (ls fs : List Nat) (i : Nat) (u : Up),
    (mkPool c us ls fs)[i]? = some u →
    ∃ pu, us[i]? = some pu ∧ ls[i]? = some u.load ∧ u.maxReq = effLimit c.m pu
  | [], _, _, i, u, h => by simp [mkPool] at h
  | _ :: _, [], _, i, u, h => by simp [mkPool] at h
  | _ :: _, _ :: _, [], i, u, h => by simp [mkPool] at h
  | pu :: us, l :: ls, f :: fs, 0, u, h => by
    simp [mkPool] at h; subst h; exact ⟨pu, rfl, rfl, rfl⟩
  | pu :: us, l :: ls, f :: fs, i + 1, u, h => by
    simp [mkPool] at h
    simpa using mkPool_get c us ls fs i u h

/-- address `i` can take a request: it is an upstream of the handler and below its effective limit -/
def CanTake (c : PCfg) (loads : List Nat) (i : Nat) : Prop :=
  ∃ l u, loads[i]? = some l ∧ c.ups[i]? = some u ∧ (0 < effLimit c.m u → l < effLimit c.m u)

theorem poolOf_get {c : PCfg} {s : PState} {i : Nat} {u : Up} (h : (poolOf c s)[i]? = some u) :
    ∃ pu, c.ups[i]? = some pu ∧ s.loads[i]? = some u.load ∧ u.maxReq = effLimit c.m pu ∧ u.cb = s.cb := by
  unfold poolOf at h
  rw [List.getElem?_map] at h
  cases h0 : (mkPool c c.ups s.loads s.fails)[i]? with
  | none => simp [h0] at h
  | some u0 =>
    simp [h0] at h
    obtain ⟨pu, h1, h2, h3⟩ := mkPool_get c c.ups s.loads s.fails i u0 h0
    subst h
    exact ⟨pu, h1, h2, h3, rfl⟩

theorem canTake_of_sel {c : PCfg} {s : PState} {i : Nat} (h : selRes c s = .sel i) : CanTake c s.loads i := by
  obtain ⟨u, hu, hav⟩ := select_safe _ _ _ _ i h
  obtain ⟨pu, h1, h2, h3, _⟩ := poolOf_get hu
  exact ⟨u.load, pu, h2, h1, fun hm => by have := avail_below_limit hav (by omega); omega⟩

/-- an open circuit breaker makes every upstream unavailable -/
theorem tripped_none_available {c : PCfg} {s : PState} (h : s.cb = some false) (i : Nat) : selRes c s ≠ .sel i := by
  intro hsel
  obtain ⟨u, hu, hav⟩ := select_safe _ _ _ _ i hsel
  obtain ⟨_, _, _, _, hcb⟩ := poolOf_get hu
  rw [h] at hcb
  simp [Up.avail, Up.isHealthy, hcb] at hav

/-- what one run of the proxy loop guarantees -/
structure AttPost (c : PCfg) (hold : Bool) (left : Nat) (loads : List Nat) (held : List (Option Nat))
    (r : List (Option Nat) × Final × PState) : Prop where
  tried_ok : ∀ j, some j ∈ r.1 → CanTake c loads j ∧ badAt c.ups j ≠ 0
  sent_ok : ∀ i, r.2.1 = .sent i → CanTake c loads i ∧ badAt c.ups i = 0 ∧
    r.2.2.loads = (if hold then incAt loads i else loads) ∧
    r.2.2.held = (if hold then held ++ [some i] else held)
  not_sent : (∀ i, r.2.1 ≠ .sent i) → r.2.2.loads = loads ∧ r.2.2.held = held
  bound : r.1.length ≤ left + 1 ∧ (∀ i, r.2.1 = .sent i → r.1.length ≤ left)

theorem attempt_post (c : PCfg) (hold get : Bool) : ∀ (left : Nat) (prev : PErr) (s : PState),
    AttPost c hold left s.loads s.held (attempt c hold get left prev s)
  | 0, prev, s => by
    unfold attempt
    split
    · exact ⟨by simp, by simp, fun _ => ⟨rfl, rfl⟩, by simp⟩
    · rename_i i hsel
      have hc := canTake_of_sel hsel
      split
      · rename_i hb
        exact ⟨by simp, fun j hj => by cases hj; exact ⟨hc, hb, rfl, rfl⟩, fun h => absurd rfl (h i), by simp⟩
      · rename_i hb
        refine ⟨?_, by simp, fun _ => ⟨rfl, rfl⟩, by simp⟩
        intro j hj
        simp at hj
        subst hj
        exact ⟨hc, hb⟩
    · exact ⟨by simp, by simp, fun _ => ⟨rfl, rfl⟩, by simp⟩
    · exact ⟨by simp, by simp, fun _ => ⟨rfl, rfl⟩, by simp⟩
  | left + 1, prev, s => by
    unfold attempt
    split
    · split
      · have ih := attempt_post c hold get left (carried prev) (afterSel c s)
        refine ⟨?_, ih.sent_ok, ih.not_sent, ?_⟩
        · intro j hj
          simp at hj
          exact ih.tried_ok j hj
        · refine ⟨by simp; have := ih.bound.1; omega, ?_⟩
          intro i hi
          have := ih.bound.2 i hi
          simp; omega
      · exact ⟨by simp, by simp, fun _ => ⟨rfl, rfl⟩, by simp⟩
    · rename_i i hsel
      have hc := canTake_of_sel hsel
      split
      · rename_i hb
        exact ⟨by simp, fun j hj => by cases hj; exact ⟨hc, hb, rfl, rfl⟩, fun h => absurd rfl (h i), by simp⟩
      · rename_i hb
        split
        · have ih := attempt_post c hold get left (errAt c i) (afterFail c s i)
          refine ⟨?_, ih.sent_ok, ih.not_sent, ?_⟩
          · intro j hj
            simp at hj
            rcases hj with hj | hj
            · subst hj; exact ⟨hc, hb⟩
            · exact ih.tried_ok j hj
          · refine ⟨by simp; have := ih.bound.1; omega, ?_⟩
            intro k hk
            have := ih.bound.2 k hk
            simp; omega
        · refine ⟨?_, by simp, fun _ => ⟨rfl, rfl⟩, by simp⟩
          intro j hj
          simp at hj
          subst hj
          exact ⟨hc, hb⟩
    · exact ⟨by simp, by simp, fun _ => ⟨rfl, rfl⟩, by simp⟩
    · exact ⟨by simp, by simp, fun _ => ⟨rfl, rfl⟩, by simp⟩

/-- once an iteration has failed the request cannot end with "no upstreams available" -/
theorem attempt_no_503 (c : PCfg) (hold get : Bool) : ∀ (left : Nat) (prev : PErr) (s : PState),
    prev ≠ .none → prev ≠ .noUpstream → (attempt c hold get left prev s).2.1 ≠ .status 503
  | 0, prev, s, h1, h2 => by
    unfold attempt
    split
    · cases prev <;> simp [carried, statusOf] at *
    · split <;> simp
    · simp
    · simp
  | left + 1, prev, s, h1, h2 => by
    have hcar : carried prev = prev := by simp [carried, h1]
    unfold attempt
    split
    · split
      · rw [hcar]; exact attempt_no_503 c hold get left prev _ h1 h2
      · cases prev <;> simp [carried, statusOf] at *
    · rename_i i _
      split
      · simp
      · split
        · apply attempt_no_503 c hold get left (errAt c i) _ <;> (unfold errAt; split <;> simp)
        · simp
    · simp
    · simp

/-- a request is answered 503 only if the very first `Select` returned nil -/
theorem attempt_503_first_nil (c : PCfg) (hold get : Bool) (left : Nat) (s : PState)
    (h : (attempt c hold get left .none s).2.1 = .status 503) : selRes c s = .none := by
  cases left with
  | zero =>
    unfold attempt at h
    split at h
    · assumption
    · split at h <;> simp at h
    · simp at h
    · simp at h
  | succ left =>
    unfold attempt at h
    split at h
    · assumption
    · rename_i i _
      split at h
      · simp at h
      · split at h
        · exact absurd h (attempt_no_503 c hold get left (errAt c i) _ (by unfold errAt; split <;> simp) (by unfold errAt; split <;> simp))
        · simp at h
    · simp at h
    · simp at h

/-- a POST request is not retried after an error that is not a dial error -/
theorem tryAgain_post_other (left : Nat) : tryAgain left .other false = false := by
  simp [tryAgain]

/-- invariant of the handler: `loads` counts exactly the held requests in flight, and no address
    carries more requests than its effective limit -/
def PInv (c : PCfg) (s : PState) : Prop :=
  (∀ (j l : Nat), s.loads[j]? = some l → l = s.held.count (some j)) ∧
  (∀ (j l : Nat) (u : PUp), s.loads[j]? = some l → c.ups[j]? = some u → 0 < effLimit c.m u → l ≤ effLimit c.m u)

theorem count_snoc_none (hs : List (Option Nat)) (j : Nat) : (hs ++ [none]).count (some j) = hs.count (some j) := by
  simp [List.count_append]

theorem pstep0_inv (c : PCfg) (s : PState) (e : Ev) (h : PInv c s) : PInv c (pstep0 c s e).2 := by
  unfold PInv at h ⊢
  cases e with
  | fail k => simpa only [pstep0] using h
  | arrive hold get =>
    have post := attempt_post c hold get c.retries .none s
    simp only [pstep0]
    cases hfin : (attempt c hold get c.retries .none s).2.1 with
    | sent i =>
      simp only
      obtain ⟨⟨li, u, hli, hu, hlt⟩, _, hl, hh⟩ := post.sent_ok i hfin
      rw [hl, hh]
      cases hold with
      | false => simpa using h
      | true =>
        simp only [if_true]
        constructor
        · intro j l hl'
          simp only [incAt_get] at hl'
          simp only [List.count_append]
          by_cases hji : j = i
          · subst hji
            simp [hli] at hl'
            have := h.1 j li hli
            simp; omega
          · simp [hji] at hl'
            have := h.1 j l hl'
            have hne : ¬(i = j) := fun hh => hji hh.symm
            simp [this, hne]
        · intro j l v hl' hv hpos
          simp only [incAt_get] at hl'
          by_cases hji : j = i
          · subst hji
            simp [hli] at hl'
            rw [hu] at hv
            cases hv
            have := hlt hpos; omega
          · simp [hji] at hl'
            exact h.2 j l v hl' hv hpos
    | status code =>
      obtain ⟨hl, hh⟩ := post.not_sent (by rw [hfin]; intro i hi; cases hi)
      cases hold with
      | false => simp only [Bool.false_eq_true, if_false]; rw [hl, hh]; exact h
      | true =>
        simp only [if_true]
        rw [hl, hh]
        exact ⟨fun j l hl' => by rw [count_snoc_none]; exact h.1 j l hl', h.2⟩
    | crashed =>
      obtain ⟨hl, hh⟩ := post.not_sent (by rw [hfin]; intro i hi; cases hi)
      cases hold with
      | false => simp only [Bool.false_eq_true, if_false]; rw [hl, hh]; exact h
      | true =>
        simp only [if_true]
        rw [hl, hh]
        exact ⟨fun j l hl' => by rw [count_snoc_none]; exact h.1 j l hl', h.2⟩
    | starved =>
      obtain ⟨hl, hh⟩ := post.not_sent (by rw [hfin]; intro i hi; cases hi)
      cases hold with
      | false => simp only [Bool.false_eq_true, if_false]; rw [hl, hh]; exact h
      | true =>
        simp only [if_true]
        rw [hl, hh]
        exact ⟨fun j l hl' => by rw [count_snoc_none]; exact h.1 j l hl', h.2⟩
  | fin k =>
    simp only [pstep0]
    split
    · rename_i i hk
      constructor
      · intro j l hl
        simp only [decAt_get] at hl
        rw [count_setNone s.held k i j hk]
        by_cases hji : j = i
        · subst hji
          cases hlj : s.loads[j]? with
          | none => simp [hlj] at hl
          | some x =>
            simp [hlj] at hl
            have := h.1 j x hlj
            simp; omega
        · simp [hji] at hl
          have := h.1 j l hl
          simp [hji, this]
      · intro j l v hl hv hpos
        simp only [decAt_get] at hl
        by_cases hji : j = i
        · subst hji
          cases hlj : s.loads[j]? with
          | none => simp [hlj] at hl
          | some x =>
            simp [hlj] at hl
            have := h.2 j x v hlj hv hpos; omega
        · simp [hji] at hl
          exact h.2 j l v hl hv hpos
    · exact h
  | trip => simpa only [pstep0] using h
  | untrip => simpa only [pstep0] using h

theorem addInfo_inv (c : PCfg) (hold : Bool) (x : Nat × Bool) (s : PState) (h : PInv c s) : PInv c (addInfo hold x s) := by
  unfold addInfo
  split
  · exact h
  · exact h

/-- a request that is not held leaves the books of the held ones alone -/
theorem attempt_nohold_inv (c : PCfg) (get : Bool) (left : Nat) (prev : PErr) (s : PState) (h : PInv c s) :
    PInv c (attempt c false get left prev s).2.2 := by
  have post := attempt_post c false get left prev s
  unfold PInv at h ⊢
  cases hfin : (attempt c false get left prev s).2.1 with
  | sent i =>
    obtain ⟨_, _, hl, hh⟩ := post.sent_ok i hfin
    simp only [Bool.false_eq_true, if_false] at hl hh
    rw [hl, hh]; exact h
  | status code =>
    obtain ⟨hl, hh⟩ := post.not_sent (by rw [hfin]; intro i hi; cases hi)
    rw [hl, hh]; exact h
  | crashed =>
    obtain ⟨hl, hh⟩ := post.not_sent (by rw [hfin]; intro i hi; cases hi)
    rw [hl, hh]; exact h
  | starved =>
    obtain ⟨hl, hh⟩ := post.not_sent (by rw [hfin]; intro i hi; cases hi)
    rw [hl, hh]; exact h

theorem afterLateFail_inv (c : PCfg) (s : PState) (k i : Nat) (hk : s.held[k]? = some (some i)) (h : PInv c s) :
    PInv c (afterLateFail c s k i) := by
  have := pstep0_inv c s (.fin k) h
  simp only [pstep0, hk] at this
  exact this

theorem pstep_inv (c : PCfg) (s : PState) (e : Ev) (h : PInv c s) : PInv c (pstep c s e).2 := by
  cases e with
  | arrive hold get => simp only [pstep]; exact addInfo_inv c _ _ _ (pstep0_inv c s _ h)
  | fin k => simp only [pstep]; exact pstep0_inv c s _ h
  | trip => simp only [pstep]; exact pstep0_inv c s _ h
  | untrip => simp only [pstep]; exact pstep0_inv c s _ h
  | fail k =>
    simp only [pstep]
    split
    · rename_i i left get hk _
      split
      · exact attempt_nohold_inv c get _ _ _ (afterLateFail_inv c s k i hk h)
      · exact afterLateFail_inv c s k i hk h
    · exact h

theorem prun_inv (c : PCfg) : ∀ (evs : List Ev) (s : PState), PInv c s → PInv c (prun c s evs).2
  | [], s, h => h
  | e :: evs, s, h => by
    simp only [prun]
    exact prun_inv c evs _ (pstep_inv c s e h)

theorem pinit_inv (p : Policy) (c : PCfg) (ds : List Nat) : PInv c (pinit p c ds) := by
  constructor
  · intro j l hl
    simp [pinit] at hl
    simp [pinit]; omega
  · intro j l u hl _ _
    simp [pinit] at hl
    omega

theorem mkPool_avail (c : PCfg) : ∀ (us : List PUp) (ls fs : List Nat) (u : Up), u ∈ mkPool c us ls fs →
    u.healthy = true ∧ u.cb = none ∧ u.maxFails = c.maxFails
  | [], _, _, u, h => by simp [mkPool] at h
  | _ :: _, [], _, u, h => by simp [mkPool] at h
  | _ :: _, _ :: _, [], u, h => by simp [mkPool] at h
  | pu :: us, l :: ls, f :: fs, u, h => by
    simp only [mkPool, List.mem_cons] at h
    rcases h with h | h
    · subst h; exact ⟨rfl, rfl, rfl⟩
    · exact mkPool_avail c us ls fs u h

/-! ### Caddyfile: the arguments on a line -/

theorem remainingArgs_same_line (l nest : Nat) : ∀ (args : List Bytes) (pre : List Tok) (p : Tok) (fuel : Nat),
    (∀ a ∈ args, a ≠ lbrace) → p.line = l → args.length < fuel →
    (remainingArgs fuel ⟨(pre ++ [p]) ++ args.map (fun a => ⟨a, l⟩), pre.length + 1, nest⟩).1 = args
  | [], pre, p, fuel, _, _, hf => by
    cases fuel with
    | zero => omega
    | succ fuel =>
      unfold remainingArgs
      have h1 : ((pre ++ [p]) ++ ([] : List Bytes).map (fun a => (⟨a, l⟩ : Tok)))[pre.length + 1]? = none := by simp
      simp [Disp.nextArg, Disp.nextOnSameLine]
  | a :: args, pre, p, fuel, hb, hl, hf => by
    cases fuel with
    | zero => simp at hf
    | succ fuel =>
      have ha : a ≠ lbrace := hb a (List.mem_cons_self ..)
      have h0 : ((pre ++ [p]) ++ (a :: args).map (fun a => (⟨a, l⟩ : Tok)))[pre.length]? = some p := by simp
      have h1 : ((pre ++ [p]) ++ (a :: args).map (fun a => (⟨a, l⟩ : Tok)))[pre.length + 1]? = some ⟨a, l⟩ := by
        rw [List.getElem?_append_right (by simp)]; simp
      have hstep : (Disp.mk ((pre ++ [p]) ++ (a :: args).map (fun a => (⟨a, l⟩ : Tok))) (pre.length + 1) nest).nextArg
          = (true, ⟨(pre ++ [p]) ++ (a :: args).map (fun a => (⟨a, l⟩ : Tok)), pre.length + 2, nest⟩) := by
        simp [Disp.nextArg, Disp.nextOnSameLine, hl, Disp.val, ha]
      unfold remainingArgs
      rw [hstep]
      simp only [if_true]
      have hval : (Disp.mk ((pre ++ [p]) ++ (a :: args).map (fun a => (⟨a, l⟩ : Tok))) (pre.length + 2) nest).val = a := by
        simp [Disp.val]
      rw [hval]
      have hshape : (pre ++ [p]) ++ (a :: args).map (fun a => (⟨a, l⟩ : Tok))
          = ((pre ++ [p]) ++ [⟨a, l⟩]) ++ args.map (fun a => (⟨a, l⟩ : Tok)) := by simp
      have ih := remainingArgs_same_line l nest args (pre ++ [p]) ⟨a, l⟩ fuel
        (fun x hx => hb x (List.mem_cons_of_mem _ hx)) rfl (by simp at hf; omega)
      rw [hshape]
      have hlen : (pre ++ [p]).length + 1 = pre.length + 2 := by simp
      rw [hlen] at ih
      rw [ih]

theorem weightsOf_spec : ∀ (args : List Bytes) (ws : List Int), weightsOf args = some ws →
    ws.length = args.length ∧ ∀ (i : Nat) (a : Bytes), args[i]? = some a → ∃ w, ws[i]? = some w ∧ C16.atoi a = some w ∧ 0 ≤ w
  | [], ws, h => by simp [weightsOf] at h; subst h; simp
  | a :: rest, ws, h => by
    unfold weightsOf at h
    cases ha : C16.atoi a with
    | none => simp [ha] at h
    | some v =>
      cases hr : weightsOf rest with
      | none => simp [ha, hr] at h
      | some ws' =>
        simp only [ha, hr] at h
        split at h
        · cases h
        · rename_i hv
          cases h
          obtain ⟨h1, h2⟩ := weightsOf_spec rest ws' hr
          refine ⟨by simp [h1], ?_⟩
          intro i x hx
          cases i with
          | zero => simp at hx; subst hx; exact ⟨v, rfl, ha, by omega⟩
          | succ i => simpa using h2 i x (by simpa using hx)

/-! ### random_choose: how many draws it needs -/

/-- every draw is accepted by `Int31n(n)` for every `n ≤ L` (its `Int31()` value is not in the
    rejected top sliver, which is smaller than `n`) -/
def Accepted (L : Nat) (ds : List Nat) : Prop := ∀ d ∈ ds, int31 d + L ≤ 2147483648

theorem intn_accepted {n L : Nat} (hn : 0 < n) (hL : n ≤ L) {d : Nat} {ds : List Nat} (h : Accepted L (d :: ds)) :
    intn n (d :: ds) = some (int31 d % n, ds) := by
  have hd := h d (List.mem_cons_self ..)
  have hm : 2147483648 % n < n := Nat.mod_lt _ hn
  unfold intn
  rw [if_neg]
  unfold intnMax
  omega

theorem accepted_tail {L : Nat} {d : Nat} {ds : List Nat} (h : Accepted L (d :: ds)) : Accepted L ds :=
  fun x hx => h x (List.mem_cons_of_mem _ hx)

theorem rcGo_draws (k L : Nat) : ∀ (rest : Pool) (i : Nat) (ch : List Cand) (seen : Nat) (ds : List Nat),
    Accepted L ds → seen + rest.length ≤ L → rest.length ≤ ds.length →
    ∃ out ds', rcGo k rest i ch seen ds = some (out, ds') ∧ Accepted L ds' ∧ ds.length ≤ ds'.length + rest.length
  | [], i, ch, seen, ds, ha, _, _ => ⟨ch, ds, rfl, ha, by simp⟩
  | u :: rest, i, ch, seen, ds, ha, hs, hl => by
    simp at hs hl
    unfold rcGo
    split
    · split
      · obtain ⟨out, ds', h1, h2, h3⟩ := rcGo_draws k L rest (i + 1) (ch ++ [(i, u.load)]) (seen + 1) ds ha (by omega) (by omega)
        exact ⟨out, ds', h1, h2, by simp; omega⟩
      · cases ds with
        | nil => simp at hl
        | cons d ds =>
          rw [intn_accepted (by omega) (by omega) ha]
          simp only
          simp at hl
          split
          · obtain ⟨out, ds', h1, h2, h3⟩ := rcGo_draws k L rest (i + 1) (ch.set (int31 d % (seen + 1)) (i, u.load)) (seen + 1) ds
              (accepted_tail ha) (by omega) (by omega)
            exact ⟨out, ds', h1, h2, by simp; omega⟩
          · obtain ⟨out, ds', h1, h2, h3⟩ := rcGo_draws k L rest (i + 1) ch (seen + 1) ds (accepted_tail ha) (by omega) (by omega)
            exact ⟨out, ds', h1, h2, by simp; omega⟩
    · obtain ⟨out, ds', h1, h2, h3⟩ := rcGo_draws k L rest (i + 1) ch seen ds ha (by omega) (by omega)
      exact ⟨out, ds', h1, h2, by simp; omega⟩

theorem lrGo_length : ∀ (rest : List Cand) (best : List Nat) (br : Option Nat) (b : List Nat),
    lrGo rest best br = .inr b → b.length ≤ best.length + rest.length
  | [], best, br, b, h => by simp [lrGo] at h; subst h; simp
  | (i, l) :: rest, best, br, b, h => by
    unfold lrGo at h
    split at h
    · cases h
    · split at h
      · have := lrGo_length rest [i] (some l) b h; simp at this ⊢; omega
      · split at h
        · have := lrGo_length rest (best ++ [i]) br b h; simp at this ⊢; omega
        · have := lrGo_length rest best br b h; simp; omega

theorem lrPick_draws {L : Nat} (best : List Nat) (ds : List Nat) (hb : best.length ≤ L) (ha : Accepted L ds)
    (hd : ds ≠ []) : (lrPick best ds).1 ≠ .starved := by
  unfold lrPick
  split
  · simp
  · simp
  · rename_i h1 h2
    cases ds with
    | nil => exact absurd rfl hd
    | cons d ds =>
      have hpos : 0 < best.length := by
        cases best with
        | nil => exact absurd rfl h1
        | cons x xs => simp
      rw [intn_accepted hpos hb ha]
      simp only
      split <;> simp

/-- the reservoir loop and leastRequests together use at most one draw per upstream plus one -/
theorem selRandomChoose_draws (k : Nat) (pool : Pool) (ds : List Nat)
    (ha : Accepted pool.length ds) (hl : pool.length + 1 ≤ ds.length) :
    (selRandomChoose k pool ds).1 ≠ .starved := by
  obtain ⟨out, ds', h1, h2, h3⟩ := rcGo_draws (min k pool.length) pool.length pool 0 [] 0 ds ha (by omega) (by omega)
  have hinv := rcGo_inv (min k pool.length) pool [] [] 0 ds out ds' ⟨by simp, by simp⟩ (by simp) (by simp [numAvail])
    (by simpa using h1)
  simp only [List.nil_append] at hinv
  have hout : out.length ≤ pool.length := by rw [hinv.2]; omega
  unfold selRandomChoose
  rw [h1]
  simp only
  unfold leastRequests
  split
  · simp
  · split
    · simp
    · rename_i best hb
      have := lrGo_length out [] none best hb
      simp at this
      exact lrPick_draws best ds' (by omega) h2 (by intro hnil; subst hnil; simp at h3; omega)

theorem nodup_subset_length : ∀ (l m : List Nat), l.Nodup → (∀ x ∈ l, x ∈ m) → l.length ≤ m.length
  | [], m, _, _ => Nat.zero_le _
  | a :: l, m, hn, hs => by
    rw [List.nodup_cons] at hn
    have ham : a ∈ m := hs a (List.mem_cons_self ..)
    have ih := nodup_subset_length l (m.erase a) hn.2 (by
      intro x hx
      have hxa : x ≠ a := fun h => hn.1 (h ▸ hx)
      exact (List.mem_erase_of_ne hxa).2 (hs x (List.mem_cons_of_mem _ hx)))
    rw [List.length_erase_of_mem ham] at ih
    have : 0 < m.length := List.length_pos_of_mem ham
    simp; omega

/-- is position `j` an available upstream carrying at least `l` requests? -/
def loadedAt (pool : Pool) (l : Nat) (j : Nat) : Bool :=
  match pool[j]? with
  | some v => v.avail && decide (l ≤ v.load)
  | none => false

theorem selRandomChoose_count {k : Nat} {pool : Pool} {ds : List Nat} {i : Nat}
    (h : (selRandomChoose k pool ds).1 = .sel i) :
    ∃ u, pool[i]? = some u ∧ u.avail = true ∧
      min (min k pool.length) (numAvail pool) ≤ ((List.range pool.length).filter (loadedAt pool u.load)).length := by
  obtain ⟨ch, hok, hnd, hlen, l, hmem, hmin⟩ := selRandomChoose_spec h
  obtain ⟨u, hu, hav, hl⟩ := hok _ hmem
  refine ⟨u, hu, hav, ?_⟩
  rw [← hlen, ← List.length_map (f := Prod.fst)]
  apply nodup_subset_length _ _ hnd
  intro j hj
  obtain ⟨c, hc, hcj⟩ := List.mem_map.1 hj
  obtain ⟨v, hv, hva, hvl⟩ := hok c hc
  have hlt : c.1 < pool.length := (List.getElem?_eq_some_iff.1 hv).1
  rw [← hcj]
  apply List.mem_filter.2
  refine ⟨List.mem_range.2 hlt, ?_⟩
  simp only [loadedAt, hv, hva, Bool.true_and, decide_eq_true_eq]
  have := hmin c hc
  simp at hl
  omega

theorem mkPool_fails (c : PCfg) : ∀ (us : List PUp) (ls fs : List Nat) (i : Nat) (u : Up),
    (mkPool c us ls fs)[i]? = some u → fs[i]? = some u.fails ∧ u.maxFails = c.maxFails ∧ u.healthy = true
  | [], _, _, i, u, h => by simp [mkPool] at h
  | _ :: _, [], _, i, u, h => by simp [mkPool] at h
  | _ :: _, _ :: _, [], i, u, h => by simp [mkPool] at h
  | pu :: us, l :: ls, f :: fs, 0, u, h => by
    simp [mkPool] at h; subst h; exact ⟨rfl, rfl, rfl⟩
  | pu :: us, l :: ls, f :: fs, i + 1, u, h => by
    simp [mkPool] at h
    simpa using mkPool_fails c us ls fs i u h

/-- passive health checks that remember failures (`fail_duration`) with `max_fails` 1: whatever
    `Select` returns has no recorded failure -/
theorem sel_has_no_fails {c : PCfg} {s : PState} {i : Nat} (hfd : c.fd = true) (hmf : c.mf ≤ 1)
    (h : selRes c s = .sel i) : s.fails[i]? = some 0 := by
  obtain ⟨u, hu, hav⟩ := select_safe _ _ _ _ i h
  unfold poolOf at hu
  rw [List.getElem?_map] at hu
  cases h0 : (mkPool c c.ups s.loads s.fails)[i]? with
  | none => simp [h0] at hu
  | some u0 =>
    simp [h0] at hu
    obtain ⟨h1, h2, _⟩ := mkPool_fails c c.ups s.loads s.fails i u0 h0
    subst hu
    have hmax : c.maxFails = some 1 := by
      unfold PCfg.maxFails PCfg.passive
      simp [hfd]
      omega
    simp [Up.avail, Up.isHealthy, h2, hmax] at hav
    rw [h1]; congr 1; omega

/-- static upstreams, failures remembered, `max_fails` 1: within one request no upstream is tried
    twice, and the upstream that finally answers has not been tried before -/
theorem attempt_no_retry_of_failed (c : PCfg) (hold get : Bool) (hdyn : c.dyn = false) (hfd : c.fd = true)
    (hmf : c.mf ≤ 1) : ∀ (left : Nat) (prev : PErr) (s : PState),
    ((attempt c hold get left prev s).1.filter Option.isSome).Nodup ∧
    (∀ j, some j ∈ (attempt c hold get left prev s).1 → s.fails[j]? = some 0) ∧
    (∀ i, (attempt c hold get left prev s).2.1 = .sent i → s.fails[i]? = some 0 ∧ some i ∉ (attempt c hold get left prev s).1)
  | 0, prev, s => by
    unfold attempt
    split
    · simp
    · rename_i i hsel
      have h0 := sel_has_no_fails hfd hmf hsel
      split
      · exact ⟨by simp, by simp, fun j hj => by cases hj; exact ⟨h0, by simp⟩⟩
      · refine ⟨by simp, ?_, by simp⟩
        intro j hj; simp at hj; subst hj; exact h0
    · simp
    · simp
  | left + 1, prev, s => by
    unfold attempt
    split
    · split
      · obtain ⟨h1, h2, h3⟩ := attempt_no_retry_of_failed c hold get hdyn hfd hmf left (carried prev) (afterSel c s)
        refine ⟨by simpa using h1, ?_, ?_⟩
        · intro j hj; simp at hj; exact h2 j hj
        · intro i hi
          obtain ⟨g1, g2⟩ := h3 i hi
          exact ⟨g1, by simpa using g2⟩
      · simp
    · rename_i i hsel
      have h0 := sel_has_no_fails hfd hmf hsel
      split
      · exact ⟨by simp, by simp, fun j hj => by cases hj; exact ⟨h0, by simp⟩⟩
      · split
        · obtain ⟨h1, h2, h3⟩ := attempt_no_retry_of_failed c hold get hdyn hfd hmf left (errAt c i) (afterFail c s i)
          -- the failure of `i` is recorded and stays (static upstreams)
          have hf : (afterFail c s i).fails = incAt s.fails i := by
            simp [afterFail, afterSel, dropFails, hdyn, hfd]
          have hne : ∀ j, (afterFail c s i).fails[j]? = some 0 → j ≠ i ∧ s.fails[j]? = some 0 := by
            intro j hj
            rw [hf, incAt_get] at hj
            by_cases hji : j = i
            · subst hji; simp [h0] at hj
            · simp [hji] at hj; exact ⟨hji, hj⟩
          refine ⟨?_, ?_, ?_⟩
          · simp only [List.filter_cons, Option.isSome_some, if_true]
            rw [List.nodup_cons]
            refine ⟨?_, h1⟩
            intro hm
            have := (List.mem_filter.1 hm).1
            exact (hne i (h2 i this)).1 rfl
          · intro j hj
            simp at hj
            rcases hj with hj | hj
            · subst hj; exact h0
            · exact (hne j (h2 j hj)).2
          · intro k hk
            obtain ⟨g1, g2⟩ := h3 k hk
            obtain ⟨gne, g0⟩ := hne k g1
            refine ⟨g0, ?_⟩
            simp
            exact ⟨fun h => gne h, g2⟩
        · refine ⟨by simp, ?_, by simp⟩
          intro j hj; simp at hj; subst hj; exact h0
    · simp
    · simp

theorem tryAgain_false_succ {left : Nat} {e : PErr} {ok : Bool} (h : tryAgain (left + 1) e ok = false) :
    e = .other ∧ ok = false := by
  cases e <;> simp [tryAgain] at h
  exact ⟨rfl, h⟩

/-- a request that is refused before its retries are used up is one that must not be repeated:
    its last error was not a dial error and it is not retryable -/
theorem attempt_gives_up_early (c : PCfg) (hold get : Bool) : ∀ (left : Nat) (prev : PErr) (s : PState) (code : Nat),
    (attempt c hold get left prev s).2.1 = .status code → (attempt c hold get left prev s).1.length ≤ left →
    retryable c get = false
  | 0, prev, s, code, h, hl => by
    unfold attempt at h hl
    cases hs : selRes c s <;> simp only [hs] at h hl
    · simp at hl
    · by_cases hb : badAt c.ups ‹Nat› = 0
      · simp [hb] at h
      · simp [hb] at hl
    all_goals (first | cases h | simp at h)
  | left + 1, prev, s, code, h, hl => by
    unfold attempt at h hl
    cases hs : selRes c s <;> simp only [hs] at h hl
    · by_cases ht : tryAgain (left + 1) (carried prev) (retryable c get) = true
      · simp only [ht, if_true, List.length_cons] at h hl
        exact attempt_gives_up_early c hold get left _ _ code h (by omega)
      · exact (tryAgain_false_succ (by simpa using ht)).2
    · rename_i i
      by_cases hb : badAt c.ups i = 0
      · simp [hb] at h
      · simp only [hb, if_false] at h hl
        by_cases ht : tryAgain (left + 1) (errAt c i) (retryable c get) = true
        · simp only [ht, if_true, List.length_cons] at h hl
          exact attempt_gives_up_early c hold get left _ _ code h (by omega)
        · exact (tryAgain_false_succ (by simpa using ht)).2
    all_goals (first | cases h | simp at h)

/-! ### Caddyfile: the fuel of the argument loops -/


theorem nextArg_true {d : Disp} (h : d.nextArg.1 = true) :
    d.nextArg.2.cur = d.cur + 1 ∧ d.nextArg.2.toks = d.toks ∧ d.cur ≤ d.toks.length := by
  unfold Disp.nextArg at h ⊢
  unfold Disp.nextOnSameLine at h ⊢
  cases hc : d.cur with
  | zero =>
    simp only [hc] at h ⊢
    split at h
    · split at h
      · simp at h
      · rename_i hv
        simp [hv]
    · simp at h
  | succ c =>
    simp only [hc] at h ⊢
    cases h0 : d.toks[c]? with
    | none => simp [h0] at h
    | some t1 =>
      cases h1 : d.toks[c + 1]? with
      | none => simp [h0, h1] at h
      | some t2 =>
        simp only [h0, h1] at h ⊢
        have hlt : c + 1 < d.toks.length := (List.getElem?_eq_some_iff.1 h1).1
        by_cases hl : t1.line < t2.line
        · simp [hl] at h
        · simp only [hl, if_false] at h ⊢
          split at h
          · split at h
            · simp at h
            · rename_i hv
              simp [hv]; omega
          · simp at h

theorem nextArg_false_of_far {d : Disp} (h : d.toks.length + 1 ≤ d.cur) : d.nextArg = (false, d) := by
  unfold Disp.nextArg Disp.nextOnSameLine
  cases hc : d.cur with
  | zero => omega
  | succ c =>
    have : d.toks[c + 1]? = none := List.getElem?_eq_none_iff.2 (by omega)
    cases h0 : d.toks[c]? <;> simp [this]

/-- the argument loops have fuel to spare: any fuel above "tokens left + 2" gives the same result -/
theorem remainingArgs_fuel : ∀ (fuel fuel' : Nat) (d : Disp),
    d.toks.length + 2 - d.cur ≤ fuel → d.toks.length + 2 - d.cur ≤ fuel' → remainingArgs fuel d = remainingArgs fuel' d
  | 0, 0, _, _, _ => rfl
  | 0, fuel' + 1, d, h, _ => by
    unfold remainingArgs
    rw [nextArg_false_of_far (by omega)]
    simp
  | fuel + 1, 0, d, _, h => by
    unfold remainingArgs
    rw [nextArg_false_of_far (by omega)]
    simp
  | fuel + 1, fuel' + 1, d, h, h' => by
    unfold remainingArgs
    by_cases ha : d.nextArg.1 = true
    · obtain ⟨h1, h2, h3⟩ := nextArg_true ha
      simp only [ha, if_true]
      rw [remainingArgs_fuel fuel fuel' d.nextArg.2 (by rw [h1, h2]; omega) (by rw [h1, h2]; omega)]
    · simp [ha]

theorem segArgs_fuel : ∀ (fuel fuel' : Nat) (d : Disp),
    d.toks.length + 2 - d.cur ≤ fuel → d.toks.length + 2 - d.cur ≤ fuel' → segArgs fuel d = segArgs fuel' d
  | 0, 0, _, _, _ => rfl
  | 0, fuel' + 1, d, h, _ => by
    unfold segArgs
    rw [nextArg_false_of_far (by omega)]
    simp
  | fuel + 1, 0, d, _, h => by
    unfold segArgs
    rw [nextArg_false_of_far (by omega)]
    simp
  | fuel + 1, fuel' + 1, d, h, h' => by
    unfold segArgs
    by_cases ha : d.nextArg.1 = true
    · obtain ⟨h1, h2, h3⟩ := nextArg_true ha
      simp only [ha, if_true]
      rw [segArgs_fuel fuel fuel' d.nextArg.2 (by rw [h1, h2]; omega) (by rw [h1, h2]; omega)]
    · simp [ha]

/-! ### Caddyfile: the dispenser only moves forward, the loops and the nesting have fuel enough -/


/-- the cursor stays inside "one past the last token" (or at 1 for an empty token list) -/
def Disp.bound (d : Disp) : Nat := max d.toks.length 1

/-- `d'` comes from `d` by dispenser operations: same tokens, the cursor did not move back and
    stays within the bound -/
structure Fwd (d d' : Disp) : Prop where
  toks : d'.toks = d.toks
  mono : d.cur ≤ d'.cur
  wf : d.cur ≤ d.bound → d'.cur ≤ d.bound

theorem Fwd.refl (d : Disp) : Fwd d d := ⟨rfl, Nat.le_refl _, id⟩

theorem Fwd.trans {a b c : Disp} (h1 : Fwd a b) (h2 : Fwd b c) : Fwd a c := by
  have hb : b.bound = a.bound := by simp [Disp.bound, h1.toks]
  exact ⟨h2.toks.trans h1.toks, Nat.le_trans h1.mono h2.mono, fun h => hb ▸ h2.wf (hb ▸ h1.wf h)⟩

theorem next_spec (d : Disp) :
    (d.next.1 = true → d.next.2 = { d with cur := d.cur + 1 } ∧ d.cur + 1 ≤ d.toks.length) ∧
    (d.next.1 = false → d.next.2 = d) := by
  unfold Disp.next
  by_cases h : d.cur < d.toks.length <;> simp [h]
  omega

theorem nosl_spec (d : Disp) :
    (d.nextOnSameLine.1 = true → d.nextOnSameLine.2 = { d with cur := d.cur + 1 } ∧ d.cur + 1 ≤ d.bound) ∧
    (d.nextOnSameLine.1 = false → d.nextOnSameLine.2 = d) := by
  unfold Disp.nextOnSameLine Disp.bound
  cases hc : d.cur with
  | zero =>
    simp
    omega
  | succ c =>
    cases h0 : d.toks[c]? with
    | none => simp [h0]
    | some t1 =>
      cases h1 : d.toks[c + 1]? with
      | none => simp [h0, h1]
      | some t2 =>
        have hlt : c + 1 < d.toks.length := (List.getElem?_eq_some_iff.1 h1).1
        by_cases hl : t1.line < t2.line
        · simp [h0, h1, hl]
        · simp [h0, h1, hl]
          omega

theorem nextArg_spec (d : Disp) :
    (d.nextArg.1 = true → d.nextArg.2 = { d with cur := d.cur + 1 } ∧ d.cur + 1 ≤ d.bound) ∧
    (d.nextArg.1 = false → d.nextArg.2 = d) := by
  obtain ⟨h1, h2⟩ := nosl_spec d
  unfold Disp.nextArg
  by_cases hn : d.nextOnSameLine.1 = true
  · obtain ⟨g1, g2⟩ := h1 hn
    simp only [hn, if_true]
    by_cases hv : d.nextOnSameLine.2.val = lbrace
    · simp only [hv, if_true]
      constructor
      · intro h; cases h
      · intro _
        rw [g1]
        cases d; simp [Disp.prev]
    · simp only [hv, if_false]
      exact ⟨fun _ => ⟨g1, g2⟩, fun h => (by cases h)⟩
  · have hn' : d.nextOnSameLine.1 = false := by simpa using hn
    simp only [hn', Bool.false_eq_true, if_false]
    exact ⟨fun h => (by cases h), fun _ => h2 hn'⟩

theorem nextArg_fwd (d : Disp) : Fwd d d.nextArg.2 ∧ d.nextArg.2.nest = d.nest := by
  obtain ⟨h1, h2⟩ := nextArg_spec d
  by_cases h : d.nextArg.1 = true
  · obtain ⟨g1, g2⟩ := h1 h
    rw [g1]
    exact ⟨⟨rfl, by simp, fun _ => g2⟩, rfl⟩
  · rw [h2 (by simpa using h)]
    exact ⟨Fwd.refl d, rfl⟩

theorem fwd_of_cur {d d' : Disp} (ht : d'.toks = d.toks) (h1 : d.cur ≤ d'.cur) (h2 : d'.cur ≤ d.bound) : Fwd d d' :=
  ⟨ht, h1, fun _ => h2⟩

theorem next_fwd (d : Disp) : Fwd d d.next.2 ∧ d.next.2.nest = d.nest := by
  obtain ⟨h1, h2⟩ := next_spec d
  by_cases h : d.next.1 = true
  · obtain ⟨g1, g2⟩ := h1 h
    rw [g1]
    exact ⟨fwd_of_cur rfl (by simp) (by simp [Disp.bound]; omega), rfl⟩
  · rw [h2 (by simpa using h)]; exact ⟨Fwd.refl d, rfl⟩

theorem nosl_fwd (d : Disp) : Fwd d d.nextOnSameLine.2 ∧ d.nextOnSameLine.2.nest = d.nest := by
  obtain ⟨h1, h2⟩ := nosl_spec d
  by_cases h : d.nextOnSameLine.1 = true
  · obtain ⟨g1, g2⟩ := h1 h
    rw [g1]
    exact ⟨fwd_of_cur rfl (by simp) g2, rfl⟩
  · rw [h2 (by simpa using h)]; exact ⟨Fwd.refl d, rfl⟩

theorem fwd_nest {d d' : Disp} (h : Fwd d d') (n : Nat) : Fwd d { d' with nest := n } :=
  ⟨h.toks, h.mono, h.wf⟩

theorem prev_val (d : Disp) (n : Nat) : ({ d with nest := n } : Disp).val = d.val := rfl

/-- what `NextBlock(init)` does to the cursor and the nesting -/
theorem nextBlock_spec (d : Disp) (init : Nat) :
    Fwd d (d.nextBlock init).2 ∧
    ((d.nextBlock init).1 = true → d.cur < (d.nextBlock init).2.cur) ∧
    (init ≤ d.nest → init ≤ (d.nextBlock init).2.nest) ∧
    (d.nest ≤ init → (d.nextBlock init).1 = true → (d.nextBlock init).2.val ≠ lbrace →
      d.cur + 2 ≤ (d.nextBlock init).2.cur) := by
  unfold Disp.nextBlock
  by_cases hA : init < d.nest
  · simp only [hA, if_true]
    obtain ⟨n1, n2⟩ := next_spec d
    obtain ⟨nf, nn⟩ := next_fwd d
    by_cases hn : d.next.1 = true
    · obtain ⟨e1, e2⟩ := n1 hn
      have hcur : d.next.2.cur = d.cur + 1 := by rw [e1]
      obtain ⟨sf, sn⟩ := nosl_fwd d.next.2
      have hf2 : Fwd d d.next.2.nextOnSameLine.2 := nf.trans sf
      simp only [hn, if_true]
      split
      · refine ⟨fwd_nest hf2 _, fun _ => ?_, fun _ => ?_, fun h => by omega⟩
        · have := sf.mono; simp at this ⊢; omega
        · simp; omega
      · split
        · refine ⟨fwd_nest hf2 _, fun _ => ?_, fun _ => ?_, fun h => by omega⟩
          · have := sf.mono; simp at this ⊢; omega
          · simp; omega
        · split
          · refine ⟨hf2, fun _ => ?_, fun _ => ?_, fun h => by omega⟩
            · have := sf.mono; dsimp only; omega
            · dsimp only; rw [sn, nn]; omega
          · refine ⟨nf, fun _ => (by dsimp only; omega), fun _ => (by dsimp only; rw [nn]; omega), fun h => by omega⟩
    · have hn' : d.next.1 = false := by simpa using hn
      simp only [hn', Bool.false_eq_true, if_false]
      rw [n2 hn']
      exact ⟨Fwd.refl d, fun h => (by cases h), fun h => h, fun h => by omega⟩
  · simp only [hA, if_false]
    obtain ⟨s1, s2⟩ := nosl_spec d
    obtain ⟨sf, sn⟩ := nosl_fwd d
    by_cases hs : d.nextOnSameLine.1 = false
    · simp only [hs, if_true]
      rw [s2 hs]
      exact ⟨Fwd.refl d, fun h => (by cases h), fun h => h, fun _ h => (by cases h)⟩
    · have hs' : d.nextOnSameLine.1 = true := by simpa using hs
      obtain ⟨g1, g2⟩ := s1 hs'
      simp only [hs', Bool.true_eq_false, if_false]
      by_cases hv : d.nextOnSameLine.2.val ≠ lbrace
      · rw [if_pos hv]
        have : d.nextOnSameLine.2.prev = d := by rw [g1]; cases d; simp [Disp.prev]
        rw [this]
        exact ⟨Fwd.refl d, fun h => (by cases h), fun h => h, fun _ h => (by cases h)⟩
      · have hv' : d.nextOnSameLine.2.val = lbrace := by simpa using hv
        rw [if_neg hv]
        obtain ⟨m1, m2⟩ := next_spec d.nextOnSameLine.2
        obtain ⟨mf, mn⟩ := next_fwd d.nextOnSameLine.2
        have hf2 : Fwd d d.nextOnSameLine.2.next.2 := sf.trans mf
        have hc1 : d.nextOnSameLine.2.cur = d.cur + 1 := by rw [g1]
        by_cases hr : d.nextOnSameLine.2.next.2.val = rbrace
        · simp only [hr, if_true]
          exact ⟨hf2, fun h => (by cases h), fun h => (by rw [mn, sn]; exact h), fun _ h => (by cases h)⟩
        · simp only [hr, if_false]
          refine ⟨fwd_nest hf2 _, fun _ => ?_, fun h => (by show init ≤ d.nextOnSameLine.2.next.2.nest + 1; rw [mn, sn]; omega), fun _ _ hval => ?_⟩
          · have := mf.mono; show d.cur < d.nextOnSameLine.2.next.2.cur; omega
          · -- the token after the brace was loaded, otherwise the value would still be the brace
            by_cases hm : d.nextOnSameLine.2.next.1 = true
            · obtain ⟨k1, _⟩ := m1 hm
              show d.cur + 2 ≤ d.nextOnSameLine.2.next.2.cur
              rw [k1]; show d.cur + 2 ≤ d.nextOnSameLine.2.cur + 1; omega
            · have := m2 (by simpa using hm)
              simp only [prev_val] at hval
              rw [this] at hval
              exact absurd hv' hval

theorem remainingArgs_fwd : ∀ (fuel : Nat) (d : Disp),
    Fwd d (remainingArgs fuel d).2 ∧ (remainingArgs fuel d).2.nest = d.nest
  | 0, d => ⟨Fwd.refl d, rfl⟩
  | fuel + 1, d => by
    obtain ⟨af, an⟩ := nextArg_fwd d
    unfold remainingArgs
    split
    · obtain ⟨rf, rn⟩ := remainingArgs_fwd fuel d.nextArg.2
      exact ⟨af.trans rf, rn.trans an⟩
    · exact ⟨af, an⟩

theorem segArgs_fwd : ∀ (fuel : Nat) (d : Disp),
    Fwd d (segArgs fuel d).2 ∧ (segArgs fuel d).2.nest = d.nest ∧
    (segArgs fuel d).1.length + d.cur ≤ (segArgs fuel d).2.cur
  | 0, d => ⟨Fwd.refl d, rfl, by simp [segArgs]⟩
  | fuel + 1, d => by
    obtain ⟨af, an⟩ := nextArg_fwd d
    obtain ⟨a1, _⟩ := nextArg_spec d
    unfold segArgs
    split
    · rename_i ha
      obtain ⟨rf, rn, rl⟩ := segArgs_fwd fuel d.nextArg.2
      obtain ⟨g1, _⟩ := a1 ha
      have hc : d.nextArg.2.cur = d.cur + 1 := by rw [g1]
      exact ⟨af.trans rf, rn.trans an, by simp only [List.length_cons]; omega⟩
    · exact ⟨af, an, by simp; exact af.mono⟩

theorem segBlock_fwd (init : Nat) : ∀ (fuel : Nat) (opened : Bool) (d : Disp), init ≤ d.nest →
    Fwd d (segBlock init fuel opened d).2.2 ∧ init ≤ (segBlock init fuel opened d).2.2.nest ∧
    (segBlock init fuel opened d).1.length + d.cur ≤ (segBlock init fuel opened d).2.2.cur + (if opened then 0 else 1)
  | 0, opened, d, h => ⟨Fwd.refl d, h, by simp [segBlock]⟩
  | fuel + 1, opened, d, h => by
    obtain ⟨bf, bt, bn, _⟩ := nextBlock_spec d init
    unfold segBlock
    split
    · rename_i hb
      have hlt := bt hb
      obtain ⟨rf, rn, rl⟩ := segBlock_fwd init fuel true (d.nextBlock init).2 (bn h)
      simp only [if_true, Nat.add_zero] at rl
      split
      · exact ⟨bf.trans rf, rn, by simp only [List.length_cons]; omega⟩
      · exact ⟨bf.trans rf, rn, by simp only [List.length_cons]; omega⟩
    · exact ⟨bf, bn h, by simp; have := bf.mono; omega⟩

/-- `NextSegment()`: the cursor only moves forward, the nesting does not drop, and the segment has
    at most three tokens more than the cursor passed (the first token, and — on an unterminated
    block — a repeated token at either end) -/
theorem nextSegment_spec (d : Disp) :
    Fwd d (nextSegment d).2 ∧ d.nest ≤ (nextSegment d).2.nest ∧
    (nextSegment d).1.length + d.cur ≤ (nextSegment d).2.cur + 3 := by
  obtain ⟨af, an, al⟩ := segArgs_fwd (d.toks.length + 2) d
  obtain ⟨bf, bn, bl⟩ := segBlock_fwd (segArgs (d.toks.length + 2) d).2.nest (d.toks.length + 2) false
    (segArgs (d.toks.length + 2) d).2 (Nat.le_refl _)
  unfold nextSegment
  refine ⟨af.trans bf, Nat.le_trans (Nat.le_of_eq an.symm) bn, ?_⟩
  simp only [Bool.false_eq_true, if_false] at bl
  simp only [List.length_cons, List.length_append]
  split <;> simp <;> omega

theorem fwd_bound {d d' : Disp} (h : Fwd d d') : d'.bound = d.bound := by simp [Disp.bound, h.toks]

/-- the block loop of query / header / cookie does not run out of fuel: with enough iterations for
    the tokens that are left, and a fallback loader that does not run out on the (shorter)
    segments it is given -/
theorem blockLoop_fuel (dur : Bytes → Option Int) (cookie : Bool) (lf : List Tok → CfRes) (c0 L : Nat)
    (hlf : ∀ seg : List Tok, seg.length + c0 ≤ L → lf seg ≠ .fuel) :
    ∀ (n : Nat) (d : Disp) (st : BlkState), d.toks.length = L → d.cur ≤ d.bound → d.bound + 1 - d.cur ≤ n →
    ((d.nest = 0 ∧ c0 ≤ d.cur) ∨ c0 + 2 ≤ d.cur) → blockLoop dur cookie lf n d st ≠ .fuel
  | 0, d, st, _, hwf, hn, _ => by omega
  | n + 1, d, st, hL, hwf, hn, hinv => by
    obtain ⟨bf, bt, _, b2⟩ := nextBlock_spec d 0
    unfold blockLoop
    by_cases hb : (d.nextBlock 0).1 = true
    · have hlt := bt hb
      have hwf1 : (d.nextBlock 0).2.cur ≤ d.bound := bf.wf hwf
      have hb1 : (d.nextBlock 0).2.bound = d.bound := fwd_bound bf
      -- once a token that is not a brace is loaded, the cursor is two past the start
      have hcur : (d.nextBlock 0).2.val ≠ lbrace → c0 + 2 ≤ (d.nextBlock 0).2.cur := by
        intro hv
        rcases hinv with ⟨h0, hc⟩ | hc
        · have := b2 (by omega) hb hv; omega
        · omega
      simp only [hb, if_true]
      split
      · rename_i hval
        have hv : (d.nextBlock 0).2.val ≠ lbrace := by rw [hval]; decide
        have hc2 := hcur hv
        obtain ⟨a1, _⟩ := nextArg_spec (d.nextBlock 0).2
        obtain ⟨af, _⟩ := nextArg_fwd (d.nextBlock 0).2
        split
        · rename_i ha
          obtain ⟨g1, g2⟩ := a1 ha
          have hcur2 : (d.nextBlock 0).2.nextArg.2.cur = (d.nextBlock 0).2.cur + 1 := by rw [g1]
          split
          · simp
          · obtain ⟨sf, _, sl⟩ := nextSegment_spec (d.nextBlock 0).2.nextArg.2
            have hf3 : Fwd d (nextSegment (d.nextBlock 0).2.nextArg.2).2 := (bf.trans af).trans sf
            have hwf3 := hf3.wf hwf
            have hbL : d.bound = L := by
              unfold Disp.bound; rw [hL]
              have : (d.nextBlock 0).2.cur + 1 ≤ (d.nextBlock 0).2.bound := g2
              rw [hb1] at this; unfold Disp.bound at this; rw [hL] at this; omega
            have hseg : (nextSegment (d.nextBlock 0).2.nextArg.2).1.length + c0 ≤ L := by omega
            cases hr : lf (nextSegment (d.nextBlock 0).2.nextArg.2).1 with
            | ok p =>
              simp only
              apply blockLoop_fuel dur cookie lf c0 L hlf n
              · rw [hf3.toks, hL]
              · rw [fwd_bound hf3]; exact hwf3
              · rw [fwd_bound hf3]; have := sf.mono; omega
              · right; have := sf.mono; omega
            | err => simp
            | fuel => exact absurd hr (hlf _ hseg)
        · simp
      · split
        · rename_i hval
          have hv : (d.nextBlock 0).2.val ≠ lbrace := by rw [hval.2]; decide
          have hc2 := hcur hv
          obtain ⟨af, _⟩ := nextArg_fwd (d.nextBlock 0).2
          obtain ⟨af2, _⟩ := nextArg_fwd (d.nextBlock 0).2.nextArg.2
          have hf4 : Fwd d (d.nextBlock 0).2.nextArg.2.nextArg.2 := (bf.trans af).trans af2
          split
          · split
            · simp
            · split
              · simp
              · split
                · simp
                · split
                  · simp
                  · apply blockLoop_fuel dur cookie lf c0 L hlf n
                    · rw [hf4.toks, hL]
                    · rw [fwd_bound hf4]; exact hf4.wf hwf
                    · rw [fwd_bound hf4]; have := af.mono; have := af2.mono; omega
                    · right; have := af.mono; have := af2.mono; omega
          · simp
        · simp
    · simp [hb]

theorem lr_ok_ne_fuel {σ : Type} {v : σ} : (Lr.ok v : Lr σ) ≠ .fuel := by intro h; cases h

/-- a fresh dispenser, `Next()`, `NextArg()`: the cursor stands on the second token -/
theorem fresh_next_nextArg (seg : List Tok) (h : ((Disp.mk seg 0 0).next.2).nextArg.1 = true) :
    ((Disp.mk seg 0 0).next.2).nextArg.2.toks = seg ∧ ((Disp.mk seg 0 0).next.2).nextArg.2.nest = 0 ∧
    1 ≤ ((Disp.mk seg 0 0).next.2).nextArg.2.cur ∧
    ((Disp.mk seg 0 0).next.2).nextArg.2.cur ≤ ((Disp.mk seg 0 0).next.2).nextArg.2.bound := by
  obtain ⟨nf, nn⟩ := next_fwd (Disp.mk seg 0 0)
  obtain ⟨af, an⟩ := nextArg_fwd (Disp.mk seg 0 0).next.2
  obtain ⟨a1, _⟩ := nextArg_spec (Disp.mk seg 0 0).next.2
  obtain ⟨g1, g2⟩ := a1 h
  have hf := nf.trans af
  refine ⟨hf.toks, by rw [an, nn], ?_, ?_⟩
  · rw [g1]; simp
  · rw [fwd_bound hf]; exact hf.wf (by simp [Disp.bound])

/-- the nested `UnmarshalModule` calls do not run out of fuel: a segment shorter than the fuel -/
theorem parseSel_fuel (dur : Bytes → Option Int) : ∀ (fuel : Nat) (seg : List Tok), seg.length < fuel →
    parseSel dur fuel seg ≠ .fuel
  | 0, _, h => by omega
  | fuel + 1, seg, hlen => by
    -- the loader of fallbacks: segments at least one token shorter
    have hlf : ∀ (c0 : Nat), 1 ≤ c0 → ∀ s' : List Tok, s'.length + c0 ≤ seg.length → parseSel dur fuel s' ≠ .fuel :=
      fun c0 hc s' hs => parseSel_fuel dur fuel s' (by omega)
    unfold parseSel
    cases seg with
    | nil => simp
    | cons t0 rest =>
      simp only
      split
      · split <;> simp
      · split
        · split
          · simp
          · split <;> simp
        · split
          · split
            · split <;> simp
            · simp
          · split
            · split
              · rename_i ha
                obtain ⟨ht, hn, hc1, hwf⟩ := fresh_next_nextArg (t0 :: rest) ha
                have hb := blockLoop_fuel dur false (parseSel dur fuel)
                  ((Disp.mk (t0 :: rest) 0 0).next.2).nextArg.2.cur (t0 :: rest).length
                  (hlf _ hc1) ((t0 :: rest).length + 2) ((Disp.mk (t0 :: rest) 0 0).next.2).nextArg.2 ⟨none, 0⟩
                  (by rw [ht]) hwf (by unfold Disp.bound at *; rw [ht] at *; omega) (Or.inl ⟨hn, Nat.le_refl _⟩)
                split
                · split <;> simp
                · simp
                · rename_i hf; exact absurd hf hb
              · simp
            · split
              · -- cookie: `RemainingArgs()` on the fresh dispenser reads at least the policy name
                rename_i hck
                obtain ⟨rf, rn⟩ := remainingArgs_fwd ((t0 :: rest).length + 2) (Disp.mk (t0 :: rest) 0 0)
                have hc1 : 1 ≤ (remainingArgs ((t0 :: rest).length + 2) (Disp.mk (t0 :: rest) 0 0)).2.cur := by
                  have hstep : (Disp.mk (t0 :: rest) 0 0).nextArg = (true, ⟨t0 :: rest, 1, 0⟩) := by
                    have hv : t0.text ≠ lbrace := by rw [hck]; decide
                    simp [Disp.nextArg, Disp.nextOnSameLine, Disp.val, hv]
                  have hlen2 : (t0 :: rest).length + 2 = ((t0 :: rest).length + 1) + 1 := rfl
                  rw [hlen2]
                  unfold remainingArgs
                  rw [hstep]
                  simp only [if_true]
                  exact (remainingArgs_fwd ((t0 :: rest).length + 1) ⟨t0 :: rest, 1, 0⟩).1.mono
                have hwf : (remainingArgs ((t0 :: rest).length + 2) (Disp.mk (t0 :: rest) 0 0)).2.cur
                    ≤ (remainingArgs ((t0 :: rest).length + 2) (Disp.mk (t0 :: rest) 0 0)).2.bound := by
                  rw [fwd_bound rf]; exact rf.wf (by simp [Disp.bound])
                have hb := blockLoop_fuel dur true (parseSel dur fuel)
                  (remainingArgs ((t0 :: rest).length + 2) (Disp.mk (t0 :: rest) 0 0)).2.cur (t0 :: rest).length
                  (hlf _ hc1) ((t0 :: rest).length + 2) (remainingArgs ((t0 :: rest).length + 2) (Disp.mk (t0 :: rest) 0 0)).2
                  ⟨none, 0⟩ (by rw [rf.toks]) hwf
                  (by unfold Disp.bound at *; rw [rf.toks] at *; simp at *; omega) (Or.inl ⟨by rw [rn], Nat.le_refl _⟩)
                split
                · split
                  · simp
                  · simp
                  · rename_i hf; exact absurd hf hb
                · split
                  · simp
                  · simp
                  · rename_i hf; exact absurd hf hb
                · split
                  · simp
                  · simp
                  · rename_i hf; exact absurd hf hb
                · simp
              · simp

theorem nextSegment_length (d : Disp) (hwf : d.cur ≤ d.bound) :
    (nextSegment d).1.length + d.cur ≤ d.toks.length + 4 := by
  obtain ⟨sf, _, sl⟩ := nextSegment_spec d
  have := sf.wf hwf
  unfold Disp.bound at this
  omega

/-- **`lb_policy`: the model never runs out of fuel** -/
theorem parseLbPolicy_fuel (dur : Bytes → Option Int) (toks : List Tok) : parseLbPolicy dur toks ≠ .fuel := by
  unfold parseLbPolicy
  apply parseSel_fuel
  cases toks with
  | nil => decide
  | cons t rest =>
    have hd : (Disp.mk (t :: rest) 0 0).next.2 = ⟨t :: rest, 1, 0⟩ := by simp [Disp.next]
    rw [hd]
    have := nextSegment_length ⟨t :: rest, 1, 0⟩ (by simp [Disp.bound])
    simp at this ⊢
    omega

theorem rpStep_spec (dur : Bytes → Option Int) (addr : Bytes → Option (List Bytes)) (d : Disp) (st : RpCfg)
    (hwf : d.cur ≤ d.bound) :
    rpStep dur addr d st ≠ .fuel ∧ ∀ d' st', rpStep dur addr d st = .ok (d', st') → Fwd d d' := by
  obtain ⟨af, _⟩ := nextArg_fwd d
  obtain ⟨a1, _⟩ := nextArg_spec d
  obtain ⟨rf, _⟩ := remainingArgs_fwd (d.toks.length + 2) d
  -- the single-argument options
  have hone : ∀ (r : Lr (Disp × RpCfg)), (r = .err ∨ ∃ st', r = .ok (d.nextArg.2, st')) →
      r ≠ .fuel ∧ ∀ d' st', r = .ok (d', st') → Fwd d d' := by
    intro r hr
    rcases hr with h | ⟨st', h⟩
    · subst h; simp
    · subst h
      refine ⟨by simp, ?_⟩
      intro d' st'' h
      simp at h
      rw [← h.1]; exact af
  have hatoi : ∀ (f : Int → RpCfg),
      (if d.nextArg.1 = true then
        match C16.atoi d.nextArg.2.val with
        | some v => (Lr.ok (d.nextArg.2, f v) : Lr (Disp × RpCfg))
        | none => .err
      else .err) = .err ∨ ∃ st', (if d.nextArg.1 = true then
        match C16.atoi d.nextArg.2.val with
        | some v => (Lr.ok (d.nextArg.2, f v) : Lr (Disp × RpCfg))
        | none => .err
      else .err) = .ok (d.nextArg.2, st') := by
    intro f
    by_cases ha : d.nextArg.1 = true
    · cases hv : C16.atoi d.nextArg.2.val with
      | none => left; simp [ha]
      | some v => right; exact ⟨f v, by simp [ha]⟩
    · left; simp [ha]
  have hdur : ∀ (f : Int → RpCfg),
      (if d.nextArg.1 = true then
        match dur d.nextArg.2.val with
        | some v => (Lr.ok (d.nextArg.2, f v) : Lr (Disp × RpCfg))
        | none => .err
      else .err) = .err ∨ ∃ st', (if d.nextArg.1 = true then
        match dur d.nextArg.2.val with
        | some v => (Lr.ok (d.nextArg.2, f v) : Lr (Disp × RpCfg))
        | none => .err
      else .err) = .ok (d.nextArg.2, st') := by
    intro f
    by_cases ha : d.nextArg.1 = true
    · cases hv : dur d.nextArg.2.val with
      | none => left; simp [ha]
      | some v => right; exact ⟨f v, by simp [ha]⟩
    · left; simp [ha]
  unfold rpStep
  by_cases h1 : d.val = str "to"
  · rw [if_pos h1]
    split
    · simp
    · split
      · refine ⟨by simp, ?_⟩
        intro d' st' h
        simp at h
        rw [← h.1]; exact rf
      · simp
  rw [if_neg h1]
  by_cases h2 : d.val = str "lb_policy"
  · rw [if_pos h2]
    split
    · rename_i ha
      obtain ⟨g1, g2⟩ := a1 ha
      split
      · simp
      · obtain ⟨sf, _, _⟩ := nextSegment_spec d.nextArg.2
        have hlen := nextSegment_length d.nextArg.2 (by rw [fwd_bound af]; exact af.wf hwf)
        have hc : d.nextArg.2.cur = d.cur + 1 := by rw [g1]
        have ht : d.nextArg.2.toks = d.toks := af.toks
        have hne := parseSel_fuel dur (2 * d.toks.length + 4) (nextSegment d.nextArg.2).1 (by rw [ht] at hlen; omega)
        cases hr : parseSel dur (2 * d.toks.length + 4) (nextSegment d.nextArg.2).1 with
        | ok p =>
          refine ⟨by simp, ?_⟩
          intro d' st' h
          simp at h
          rw [← h.1]; exact af.trans sf
        | err => simp
        | fuel => exact absurd hr hne
    · simp
  rw [if_neg h2]
  by_cases h3 : d.val = str "lb_retries"
  · rw [if_pos h3]; exact hone _ (hatoi _)
  rw [if_neg h3]
  by_cases h4 : d.val = str "lb_try_duration"
  · rw [if_pos h4]; exact hone _ (hdur _)
  rw [if_neg h4]
  by_cases h5 : d.val = str "lb_try_interval"
  · rw [if_pos h5]; exact hone _ (hdur _)
  rw [if_neg h5]
  by_cases h6 : d.val = str "max_fails"
  · rw [if_pos h6]; exact hone _ (hatoi _)
  rw [if_neg h6]
  by_cases h7 : d.val = str "fail_duration"
  · rw [if_pos h7]; exact hone _ (hdur _)
  rw [if_neg h7]
  by_cases h8 : d.val = str "unhealthy_request_count"
  · rw [if_pos h8]; exact hone _ (hatoi _)
  rw [if_neg h8]
  exact hone _ (Or.inl rfl)

theorem rpLoop_fuel (dur : Bytes → Option Int) (addr : Bytes → Option (List Bytes)) : ∀ (n : Nat) (d : Disp) (st : RpCfg),
    d.cur ≤ d.bound → d.bound + 1 - d.cur ≤ n → rpLoop dur addr n d st ≠ .fuel
  | 0, d, st, hwf, hn => by omega
  | n + 1, d, st, hwf, hn => by
    obtain ⟨bf, bt, _, _⟩ := nextBlock_spec d 0
    unfold rpLoop
    by_cases hb : (d.nextBlock 0).1 = true
    · have hlt := bt hb
      have hwf1 : (d.nextBlock 0).2.cur ≤ (d.nextBlock 0).2.bound := by rw [fwd_bound bf]; exact bf.wf hwf
      obtain ⟨s1, s2⟩ := rpStep_spec dur addr (d.nextBlock 0).2 st hwf1
      simp only [hb, if_true]
      cases hr : rpStep dur addr (d.nextBlock 0).2 st with
      | ok v =>
        obtain ⟨d', st'⟩ := v
        have hf := bf.trans (s2 d' st' hr)
        simp only
        apply rpLoop_fuel dur addr n d' st'
        · rw [fwd_bound hf]; exact hf.wf hwf
        · rw [fwd_bound hf]; have := (s2 d' st' hr).mono; omega
      | err => simp
      | fuel => exact absurd hr s1
    · simp [hb]

/-- **the `reverse_proxy` directive: the model never runs out of fuel** -/
theorem parseReverseProxy_fuel (dur : Bytes → Option Int) (addr : Bytes → Option (List Bytes)) (toks : List Tok) :
    parseReverseProxy dur addr toks ≠ .fuel := by
  obtain ⟨nf, _⟩ := next_fwd (Disp.mk toks 0 0)
  obtain ⟨rf, _⟩ := remainingArgs_fwd (toks.length + 2) (Disp.mk toks 0 0).next.2
  have hf := nf.trans rf
  unfold parseReverseProxy
  split
  · apply rpLoop_fuel
    · rw [fwd_bound hf]; exact hf.wf (by simp [Disp.bound])
    · rw [fwd_bound hf]; simp [Disp.bound]; omega
  · simp

theorem parseSel_header_field (dur : Bytes → Option Int) (fuel l : Nat) (F : Bytes) (hF : F ≠ lbrace) :
    parseSel dur (fuel + 1) [⟨str "header", l⟩, ⟨F, l⟩] = .ok [.header F] := by
  have hk : simpleKind (str "header") = none := by decide
  have h1 : str "header" ≠ str "weighted_round_robin" := by decide
  have h2 : str "header" ≠ str "random_choose" := by decide
  have h3 : str "header" ≠ str "query" := by decide
  unfold parseSel
  simp only [hk, h1, h2, h3, if_false, false_or, if_true]
  have hd : ((Disp.mk [⟨str "header", l⟩, ⟨F, l⟩] 0 0).next.2).nextArg = (true, ⟨[⟨str "header", l⟩, ⟨F, l⟩], 2, 0⟩) := by
    simp [Disp.next, Disp.nextArg, Disp.nextOnSameLine, Disp.val, hF]
  rw [hd]
  simp only [if_true]
  have hb : (Disp.mk [⟨str "header", l⟩, ⟨F, l⟩] 2 0).nextBlock 0 = (false, ⟨[⟨str "header", l⟩, ⟨F, l⟩], 2, 0⟩) := by
    simp [Disp.nextBlock, Disp.nextOnSameLine]
  have : blockLoop dur false (parseSel dur fuel) ([(⟨str "header", l⟩ : Tok), ⟨F, l⟩].length + 2) ⟨[⟨str "header", l⟩, ⟨F, l⟩], 2, 0⟩ ⟨none, 0⟩
      = .ok ⟨none, 0⟩ := by
    show blockLoop dur false (parseSel dur fuel) (3 + 1) _ _ = _
    unfold blockLoop
    rw [hb]
    simp
  rw [this]
  simp [Disp.val]

theorem parseSel_simple_alone (dur : Bytes → Option Int) (fuel l k : Nat) (name : Bytes)
    (hk : simpleKind name = some k) : parseSel dur (fuel + 1) [⟨name, l⟩] = .ok [.simple k] := by
  unfold parseSel
  simp only [hk]
  have : ((Disp.mk [⟨name, l⟩] 0 0).next.2).nextArg.1 = false := by
    simp [Disp.next, Disp.nextArg, Disp.nextOnSameLine]
  simp [this]

theorem parseSel_simple_with_argument (dur : Bytes → Option Int) (fuel l k : Nat) (name a : Bytes)
    (hk : simpleKind name = some k) (ha : a ≠ lbrace) : parseSel dur (fuel + 1) [⟨name, l⟩, ⟨a, l⟩] = .err := by
  unfold parseSel
  simp only [hk]
  have : ((Disp.mk [⟨name, l⟩, ⟨a, l⟩] 0 0).next.2).nextArg.1 = true := by
    simp [Disp.next, Disp.nextArg, Disp.nextOnSameLine, Disp.val, ha]
  simp [this]

end CaddyModel.C08
