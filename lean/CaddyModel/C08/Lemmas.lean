/-
C08 — helper lemmas: loop invariants of the policy loops.
Convention: a loop over `rest` with index `pre.length` runs on the pool `pre ++ rest`.
-/
import CaddyModel.C08.Spec

namespace CaddyModel.C08

theorem availAt_mid (pre : Pool) (u : Up) (rest : Pool) (h : u.avail = true) :
    AvailAt (pre ++ u :: rest) pre.length := ⟨u, by simp, h⟩

theorem safe_none (pool : Pool) : Safe pool .none := by intro i h; cases h

theorem snoc_append (pre : Pool) (u : Up) (rest : Pool) : (pre ++ [u]) ++ rest = pre ++ u :: rest := by simp

theorem snoc_length (pre : Pool) (u : Up) : (pre ++ [u]).length = pre.length + 1 := by simp

/-! ### safety of every loop -/

theorem firstGo_safe : ∀ (rest pre : Pool), Safe (pre ++ rest) (firstGo rest pre.length)
  | [], pre => by intro i h; simp [firstGo] at h
  | u :: rest, pre => by
    unfold firstGo
    split
    · intro i h; cases h; exact availAt_mid pre u rest ‹_›
    · have := firstGo_safe rest (pre ++ [u])
      rwa [snoc_append, snoc_length] at this

theorem selFirst_safe (pool : Pool) : Safe pool (selFirst pool) := by
  have := firstGo_safe pool []
  simpa [selFirst] using this

theorem rrGo_safe (pool : Pool) : ∀ (fuel c : Nat), Safe pool (rrGo pool fuel c).1
  | 0, c => by simp [rrGo, safe_none]
  | fuel + 1, c => by
    unfold rrGo
    split
    · rename_i u hu
      split
      · intro i h; cases h; exact ⟨u, hu, ‹_›⟩
      · exact rrGo_safe pool fuel _
    · intro i h; cases h

theorem selRR_safe (pool : Pool) (c : Nat) : Safe pool (selRR pool c).1 := by
  unfold selRR
  split
  · exact safe_none pool
  · exact rrGo_safe pool _ _

theorem rndGo_safe : ∀ (rest pre : Pool) (best : Res) (count : Nat) (ds : List Nat),
    Safe (pre ++ rest) best → Safe (pre ++ rest) (rndGo rest pre.length best count ds).1
  | [], pre, best, count, ds, hb => by simpa [rndGo] using hb
  | u :: rest, pre, best, count, ds, hb => by
    unfold rndGo
    split
    · rename_i hu
      split
      · intro i h; cases h
      · rename_i d ds'
        split
        · have := rndGo_safe rest (pre ++ [u]) (.sel pre.length) (count + 1) ds'
          rw [snoc_append, snoc_length] at this
          exact this (by intro i h; cases h; exact availAt_mid pre u rest hu)
        · have := rndGo_safe rest (pre ++ [u]) best (count + 1) ds'
          rw [snoc_append, snoc_length] at this
          exact this hb
    · have := rndGo_safe rest (pre ++ [u]) best count ds
      rw [snoc_append, snoc_length] at this
      exact this hb

theorem selRandom_safe (pool : Pool) (ds : List Nat) : Safe pool (selRandom pool ds).1 := by
  have := rndGo_safe pool [] .none 0 ds
  simpa [selRandom] using this (safe_none _)

theorem lcGo_safe : ∀ (rest pre : Pool) (best : Res) (count : Nat) (least : Option Nat) (ds : List Nat),
    Safe (pre ++ rest) best → Safe (pre ++ rest) (lcGo rest pre.length best count least ds).1
  | [], pre, best, count, least, ds, hb => by simpa [lcGo] using hb
  | u :: rest, pre, best, count, least, ds, hb => by
    unfold lcGo
    split
    · rename_i hu
      have hnew : Safe (pre ++ u :: rest) (.sel pre.length) := by
        intro i h; cases h; exact availAt_mid pre u rest hu
      split
      · split
        · have := lcGo_safe rest (pre ++ [u]) (.sel pre.length) (lcCount u.load least count + 1) (lcLeast u.load least) ds
          rw [snoc_append, snoc_length] at this
          exact this hnew
        · split
          · intro i h; cases h
          · rename_i d ds'
            split
            · have := lcGo_safe rest (pre ++ [u]) (.sel pre.length) (lcCount u.load least count + 1) (lcLeast u.load least) ds'
              rw [snoc_append, snoc_length] at this
              exact this hnew
            · have := lcGo_safe rest (pre ++ [u]) best (lcCount u.load least count + 1) (lcLeast u.load least) ds'
              rw [snoc_append, snoc_length] at this
              exact this hb
      · have := lcGo_safe rest (pre ++ [u]) best (lcCount u.load least count) (lcLeast u.load least) ds
        rw [snoc_append, snoc_length] at this
        exact this hb
    · have := lcGo_safe rest (pre ++ [u]) best count least ds
      rw [snoc_append, snoc_length] at this
      exact this hb

theorem selLeastConn_safe (pool : Pool) (ds : List Nat) : Safe pool (selLeastConn pool ds).1 := by
  have := lcGo_safe pool [] .none 0 none ds
  simpa [selLeastConn] using this (safe_none _)

theorem hashGo_safe : ∀ (rest pre : Pool) (hi : Nat) (best : Res),
    Safe (pre ++ rest) best → Safe (pre ++ rest) (hashGo rest pre.length hi best)
  | [], pre, hi, best, hb => by simpa [hashGo] using hb
  | u :: rest, pre, hi, best, hb => by
    unfold hashGo
    split
    · rename_i hu
      have := hashGo_safe rest (pre ++ [u]) u.h (.sel pre.length)
      rw [snoc_append, snoc_length] at this
      apply this
      intro i h; cases h
      simp at hu
      exact availAt_mid pre u rest hu.1
    · have := hashGo_safe rest (pre ++ [u]) hi best
      rw [snoc_append, snoc_length] at this
      exact this hb

theorem selHash_safe (pool : Pool) : Safe pool (selHash pool) := by
  have := hashGo_safe pool [] 0 .none
  simpa [selHash] using this (safe_none _)

/-! ### weighted round robin: the candidates are available pool positions with a positive weight -/

/-- position `i` is available and carries a positive configured weight -/
def WAt (ws : List Nat) (pool : Pool) (i : Nat) : Prop := AvailAt pool i ∧ ∃ w, ws[i]? = some w ∧ 0 < w

theorem wrrCollect_sound (ws : List Nat) (cap : Nat) : ∀ (rest pre : Pool) (acc ups : List Nat),
    (∀ i ∈ acc, WAt ws (pre ++ rest) i) → wrrCollect ws cap rest pre.length acc = some ups →
    ∀ i ∈ ups, WAt ws (pre ++ rest) i
  | [], pre, acc, ups, hacc, h => by
    simp [wrrCollect] at h; subst h; exact hacc
  | u :: rest, pre, acc, ups, hacc, h => by
    unfold wrrCollect at h
    split at h
    · rename_i hu
      split at h
      · cases h
      · rename_i w hw
        have hnew : ∀ i ∈ acc ++ [pre.length], 0 < w → WAt ws (pre ++ u :: rest) i := by
          intro i hi hpos
          rcases List.mem_append.1 hi with hi | hi
          · exact hacc i hi
          · simp at hi; subst hi; exact ⟨availAt_mid pre u rest hu, w, hw, hpos⟩
        split at h
        · have := wrrCollect_sound ws cap rest (pre ++ [u]) acc ups
          rw [snoc_append, snoc_length] at this
          exact this hacc h
        · rename_i hw0
          split at h
          · cases h; intro i hi; exact hnew i hi (by omega)
          · have := wrrCollect_sound ws cap rest (pre ++ [u]) (acc ++ [pre.length]) ups
            rw [snoc_append, snoc_length] at this
            exact this (fun i hi => hnew i hi (by omega)) h
    · have := wrrCollect_sound ws cap rest (pre ++ [u]) acc ups
      rw [snoc_append, snoc_length] at this
      exact this hacc h

theorem wrrPick_mem {idx : Nat} {ups : List Nat} {i : Nat} (h : wrrPick idx ups = .sel i) : i ∈ ups := by
  unfold wrrPick at h
  split at h
  · cases h
  · split at h
    · rename_i j hj
      cases h
      exact List.mem_of_getElem? hj
    · cases h

theorem selWRR_sel {ws : List Nat} {pool : Pool} {c i : Nat} (h : (selWRR ws pool c).1 = .sel i) :
    AvailAt pool i ∧ (2 ≤ ws.length → ∃ w, ws[i]? = some w ∧ 0 < w) := by
  unfold selWRR at h
  split at h
  · cases h
  · split at h
    · exact ⟨selFirst_safe pool i h, fun h2 => by omega⟩
    · split at h
      · cases h
      · split at h
        · cases h
        · rename_i ups hups
          have := wrrCollect_sound ws _ pool [] [] ups (by simp) (by simp [hups])
          have := this i (wrrPick_mem h)
          simp at this
          exact ⟨this.1, fun _ => this.2⟩

theorem selWRR_safe (ws : List Nat) (pool : Pool) (c : Nat) : Safe pool (selWRR ws pool c).1 :=
  fun _ h => (selWRR_sel h).1

/-! ### math/rand -/

theorem intn_lt {n : Nat} (hn : 0 < n) : ∀ {ds : List Nat} {j : Nat} {ds' : List Nat},
    intn n ds = some (j, ds') → j < n
  | [], j, ds', h => by simp [intn] at h
  | r :: rest, j, ds', h => by
    unfold intn at h
    split at h
    · exact intn_lt hn h
    · simp at h; rw [← h.1]; exact Nat.mod_lt _ hn

/-! ### random_choose: the reservoir holds distinct available candidates -/

/-- a reservoir entry names an available pool position together with its load -/
def CandOK (pool : Pool) (c : Cand) : Prop := ∃ u, pool[c.1]? = some u ∧ u.avail = true ∧ u.load = c.2

structure RcInv (pool : Pool) (bound : Nat) (ch : List Cand) : Prop where
  ok : ∀ c ∈ ch, CandOK pool c ∧ c.1 < bound
  nodup : (ch.map Prod.fst).Nodup

theorem nodup_set {α : Type} : ∀ (l : List α) (j : Nat) (a : α), l.Nodup → a ∉ l → (l.set j a).Nodup
  | [], _, _, h, _ => by simpa using h
  | x :: xs, 0, a, h, ha => by
    simp only [List.set_cons_zero]
    rw [List.nodup_cons] at h ⊢
    exact ⟨fun hm => ha (List.mem_cons_of_mem _ hm), h.2⟩
  | x :: xs, j + 1, a, h, ha => by
    simp only [List.set_cons_succ]
    rw [List.nodup_cons] at h ⊢
    refine ⟨?_, nodup_set xs j a h.2 (fun hm => ha (List.mem_cons_of_mem _ hm))⟩
    intro hm
    rcases List.mem_or_eq_of_mem_set hm with hm | hm
    · exact h.1 hm
    · subst hm; exact ha (List.mem_cons_self ..)

theorem numAvail_snoc (pre : Pool) (u : Up) :
    numAvail (pre ++ [u]) = numAvail pre + (if u.avail then 1 else 0) := by
  unfold numAvail
  rw [List.filter_append]
  by_cases h : u.avail = true <;> simp [h]

theorem rcGo_inv (k : Nat) : ∀ (rest pre : Pool) (ch : List Cand) (seen : Nat) (ds : List Nat)
    (out : List Cand) (ds' : List Nat),
    RcInv (pre ++ rest) pre.length ch → ch.length = min k seen → seen = numAvail pre →
    rcGo k rest pre.length ch seen ds = some (out, ds') →
    RcInv (pre ++ rest) (pre ++ rest).length out ∧ out.length = min k (numAvail (pre ++ rest))
  | [], pre, ch, seen, ds, out, ds', hinv, hlen, hseen, h => by
    simp [rcGo] at h
    obtain ⟨h1, _⟩ := h
    subst h1
    simp only [List.append_nil] at hinv ⊢
    exact ⟨hinv, by rw [hlen, hseen]⟩
  | u :: rest, pre, ch, seen, ds, out, ds', hinv, hlen, hseen, h => by
    unfold rcGo at h
    have hlt : ∀ c ∈ ch, c.1 < pre.length := fun c hc => (hinv.ok c hc).2
    split at h
    · rename_i hu
      have hcand : CandOK (pre ++ u :: rest) (pre.length, u.load) := ⟨u, by simp, hu, rfl⟩
      have hfresh : pre.length ∉ ch.map Prod.fst := by
        intro hm
        obtain ⟨c, hc, hce⟩ := List.mem_map.1 hm
        have := hlt c hc
        omega
      have hseen' : seen + 1 = numAvail (pre ++ [u]) := by rw [numAvail_snoc, hseen]; simp [hu]
      split at h
      · rename_i hk
        have := rcGo_inv k rest (pre ++ [u]) (ch ++ [(pre.length, u.load)]) (seen + 1) ds out ds'
        rw [snoc_append, snoc_length] at this
        refine this ⟨?_, ?_⟩ ?_ hseen' h
        · intro c hc
          rcases List.mem_append.1 hc with hc | hc
          · exact ⟨(hinv.ok c hc).1, by have := hlt c hc; omega⟩
          · simp at hc; subst hc; exact ⟨hcand, by simp⟩
        · rw [List.map_append, List.nodup_append]
          refine ⟨hinv.nodup, by simp, ?_⟩
          intro a ha b hb
          simp at hb
          subst hb
          intro hab; subst hab; exact hfresh ha
        · simp; omega
      · rename_i hk
        split at h
        · cases h
        · rename_i j ds'' hj
          split at h
          · rename_i hjk
            have := rcGo_inv k rest (pre ++ [u]) (ch.set j (pre.length, u.load)) (seen + 1) ds'' out ds'
            rw [snoc_append, snoc_length] at this
            refine this ⟨?_, ?_⟩ ?_ hseen' h
            · intro c hc
              rcases List.mem_or_eq_of_mem_set hc with hc | hc
              · exact ⟨(hinv.ok c hc).1, by have := hlt c hc; omega⟩
              · subst hc; exact ⟨hcand, by simp⟩
            · rw [List.map_set]
              exact nodup_set _ _ _ hinv.nodup hfresh
            · simp; omega
          · have := rcGo_inv k rest (pre ++ [u]) ch (seen + 1) ds'' out ds'
            rw [snoc_append, snoc_length] at this
            refine this ⟨?_, hinv.nodup⟩ ?_ hseen' h
            · intro c hc
              exact ⟨(hinv.ok c hc).1, by have := hlt c hc; omega⟩
            · omega
    · rename_i hu
      have := rcGo_inv k rest (pre ++ [u]) ch seen ds out ds'
      rw [snoc_append, snoc_length] at this
      refine this ⟨?_, hinv.nodup⟩ hlen ?_ h
      · intro c hc
        exact ⟨(hinv.ok c hc).1, by have := hlt c hc; omega⟩
      · rw [numAvail_snoc, hseen]; simp [hu]

end CaddyModel.C08
