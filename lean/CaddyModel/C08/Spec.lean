/-
C08 — the small abstract vocabulary the property talks about: which pool positions are
available, loads, the upstream a rendezvous hash should pick, the share of the weighted
round-robin cycle an upstream owns.
-/
import CaddyModel.C08.Model

namespace CaddyModel.C08

/-- position `i` of the pool holds an available upstream -/
def AvailAt (pool : Pool) (i : Nat) : Prop := ∃ u, pool[i]? = some u ∧ u.avail = true

/-- Bool version of `AvailAt` -/
def availB (pool : Pool) (i : Nat) : Bool :=
  match pool[i]? with
  | some u => u.avail
  | none => false

def anyAvail (pool : Pool) : Bool := pool.any Up.avail

/-- number of available upstreams -/
def numAvail (pool : Pool) : Nat := (pool.filter Up.avail).length

/-- a `Select` result is *safe* for a pool: if it names an upstream, that upstream is in the
    pool and available -/
def Safe (pool : Pool) (r : Res) : Prop := ∀ i, r = .sel i → AvailAt pool i

def Res.isPanic : Res → Bool
  | .panicIdx => true
  | .panicNil => true
  | _ => false

/-- rendezvous (highest random weight) choice, on upstream records: the first available
    upstream whose hash is maximal, provided that hash is not 0 -/
def hrw : Pool → Nat → Option Up → Option Up
  | [], _, best => best
  | u :: rest, hi, best => if u.avail && decide (hi < u.h) then hrw rest u.h (some u) else hrw rest hi best

def hashPick (pool : Pool) : Option Up := hrw pool 0 none

/-- start of upstream `i`'s interval in the weighted round-robin cycle `[0, ws.sum)` -/
def wOffset (ws : List Nat) (i : Nat) : Nat := (ws.take i).sum

/-- conditions under which a policy term is claimed to return an upstream whenever one is
    available. Round robin: its uint32 counter does not wrap during the call. Hash policies:
    some available upstream has a non-zero hash (the code treats hash 0 as "nothing found").
    Weighted round robin (two or more weights): some upstream is available and has a positive
    weight of its own — weight 0, or no weight at all, disables an upstream. -/
def liveOK (pool : Pool) : Policy → Bool
  | .first => true
  | .rr c => decide (c + pool.length < u32)
  | .wrr ws _ => decide (ws.length < 2) || (List.range (wrrEff ws pool).length).any (wrrUsable (wrrEff ws pool) pool)
  | .leastConn => true
  | .random => true
  | .randomChoose k => decide (1 ≤ k)
  | .hash => pool.any (fun u => u.avail && decide (0 < u.h))
  | .keyed true _ => pool.any (fun u => u.avail && decide (0 < u.h))
  | .keyed false fb => liveOK pool fb
  | .cookie _ fb => liveOK pool fb

/-- `Select` was handed a ResponseWriter, or the request reaches no cookie policy (a cookie
    policy writes its cookie to the ResponseWriter; the proxy handler always supplies one) -/
def nilSafe : Bool → Policy → Bool
  | _, .keyed true _ => true
  | w, .keyed false fb => nilSafe w fb
  | w, .cookie _ fb => w && nilSafe w fb
  | _, _ => true

/-- what `passes` / `fails` are documented to mean: the number of *consecutive* passes before an
    unhealthy backend is healthy again, of *consecutive* failures before a healthy one is unhealthy.
    `run` = length of the current run of equal results -/
structure AhSpec where
  healthy : Bool
  lastOk : Bool
  run : Nat
deriving DecidableEq, Repr

def ahSpecStep (p f : Nat) (s : AhSpec) (ok : Bool) : AhSpec :=
  if ok then
    if p ≤ (if s.lastOk then s.run else 0) + 1 then ⟨true, true, (if s.lastOk then s.run else 0) + 1⟩
    else ⟨s.healthy, true, (if s.lastOk then s.run else 0) + 1⟩
  else
    if f ≤ (if s.lastOk then 0 else s.run) + 1 then ⟨false, false, (if s.lastOk then 0 else s.run) + 1⟩
    else ⟨s.healthy, false, (if s.lastOk then 0 else s.run) + 1⟩

def ahSpecRun (p f : Nat) : AhSpec → List Bool → List Bool
  | _, [] => []
  | s, r :: rs => (ahSpecStep p f s r).healthy :: ahSpecRun p f (ahSpecStep p f s r) rs

end CaddyModel.C08
