import CaddyModel.Util.DrvMain
import CaddyModel.C08.Driver

def main (args : List String) : IO Unit :=
  CaddyModel.drvMain "C08" CaddyModel.C08.handle CaddyModel.C08.witnessLines args
