/-
C01 — the abstract account: the server is described by ONE value, the configuration that is
running (or none). An attempt that is accepted replaces it, an attempt that is rejected does
not touch it; what a client observes is a function of it.
-/
import CaddyModel.C01.Model

namespace CaddyModel.C01
open CaddyModel.Lifecycle

namespace Spec

/-- (address, tag) pairs a running configuration answers on -/
def appAnswers (a : App) : List (Nat × Nat) := a.listen.map fun ad => (ad, a.tag)

def cfgAnswers : Option Cfg → List (Nat × Nat)
  | none => []
  | some c => c.apps.flatMap appAnswers

/-- who must be reachable on which SOCKET (a TCP address, or the unix socket file whatever
    permission-bit spelling the configuration used for it: `sockId`) -/
def cfgReach (r : Option Cfg) : List (Nat × Nat) := (cfgAnswers r).map fun p => (sockId p.1, p.2)

/-- the permission bits a unix listen token asks for (listen() defaults to 0200) -/
def tokenMode (t : Nat) : Nat := if t = 9 then 0o600 else if t = 10 then 0o660 else 0o200

/-- the configuration an operation tries to install, given the one that is running -/
def attempted (running : Option Cfg) : Op → Option Cfg
  | .load c _ => some c
  | .patch a _ =>
    match running with
    | none => none
    | some c => (replaceApp a c.apps).map fun apps => { c with apps := apps }
  | .del n _ =>
    match running with
    | none => none
    | some c => (removeApp n c.apps).map fun apps => { c with apps := apps }
  | _ => none

/-- all-or-nothing: an accepted load / change installs what it attempted, a rejected one (and a
    validation, and a malformed request) changes nothing, Stop leaves nothing running -/
def step (running : Option Cfg) (op : Op) (accepted : Bool) : Option Cfg :=
  match op with
  | .stop => none
  | .validate _ _ => running
  | .junk => running
  | _ => if accepted then attempted running op else running

/-- does the operation try to install a configuration? (load, PATCH app, DELETE app) -/
def installs : Op → Bool
  | .load _ _ => true
  | .patch _ _ => true
  | .del _ _ => true
  | _ => false

/-- the process default logger, as a client may rely on it: it belongs to the operation that
    installed the last accepted configuration (`n` = number of the operation, owner = n + 1; 0 =
    the logger from before the history). "Unchanged", rejected attempts, malformed requests, dry
    runs and Stop do not move it. -/
def logger (d n : Nat) (op : Op) (r : Res) : Nat :=
  if installs op = true ∧ r = .ok then n + 1 else d

/-- … over a history of (operation, answer) pairs, numbered from `n` -/
def loggerAfter : Nat → Nat → List (Op × Res) → Nat
  | d, _, [] => d
  | d, n, (op, r) :: rest => loggerAfter (logger d n op r) (n + 1) rest

/-- the storage a configuration asks for (0 = caddy's DefaultStorage) -/
def storKey : Option Cfg → Nat
  | none => 0
  | some c => c.stor.key

/-- did the request get as far as run()? Every dry run does; a load / PATCH / DELETE does when
    there is something to apply it to, the document is well-formed at the top level and it is not
    accepted (accepted ones are `ok`, which installs, or "unchanged", which runs nothing) -/
def reachedRun (running : Option Cfg) (op : Op) (r : Res) : Bool :=
  match op with
  | .validate _ _ => true
  | _ =>
    match attempted running op with
    | some c => installs op && !r.accepted && c.top != 1 && c.top != 2
    | none => false

/-- the process-wide default storage (certmagic.Default.Storage), as a client may rely on it:
    an installed configuration's own storage; after a request that reached run() without being
    accepted (and after every dry run) the storage of the configuration that is running (caddy's
    DefaultStorage if none is); untouched by everything else (unchanged, malformed, Stop) -/
def storage (d : Nat) (running : Option Cfg) (op : Op) (r : Res) : Nat :=
  if installs op = true ∧ r = .ok then storKey (attempted running op)
  else if reachedRun running op r = true then storKey running
  else d

/-- … over a history of (operation, answer) pairs -/
def storageAfter : Nat → Option Cfg → List (Op × Res) → Nat
  | d, _, [] => d
  | d, running, (op, r) :: rest => storageAfter (storage d running op r) (step running op r.accepted) rest

end Spec

/-- model and spec side by side over a history; the spec is told only whether each attempt was
    accepted -/
def runBoth : State → Option Cfg → List Op → State × Option Cfg
  | s, r, [] => (s, r)
  | s, r, o :: os => runBoth (step s o).1 (Spec.step r o (step s o).2.accepted) os

end CaddyModel.C01
