import CaddyModel.C01.Props
import CaddyModel.C01.ListenProtocols
open CaddyModel.C01
#print axioms rejected_changes_nothing
#print axioms load_atomic
#print axioms accepted_installs
#print axioms unchanged_is_noop
#print axioms accepted_is_ok_or_same
#print axioms rejected_leaves_no_module
#print axioms reachable_invariants
#print axioms accepted_sets_default_storage
#print axioms default_storage_untouched_before_run
#print axioms default_storage_after_rejected
#print axioms default_storage_after_validate
#print axioms accepted_sets_default_logger
#print axioms default_logger_untouched_before_run
#print axioms default_logger_after_rejected
#print axioms default_logger_after_validate
#print axioms step_default_logger
#print axioms history_default_logger
#print axioms step_default_storage
#print axioms history_default_storage
#print axioms sockId_ignores_permission_bits
#print axioms rejected_keeps_every_socket_reachable
#print axioms history_reachable
#print axioms history_atomic
#print axioms step_atomic
#print axioms stop_leaves_nothing
#print axioms load_atomic_old_code_fails
#print axioms default_storage_old_code_fails
#print axioms default_logger_old_code_fails
#print axioms provision_rollback_sees_every_error
#print axioms CaddyModel.C01.LP.check_binds_serves
#print axioms CaddyModel.C01.LP.bound_is_served_or_closed
#print axioms CaddyModel.C01.LP.server_level_check_leaks
