import CaddyModel.C01.Props
open CaddyModel.C01
#print axioms rejected_changes_nothing
#print axioms old_sockets_untouched
#print axioms load_atomic_partial
#print axioms accepted_installs
#print axioms unchanged_is_noop
#print axioms accepted_is_ok_or_same
#print axioms rejected_leaves_no_module
#print axioms reachable_invariants
#print axioms history_atomic_partial
#print axioms step_atomic_partial
#print axioms stop_leaves_nothing
#print axioms load_atomic_full_fails
#print axioms load_atomic_witness_detail
#print axioms history_atomic_full_fails
