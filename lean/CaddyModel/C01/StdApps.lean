/-
C01 / C03 — the standard apps on the load path: the events app (subscriptions of a handler to the
core's "started" / "stopping" events), the tls app (certificates it loads into the PROCESS-WIDE
certificate cache in Provision; what its Cleanup takes out again) next to a probe app, through
caddy.Load / caddy.Validate / caddy.Stop with one fault. Code modelled:

  caddy.go    run: provision → start loop → emitEvent("started") → finishSettingUp, every failure
              exit cancels the new context (Cleanup of every module of it); unsyncedDecodeAndRun:
              swap, then unsyncedStop(old) = emitEvent("stopping"), Stop, cancel; Validate;
              Stop: unsyncedStop(current) BEFORE currentCtx is emptied
  context.go  emitEvent goes to the events app of the context's OWN configuration; a module whose
              Provision fails gets Cleanup on the spot and is not remembered
  caddyevents App.Start binds the subscriptions, Emit calls the handlers bound to the event's name
  caddytls    TLS.Provision: CacheUnmanagedTLSCertificate of every loaded certificate, hash kept in
              t.loaded; TLS.Cleanup: if caddy.ActiveContext() has a tls app, remove from the cache
              what this app loaded and that one did not; otherwise drop the whole cache.
              During caddy.Stop() the active context is still the one being stopped, so Cleanup
              found ITSELF as the "next" tls app and removed nothing — repaired by /repo 985d095
              (`nextTLS.(*TLS) != t`): `step` uses `stopW`; the old behaviour is kept as `stop` /
              `stepOld` / `runOld` for the `…_old_code_fails` witnesses.

Protocol:  E <step> <step> …   step = S | L<ev><fault>=<tls> | V<ev><fault>=<tls>   (see
harness/internal/lifecycle/stdapps.go). A certificate is identified with its subject (0‥3).
-/
namespace CaddyModel.C01.Std

structure SCfg where
  ev : Nat                  -- bit 1: subscribed to "started", bit 2: to "stopping"; 0: no events app configured
  fault : Nat               -- 0 none, 1 events app, 2 event handler, 3 probe app provision, 4 tls Start,
                            -- 5 probe app Start, 6 post-start, 7 tls Provision after caching
  tls : Option (List Nat)   -- the certificates the tls app loads (none: no tls app)
deriving DecidableEq, Repr

inductive Step where
  | load (c : SCfg)
  | validate (c : SCfg)
  | stop
deriving DecidableEq, Repr

inductive Res where
  | ok | errProvision | errStart | errPost
deriving DecidableEq, Repr

/-- what the probes see: deliveries to the event handler of configuration `cid`, and its
    Provision / Cleanup calls -/
inductive Out where
  | started (cid : Nat)
  | stopping (cid : Nat)
  | hprov (cid : Nat)
  | hclean (cid : Nat)
deriving DecidableEq, Repr

structure St where
  running : Option (Nat × SCfg)   -- context number and configuration of what runs
  cache : List Nat                -- the process-wide certificate cache
deriving DecidableEq, Repr

def St.init : St := ⟨none, []⟩

def subStarted (c : SCfg) : Bool := c.ev % 2 == 1
def subStopping (c : SCfg) : Bool := c.ev / 2 % 2 == 1
def hasHandler (c : SCfg) : Bool := c.ev != 0

def certsOf (c : SCfg) : List Nat := match c.tls with | some l => l | none => []

/-- the certificates of the tls app of the ACTIVE context (none: no active context, or no tls app in it) -/
def activeCerts (a : Option (Nat × SCfg)) : Option (List Nat) :=
  match a with
  | some (_, c) => c.tls
  | none => none

/-- tls.Provision: every loaded certificate goes into the cache (a set, keyed by hash) -/
def cacheAdd (cache certs : List Nat) : List Nat := cache ++ certs.filter (fun x => !cache.contains x)

/-- tls.Cleanup of an app that loaded `loaded`, with `active` what caddy.ActiveContext() is -/
def tlsCleanup (loaded : List Nat) (active : Option (Nat × SCfg)) (cache : List Nat) : List Nat :=
  match activeCerts active with
  | some rc => cache.filter (fun x => !(loaded.contains x && !rc.contains x))
  | none => []

/-- Cleanup of the tls app of configuration `c` (nothing if it has none) -/
def cleanupTls (c : SCfg) (active : Option (Nat × SCfg)) (cache : List Nat) : List Nat :=
  match c.tls with
  | some l => tlsCleanup l active cache
  | none => cache

def resOf (f : Nat) : Res :=
  if f = 0 then .ok else if f = 4 ∨ f = 5 then .errStart else if f = 6 then .errPost else .errProvision

def optOut (b : Bool) (o : Out) : List Out := if b then [o] else []

/-- the end of a configuration that had all its apps started: unsyncedStop -/
def endOuts (cid : Nat) (c : SCfg) : List Out :=
  optOut (subStopping c) (.stopping cid) ++ optOut (hasHandler c) (.hclean cid)

/-- provisioning of configuration `c` as context `cid`: the handler is provisioned, the tls app
    caches its certificates (both exist before any of the modelled faults strikes) -/
def provOuts (cid : Nat) (c : SCfg) : List Out := optOut (hasHandler c) (.hprov cid)

/-- caddy.Load of `c` as context number `cid` -/
def load (s : St) (cid : Nat) (c : SCfg) : St × Res × List Out :=
  if c.fault = 0 then
    -- accepted: "started", swap, then the old configuration ends with the NEW one active
    (⟨some (cid, c),
      match s.running with
      | some (_, o) => cleanupTls o (some (cid, c)) (cacheAdd s.cache (certsOf c))
      | none => cacheAdd s.cache (certsOf c)⟩,
     .ok,
     provOuts cid c ++ optOut (subStarted c) (.started cid) ++
      (match s.running with | some (j, o) => endOuts j o | none => []))
  else if c.fault = 6 then
    -- all apps started, "started" emitted, then finishSettingUp fails: unsyncedStop of the new one
    (⟨s.running, cleanupTls c s.running (cacheAdd s.cache (certsOf c))⟩, .errPost,
     provOuts cid c ++ optOut (subStarted c) (.started cid) ++ endOuts cid c)
  else
    -- rejected during provisioning or in the start loop: cancel, no event
    (⟨s.running, cleanupTls c s.running (cacheAdd s.cache (certsOf c))⟩, resOf c.fault,
     provOuts cid c ++ optOut (hasHandler c) (.hclean cid))

/-- caddy.Validate: provision, then cancel -/
def validate (s : St) (cid : Nat) (c : SCfg) : St × Res × List Out :=
  (⟨s.running, cleanupTls c s.running (cacheAdd s.cache (certsOf c))⟩, resOf c.fault,
   provOuts cid c ++ optOut (hasHandler c) (.hclean cid))

/-- caddy.Stop as it was BEFORE /repo 985d095: unsyncedStop runs while the stopping configuration is
    still the active context, and its tls app's Cleanup compared with itself -/
def stop (s : St) : St × Res × List Out :=
  match s.running with
  | some (j, o) => (⟨none, cleanupTls o (some (j, o)) s.cache⟩, .ok, endOuts j o)
  | none => (s, .ok, [])

/-- caddy.Stop as it is (since 985d095): the tls app being stopped has no successor — TLS.Cleanup
    treats "the active tls app is me" as "no tls app follows" -/
def stopW (s : St) : St × Res × List Out :=
  match s.running with
  | some (j, o) => (⟨none, cleanupTls o none s.cache⟩, .ok, endOuts j o)
  | none => (s, .ok, [])

/-- one operation, as the code is since /repo 985d095 (TLS.Cleanup no longer takes itself for its successor) -/
def step (s : St) (cid : Nat) : Step → St × Res × List Out
  | .load c => load s cid c
  | .validate c => validate s cid c
  | .stop => stopW s

/-- one operation with caddy.Stop as it was BEFORE 985d095 (kept for the `…_old_code_fails` witnesses) -/
def stepOld (s : St) (cid : Nat) : Step → St × Res × List Out
  | .load c => load s cid c
  | .validate c => validate s cid c
  | .stop => stop s

/-- a history from state `s`, the first step being context number `cid` -/
def trace (s : St) (cid : Nat) : List Step → List (St × Res × List Out)
  | [] => []
  | x :: xs => step s cid x :: trace (step s cid x).1 (cid + 1) xs

def run (s : St) (cid : Nat) : List Step → St
  | [] => s
  | x :: xs => run (step s cid x).1 (cid + 1) xs

def runOld (s : St) (cid : Nat) : List Step → St
  | [] => s
  | x :: xs => runOld (stepOld s cid x).1 (cid + 1) xs

/-! ## protocol -/

def natList (s : String) : Option (List Nat) :=
  if s == "-" then some [] else (s.splitOn ".").mapM fun p =>
    match p.toNat? with
    | some n => if toString n == p then some n else none
    | none => none

def strictlyInc : List Nat → Bool
  | a :: b :: rest => a < b && strictlyInc (b :: rest)
  | _ => true

def cfgOk (c : SCfg) (isValidate : Bool) : Bool :=
  c.ev ≤ 3 && c.fault ≤ 7 &&
  !(c.fault == 2 && c.ev == 0) &&
  !((c.fault == 1 || c.fault == 2) && c.tls.isSome) &&
  !((c.fault == 4 || c.fault == 7) && c.tls.isNone) &&
  !(isValidate && (c.fault == 4 || c.fault == 5 || c.fault == 6)) &&
  (match c.tls with | some l => strictlyInc l && l.all (· < 4) | none => true)

def digit (c : Char) : Option Nat := if c.isDigit then some (c.toNat - '0'.toNat) else none

def parseStep (f : String) : Option Step :=
  if f == "S" then some .stop else
  match f.splitOn "=" with
  | [h, t] =>
    match h.toList with
    | [k, e, fl] => do
      let e ← digit e
      let fl ← digit fl
      let tls ← if t == "x" then some none else (natList t).map some
      if k == 'L' then (if cfgOk ⟨e, fl, tls⟩ false then some (.load ⟨e, fl, tls⟩) else none)
      else if k == 'V' then (if cfgOk ⟨e, fl, tls⟩ true then some (.validate ⟨e, fl, tls⟩) else none)
      else none
    | _ => none
  | _ => none

def showRes : Res → String
  | .ok => "ok" | .errProvision => "err:provision" | .errStart => "err:start" | .errPost => "err:post"

def showDeliv : Out → Option String
  | .started c => some s!"a{c}" | .stopping c => some s!"z{c}" | _ => none

def showHand : Out → Option String
  | .hprov c => some s!"hp{c}" | .hclean c => some s!"hc{c}" | _ => none

def insertStr (x : String) : List String → List String
  | [] => [x]
  | y :: ys => if x < y then x :: y :: ys else y :: insertStr x ys

def dashJoin (l : List String) : String := if l.isEmpty then "-" else ",".intercalate l

def showCache (cache : List Nat) : String :=
  let l := (List.range 4).filter (cache.contains ·)
  if l.isEmpty then "-" else ".".intercalate (l.map toString)

def showStep (p : St × Res × List Out) : String :=
  showRes p.2.1 ++ "|" ++ dashJoin (p.2.2.filterMap showDeliv) ++ "|" ++
    dashJoin ((p.2.2.filterMap showHand).foldr insertStr []) ++ "|" ++ showCache p.1.cache

def handle (fs : List String) : String :=
  match fs with
  | "E" :: rest =>
    if rest.isEmpty ∨ rest.length > 12 then "bad-op" else
    match rest.mapM parseStep with
    | some steps => " ".intercalate ((trace St.init 0 steps).map showStep)
    | none => "bad-op"
  | _ => "bad-op"

end CaddyModel.C01.Std
