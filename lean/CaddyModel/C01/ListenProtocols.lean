/-
C01 — the HTTP app's per-listener protocols (`listen_protocols`), the glue between Provision and
start() in modules/caddyhttp/app.go.

start() BINDS a listener when  h1 ∨ (h2 ∧ tls) ∨ h2c  holds for the listener's protocol list, but
hands it to http.Server.Serve only when  h1  holds; abortStart and Stop release exactly the
listeners that were passed to Serve (http.Server.Shutdown / Close). A listener that is bound and not
served is therefore never closed — on any exit path. What makes that impossible is Provision: it
checks EVERY LISTENER's own list (`lnCheck`) and refuses "h2 or h2c without h1". Checking the
server-level list once per listener instead (seeded mutant C01-h1less-listener-bound-never-served:
the listener-local flags were dropped, the names now read the server's) lets such a listener
through.

In the shared model (Lifecycle.lean) this is: an HTTP app with fault 7 — first `listen_protocols`
entry `["h2c"]` — is refused in loadApp before anything of it exists, so `bindAll` / `closeApp`
(bind every listener of the list, close every socket of the app) is exact.
-/
import CaddyModel.C01.Props

namespace CaddyModel.C01.LP

/-- a protocol list, as the three flags app.go derives from it -/
structure Flags where
  h1 : Bool
  h2 : Bool
  h2c : Bool
deriving DecidableEq, Repr

/-- Provision's check of ONE protocol list: no HTTP/2 (h2 or h2c) without HTTP/1.1 -/
def check (f : Flags) : Bool := f.h1 || !(f.h2 || f.h2c)

/-- a listener: its effective protocol list and whether TLS is used on it -/
structure Ln where
  flags : Flags
  tls : Bool
deriving DecidableEq, Repr

/-- App.Provision, the part about protocols: the server's list, then every listener's own list -/
def provision (srv : Flags) (lns : List Ln) : Bool := check srv && lns.all (fun l => check l.flags)

/-- the same with the per-listener check reading the SERVER's flags (the seeded mutant) -/
def provisionServerFlags (srv : Flags) (lns : List Ln) : Bool := check srv && lns.all (fun _ => check srv)

/-- start(): the condition that guards Listen … -/
def binds (l : Ln) : Bool := l.flags.h1 || (l.flags.h2 && l.tls) || l.flags.h2c
/-- … and the one that guards Serve -/
def serves (l : Ln) : Bool := l.flags.h1

/-- what a run of start() over the listeners leaves: `bound` and `served`, stopping at the first
    listener that cannot be bound (`fails`); the result says whether start() succeeded -/
def start (fails : Ln → Bool) : List Ln → List Ln × List Ln × Bool
  | [] => ([], [], true)
  | l :: rest =>
    if binds l then
      if fails l then ([], [], false)
      else
        let r := start fails rest
        (l :: r.1, (if serves l then l :: r.2.1 else r.2.1), r.2.2)
    else start fails rest

/-- abortStart / Stop: the listeners passed to Serve are closed; what stays bound -/
def leftBound (bound served : List Ln) : List Ln := bound.filter (fun l => !served.contains l)

/-- the call-site contract: given Provision's per-listener check, the guard of Listen implies the
    guard of Serve -/
theorem check_binds_serves (l : Ln) (h : check l.flags = true) (hb : binds l = true) : serves l = true := by
  cases l with
  | mk f t => cases f with
    | mk a b c => cases a <;> cases b <;> cases c <;> cases t <;> simp_all [check, binds, serves]

/-- every listener start() binds it also serves, whenever Provision accepted the lists -/
theorem start_bound_eq_served (fails : Ln → Bool) :
    ∀ (lns : List Ln), lns.all (fun l => check l.flags) = true →
      (start fails lns).1 = (start fails lns).2.1
  | [], _ => rfl
  | l :: rest, h => by
    simp only [List.all_cons, Bool.and_eq_true] at h
    have ih := start_bound_eq_served fails rest h.2
    unfold start
    by_cases hb : binds l = true
    · have hs := check_binds_serves l h.1 hb
      simp only [hb, if_true]
      by_cases hf : fails l = true
      · simp [hf]
      · simp [hf, hs, ih]
    · simp only [hb]
      exact ih

/-- **bound_is_served_or_closed** (full strength): whatever Provision accepts — for every server
    list, every list of listeners, every position at which a bind fails — after start() (successful
    or aborted) followed by the release of the served listeners (abortStart / Stop) NO listener is
    left bound: bound ⊆ served ∪ closed on every exit path. -/
theorem bound_is_served_or_closed (srv : Flags) (lns : List Ln) (fails : Ln → Bool)
    (hp : provision srv lns = true) :
    leftBound (start fails lns).1 (start fails lns).2.1 = [] := by
  unfold provision at hp
  simp only [Bool.and_eq_true] at hp
  rw [start_bound_eq_served fails lns hp.2]
  unfold leftBound
  rw [List.filter_eq_nil_iff]
  intro l hl
  simp [hl]

/-- the negation for the check that reads the server's flags: server `["h1"]`, first listener
    `["h2c"]`, second listener cannot be bound — Provision lets it through, start() binds the first
    listener, never serves it, aborts, and it stays bound; the per-listener check refuses it -/
theorem server_level_check_leaks :
    let srv : Flags := ⟨true, false, false⟩
    let a : Ln := ⟨⟨false, false, true⟩, false⟩
    let b : Ln := ⟨⟨true, false, false⟩, false⟩
    provisionServerFlags srv [a, b] = true ∧ provision srv [a, b] = false ∧
    (start (fun l => l == b) [a, b]).2.2 = false ∧
    leftBound (start (fun l => l == b) [a, b]).1 (start (fun l => l == b) [a, b]).2.1 = [a] ∧
    -- (and when every bind succeeds the config is accepted, and Stop leaves the same socket behind)
    (start (fun _ => false) [a, b]).2.2 = true ∧
    leftBound (start (fun _ => false) [a, b]).1 (start (fun _ => false) [a, b]).2.1 = [a] := by decide

-- non-vacuity: lists Provision accepts, with a bind that fails in the middle
example : provision ⟨true, true, false⟩ [⟨⟨true, false, true⟩, false⟩, ⟨⟨true, true, false⟩, true⟩] = true ∧
    (start (fun l => l.tls) [⟨⟨true, false, true⟩, false⟩, ⟨⟨true, true, false⟩, true⟩]).2.2 = false := by decide

end CaddyModel.C01.LP
