/-
C01 — regenerated tie (tools/extract → Gen/ProvisionErr.lean, rebuilt from /repo on every run).
`provisionContext` undoes its own work in a deferred closure that runs only when the FUNCTION-LEVEL
variable `err` is non-nil. The model (`Lifecycle.provisionContext`) rolls back on every error outcome;
that is the code only if every error-reporting `return` of the function leaves that variable non-nil.
A shadowing `if _, err := …; err != nil { return ctx, err }` (seeded/C01-provision-rollback-shadowed-err)
breaks exactly this fact, statically.
-/
import CaddyModel.Gen.ProvisionErr
import CaddyModel.Gen.StdAppsOrder

namespace CaddyModel.C01

/-- every error-reporting return of caddy.go:provisionContext is seen by its deferred rollback -/
theorem provision_rollback_sees_every_error :
    Gen.provisionErrFactsFound = true ∧
    Gen.provisionRollbackReadsFunctionErr = true ∧
    Gen.provisionErrorReturns.all (· == "covered") = true ∧
    Gen.provisionErrorReturns.length ≥ 3 := by decide

/-- the ORDER facts StdApps.lean is built on, regenerated from caddy.go and modules/caddytls/tls.go on every run
    as event sequences of the CALL-INLINED bodies (tools/extract/c01stdapps.go: calls into unexported functions /
    methods / closures of the package are replaced by the callee's events, so extract-function and inline-function
    rewrites leave every list as it is; moving, dropping or adding an event does not):
    `load` — provisioning, admin routers (failure: cancel, defaults back), the start loop with the stop of the started
    siblings (failure: cancel, defaults back), "started" AFTER the start loop's failure exit and BEFORE
    finishSettingUp, whose failure ends in unsyncedStop's events and defaults back; `endOuts` — "stopping", then the
    apps' Stop, then the modules' Cleanup; `stopW` — caddy.Stop cleans up BEFORE it empties currentCtx, and TLS.Cleanup
    takes whatever tls app caddy.ActiveContext() has for its successor UNLESS that is itself (`nextTLS.(*TLS) != t`,
    /repo 985d095; dropping the check again changes this string and brings back `Std.stop`, the old code of
    cert_cache_function_of_running_old_code_fails); `validate` — run, cancel, defaults back; `cacheAdd` / `tlsCleanup` —
    every certificate that is cached is remembered in t.loaded unconditionally (self-tests
    C01-tls-untagged-certificates-not-tracked and C01-started-event-before-start-loop-check each change one list) -/
theorem std_apps_order_matches_source :
    Gen.runPhaseOrder = ["provisionContext", "provisionAdminRouters", "cancelFunc", "restoreDefaultStorage", "restoreDefaultLogger",
      "app.Start", "app.Stop", "cancelFunc", "restoreDefaultStorage", "restoreDefaultLogger",
      "emitEvent:started", "finishSettingUp",
      "emitEvent:stopping", "app.Stop", "cancelFunc", "restoreDefaultStorage", "restoreDefaultLogger"] ∧
    Gen.unsyncedStopOrder = ["emitEvent:stopping", "app.Stop", "cancelFunc"] ∧
    Gen.stopOrder = ["emitEvent:stopping", "app.Stop", "cancelFunc", "currentCtx=Context{}"] ∧
    Gen.validateOrder = ["run", "cancelFunc", "restoreDefaultStorage", "restoreDefaultLogger"] ∧
    Gen.tlsCleanupSuccessorLookup = "caddy.ActiveContext().AppIfConfigured(\"tls\")" ∧
    Gen.tlsCleanupSuccessorCond = "err==nil&&nextTLS!=nil&&nextTLS.(*TLS)!=t" ∧
    Gen.tlsProvisionCacheBlock = ["assign:err<-magic.CacheUnmanagedTLSCertificate", "if:err!=nil", "assign:t.loaded[hash]<-\"\""] := by
  decide

end CaddyModel.C01
