/-
C01 — regenerated tie (tools/extract → Gen/ProvisionErr.lean, rebuilt from /repo on every run).
`provisionContext` undoes its own work in a deferred closure that runs only when the FUNCTION-LEVEL
variable `err` is non-nil. The model (`Lifecycle.provisionContext`) rolls back on every error outcome;
that is the code only if every error-reporting `return` of the function leaves that variable non-nil.
A shadowing `if _, err := …; err != nil { return ctx, err }` (seeded/C01-provision-rollback-shadowed-err)
breaks exactly this fact, statically.
-/
import CaddyModel.Gen.ProvisionErr
import CaddyModel.Gen.StdAppsOrder

namespace CaddyModel.C01

/-- every error-reporting return of caddy.go:provisionContext is seen by its deferred rollback -/
theorem provision_rollback_sees_every_error :
    Gen.provisionErrFactsFound = true ∧
    Gen.provisionRollbackReadsFunctionErr = true ∧
    Gen.provisionErrorReturns.all (· == "covered") = true ∧
    Gen.provisionErrorReturns.length ≥ 3 := by decide

/-- the ORDER facts StdApps.lean is built on, regenerated from caddy.go and modules/caddytls/tls.go on every run:
    `load` — "started" is emitted after the start loop and BEFORE finishSettingUp, whose failure ends in
    unsyncedStop of the new configuration; `endOuts` — "stopping", then the apps' Stop, then the modules' Cleanup;
    `stop` — caddy.Stop cleans up BEFORE it empties currentCtx and TLS.Cleanup takes whatever tls app
    caddy.ActiveContext() has for its successor UNLESS that is itself (`nextTLS.(*TLS) != t`, /repo 985d095 —
    `Std.stopW`; dropping the check again changes this string and brings back `Std.stop`, the old code of
    cert_cache_function_of_running_old_code_fails);
    `validate` — run, cancel, defaults back; `cacheAdd` / `tlsCleanup` — every certificate that is cached is
    remembered in t.loaded unconditionally (self-test C01-tls-untagged-certificates-not-tracked breaks this line) -/
theorem std_apps_order_matches_source :
    Gen.runPhaseOrder = ["provisionContext", "provisionAdminRouters", "Start", "emitEvent:started", "finishSettingUp", "unsyncedStop"] ∧
    Gen.unsyncedStopOrder = ["emitEvent:stopping", "Stop", "cancelFunc"] ∧
    Gen.stopOrder = ["unsyncedStop", "currentCtx=Context{}"] ∧
    Gen.validateOrder = ["run", "cancelFunc", "restoreDefaultStorage", "restoreDefaultLogger"] ∧
    Gen.tlsCleanupSuccessorLookup = "caddy.ActiveContext().AppIfConfigured(\"tls\")" ∧
    Gen.tlsCleanupSuccessorCond = "err==nil&&nextTLS!=nil&&nextTLS.(*TLS)!=t" ∧
    Gen.tlsProvisionCacheBlock = ["assign:err<-magic.CacheUnmanagedTLSCertificate", "if:err!=nil", "assign:t.loaded[hash]<-\"\""] := by
  decide

end CaddyModel.C01
