/-
C01 — regenerated tie (tools/extract → Gen/ProvisionErr.lean, rebuilt from /repo on every run).
`provisionContext` undoes its own work in a deferred closure that runs only when the FUNCTION-LEVEL
variable `err` is non-nil. The model (`Lifecycle.provisionContext`) rolls back on every error outcome;
that is the code only if every error-reporting `return` of the function leaves that variable non-nil.
A shadowing `if _, err := …; err != nil { return ctx, err }` (seeded/C01-provision-rollback-shadowed-err)
breaks exactly this fact, statically.
-/
import CaddyModel.Gen.ProvisionErr

namespace CaddyModel.C01

/-- every error-reporting return of caddy.go:provisionContext is seen by its deferred rollback -/
theorem provision_rollback_sees_every_error :
    Gen.provisionErrFactsFound = true ∧
    Gen.provisionRollbackReadsFunctionErr = true ∧
    Gen.provisionErrorReturns.all (· == "covered") = true ∧
    Gen.provisionErrorReturns.length ≥ 3 := by decide

end CaddyModel.C01
