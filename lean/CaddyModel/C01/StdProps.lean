/-
C01 / C03 — the standard apps on the load path (model: StdApps.lean): what the all-or-nothing and the
released-exactly-once arguments need from the events app and from the tls app's certificate cache.
-/
import CaddyModel.C01.StdApps

namespace CaddyModel.C01.Std

/-- the certificates the running configuration loads (nothing runs: none) -/
def wantCache (r : Option (Nat × SCfg)) : List Nat :=
  match r with
  | some (_, c) => certsOf c
  | none => []

/-- the process-wide certificate cache is a function of the running configuration -/
def Inv (s : St) : Prop := ∀ x, x ∈ s.cache ↔ x ∈ wantCache s.running

def cidOf : Out → Nat
  | .started c => c | .stopping c => c | .hprov c => c | .hclean c => c

def isDelivery : Out → Bool
  | .started _ => true | .stopping _ => true | _ => false

theorem mem_cacheAdd (cache certs : List Nat) (x : Nat) :
    x ∈ cacheAdd cache certs ↔ x ∈ cache ∨ x ∈ certs := by
  unfold cacheAdd
  simp only [List.mem_append, List.mem_filter, List.contains_eq_mem, Bool.not_eq_true', decide_eq_false_iff_not]
  constructor
  · rintro (h | ⟨h, _⟩)
    · exact Or.inl h
    · exact Or.inr h
  · rintro (h | h)
    · exact Or.inl h
    · by_cases hc : x ∈ cache
      · exact Or.inl hc
      · exact Or.inr ⟨h, hc⟩

theorem mem_tlsCleanup_some (loaded rc cache : List Nat) (a : Option (Nat × SCfg)) (h : activeCerts a = some rc)
    (x : Nat) : x ∈ tlsCleanup loaded a cache ↔ x ∈ cache ∧ ¬ (x ∈ loaded ∧ x ∉ rc) := by
  unfold tlsCleanup
  rw [h]
  simp only [List.mem_filter, List.contains_eq_mem, Bool.not_and]
  constructor
  · rintro ⟨h1, h2⟩
    refine ⟨h1, fun hh => ?_⟩
    cases hd : decide (x ∈ loaded) <;> cases hr : decide (x ∈ rc) <;> simp_all
  · rintro ⟨h1, h2⟩
    refine ⟨h1, ?_⟩
    cases hd : decide (x ∈ loaded) <;> cases hr : decide (x ∈ rc) <;> simp_all

theorem tlsCleanup_none (loaded cache : List Nat) (a : Option (Nat × SCfg)) (h : activeCerts a = none) :
    tlsCleanup loaded a cache = [] := by
  unfold tlsCleanup
  rw [h]

/-- the cache after an attempt that does not install its configuration (rejected load, Validate):
    what the tls app's Cleanup leaves of cache ∪ its own certificates, the running one being active -/
theorem unused_config_keeps_cache (s : St) (c : SCfg) (hI : Inv s) :
    ∀ x, x ∈ cleanupTls c s.running (cacheAdd s.cache (certsOf c)) ↔ x ∈ s.cache := by
  intro x
  unfold cleanupTls certsOf
  cases ht : c.tls with
  | none => simp [cacheAdd]
  | some l =>
    simp only
    cases ha : activeCerts s.running with
    | some rc =>
      rw [mem_tlsCleanup_some l rc _ _ ha, mem_cacheAdd]
      have hw : wantCache s.running = rc := by
        unfold activeCerts at ha
        unfold wantCache certsOf
        cases hr : s.running with
        | none => rw [hr] at ha; cases ha
        | some p => rw [hr] at ha; obtain ⟨j, o⟩ := p; simp only at ha ⊢; rw [ha]
      have := hI x
      rw [hw] at this
      constructor
      · rintro ⟨h1 | h1, h2⟩
        · exact h1
        · by_cases hx : x ∈ rc
          · exact this.2 hx
          · exact absurd ⟨h1, hx⟩ h2
      · intro h
        exact ⟨Or.inl h, fun hh => hh.2 (this.1 h)⟩
    | none =>
      rw [tlsCleanup_none _ _ _ ha]
      have hw : wantCache s.running = [] := by
        unfold activeCerts at ha
        unfold wantCache certsOf
        cases hr : s.running with
        | none => rfl
        | some p => rw [hr] at ha; obtain ⟨j, o⟩ := p; simp only at ha ⊢; rw [ha]
      have := hI x
      rw [hw] at this
      constructor
      · intro h; cases h
      · intro h; exact absurd (this.1 h) (by simp)

/-- C01: a REJECTED load — whichever of the modelled points it fails at: the events app, its handler,
    another app's Provision, the tls app's own Provision after it cached its certificates, the tls
    app's Start, another app's Start, post-start — leaves the running configuration running and the
    process-wide certificate cache with exactly the certificates it had -/
theorem rejected_keeps_cert_cache (s : St) (cid : Nat) (c : SCfg) (hI : Inv s) (hf : c.fault ≠ 0) :
    (load s cid c).1.running = s.running ∧ ∀ x, x ∈ (load s cid c).1.cache ↔ x ∈ s.cache := by
  unfold load
  rw [if_neg hf]
  by_cases h6 : c.fault = 6
  · rw [if_pos h6]; exact ⟨rfl, unused_config_keeps_cache s c hI⟩
  · rw [if_neg h6]; exact ⟨rfl, unused_config_keeps_cache s c hI⟩

example : (load ⟨some (0, ⟨3, 0, some [0, 1]⟩), [0, 1]⟩ 1 ⟨3, 4, some [1, 2]⟩).1 = ⟨some (0, ⟨3, 0, some [0, 1]⟩), [0, 1]⟩ := by decide

/-- … and so does every Validate, accepted or not -/
theorem validate_keeps_cert_cache (s : St) (cid : Nat) (c : SCfg) (hI : Inv s) :
    (validate s cid c).1.running = s.running ∧ ∀ x, x ∈ (validate s cid c).1.cache ↔ x ∈ s.cache :=
  ⟨rfl, unused_config_keeps_cache s c hI⟩

example : (validate ⟨some (0, ⟨0, 0, some [0]⟩), [0]⟩ 1 ⟨0, 7, some [0, 3]⟩).1 = ⟨some (0, ⟨0, 0, some [0]⟩), [0]⟩ := by decide

/-- C01 / C03: an ACCEPTED load leaves in the cache exactly the certificates of the new configuration:
    the old tls app's Cleanup (the new one being active) takes out what only the old one loaded -/
theorem accepted_cert_cache (s : St) (cid : Nat) (c : SCfg) (hI : Inv s) (hf : c.fault = 0) :
    Inv (load s cid c).1 := by
  intro x
  unfold load
  rw [if_pos hf]
  simp only [wantCache]
  cases hr : s.running with
  | none =>
    simp only
    rw [mem_cacheAdd]
    have := hI x
    rw [hr] at this
    simp only [wantCache] at this
    constructor
    · rintro (h | h)
      · exact absurd (this.1 h) (by simp)
      · exact h
    · exact Or.inr
  | some p =>
    obtain ⟨j, o⟩ := p
    simp only
    have hx := hI x
    rw [hr] at hx
    simp only [wantCache] at hx
    unfold cleanupTls
    cases ho : o.tls with
    | none =>
      simp only
      rw [mem_cacheAdd]
      have : certsOf o = [] := by unfold certsOf; rw [ho]
      rw [this] at hx
      constructor
      · rintro (h | h)
        · exact absurd (hx.1 h) (by simp)
        · exact h
      · exact Or.inr
    | some lo =>
      simp only
      have hlo : certsOf o = lo := by unfold certsOf; rw [ho]
      rw [hlo] at hx
      cases hc : c.tls with
      | some lc =>
        have ha : activeCerts (some (cid, c)) = some lc := by unfold activeCerts; exact hc
        rw [mem_tlsCleanup_some lo lc _ _ ha, mem_cacheAdd]
        have hcc : certsOf c = lc := by unfold certsOf; rw [hc]
        rw [hcc]
        constructor
        · rintro ⟨h1 | h1, h2⟩
          · by_cases hl : x ∈ lc
            · exact hl
            · exact absurd ⟨hx.1 h1, hl⟩ h2
          · exact h1
        · intro h; exact ⟨Or.inr h, fun hh => hh.2 h⟩
      | none =>
        have ha : activeCerts (some (cid, c)) = none := by unfold activeCerts; exact hc
        rw [tlsCleanup_none _ _ _ ha]
        have hcc : certsOf c = [] := by unfold certsOf; rw [hc]
        rw [hcc]

example : (load ⟨some (0, ⟨3, 0, some [0, 1]⟩), [0, 1]⟩ 1 ⟨3, 0, some [1, 2]⟩).1.cache = [1, 2] := by decide

/-- caddy.Stop (as it is since 985d095: the stopped tls app has no successor) empties the cache -/
theorem stopW_clears_cert_cache (s : St) (hI : Inv s) : Inv (stopW s).1 := by
  intro x
  unfold stopW
  cases hr : s.running with
  | none => simp only; have := hI x; rw [hr] at this; rw [hr]; exact this
  | some p =>
    obtain ⟨j, o⟩ := p
    simp only [wantCache]
    unfold cleanupTls
    cases ho : o.tls with
    | none =>
      simp only
      have := hI x
      rw [hr] at this
      simp only [wantCache, certsOf, ho] at this
      exact this
    | some lo =>
      simp only
      rw [tlsCleanup_none _ _ _ (by rfl)]

example : (stopW ⟨some (0, ⟨3, 0, some [0, 1]⟩), [0, 1]⟩).1 = ⟨none, []⟩ ∧
    (stop ⟨some (0, ⟨3, 0, some [0, 1]⟩), [0, 1]⟩).1 = ⟨none, [0, 1]⟩ := by decide

theorem step_inv (s : St) (cid : Nat) (x : Step) (hI : Inv s) : Inv (step s cid x).1 := by
  cases x with
  | load c =>
    by_cases hf : c.fault = 0
    · exact accepted_cert_cache s cid c hI hf
    · intro y
      have h := rejected_keeps_cert_cache s cid c hI hf
      show y ∈ (load s cid c).1.cache ↔ y ∈ wantCache (load s cid c).1.running
      rw [h.1, h.2 y]; exact hI y
  | validate c =>
    intro y
    have h := validate_keeps_cert_cache s cid c hI
    show y ∈ (validate s cid c).1.cache ↔ y ∈ wantCache (validate s cid c).1.running
    rw [h.1, h.2 y]; exact hI y
  | stop => exact stopW_clears_cert_cache s hI

/-- C03 / C01, FULL strength (since /repo 985d095): over EVERY history of loads (accepted, or rejected
    at any of the modelled points), dry runs and stops, from every state in which it holds, the
    process-wide certificate cache holds exactly the certificates of the running configuration -/
theorem cert_cache_function_of_running (steps : List Step) :
    ∀ (s : St) (cid : Nat), Inv s → Inv (run s cid steps) := by
  induction steps with
  | nil => intro s _ h; exact h
  | cons x xs ih => intro s cid h; exact ih _ _ (step_inv s cid x h)

example : run St.init 0 [.load ⟨3, 0, some [0, 1]⟩, .load ⟨0, 5, some [2]⟩, .stop, .load ⟨1, 0, some [3]⟩] =
    ⟨some (3, ⟨1, 0, some [3]⟩), [3]⟩ := by decide

/-- the statement is not vacuous — the code BEFORE 985d095 (caddy.Stop cleaned the modules up while the
    stopping context was still caddy.ActiveContext(), the tls app found itself as its successor) broke
    it: the stopped configuration's certificate stayed in the cache … -/
theorem cert_cache_function_of_running_old_code_fails :
    ∃ steps, (runOld St.init 0 steps).running = none ∧ 0 ∈ (runOld St.init 0 steps).cache :=
  ⟨[.load ⟨0, 0, some [0]⟩, .stop], by decide⟩

/-- … where the next configuration found it: it ran with a certificate it never loaded -/
theorem stopped_configs_certificate_served_by_next_old_code_fails :
    ∃ steps c, (runOld St.init 0 steps).running = some (2, c) ∧ 0 ∉ certsOf c ∧ 0 ∈ (runOld St.init 0 steps).cache :=
  ⟨[.load ⟨0, 0, some [0]⟩, .stop, .load ⟨0, 0, some [1]⟩], ⟨0, 0, some [1]⟩, by decide⟩

/-! ## the events app -/

theorem mem_optOut {b : Bool} {o x : Out} (h : x ∈ optOut b o) : x = o := by
  unfold optOut at h
  cases b <;> simp at h
  exact h

/-- C01: whatever a rejected load makes the probes see concerns the rejected configuration's OWN
    handler: the running configuration's handler is not called, not cleaned up, not provisioned again -/
theorem rejected_touches_only_its_own_handler (s : St) (cid : Nat) (c : SCfg) (hf : c.fault ≠ 0) :
    ∀ o ∈ (load s cid c).2.2, cidOf o = cid := by
  intro o ho
  unfold load at ho
  rw [if_neg hf] at ho
  by_cases h6 : c.fault = 6
  · rw [if_pos h6] at ho
    simp only [provOuts, endOuts, List.mem_append] at ho
    rcases ho with ((h | h) | (h | h)) <;> (rw [mem_optOut h]; rfl)
  · rw [if_neg h6] at ho
    simp only [provOuts, List.mem_append] at ho
    rcases ho with (h | h) <;> (rw [mem_optOut h]; rfl)

example : (load ⟨some (0, ⟨3, 0, none⟩), []⟩ 1 ⟨3, 6, none⟩).2.2 = [.hprov 1, .started 1, .stopping 1, .hclean 1] := by decide

/-- C01: a load rejected before all its apps were started (provisioning, start loop) delivers no event at all -/
theorem rejected_before_started_delivers_nothing (s : St) (cid : Nat) (c : SCfg) (hf : c.fault ≠ 0) (h6 : c.fault ≠ 6) :
    (load s cid c).2.2.filter isDelivery = [] := by
  unfold load
  rw [if_neg hf, if_neg h6]
  simp only [provOuts, optOut]
  cases hasHandler c <;> rfl

example : (load ⟨some (0, ⟨3, 0, none⟩), []⟩ 1 ⟨3, 5, none⟩).2.2 = [.hprov 1, .hclean 1] := by decide

/-- C03: a load rejected post-start has told its handler "started" (the core emits it before
    finishSettingUp) — and then tells it "stopping": each at most once, in this order, "stopping"
    whenever it subscribed to it -/
theorem post_start_rejected_started_then_stopping (s : St) (cid : Nat) (c : SCfg) (h6 : c.fault = 6) :
    (load s cid c).2.2.filter isDelivery =
      optOut (subStarted c) (.started cid) ++ optOut (subStopping c) (.stopping cid) := by
  unfold load
  rw [if_neg (by omega), if_pos h6]
  simp only [provOuts, endOuts, optOut]
  cases hasHandler c <;> cases subStarted c <;> cases subStopping c <;> rfl

example : (load ⟨some (0, ⟨3, 0, none⟩), []⟩ 1 ⟨2, 6, none⟩).2.2.filter isDelivery = [.stopping 1] := by decide

/-- C03: the handler of a configuration that is rejected (anywhere) or only validated is cleaned up
    exactly as often as it was provisioned — once or never — within the same operation -/
theorem unused_config_handler_cleaned_exactly_once (s : St) (cid : Nat) (c : SCfg) (hf : c.fault ≠ 0) :
    ((load s cid c).2.2.count (.hprov cid) = (load s cid c).2.2.count (.hclean cid) ∧
      (load s cid c).2.2.count (.hclean cid) ≤ 1) ∧
    ((validate s cid c).2.2.count (.hprov cid) = (validate s cid c).2.2.count (.hclean cid) ∧
      (validate s cid c).2.2.count (.hclean cid) ≤ 1) := by
  unfold load validate
  rw [if_neg hf]
  by_cases h6 : c.fault = 6
  · rw [if_pos h6]
    simp only [provOuts, endOuts, optOut]
    cases hasHandler c <;> cases subStarted c <;> cases subStopping c <;> simp
  · rw [if_neg h6]
    simp only [provOuts, optOut]
    cases hasHandler c <;> simp

example : (validate St.init 4 ⟨2, 3, none⟩).2.2 = [.hprov 4, .hclean 4] := by decide

/-- C03: a configuration that ends — replaced by an accepted load, or stopped — is told "stopping"
    iff it subscribed, once, and its handler is cleaned up after that, once -/
theorem ended_config_stopping_then_cleanup (j : Nat) (o : SCfg) :
    endOuts j o = optOut (subStopping o) (.stopping j) ++ optOut (hasHandler o) (.hclean j) ∧
    (stopW ⟨some (j, o), cache⟩).2.2 = endOuts j o ∧
    (∀ cid c, c.fault = 0 → (load ⟨some (j, o), cache⟩ cid c).2.2 =
      provOuts cid c ++ optOut (subStarted c) (.started cid) ++ endOuts j o) := by
  refine ⟨rfl, rfl, ?_⟩
  intro cid c hf
  unfold load
  rw [if_pos hf]

example : (load ⟨some (0, ⟨3, 0, none⟩), []⟩ 1 ⟨1, 0, none⟩).2.2 = [.hprov 1, .started 1, .stopping 0, .hclean 0] := by decide

end CaddyModel.C01.Std
