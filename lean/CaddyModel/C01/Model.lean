/-
C01 — the model is the shared Lifecycle machine (Lifecycle.lean); this file adds the
observable projection the property talks about.
-/
import CaddyModel.C01.Lifecycle

namespace CaddyModel.C01
open CaddyModel.Lifecycle

/-- who answers a fresh connection: (address, tag) of every open socket -/
def answers (s : State) : List (Nat × Nat) := s.socks.map fun k => (k.addr, k.tag)

/-- what a client of the server can see: the config read back through the admin API and who
    answers on which address (the listenerPool count of an address is the number of entries) -/
structure Obs where
  raw : Option Cfg
  answers : List (Nat × Nat)
deriving DecidableEq, Repr

def obs (s : State) : Obs := ⟨s.raw, answers s⟩

/-- the sockets app `a` of context `cid` holds once its Start has succeeded -/
def appSocks (cid : Nat) (a : App) : List Sock := a.listen.map fun ad => ⟨ad, a.tag, cid, a.name⟩

end CaddyModel.C01
