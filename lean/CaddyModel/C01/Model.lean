/-
C01 — the model is the shared Lifecycle machine (Lifecycle.lean); this file adds the
observable projection the property talks about.
-/
import CaddyModel.C01.Lifecycle

namespace CaddyModel.C01
open CaddyModel.Lifecycle

/-- who answers a fresh connection: (address, tag) of every open socket -/
def answers (s : State) : List (Nat × Nat) := s.socks.map fun k => (k.addr, k.tag)

/-- who is REACHABLE where: a fresh connection to a socket (a TCP address, or the unix socket
    file) is answered by one of the open descriptors of that socket — the permission-bit spelling a
    config used for the unix socket plays no role (`sockId`) -/
def reach (s : State) : List (Nat × Nat) := s.socks.map fun k => (sockId k.addr, k.tag)

/-- the permission bits of the unix socket FILE, as the property wants them: those asked for by
    the most recently bound descriptor of the socket that is still open (none: no such file). A
    config that is rejected closes what it bound, so its bits must go with it. -/
def fileMode (s : State) : Option Nat :=
  ((s.socks.filter fun k => k.addr ≥ 8).getLast?).map fun k =>
    if k.addr = 9 then 0o600 else if k.addr = 10 then 0o660 else 0o200

/-- what a client of the server can see: the config read back through the admin API and who
    answers on which address (the listenerPool count of an address is the number of entries) -/
structure Obs where
  raw : Option Cfg
  answers : List (Nat × Nat)
deriving DecidableEq, Repr

def obs (s : State) : Obs := ⟨s.raw, answers s⟩

/-- the sockets app `a` of context `cid` holds once its Start has succeeded -/
def appSocks (cid : Nat) (a : App) : List Sock := a.listen.map fun ad => ⟨ad, a.tag, cid, a.name⟩

end CaddyModel.C01
