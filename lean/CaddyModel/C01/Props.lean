/-
C01 — property theorems.

Statement: every attempt to load or change the configuration either takes effect completely
or has no effect: after a rejected attempt the server keeps serving exactly the previously
running configuration on exactly its previous sockets, nothing belonging to the rejected
configuration is left listening or answering, and reading the configuration back returns the
previously running one. After an accepted attempt the configuration read back equals what was
submitted and it is the one answering requests.

Quantifiers: every state reachable by any history, every configuration, every fault position
(decode, unknown module, provision, validate, start of the k-th app, bind of the k-th listener,
post-start), every map order `pp`/`ps`, every set of blocked addresses — no bound on anything.

The model's provisionContext rolls back on EVERY error outcome; that this is what the Go
function does (its deferred rollback reads the function-level `err`, and every error-reporting
return leaves it non-nil) is the regenerated fact `provision_rollback_sees_every_error`
(GenTie.lean, rebuilt from /repo's source on every run).

`changeTo c e s` is the tail of changeConfig once the raw tree has been mutated to `c`
(load, or the result of a partial change); `step` wraps it for every operation kind.
All clauses hold at full strength since the HTTP app's Start releases what it bound when it
fails (former finding F2); the old Start is kept as `startAppOld` and shown to break the
statement in Witness.lean (`load_atomic_old_code_fails`).
-/
import CaddyModel.C01.Witness
import CaddyModel.C03.LemmasP
import CaddyModel.C01.GenTie
import CaddyModel.C01.StdProps
import CaddyModel.C01.StdHistory

namespace CaddyModel.C01
open CaddyModel.Lifecycle

/-! ### one attempt -/

/-- **all-or-nothing, rejected half** (full strength). For every state whose raw tree is in sync,
    every configuration, fault, order and environment: if the attempt is rejected, the config read
    back is the previous one, the current context is untouched, and the sockets are exactly the
    previous ones, in place — nothing of the rejected configuration is left bound. -/
theorem rejected_changes_nothing (s : State) (c : Cfg) (e : Env)
    (hw : s.raw = s.rawJSON) (hs : ∀ k ∈ s.socks, k.cid < s.next)
    (hr : (changeTo c e s).2.accepted = false) :
    (changeTo c e s).1.raw = s.raw ∧ (changeTo c e s).1.rawJSON = s.rawJSON ∧
    (changeTo c e s).1.cur = s.cur ∧ (changeTo c e s).1.next = s.next ∧
    (changeTo c e s).1.socks = s.socks :=
  rejected_changes_nothing' s c e hw hs hr

/-- **load_atomic** (full strength): a rejected attempt leaves the observable state (config read
    back, who answers where) exactly as it was — including when the HTTP app's own Start fails at
    its k-th listener after binding the earlier ones. -/
theorem load_atomic (s : State) (c : Cfg) (e : Env)
    (hw : s.raw = s.rawJSON) (hs : ∀ k ∈ s.socks, k.cid < s.next)
    (hr : (changeTo c e s).2.accepted = false) :
    obs (changeTo c e s).1 = obs s := by
  obtain ⟨h1, _, _, _, h5⟩ := rejected_changes_nothing s c e hw hs hr
  simp [obs, answers, h1, h5]

/-- **accepted ⇒ installed** (full strength, no hypothesis on the state): the config read back is
    the submitted one, the current context is the new one with exactly the submitted apps, and
    the sockets are: the old context's closed, every listener of every app of the new config
    bound. -/
theorem accepted_installs (s : State) (c : Cfg) (e : Env) (h : (changeTo c e s).2 = .ok) :
    (changeTo c e s).1.raw = some c ∧ (changeTo c e s).1.rawJSON = some c ∧
    (∃ ctx, (changeTo c e s).1.cur = some ctx ∧ ctx.cid = s.next ∧ ctx.apps = c.apps) ∧
    (changeTo c e s).1.socks = closeOld s.cur (s.socks ++ (order e.ps c.apps).flatMap (appSocks s.next)) := by
  obtain ⟨h1, h2, _, h4, h5⟩ := changeTo_ok h
  exact ⟨h1, h2, h4, h5⟩

/-- an attempt answered "unchanged" really is the running configuration, and nothing moves -/
theorem unchanged_is_noop (s : State) (c : Cfg) (e : Env) (h : (changeTo c e s).2 = .same) :
    s.rawJSON = some c ∧ (changeTo c e s).1 = { s with raw := some c } :=
  changeTo_same h

/-- the only accepting answers are `ok` and `same` -/
theorem accepted_is_ok_or_same (s : State) (c : Cfg) (e : Env)
    (h : (changeTo c e s).2.accepted = true) : (changeTo c e s).2 = .ok ∨ (changeTo c e s).2 = .same :=
  changeTo_accepted h

/-- **a rejected attempt leaves no module and no pool reference behind** (full strength; the
    clause seeded mutant C01-provision-rollback-shadowed-err breaks). In any state satisfying the
    module-balance and pool invariants of reachable states (`C03.Inv3`, `C03.Inv5`; every
    `runOps State.init ops` does — `reachable_invariants`), after a rejected attempt: the set of
    live module instances is the one of the configuration that keeps running, every other
    instance — in particular every module provisioned for the rejected configuration, wherever the
    failure occurred — has been cleaned up exactly as often as it was provisioned (once), and the
    guest / hosts usage pool is unchanged. -/
theorem rejected_leaves_no_module (s : State) (c : Cfg) (e : Env)
    (h3 : C03.Inv3 s) (h5 : C03.Inv5 s)
    (hw : s.raw = s.rawJSON) (hs : ∀ k ∈ s.socks, k.cid < s.next)
    (hr : (changeTo c e s).2.accepted = false) :
    C03.curLive (changeTo c e s).1 = C03.curLive s ∧
    (∀ i, i ∉ C03.curLive s →
      (changeTo c e s).1.events.count (.clean i) = (changeTo c e s).1.events.count (.prov i) ∧
      (changeTo c e s).1.events.count (.prov i) ≤ 1) ∧
    (∀ k, (changeTo c e s).1.mpool k = s.mpool k) := by
  have hcur := (rejected_changes_nothing s c e hw hs hr).2.2.1
  have hl : C03.curLive (changeTo c e s).1 = C03.curLive s := by
    unfold C03.curLive; rw [hcur]
  have hb := (C03.inv3_changeTo h3 c e).bal
  refine ⟨hl, fun i hi => ⟨hb.dead i (by rw [hl]; exact hi), hb.prov1 i⟩, fun k => ?_⟩
  have h5' := (C03.inv5_changeTo h5 c e).pool k
  have e1 : C03.curKeys (bump (changeTo c e s)).1 = C03.curKeys s := by
    unfold C03.curKeys
    show (match (changeTo c e s).1.cur with | none => [] | some ctx => C03.keys ctx.live) = _
    rw [hcur]
    rfl
  rw [e1, ← h5.pool k] at h5'
  exact h5'

/-- every reachable state satisfies the hypotheses of `rejected_leaves_no_module` -/
theorem reachable_invariants (ops : List Op) :
    C03.Inv3 (runOps State.init ops) ∧ C03.Inv5 (runOps State.init ops) :=
  ⟨C03.inv3_runOps ops State.init C03.inv3_init, C03.inv5_runOps ops State.init C03.inv5_init⟩

/-! ### the process-wide default storage -/

/-- **accepted ⇒ the default storage is the new configuration's** (full strength) -/
theorem accepted_sets_default_storage (s : State) (c : Cfg) (e : Env) (h : (changeTo c e s).2 = .ok) :
    (changeTo c e s).1.dstor = c.stor.key ∧
    ∃ ctx, (changeTo c e s).1.cur = some ctx ∧ ctx.stor = c.stor.key := by
  rcases changeTo_cases c e s with ⟨_, h'⟩ | h' | ⟨s1, hq, h'⟩ | ⟨s1, r, hok, hq, h'⟩
  · rw [h'] at h; cases h
  · rw [h'] at h; cases h
  · rw [h']
    obtain ⟨s', ctx, hrun, rfl⟩ := decodeAndRun_ok hq
    obtain ⟨hk1, hk2⟩ := (run_dstor s.next c e { s with raw := some c }).1 s' ctx hrun
    have hu := unsyncedStop_frame4 ({ s with raw := some c } : State).cur { s' with cur := some ctx }
    refine ⟨?_, ctx, hu.cur, hk2⟩
    show (unsyncedStop _ _).dstor = _
    rw [unsyncedStop_dstor]; exact hk1
  · rw [h'] at h; exact absurd h hok

/-- an attempt that is answered before anything runs (unknown top-level field, `"@id"` of the wrong
    type) does not touch the default storage -/
theorem default_storage_untouched_before_run (s : State) (c : Cfg) (e : Env) (h : c.top = 1 ∨ c.top = 2) :
    (changeTo c e s).1.dstor = s.dstor := by
  unfold changeTo
  split
  · rfl
  · split
    · rfl
    · rename_i h2
      have h1 : c.top = 1 := by rcases h with h | h; exact h; exact absurd h h2
      unfold decodeAndRun
      simp [h1]

/-- **default_storage_after_rejected** (full strength, since fix e4caa40). Every attempt that is
    rejected after run() was entered — in provisionContext (logging, storage module, any app or
    guest module), while provisioning the admin routers, at Start, or in the post-start step —
    leaves the process-wide default storage at the storage of the configuration that is current,
    or at caddy's DefaultStorage if none is. -/
theorem default_storage_after_rejected (s : State) (c : Cfg) (e : Env)
    (hr : (changeTo c e s).2.accepted = false) (ht1 : c.top ≠ 1) (ht2 : c.top ≠ 2) :
    (changeTo c e s).1.dstor = storOf s.cur := by
  have hd := run_dstor s.next c e { s with raw := some c }
  unfold changeTo at hr ⊢
  split at hr
  · simp [Res.accepted] at hr
  · rename_i hsame
    simp only [hsame, ht2, if_false] at hr ⊢
    unfold decodeAndRun at hr ⊢
    simp only [ht1, if_false] at hr ⊢
    generalize hrun : run s.next c e { s with raw := some c } = q at hr hd ⊢
    obtain ⟨s', o, res⟩ := q
    simp only at hd
    by_cases hres : res = .ok
    · subst hres
      obtain ⟨ctx, rfl, _⟩ := run_ok hrun
      simp [Res.accepted] at hr
    · have goal : s'.dstor = storOf s.cur := hd.2 hres
      cases o <;> cases res <;> first | exact absurd rfl hres | exact goal

/-- **Validate leaves the default storage alone** (full strength): after a dry run, successful or
    not, it is the current configuration's storage (caddy's DefaultStorage if none is current) -/
theorem default_storage_after_validate (s : State) (c : Cfg) (e : Env) :
    (validate c e s).1.dstor = storOf s.cur :=
  validate_dstor c e s

/-! ### the process-wide default logger -/

/-- **accepted ⇒ the process default logger (caddy.Log()) is the new configuration's default log** -/
theorem accepted_sets_default_logger (s : State) (c : Cfg) (e : Env) (h : (changeTo c e s).2 = .ok) :
    (changeTo c e s).1.dlogger = s.next + 1 := by
  rcases changeTo_cases c e s with ⟨_, h'⟩ | h' | ⟨s1, hq, h'⟩ | ⟨s1, r, hok, hq, h'⟩
  · rw [h'] at h; cases h
  · rw [h'] at h; cases h
  · rw [h']
    obtain ⟨s', ctx, hrun, rfl⟩ := decodeAndRun_ok hq
    have hd := (run_dlogger s.next c e { s with raw := some c }).1
    rw [hrun] at hd
    show (unsyncedStop _ _).dlogger = _
    rw [unsyncedStop_dlogger]; exact hd rfl
  · rw [h'] at h; exact absurd h hok

/-- an attempt that is answered before anything runs (unknown top-level field, `"@id"` of the wrong
    type) does not touch the process default logger -/
theorem default_logger_untouched_before_run (s : State) (c : Cfg) (e : Env) (h : c.top = 1 ∨ c.top = 2) :
    (changeTo c e s).1.dlogger = s.dlogger := by
  unfold changeTo
  split
  · rfl
  · split
    · rfl
    · rename_i h2
      have h1 : c.top = 1 := by rcases h with h | h; exact h; exact absurd h h2
      unfold decodeAndRun
      simp [h1]

/-- **default_logger_after_rejected** (full strength, since the restoreDefaultLogger fix). EVERY
    attempt that is not accepted — answered before anything runs, or rejected in provisionContext
    (logging, storage module, any app or guest module), while provisioning the admin routers, at
    Start, or in the post-start step — leaves the process default logger (caddy.Log()) exactly
    what it was. -/
theorem default_logger_after_rejected (s : State) (c : Cfg) (e : Env)
    (hr : (changeTo c e s).2.accepted = false) :
    (changeTo c e s).1.dlogger = s.dlogger := by
  by_cases ht1 : c.top = 1
  · exact default_logger_untouched_before_run s c e (Or.inl ht1)
  by_cases ht2 : c.top = 2
  · exact default_logger_untouched_before_run s c e (Or.inr ht2)
  have hd := run_dlogger s.next c e { s with raw := some c }
  unfold changeTo at hr ⊢
  split at hr
  · simp [Res.accepted] at hr
  · rename_i hsame
    simp only [hsame, ht2, if_false] at hr ⊢
    unfold decodeAndRun at hr ⊢
    simp only [ht1, if_false] at hr ⊢
    generalize hrun : run s.next c e { s with raw := some c } = q at hr hd ⊢
    obtain ⟨s', o, res⟩ := q
    simp only at hd
    by_cases hres : res = .ok
    · subst hres
      obtain ⟨ctx, rfl, _⟩ := run_ok hrun
      simp [Res.accepted] at hr
    · have goal : s'.dlogger = s.dlogger := hd.2 hres
      cases o <;> cases res <;> first | exact absurd rfl hres | exact goal

/-- **Validate leaves the default logger alone** (full strength): after a dry run, successful or
    not, caddy.Log() is what it was -/
theorem default_logger_after_validate (s : State) (c : Cfg) (e : Env) :
    (validate c e s).1.dlogger = s.dlogger :=
  validate_dlogger c e s

/-! ### every history -/

/-- **history_atomic** (full strength). For EVERY history of load / partial-change / malformed /
    validate / stop operations, with every fault and every map order at every step: what the admin
    API reads back is the spec's running configuration (the last accepted one), exactly its
    listeners answer, each with its own tag (as a multiset), and when nothing runs no socket
    exists. -/
theorem history_atomic (ops : List Op) :
    (runBoth State.init none ops).1.raw = (runBoth State.init none ops).2 ∧
    (answers (runBoth State.init none ops).1).Perm (Spec.cfgAnswers (runBoth State.init none ops).2) ∧
    ((runBoth State.init none ops).2 = none → (runBoth State.init none ops).1.socks = []) := by
  have h := inv_runBoth ops State.init none inv_init
  refine ⟨h.raw, ?_, ?_⟩
  · generalize (runBoth State.init none ops).2 = r at h
    cases r with
    | none => rw [answers, h.run.2]; exact List.Perm.refl _
    | some c => obtain ⟨_, _, _, _, _, h5⟩ := h.run; exact h5
  · intro hn
    rw [hn] at h
    exact h.run.2

/-- the same, one step at a time, from any state that satisfies the invariant (`Inv s r`: the
    model state `s` is exactly the spec's running configuration `r`) -/
theorem step_atomic (s : State) (r : Option Cfg) (op : Op) (h : Inv s r) :
    Inv (step s op).1 (Spec.step r op (step s op).2.accepted) :=
  inv_step h op

/-- Stop leaves nothing behind -/
theorem stop_leaves_nothing (s : State) (r : Option Cfg) (h : Inv s r) :
    (step s .stop).1.socks = [] ∧ (step s .stop).1.raw = none ∧ (step s .stop).1.cur = none := by
  have := inv_step h .stop
  exact ⟨this.run.2, rfl, rfl⟩

/-! ### non-vacuity: concrete instances (kernel-evaluated) -/

/-- a running config: probe app 0 on address 0, HTTP app on address 1 -/
def exOld : Cfg := ⟨0, [], [⟨0, 1, 0, [0], [⟨0, 0⟩]⟩, ⟨3, 2, 0, [1], []⟩], ⟨0, 0⟩⟩
/-- a new config whose second started app (probe app 1) fails in Start after the first (probe app
    0, address 2) has started -/
def exNew : Cfg := ⟨0, [], [⟨0, 5, 0, [2], []⟩, ⟨1, 6, 5, [3], []⟩], ⟨0, 0⟩⟩
def exEnv : Env := ⟨true, false, 0, [], [0, 1], [0, 1]⟩
def exState : State := (step State.init (.load exOld ⟨true, false, 0, [], [0, 3], [0, 3]⟩)).1

-- the hypotheses of the rejected-attempt theorems hold in a non-trivial state …
example : exState.raw = exState.rawJSON ∧ (∀ k ∈ exState.socks, k.cid < exState.next) ∧
    (changeTo exNew exEnv exState).2 = .errStart ∧
    answers exState = [(0, 1), (1, 2)] := by decide
-- … and the failing attempt really started (and stopped) an app before being rejected
example : ((changeTo exNew exEnv exState).1.aevents.filter
    (fun ev => ev = .started 1 0 ∨ ev = .stop 1 0 ∨ ev = .startFail 1 1)).length = 3 := by decide
-- an accepted attempt over a running config
example : (changeTo ⟨0, [], [⟨0, 5, 0, [2], []⟩], ⟨0, 0⟩⟩ exEnv exState).2 = .ok ∧
    answers (changeTo ⟨0, [], [⟨0, 5, 0, [2], []⟩], ⟨0, 0⟩⟩ exEnv exState).1 = [(2, 5)] := by decide
-- the admin routers cannot be provisioned: rejected before anything starts, nothing moves
example : (changeTo ⟨0, [], [⟨0, 5, 0, [2], []⟩], ⟨0, 0⟩⟩ ⟨true, false, 2, [], [0], [0]⟩ exState).2 = .errAdmin ∧
    answers (changeTo ⟨0, [], [⟨0, 5, 0, [2], []⟩], ⟨0, 0⟩⟩ ⟨true, false, 2, [], [0], [0]⟩ exState).1 = [(0, 1), (1, 2)] := by decide
-- rejected_leaves_no_module: a config whose SECOND app fails to validate after the first app and
-- its guests were provisioned — the three instances are provisioned and cleaned, the pool is back
example : (changeTo ⟨0, [], [⟨0, 5, 0, [2], [⟨0, 1⟩, ⟨0, 2⟩]⟩, ⟨1, 6, 4, [], []⟩], ⟨0, 0⟩⟩ exEnv exState).2 = .errValidate ∧
    ((changeTo ⟨0, [], [⟨0, 5, 0, [2], [⟨0, 1⟩, ⟨0, 2⟩]⟩, ⟨1, 6, 4, [], []⟩], ⟨0, 0⟩⟩ exEnv exState).1.events.filter
      (fun ev => match ev with | .clean i => i.cid = 1 | _ => false)).length = 4 ∧
    (changeTo ⟨0, [], [⟨0, 5, 0, [2], [⟨0, 1⟩, ⟨0, 2⟩]⟩, ⟨1, 6, 4, [], []⟩], ⟨0, 0⟩⟩ exEnv exState).1.mpool 1 = 0 ∧
    exState.mpool 0 = 1 := by decide
-- default storage: accepted (storage module 2) sets it; rejected while provisioning an app puts it
-- back to the running config's (0); so does a rejection at Start, and a successful Validate
example : (changeTo ⟨0, [], [⟨0, 5, 0, [2], []⟩], ⟨0, 2⟩⟩ exEnv exState).2 = .ok ∧
    (changeTo ⟨0, [], [⟨0, 5, 0, [2], []⟩], ⟨0, 2⟩⟩ exEnv exState).1.dstor = 2 := by decide
example : exState.cur.map (·.stor) = some 0 ∧
    (changeTo ⟨0, [], [⟨0, 5, 4, [2], []⟩], ⟨0, 1⟩⟩ exEnv exState).2 = .errValidate ∧
    (provisionContext exState.next ⟨0, [], [⟨0, 5, 4, [2], []⟩], ⟨0, 1⟩⟩ exEnv.pp { exState with raw := some ⟨0, [], [⟨0, 5, 4, [2], []⟩], ⟨0, 1⟩⟩ }).2.2 = some .errValidate ∧
    (changeTo ⟨0, [], [⟨0, 5, 4, [2], []⟩], ⟨0, 1⟩⟩ exEnv exState).1.dstor = 0 := by decide
example : (changeTo ⟨0, [], [⟨0, 5, 5, [2], []⟩], ⟨0, 1⟩⟩ exEnv exState).2 = .errStart ∧
    (changeTo ⟨0, [], [⟨0, 5, 5, [2], []⟩], ⟨0, 1⟩⟩ exEnv exState).1.dstor = 0 ∧
    (validate ⟨0, [], [⟨0, 5, 0, [2], []⟩], ⟨0, 2⟩⟩ exEnv exState).2 = .ok ∧
    (validate ⟨0, [], [⟨0, 5, 0, [2], []⟩], ⟨0, 2⟩⟩ exEnv exState).1.dstor = 0 := by decide
example : (changeTo ⟨2, [], [], ⟨0, 1⟩⟩ exEnv exState).2 = .errIndex := by decide
-- the HTTP app's Start fails AFTER both of its listeners were bound (certificate management cannot
-- be started, fault 6): rejected, and nothing of it is left
example : (changeTo ⟨0, [], [⟨3, 9, 6, [2, 4], []⟩], ⟨0, 0⟩⟩ ⟨true, false, 0, [], [3], [3]⟩ exState).2 = .errStart ∧
    answers (changeTo ⟨0, [], [⟨3, 9, 6, [2, 4], []⟩], ⟨0, 0⟩⟩ ⟨true, false, 0, [], [3], [3]⟩ exState).1 = answers exState ∧
    (bindAll 1 ⟨3, 9, 6, [2, 4], []⟩ [] [2, 4] exState).2 = true := by decide
-- default logger: in exState the running config (operation 0) owns it; an accepted attempt takes
-- it; an attempt rejected at Start (exNew), one rejected while provisioning an app, one answered
-- before anything runs and a successful Validate leave it with the running config
example : exState.dlogger = 1 ∧ exState.next = 1 ∧
    (changeTo ⟨0, [], [⟨0, 5, 0, [2], []⟩], ⟨0, 0⟩⟩ exEnv exState).1.dlogger = 2 ∧
    ((changeTo exNew exEnv exState).2.accepted = false ∧ (changeTo exNew exEnv exState).1.dlogger = 1) ∧
    ((changeTo ⟨0, [], [⟨0, 5, 3, [2], []⟩], ⟨0, 0⟩⟩ exEnv exState).2 = .errProvision ∧
      (changeTo ⟨0, [], [⟨0, 5, 3, [2], []⟩], ⟨0, 0⟩⟩ exEnv exState).1.dlogger = 1) ∧
    (changeTo ⟨1, [], [], ⟨0, 0⟩⟩ exEnv exState).1.dlogger = 1 ∧
    ((validate ⟨0, [], [⟨0, 5, 0, [2], []⟩], ⟨0, 2⟩⟩ exEnv exState).2 = .ok ∧
      (validate ⟨0, [], [⟨0, 5, 0, [2], []⟩], ⟨0, 2⟩⟩ exEnv exState).1.dlogger = 1) := by decide
-- "unchanged"
example : (changeTo exOld ⟨false, false, 0, [], [], []⟩ exState).2 = .same := by decide
-- the HTTP app's Start fails at its SECOND listener (address 1 held by somebody else, address 2
-- bound first): rejected, and nothing of it is left
example : (changeTo ⟨0, [], [⟨3, 9, 0, [2, 4], []⟩], ⟨0, 0⟩⟩ ⟨true, false, 0, [4], [3], [3]⟩ exState).2 = .errStart ∧
    answers (changeTo ⟨0, [], [⟨3, 9, 0, [2, 4], []⟩], ⟨0, 0⟩⟩ ⟨true, false, 0, [4], [3], [3]⟩ exState).1 = answers exState := by decide
example : Inv exState (some exOld) := by
  have := inv_step inv_init (.load exOld ⟨true, false, 0, [], [0, 3], [0, 3]⟩)
  exact this

/-! ### unix sockets: the permission bits are not part of the socket's identity -/

/-- the three spellings of the unix socket (no bits, `|0600`, `|0660`) name ONE socket; every TCP
    address is its own -/
theorem sockId_ignores_permission_bits :
    sockId 8 = sockId 9 ∧ sockId 9 = sockId 10 ∧ (∀ t, t < 8 → sockId t = t) ∧
    (∀ t, 8 ≤ t → sockId t = 8) := by
  refine ⟨rfl, rfl, fun t h => by simp [sockId, h], fun t h => ?_⟩
  have : ¬ t < 8 := Nat.not_lt.mpr h
  simp [sockId, this]

/-- **rejected_keeps_every_socket_reachable** (full strength; the clause seeded mutant
    C01-unix-socket-key-includes-permission-bits breaks). After a rejected attempt — whatever it
    listens on, in particular the running configuration's unix socket under ANY permission-bit
    spelling, and however late it is rejected (after it bound that socket) — exactly the same
    servers are reachable on exactly the same sockets, and the socket file keeps the permission
    bits of the running configuration. -/
theorem rejected_keeps_every_socket_reachable (s : State) (c : Cfg) (e : Env)
    (hw : s.raw = s.rawJSON) (hs : ∀ k ∈ s.socks, k.cid < s.next)
    (hr : (changeTo c e s).2.accepted = false) :
    reach (changeTo c e s).1 = reach s ∧ fileMode (changeTo c e s).1 = fileMode s := by
  have h := (rejected_changes_nothing s c e hw hs hr).2.2.2.2
  unfold reach fileMode
  rw [h]
  exact ⟨rfl, rfl⟩

/-- **history_reachable** (full strength). For EVERY history: who is reachable on which socket is
    exactly what the spec's running configuration says, the unix socket counted once under all its
    spellings. -/
theorem history_reachable (ops : List Op) :
    (reach (runBoth State.init none ops).1).Perm (Spec.cfgReach (runBoth State.init none ops).2) := by
  have h := (history_atomic ops).2.1
  have := h.map (fun p : Nat × Nat => (sockId p.1, p.2))
  unfold reach Spec.cfgReach
  unfold answers at this
  rw [List.map_map] at this
  exact this

-- non-vacuity: the HTTP app serves the unix socket spelled `|0600` (token 9) and TCP address 0; a
-- load naming it `|0660` (token 10) binds it, then fails at its second listener (address 1 is held
-- by somebody else): rejected, the same server is reachable on the socket, the file mode stays
-- 0600; an accepted load naming it without bits (token 8) takes it over, mode 0200
example :
    let s0 := (step State.init (.load ⟨0, [], [⟨3, 1, 0, [9, 0], []⟩], ⟨0, 0⟩⟩ ⟨true, false, 0, [], [3], [3]⟩)).1
    let bad : Cfg := ⟨0, [], [⟨3, 2, 0, [10, 1], []⟩], ⟨0, 0⟩⟩
    let eb : Env := ⟨true, false, 0, [1], [3], [3]⟩
    reach s0 = [(8, 1), (0, 1)] ∧ fileMode s0 = some 0o600 ∧
    (changeTo bad eb s0).2 = .errStart ∧
    (bindAll 1 ⟨3, 2, 0, [10, 1], []⟩ [1] [10] s0).2 = true ∧
    reach (changeTo bad eb s0).1 = [(8, 1), (0, 1)] ∧ fileMode (changeTo bad eb s0).1 = some 0o600 ∧
    reach (changeTo ⟨0, [], [⟨3, 3, 0, [8, 2], []⟩], ⟨0, 0⟩⟩ ⟨true, false, 0, [], [3], [3]⟩ s0).1 = [(8, 3), (2, 3)] ∧
    fileMode (changeTo ⟨0, [], [⟨3, 3, 0, [8, 2], []⟩], ⟨0, 0⟩⟩ ⟨true, false, 0, [], [3], [3]⟩ s0).1 = some 0o200 := by
  decide


/-! ### the default logger over histories -/

theorem decodeAndRun_next (cid : Nat) (c : Cfg) (e : Env) (s : State) :
    (decodeAndRun cid c e s).1.next = s.next := by
  unfold decodeAndRun
  split
  · rfl
  · have hf := (run_frame4 cid c e s).next
    generalize run cid c e s = q at hf
    obtain ⟨s1, o, r⟩ := q
    simp only at hf
    cases o <;> cases r <;>
      first
      | exact hf
      | (show (unsyncedStop _ _).next = _; rw [(unsyncedStop_frame4 _ _).next]; exact hf)

theorem changeTo_next (c : Cfg) (e : Env) (s : State) : (changeTo c e s).1.next = s.next := by
  rcases changeTo_cases c e s with ⟨_, h⟩ | h | ⟨s1, hq, h⟩ | ⟨s1, r, _, hq, h⟩
  · rw [h]
  · rw [h]
  · rw [h]; have := decodeAndRun_next s.next c e { s with raw := some c }; rw [hq] at this; exact this
  · rw [h]; have := decodeAndRun_next s.next c e { s with raw := some c }; rw [hq] at this; exact this

/-- the tail of changeConfig and the default logger, every outcome: accepted with `ok` ⇒ the new
    configuration's; everything else (unchanged, every rejection) ⇒ untouched -/
theorem changeTo_default_logger (c : Cfg) (e : Env) (s : State) :
    (changeTo c e s).1.dlogger = if (changeTo c e s).2 = .ok then s.next + 1 else s.dlogger := by
  by_cases hok : (changeTo c e s).2 = .ok
  · rw [if_pos hok]; exact accepted_sets_default_logger s c e hok
  · rw [if_neg hok]
    by_cases hacc : (changeTo c e s).2.accepted = false
    · exact default_logger_after_rejected s c e hacc
    · rcases changeTo_cases c e s with ⟨_, h⟩ | h | ⟨s1, _, h⟩ | ⟨s1, r, hr, hq, h⟩
      · rw [h]
      · rw [h]
      · rw [h] at hok; exact absurd rfl hok
      · rw [h] at hacc
        have : r.accepted = true := by cases hh : r.accepted; exact absurd hh hacc; rfl
        exact absurd (decodeAndRun_accepted hq this) hr

/-- **step_default_logger** (full strength): one operation of any kind moves the process default
    logger exactly as the spec says — to the operation's own default log iff it installed a
    configuration (answer `ok` to a load / PATCH / DELETE), not at all otherwise — and the
    operation counter advances by one -/
theorem step_default_logger (s : State) (op : Op) :
    (step s op).1.dlogger = Spec.logger s.dlogger s.next op (step s op).2 ∧
    (step s op).1.next = s.next + 1 := by
  have hc : ∀ c e, (bump (changeTo c e s)).1.dlogger
        = (if (bump (changeTo c e s)).2 = .ok then s.next + 1 else s.dlogger) ∧
      (bump (changeTo c e s)).1.next = s.next + 1 := fun c e =>
    ⟨changeTo_default_logger c e s, by show (changeTo c e s).1.next + 1 = _; rw [changeTo_next]⟩
  cases op with
  | load c e =>
    show (bump (changeTo c e s)).1.dlogger = Spec.logger _ _ _ (bump (changeTo c e s)).2 ∧ _
    simp only [Spec.logger, Spec.installs, true_and]
    exact hc c e
  | patch a e =>
    unfold step
    cases hraw : s.raw with
    | none => exact ⟨rfl, rfl⟩
    | some c =>
      dsimp only
      cases hrep : replaceApp a c.apps with
      | none => exact ⟨rfl, rfl⟩
      | some apps =>
        dsimp only
        simp only [Spec.logger, Spec.installs, true_and]
        exact hc _ e
  | del n e =>
    unfold step
    cases hraw : s.raw with
    | none => exact ⟨rfl, rfl⟩
    | some c =>
      dsimp only
      cases hrem : removeApp n c.apps with
      | none => exact ⟨rfl, rfl⟩
      | some apps =>
        dsimp only
        simp only [Spec.logger, Spec.installs, true_and]
        exact hc _ e
  | junk => exact ⟨rfl, rfl⟩
  | validate c e =>
    refine ⟨?_, ?_⟩
    · show (validate c e s).1.dlogger = _
      rw [validate_dlogger]; simp [Spec.logger, Spec.installs]
    · show (validate c e s).1.next + 1 = _
      rw [(validate_frame c e s).next]
  | stop =>
    refine ⟨?_, ?_⟩
    · show (unsyncedStop s.cur s).dlogger = _
      rw [unsyncedStop_dlogger]; simp [Spec.logger, Spec.installs]
    · show (unsyncedStop s.cur s).next + 1 = _
      rw [(unsyncedStop_frame4 _ _).next]

/-- **history_default_logger** (full strength). For EVERY history of operations, with every fault
    and every order at every step: the process default logger (caddy.Log()) is the default log of
    the operation that installed the last accepted configuration — the initial one if no
    configuration was ever accepted. (This is what the correspondence oracle checks on the real
    code after every operation.) -/
theorem history_default_logger (ops : List Op) :
    (runOps State.init ops).dlogger
      = Spec.loggerAfter 0 0 (ops.zip ((trace State.init ops).map (·.1))) := by
  have gen : ∀ (ops : List Op) (s : State), (runOps s ops).dlogger
      = Spec.loggerAfter s.dlogger s.next (ops.zip ((trace s ops).map (·.1))) := by
    intro ops
    induction ops with
    | nil => intro s; rfl
    | cons o os ih =>
      intro s
      obtain ⟨h1, h2⟩ := step_default_logger s o
      show (runOps (step s o).1 os).dlogger
        = Spec.loggerAfter (Spec.logger s.dlogger s.next o (step s o).2) (s.next + 1)
            (os.zip ((trace (step s o).1 os).map (·.1)))
      rw [ih (step s o).1, h1, h2]
  exact gen ops State.init

/-! ### the default storage over histories -/

/-- the tail of changeConfig and the default storage, every outcome, in a reachable state whose
    current context carries the running configuration's storage -/
theorem changeTo_default_storage {s : State} {r : Option Cfg} (h : Inv s r)
    (hst : storOf s.cur = Spec.storKey r) (c : Cfg) (e : Env) :
    (changeTo c e s).1.dstor =
      (if (changeTo c e s).2 = .ok then c.stor.key
       else if (changeTo c e s).2.accepted = false ∧ c.top ≠ 1 ∧ c.top ≠ 2 then Spec.storKey r
       else s.dstor) ∧
    storOf (changeTo c e s).1.cur
      = Spec.storKey (if (changeTo c e s).2.accepted = true then some c else r) := by
  by_cases hok : (changeTo c e s).2 = .ok
  · obtain ⟨h1, ctx, h2, h3⟩ := accepted_sets_default_storage s c e hok
    rw [if_pos hok, h2, hok]
    exact ⟨h1, h3⟩
  · rw [if_neg hok]
    by_cases hacc : (changeTo c e s).2.accepted = false
    · have hrc := rejected_changes_nothing s c e (h.raw.trans h.rawJSON.symm) h.sockCid hacc
      refine ⟨?_, ?_⟩
      · by_cases ht : c.top ≠ 1 ∧ c.top ≠ 2
        · rw [if_pos ⟨hacc, ht⟩, default_storage_after_rejected s c e hacc ht.1 ht.2, hst]
        · rw [if_neg (fun hh => ht hh.2)]
          refine default_storage_untouched_before_run s c e ?_
          by_cases h1 : c.top = 1
          · exact Or.inl h1
          · by_cases h2 : c.top = 2
            · exact Or.inr h2
            · exact absurd ⟨h1, h2⟩ ht
      · rw [hrc.2.2.1, hacc]; exact hst
    · rcases changeTo_cases c e s with ⟨hsame, h'⟩ | h' | ⟨s1, _, h'⟩ | ⟨s1, r', hr, hq, h'⟩
      · rw [h']
        have hr : r = some c := h.rawJSON.symm.trans hsame
        refine ⟨by simp [Res.accepted], ?_⟩
        show storOf s.cur = _
        rw [hst, hr]; simp [Res.accepted]
      · rw [h'] at hacc; exact absurd rfl hacc
      · rw [h'] at hok; exact absurd rfl hok
      · rw [h'] at hacc
        have : r'.accepted = true := by cases hh : r'.accepted; exact absurd hh hacc; rfl
        exact absurd (decodeAndRun_accepted hq this) hr

/-- **step_default_storage** (full strength): in every reachable state, one operation of any kind
    moves certmagic.Default.Storage exactly as the spec says — an installed configuration's own
    storage; the running configuration's (caddy's DefaultStorage if none) after a request that
    reached run() without being accepted and after every dry run; untouched otherwise — and the
    current context keeps carrying the running configuration's storage -/
theorem step_default_storage {s : State} {r : Option Cfg} (h : Inv s r)
    (hst : storOf s.cur = Spec.storKey r) (op : Op) :
    (step s op).1.dstor = Spec.storage s.dstor r op (step s op).2 ∧
    storOf (step s op).1.cur = Spec.storKey (Spec.step r op (step s op).2.accepted) := by
  have hc : ∀ (op : Op) (c : Cfg) (e : Env), Spec.installs op = true → Spec.attempted r op = some c →
      (bump (changeTo c e s)).1.dstor = Spec.storage s.dstor r op (bump (changeTo c e s)).2 ∧
      storOf (bump (changeTo c e s)).1.cur
        = Spec.storKey (if (bump (changeTo c e s)).2.accepted = true then Spec.attempted r op else r) := by
    intro op c e hi ha
    obtain ⟨h1, h2⟩ := changeTo_default_storage h hst c e
    refine ⟨?_, ?_⟩
    · show (changeTo c e s).1.dstor = Spec.storage s.dstor r op (changeTo c e s).2
      rw [h1]
      unfold Spec.storage Spec.reachedRun
      cases op with
      | validate _ _ => cases hi
      | junk => cases hi
      | stop => cases hi
      | load _ _ => simp [ha, hi, Spec.storKey, Bool.and_eq_true, and_assoc]
      | patch _ _ => simp [ha, hi, Spec.storKey, Bool.and_eq_true, and_assoc]
      | del _ _ => simp [ha, hi, Spec.storKey, Bool.and_eq_true, and_assoc]
    · show storOf (changeTo c e s).1.cur = Spec.storKey (if (changeTo c e s).2.accepted = true then _ else r)
      rw [h2, ha]
  cases op with
  | load c e =>
    have := hc (.load c e) c e rfl rfl
    exact this
  | patch a e =>
    unfold step
    cases hraw : s.raw with
    | none =>
      have hr : r = none := h.raw.symm.trans hraw
      subst hr
      exact ⟨by simp [bump, Spec.storage, Spec.reachedRun, Spec.attempted, Spec.installs], hst⟩
    | some c =>
      have hr : r = some c := h.raw.symm.trans hraw
      subst hr
      dsimp only
      cases hrep : replaceApp a c.apps with
      | none =>
        exact ⟨by simp [bump, Spec.storage, Spec.reachedRun, Spec.attempted, Spec.installs, hrep], hst⟩
      | some apps =>
        dsimp only
        have := hc (.patch a e) { c with apps := apps } e rfl (by simp [Spec.attempted, hrep])
        simpa [Spec.step] using this
  | del n e =>
    unfold step
    cases hraw : s.raw with
    | none =>
      have hr : r = none := h.raw.symm.trans hraw
      subst hr
      exact ⟨by simp [bump, Spec.storage, Spec.reachedRun, Spec.attempted, Spec.installs], hst⟩
    | some c =>
      have hr : r = some c := h.raw.symm.trans hraw
      subst hr
      dsimp only
      cases hrem : removeApp n c.apps with
      | none =>
        exact ⟨by simp [bump, Spec.storage, Spec.reachedRun, Spec.attempted, Spec.installs, hrem], hst⟩
      | some apps =>
        dsimp only
        have := hc (.del n e) { c with apps := apps } e rfl (by simp [Spec.attempted, hrem])
        simpa [Spec.step] using this
  | junk => exact ⟨by simp [step, bump, Spec.storage, Spec.reachedRun, Spec.attempted, Spec.installs], hst⟩
  | validate c e =>
    refine ⟨?_, ?_⟩
    · show (validate c e s).1.dstor = _
      rw [validate_dstor, hst]; simp [Spec.storage, Spec.reachedRun, Spec.installs]
    · show storOf (validate c e s).1.cur = _
      rw [(validate_frame c e s).cur]; exact hst
  | stop =>
    refine ⟨?_, rfl⟩
    show (unsyncedStop s.cur s).dstor = _
    rw [unsyncedStop_dstor]; simp [Spec.storage, Spec.reachedRun, Spec.attempted, Spec.installs]

/-- **history_default_storage** (full strength). For EVERY history of operations, with every fault
    and every order at every step: certmagic.Default.Storage is what the spec computes from the
    operations and their answers alone — the storage of the last installed configuration, put back
    to the running configuration's (caddy's DefaultStorage once nothing runs) by every request that
    reached run() without being accepted and by every dry run. (This is what the correspondence
    oracle checks on the real code after every operation.) -/
theorem history_default_storage (ops : List Op) :
    (runOps State.init ops).dstor
      = Spec.storageAfter 0 none (ops.zip ((trace State.init ops).map (·.1))) := by
  have gen : ∀ (ops : List Op) (s : State) (r : Option Cfg), Inv s r → storOf s.cur = Spec.storKey r →
      (runOps s ops).dstor = Spec.storageAfter s.dstor r (ops.zip ((trace s ops).map (·.1))) := by
    intro ops
    induction ops with
    | nil => intro s r _ _; rfl
    | cons o os ih =>
      intro s r h hst
      obtain ⟨h1, h2⟩ := step_default_storage h hst o
      show (runOps (step s o).1 os).dstor
        = Spec.storageAfter (Spec.storage s.dstor r o (step s o).2) (Spec.step r o (step s o).2.accepted)
            (os.zip ((trace (step s o).1 os).map (·.1)))
      rw [ih (step s o).1 _ (inv_step h o) h2, h1]
  exact gen ops State.init none inv_init rfl


-- non-vacuity: load A (ok, operation 0), a load rejected at Start (1), a successful dry run (2), a malformed
-- request (3), load B (ok, 4), "unchanged" (5), Stop (6): the logger is operation 4's
example : let ops : List Op := [.load exOld ⟨true, false, 0, [], [0, 3], [0, 3]⟩, .load exNew exEnv,
      .validate exNew exEnv, .junk, .load ⟨0, [], [⟨0, 5, 0, [2], []⟩], ⟨0, 0⟩⟩ exEnv,
      .load ⟨0, [], [⟨0, 5, 0, [2], []⟩], ⟨0, 0⟩⟩ ⟨false, false, 0, [], [0], [0]⟩, .stop]
    (trace State.init ops).map (·.1) = [.ok, .errStart, .ok, .errBody, .ok, .same, .ok] ∧
    (runOps State.init ops).dlogger = 5 ∧
    (runOps State.init (ops.take 4)).dlogger = 1 := by decide

-- non-vacuity (storage): load A (storage 0), a load asking for storage 1 rejected at Start (back to
-- 0), load B with storage 2 (ok: 2), a dry run asking for storage 1 (back to 2), Stop (still 2),
-- then a load asking for storage 1 rejected while provisioning (nothing runs: caddy's default, 0)
example : let ops : List Op := [.load exOld ⟨true, false, 0, [], [0, 3], [0, 3]⟩,
      .load { exNew with stor := ⟨0, 1⟩ } exEnv,
      .load ⟨0, [], [⟨0, 5, 0, [2], []⟩], ⟨0, 2⟩⟩ exEnv,
      .validate ⟨0, [], [⟨0, 5, 0, [2], []⟩], ⟨0, 1⟩⟩ exEnv, .stop,
      .load ⟨0, [], [⟨0, 5, 3, [2], []⟩], ⟨0, 1⟩⟩ exEnv]
    (trace State.init ops).map (·.1) = [.ok, .errStart, .ok, .ok, .ok, .errProvision] ∧
    (trace State.init ops).map (·.2.dstor) = [0, 0, 2, 2, 2, 0] ∧
    Spec.storageAfter 0 none (ops.zip ((trace State.init ops).map (·.1))) = 0 ∧
    Spec.storageAfter 0 none ((ops.take 5).zip ((trace State.init (ops.take 5)).map (·.1))) = 2 := by decide

end CaddyModel.C01
