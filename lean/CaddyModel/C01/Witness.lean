/-
C01 — the full all-or-nothing statement is FALSE on the unchanged tree (finding F2).

Full statement (kept visible):
  ∀ s c e, s.raw = s.rawJSON → (∀ k ∈ s.socks, k.cid < s.next) →
    (changeTo c e s).2.accepted = false → obs (changeTo c e s).1 = obs s

Witness: config 1 (HTTP app, tag 1, address 0) runs; config 2 (HTTP app, tag 2, listeners on
addresses 2 then 1) is submitted while somebody else holds address 1. The HTTP app's Start binds
address 2, fails on address 1 and returns without closing address 2; run stops only the *other*
apps. The attempt is rejected, the config read back is config 1 — and address 2 answers with
tag 2. Protocol line (Driver.witnessLines), replayed on the real code on every run:
  L=0~-~3,1,0,0,-=1,0,0,-,3,3 L=0~-~3,2,0,2.1,-=1,0,0,1,3,3
-/
import CaddyModel.C01.Lemmas

namespace CaddyModel.C01
open CaddyModel.Lifecycle

def w1 : Cfg := ⟨0, [], [⟨3, 1, 0, [0], []⟩]⟩
def w2 : Cfg := ⟨0, [], [⟨3, 2, 0, [2, 1], []⟩]⟩
def wEnv1 : Env := ⟨true, false, 0, [], [3], [3]⟩
def wEnv2 : Env := ⟨true, false, 0, [1], [3], [3]⟩
def wState : State := (step State.init (.load w1 wEnv1)).1

/-- the negation of the full statement, with the concrete witness -/
theorem load_atomic_full_fails :
    ∃ (s : State) (c : Cfg) (e : Env), s.raw = s.rawJSON ∧ (∀ k ∈ s.socks, k.cid < s.next) ∧
      (changeTo c e s).2.accepted = false ∧ obs (changeTo c e s).1 ≠ obs s :=
  ⟨wState, w2, wEnv2, by decide, by decide, by decide, by decide⟩

/-- what exactly is left: address 2 answers with the rejected config's tag, the read-back and
    the old socket are untouched -/
theorem load_atomic_witness_detail :
    (changeTo w2 wEnv2 wState).2 = .errStart ∧ (changeTo w2 wEnv2 wState).1.raw = some w1 ∧
    answers wState = [(0, 1)] ∧ answers (changeTo w2 wEnv2 wState).1 = [(0, 1), (2, 2)] ∧
    httpBindExcluded w2 wEnv2 = true := by decide

/-- the witness is a reachable state of the invariant, so it also refutes the history form -/
theorem history_atomic_full_fails :
    ∃ ops : List Op, ¬ (answers (runBoth State.init none ops).1).Perm (Spec.cfgAnswers (runBoth State.init none ops).2) :=
  ⟨[.load w1 wEnv1, .load w2 wEnv2], by decide⟩

end CaddyModel.C01
