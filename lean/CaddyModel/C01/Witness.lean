/-
C01 — non-vacuity of the repair of finding F2.

BEFORE the fix the HTTP app's Start returned the bind error of its k-th listener without closing
listeners 1‥k-1 (`startAppOld` in Lifecycle.lean), and run stops only the *other* apps: config 1
(HTTP app, tag 1, address 0) runs; config 2 (HTTP app, tag 2, listeners on addresses 2 then 1) is
submitted while somebody else holds address 1; the attempt is rejected, the config read back is
config 1 — and address 2 answered with tag 2. With the code as it is now the same history leaves
nothing (regression case in corpus/C01; `load_atomic` holds at full strength):
  L=0~-~3,1,0,0,-=1,0,0,-,3,3 L=0~-~3,2,0,2.1,-=1,0,0,1,3,3
-/
import CaddyModel.C01.Lemmas

namespace CaddyModel.C01
open CaddyModel.Lifecycle

def w1 : Cfg := ⟨0, [], [⟨3, 1, 0, [0], []⟩], ⟨0, 0⟩⟩
def w2 : Cfg := ⟨0, [], [⟨3, 2, 0, [2, 1], []⟩], ⟨0, 0⟩⟩
def wEnv1 : Env := ⟨true, false, 0, [], [3], [3]⟩
def wEnv2 : Env := ⟨true, false, 0, [1], [3], [3]⟩
def wState : State := (step State.init (.load w1 wEnv1)).1

/-- with the OLD Start the all-or-nothing statement fails: the old Start of config 2's HTTP app,
    run in the state where config 1 runs, reports failure and leaves a socket on address 2
    answering with tag 2 — the new Start, in the same state, reports failure and leaves nothing;
    and the whole attempt, with the code as it is now, is rejected without a trace. -/
theorem load_atomic_old_code_fails :
    (startAppOld 1 wEnv2.blocked ⟨3, 2, 0, [2, 1], []⟩ wState).2 = false ∧
    answers (startAppOld 1 wEnv2.blocked ⟨3, 2, 0, [2, 1], []⟩ wState).1 = [(0, 1), (2, 2)] ∧
    (startApp 1 wEnv2.blocked ⟨3, 2, 0, [2, 1], []⟩ wState).2 = false ∧
    answers (startApp 1 wEnv2.blocked ⟨3, 2, 0, [2, 1], []⟩ wState).1 = [(0, 1)] ∧
    (changeTo w2 wEnv2 wState).2 = .errStart ∧ obs (changeTo w2 wEnv2 wState).1 = obs wState := by decide

/-! ### the process-wide default storage (certmagic.Default.Storage) — finding F21

Full statement (kept visible):
  ∀ s c e, (changeTo c e s).2.accepted = false → (changeTo c e s).1.dstor = s.dstor
  ∀ s c e, (validate c e s).1.dstor = s.dstor
provisionContext makes the new configuration's storage the process default BEFORE the apps are
provisioned. Only its own deferred rollback puts it back, and only `if currentCtx.cfg != nil`; the
later failure paths of run() (admin routers, Start, post-start) and Validate() do not.
Protocol lines (Driver.witnessLines), replayed on the real code on every run. -/

/-- probe app 0 and storage module 1; the app's Provision fails -/
def wSt1 : Cfg := ⟨0, [], [⟨0, 1, 3, [], []⟩], ⟨0, 1⟩⟩
/-- a healthy config without a storage module -/
def wSt0 : Cfg := ⟨0, [], [⟨0, 1, 0, [], []⟩], ⟨0, 0⟩⟩
/-- storage module 1, the app fails in Start -/
def wSt2 : Cfg := ⟨0, [], [⟨0, 2, 5, [], []⟩], ⟨0, 1⟩⟩
/-- storage module 2, healthy (to be validated) -/
def wSt3 : Cfg := ⟨0, [], [⟨0, 3, 0, [], []⟩], ⟨0, 2⟩⟩
def wEnvS : Env := ⟨true, false, 0, [], [0], [0]⟩

/-- the negation of the full statement, three ways: (a) the very first load is rejected while
    provisioning an app — nothing is current, so nothing is restored; (b) over a running config, a
    load rejected at Start; (c) over a running config, a successful Validate. In each case the
    default storage is the rejected / validated configuration's. -/
theorem default_storage_full_fails :
    ((changeTo wSt1 wEnvS State.init).2 = .errProvision ∧ (changeTo wSt1 wEnvS State.init).1.dstor = 1 ∧
      State.init.dstor = 0) ∧
    ((runOps State.init [.load wSt0 wEnvS]).dstor = 0 ∧
      (changeTo wSt2 wEnvS (runOps State.init [.load wSt0 wEnvS])).2 = .errStart ∧
      (changeTo wSt2 wEnvS (runOps State.init [.load wSt0 wEnvS])).1.dstor = 1) ∧
    ((validate wSt3 wEnvS (runOps State.init [.load wSt0 wEnvS])).2 = .ok ∧
      (validate wSt3 wEnvS (runOps State.init [.load wSt0 wEnvS])).1.dstor = 2 ∧
      (validate wSt3 wEnvS (runOps State.init [.load wSt0 wEnvS])).1.rawJSON = some wSt0) := by decide

end CaddyModel.C01
