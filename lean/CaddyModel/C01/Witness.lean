/-
C01 — non-vacuity of the repair of finding F2.

BEFORE the fix the HTTP app's Start returned the bind error of its k-th listener without closing
listeners 1‥k-1 (`startAppOld` in Lifecycle.lean), and run stops only the *other* apps: config 1
(HTTP app, tag 1, address 0) runs; config 2 (HTTP app, tag 2, listeners on addresses 2 then 1) is
submitted while somebody else holds address 1; the attempt is rejected, the config read back is
config 1 — and address 2 answered with tag 2. With the code as it is now the same history leaves
nothing (regression case in corpus/C01; `load_atomic` holds at full strength):
  L=0~-~3,1,0,0,-=1,0,0,-,3,3 L=0~-~3,2,0,2.1,-=1,0,0,1,3,3
-/
import CaddyModel.C01.Lemmas

namespace CaddyModel.C01
open CaddyModel.Lifecycle

def w1 : Cfg := ⟨0, [], [⟨3, 1, 0, [0], []⟩], ⟨0, 0⟩⟩
def w2 : Cfg := ⟨0, [], [⟨3, 2, 0, [2, 1], []⟩], ⟨0, 0⟩⟩
def wEnv1 : Env := ⟨true, false, 0, [], [3], [3]⟩
def wEnv2 : Env := ⟨true, false, 0, [1], [3], [3]⟩
def wState : State := (step State.init (.load w1 wEnv1)).1

/-- with the OLD Start the all-or-nothing statement fails: the old Start of config 2's HTTP app,
    run in the state where config 1 runs, reports failure and leaves a socket on address 2
    answering with tag 2 — the new Start, in the same state, reports failure and leaves nothing;
    and the whole attempt, with the code as it is now, is rejected without a trace. -/
theorem load_atomic_old_code_fails :
    (startAppOld 1 wEnv2.blocked ⟨3, 2, 0, [2, 1], []⟩ wState).2 = false ∧
    answers (startAppOld 1 wEnv2.blocked ⟨3, 2, 0, [2, 1], []⟩ wState).1 = [(0, 1), (2, 2)] ∧
    (startApp 1 wEnv2.blocked ⟨3, 2, 0, [2, 1], []⟩ wState).2 = false ∧
    answers (startApp 1 wEnv2.blocked ⟨3, 2, 0, [2, 1], []⟩ wState).1 = [(0, 1)] ∧
    (changeTo w2 wEnv2 wState).2 = .errStart ∧ obs (changeTo w2 wEnv2 wState).1 = obs wState := by decide

/-! ### the process-wide default storage (certmagic.Default.Storage) — former finding F21

BEFORE fix e4caa40 only provisionContext's own deferred rollback put the default storage back, and
only `if currentCtx.cfg != nil`; the later failure paths of run() and Validate() did not. The old
code is kept in Lifecycle.lean (`restoreStorageOld`, `provisionContextOld`, `runOld`,
`validateOld`); with the code as it is now `default_storage_after_rejected` and
`default_storage_after_validate` hold at full strength. Former witness lines: corpus/C01. -/

/-- probe app 0 and storage module 1; the app's Provision fails -/
def wSt1 : Cfg := ⟨0, [], [⟨0, 1, 3, [], []⟩], ⟨0, 1⟩⟩
/-- a healthy config without a storage module -/
def wSt0 : Cfg := ⟨0, [], [⟨0, 1, 0, [], []⟩], ⟨0, 0⟩⟩
/-- storage module 1, the app fails in Start -/
def wSt2 : Cfg := ⟨0, [], [⟨0, 2, 5, [], []⟩], ⟨0, 1⟩⟩
/-- storage module 2, healthy (to be validated) -/
def wSt3 : Cfg := ⟨0, [], [⟨0, 3, 0, [], []⟩], ⟨0, 2⟩⟩
def wEnvS : Env := ⟨true, false, 0, [], [0], [0]⟩
/-- the state in which wSt0 runs -/
def wRun0 : State := runOps State.init [.load wSt0 wEnvS]

/-- the OLD code left the default storage at a configuration that is not running, three ways —
    and the code as it is now does not: (a) the very first load rejected while provisioning an app
    (old: storage 1; now: caddy's default 0); (b) over a running config (storage 0), a load
    rejected at Start (old: 1; now: 0); (c) over the same, a successful Validate (old: 2; now 0). -/
theorem default_storage_old_code_fails :
    ((runOld 0 wSt1 wEnvS State.init).2.2 = .errProvision ∧ (runOld 0 wSt1 wEnvS State.init).1.dstor = 1 ∧
      (run 0 wSt1 wEnvS State.init).1.dstor = 0) ∧
    (storOf wRun0.cur = 0 ∧ (runOld wRun0.next wSt2 wEnvS wRun0).2.2 = .errStart ∧
      (runOld wRun0.next wSt2 wEnvS wRun0).1.dstor = 1 ∧ (run wRun0.next wSt2 wEnvS wRun0).1.dstor = 0) ∧
    ((validateOld wSt3 wEnvS wRun0).2 = .ok ∧ (validateOld wSt3 wEnvS wRun0).1.dstor = 2 ∧
      (validate wSt3 wEnvS wRun0).1.dstor = 0) := by decide

/-! ### the process-wide default logger (caddy.Log()) — the code before the restoreDefaultLogger fix

openLogs (setupNewDefault) makes the new configuration's default log the process default logger
before anything else is provisioned; before the fix nothing undid that when the configuration was
not used (`runL`, `validateL`: the rollbacks put the default storage back but not the logger). -/

/-- `default_logger_after_rejected` / `default_logger_after_validate` fail for the code before the
    fix and hold for the code as it is now: over a running configuration (which owns the default
    logger: 1), (a) a load rejected while provisioning an app and (b) a successful Validate left
    caddy.Log() at the default log of a configuration that is not running (old: 2; now: 1) -/
theorem default_logger_old_code_fails :
    wRun0.dlogger = 1 ∧ wRun0.rawJSON = some wSt0 ∧
    ((runL wRun0.next wSt1 wEnvS wRun0).2.2 = .errProvision ∧ (runL wRun0.next wSt1 wEnvS wRun0).1.dlogger = 2 ∧
      (run wRun0.next wSt1 wEnvS wRun0).2.2 = .errProvision ∧ (run wRun0.next wSt1 wEnvS wRun0).1.dlogger = 1) ∧
    ((validateL wSt3 wEnvS wRun0).2 = .ok ∧ (validateL wSt3 wEnvS wRun0).1.dlogger = 2 ∧
      (validate wSt3 wEnvS wRun0).2 = .ok ∧ (validate wSt3 wEnvS wRun0).1.dlogger = 1) := by decide

end CaddyModel.C01
