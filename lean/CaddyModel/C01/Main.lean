import CaddyModel.Util.DrvMain
import CaddyModel.C01.Driver

def main (args : List String) : IO Unit :=
  CaddyModel.drvMain "C01" CaddyModel.C01.handle CaddyModel.C01.witnessLines args
