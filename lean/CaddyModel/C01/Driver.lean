/-
C01 line-protocol driver (grammar: see Proto.lean). Answer: for every operation of the history
  <result>|<config read back>|<who holds a socket on every address>|<guest / hosts pool refs>
joined by spaces; `bad-op` for anything malformed.
-/
import CaddyModel.C01.Proto

namespace CaddyModel.C01
open CaddyModel.Lifecycle CaddyModel.Lifecycle.Proto

def showStep (p : Res × State) : String :=
  showRes p.1 ++ "|" ++ (match p.2.raw with | some c => showCfg c | none => "null") ++ "|" ++ showSocks p.2.socks ++ "|" ++ showPool p.2.mpool

def handle (fs : List String) : String :=
  match parseCase fs with
  | none => "bad-op"
  | some ops => " ".intercalate ((trace State.init ops).map showStep)

/-- counter-example lines replayed on the implementation on every run (proved in Witness.lean):
    F2 — the HTTP app's Start fails at its second listener (address 1 is held by somebody else);
    its first listener (address 0) stays bound and answers with the rejected config's tag 2. -/
def witnessLines : List String :=
  ["L=0~-~3,1,0,0,-=1,0,0,-,3,3 L=0~-~3,2,0,2.1,-=1,0,0,1,3,3"]

end CaddyModel.C01
