/-
C01 line-protocol driver (grammar: see Proto.lean). Answer: for every operation of the history
  <result>|<config read back>|<who holds a socket on every address>|<guest / hosts pool refs>|<certmagic default storage>
joined by spaces; `bad-op` for anything malformed.
-/
import CaddyModel.C01.Proto

namespace CaddyModel.C01
open CaddyModel.Lifecycle CaddyModel.Lifecycle.Proto

def showStep (p : Res × State) : String :=
  showRes p.1 ++ "|" ++ (match p.2.raw with | some c => showCfg c | none => "null") ++ "|" ++ showSocks p.2.socks ++ "|" ++ showPool p.2.mpool ++ "|" ++ toString p.2.dstor

def handle (fs : List String) : String :=
  match parseCase fs with
  | none => "bad-op"
  | some ops => " ".intercalate ((trace State.init ops).map showStep)

/-- counter-example lines replayed on the implementation on every run: none — every clause holds
    at full strength (the former F2 and F21 witnesses are regression cases in corpus/C01) -/
def witnessLines : List String := []

end CaddyModel.C01
