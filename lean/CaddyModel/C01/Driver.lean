/-
C01 line-protocol driver (grammar: see Proto.lean). Answer: for every operation of the history
  <result>|<config read back>|<who holds a socket on every address>|<guest / hosts pool refs>|<certmagic default storage>|<whose default log is the process default logger>
joined by spaces; `bad-op` for anything malformed.
-/
import CaddyModel.C01.Proto

namespace CaddyModel.C01
open CaddyModel.Lifecycle CaddyModel.Lifecycle.Proto

def showStep (p : Res × State) : String :=
  showRes p.1 ++ "|" ++ (match p.2.raw with | some c => showCfg c | none => "null") ++ "|" ++ showSocks p.2.socks ++ "|" ++ showPool p.2.mpool ++ "|" ++ toString p.2.dstor ++ "|" ++ toString p.2.dlogger

def handle (fs : List String) : String :=
  match parseCase fs with
  | none => "bad-op"
  | some ops => " ".intercalate ((trace State.init ops).map showStep)

/-- counter-example lines replayed on the implementation on every run (proved in Witness.lean,
    `default_logger_full_fails`, finding F22 — caddy.Log() is left at the default log of a
    configuration that is not running): over a running config (a) a load rejected while
    provisioning an app, (b) a successful Validate. (The former F2 and F21 witnesses are regression
    cases in corpus/C01.) -/
def witnessLines : List String :=
  ["L=0~-~0,1,0,-,-=1,0,0,-,0,0 L=0~-~0,1,3,-,-~0:1=1,0,0,-,0,-",
   "L=0~-~0,1,0,-,-=1,0,0,-,0,0 V=0~-~0,3,0,-,-~0:2=0,0,0,-,0,-"]

end CaddyModel.C01
