/-
C01 line-protocol driver (grammar: see Proto.lean). Answer: for every operation of the history
  <result>|<config read back>|<who holds a socket on every address>|<guest / hosts pool refs>|<certmagic default storage>
joined by spaces; `bad-op` for anything malformed.
-/
import CaddyModel.C01.Proto

namespace CaddyModel.C01
open CaddyModel.Lifecycle CaddyModel.Lifecycle.Proto

def showStep (p : Res × State) : String :=
  showRes p.1 ++ "|" ++ (match p.2.raw with | some c => showCfg c | none => "null") ++ "|" ++ showSocks p.2.socks ++ "|" ++ showPool p.2.mpool ++ "|" ++ toString p.2.dstor

def handle (fs : List String) : String :=
  match parseCase fs with
  | none => "bad-op"
  | some ops => " ".intercalate ((trace State.init ops).map showStep)

/-- counter-example lines replayed on the implementation on every run (proved in Witness.lean,
    `default_storage_full_fails`, finding F21 — certmagic.Default.Storage is left at a rejected or
    merely validated configuration's storage):
    (a) the very first load, storage module 1, is rejected while provisioning its app;
    (b) over a running config without a storage module, a load with storage module 1 is rejected at Start;
    (c) over the same running config, a config with storage module 2 is validated successfully. -/
def witnessLines : List String :=
  ["L=0~-~0,1,3,-,-~0:1=1,0,0,-,0,-",
   "L=0~-~0,1,0,-,-=1,0,0,-,0,0 L=0~-~0,2,5,-,-~0:1=1,0,0,-,0,0",
   "L=0~-~0,1,0,-,-=1,0,0,-,0,0 V=0~-~0,3,0,-,-~0:2=0,0,0,-,0,-"]

end CaddyModel.C01
