/-
C01 line-protocol driver (grammar: see Proto.lean). Answer: for every operation of the history
  <result>|<config read back>|<who holds a socket on every address>|<guest / hosts pool refs>|<certmagic default storage>|<whose default log is the process default logger>
joined by spaces; `bad-op` for anything malformed.
-/
import CaddyModel.C01.Proto
import CaddyModel.C01.StdApps

namespace CaddyModel.C01
open CaddyModel.Lifecycle CaddyModel.Lifecycle.Proto

def showStep (p : Res × State) : String :=
  showRes p.1 ++ "|" ++ (match p.2.raw with | some c => showCfg c | none => "null") ++ "|" ++ showSocks p.2.socks ++ "|" ++ showPool p.2.mpool ++ "|" ++ toString p.2.dstor ++ "|" ++ toString p.2.dlogger

def handle (fs : List String) : String :=
  match fs with
  | "E" :: _ => Std.handle fs   -- the standard apps on the load path (StdApps.lean)
  | _ =>
  match parseCase fs with
  | none => "bad-op"
  | some ops => " ".intercalate ((trace State.init ops).map showStep)

/-- counter-example lines replayed on the implementation on every run: none — every C01 statement
    is proved at full strength for the code as it is now. (The former F2, F21, F22 witnesses and the
    round-h `E L00=0 S L00=1` — certificate of a stopped configuration served by the next one, fixed by
    /repo 985d095 — are regression cases in corpus/C01.) -/
def witnessLines : List String := []

end CaddyModel.C01
