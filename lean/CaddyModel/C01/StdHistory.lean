/-
C01 / C03 — the standard apps on the load path, over whole histories: nobody but the configuration an
operation creates and the configuration running at that moment is ever provisioned, cleaned up or told
anything — a configuration that has ended (rejected, validated, replaced, stopped) is never heard of again.
-/
import CaddyModel.C01.StdProps

namespace CaddyModel.C01.Std

/-- `o` concerns the configuration created by this operation (`cid`) or the one running before it -/
def Addressed (s : St) (cid : Nat) (o : Out) : Prop :=
  cidOf o = cid ∨ ∃ c, s.running = some (cidOf o, c)

theorem endOuts_addressed (s : St) (cid j : Nat) (c : SCfg) (h : s.running = some (j, c)) :
    ∀ o ∈ endOuts j c, Addressed s cid o := by
  intro o ho
  simp only [endOuts, List.mem_append] at ho
  rcases ho with (h1 | h1) <;> (rw [mem_optOut h1]; exact Or.inr ⟨c, h⟩)

theorem step_outs_addressed (s : St) (cid : Nat) (x : Step) : ∀ o ∈ (step s cid x).2.2, Addressed s cid o := by
  cases x with
  | load c =>
    by_cases hf : c.fault = 0
    · intro o ho
      simp only [step, load] at ho
      rw [if_pos hf] at ho
      simp only [List.mem_append] at ho
      rcases ho with ((h1 | h1) | h1)
      · simp only [provOuts] at h1; rw [mem_optOut h1]; exact Or.inl rfl
      · rw [mem_optOut h1]; exact Or.inl rfl
      · cases hr : s.running with
        | none => rw [hr] at h1; cases h1
        | some p =>
          obtain ⟨j, oc⟩ := p
          rw [hr] at h1
          exact endOuts_addressed s cid j oc hr o h1
    · intro o ho
      exact Or.inl (rejected_touches_only_its_own_handler s cid c hf o ho)
  | validate c =>
    intro o ho
    simp only [step, validate, provOuts, List.mem_append] at ho
    rcases ho with (h1 | h1) <;> (rw [mem_optOut h1]; exact Or.inl rfl)
  | stop =>
    intro o ho
    simp only [step, stopW] at ho
    cases hr : s.running with
    | none => rw [hr] at ho; cases ho
    | some p =>
      obtain ⟨j, oc⟩ := p
      rw [hr] at ho
      exact endOuts_addressed s cid j oc hr o ho

/-- every operation of a history addresses only its own configuration and the one running before it -/
def WellAddressed (s : St) (cid : Nat) : List Step → Prop
  | [] => True
  | x :: xs => (∀ o ∈ (step s cid x).2.2, Addressed s cid o) ∧ WellAddressed (step s cid x).1 (cid + 1) xs

/-- C01 / C03, for EVERY history, state and numbering: an ended configuration is never heard of again -/
theorem history_well_addressed (steps : List Step) : ∀ (s : St) (cid : Nat), WellAddressed s cid steps := by
  induction steps with
  | nil => intro _ _; trivial
  | cons x xs ih => intro s cid; exact ⟨step_outs_addressed s cid x, ih _ _⟩

example : (trace St.init 0 [.load ⟨3, 0, none⟩, .load ⟨3, 6, none⟩, .load ⟨3, 0, none⟩, .stop]).map (·.2.2) =
    [[.hprov 0, .started 0], [.hprov 1, .started 1, .stopping 1, .hclean 1],
     [.hprov 2, .started 2, .stopping 0, .hclean 0], [.stopping 2, .hclean 2]] := by decide

/-- the context number of the running configuration is always older than the next one to be created, so
    "its own configuration" and "the one running before" are never confused -/
theorem running_is_older (steps : List Step) : ∀ (s : St) (cid : Nat),
    (∀ j c, s.running = some (j, c) → j < cid) →
    ∀ j c, (run s cid steps).running = some (j, c) → j < cid + steps.length := by
  induction steps with
  | nil => intro s cid h j c hr; exact h j c hr
  | cons x xs ih =>
    intro s cid h j c hr
    have hs : ∀ j c, (step s cid x).1.running = some (j, c) → j < cid + 1 := by
      intro j' c' hr'
      cases x with
      | load cc =>
        simp only [step, load] at hr'
        by_cases hf : cc.fault = 0
        · rw [if_pos hf] at hr'; simp only [Option.some.injEq, Prod.mk.injEq] at hr'; omega
        · rw [if_neg hf] at hr'
          by_cases h6 : cc.fault = 6
          · rw [if_pos h6] at hr'; exact Nat.lt_succ_of_lt (h j' c' hr')
          · rw [if_neg h6] at hr'; exact Nat.lt_succ_of_lt (h j' c' hr')
      | validate cc => exact Nat.lt_succ_of_lt (h j' c' hr')
      | stop =>
        simp only [step, stopW] at hr'
        cases hrr : s.running with
        | none => rw [hrr] at hr'; simp only at hr'; rw [hrr] at hr'; cases hr'
        | some p => obtain ⟨a, b⟩ := p; rw [hrr] at hr'; cases hr'
    have := ih (step s cid x).1 (cid + 1) hs j c hr
    simp only [List.length_cons]; omega

example : (run St.init 0 [.load ⟨3, 0, none⟩, .load ⟨3, 6, none⟩, .load ⟨3, 0, some [1]⟩]).running = some (2, ⟨3, 0, some [1]⟩) := by decide

end CaddyModel.C01.Std
