/-
Line protocol shared by the C01 and C03 drivers (core only).

A case is a whole history: space-separated operations
  L=<cfg>=<env>   load (POST /config/; caddy.Load when env.force = 1)
  V=<cfg>=<env>   caddy.Validate
  P=<app>=<env>   PATCH /config/apps/<name>
  D=<name>=<env>  DELETE /config/apps/<name>
  J               POST /config/ with a body that is not JSON
  S               caddy.Stop
cfg  = <top>~<logs>~<apps>[~<stor>]  logs = - | mod+mod…      apps = - | app;app…
       stor = <fault>:<key> — the storage module (key 0 / absent: none, 1‥3: probe storage)
app  = <name>,<tag>,<fault>,<listen>,<mods>    listen = - | n.n…   mods = - | mod+mod…
mod  = <fault>:<key>
env  = <force>,<post>,<adm>,<blocked>,<pp>,<ps>   (lists: - | n.n…; adm 0|1|2)
adm must be 0 in every operation of a history or ≥ 1 in every one (identical admin settings).
-/
import CaddyModel.C01.Lifecycle

namespace CaddyModel.Lifecycle.Proto
open CaddyModel.Lifecycle

def natList (s : String) : Option (List Nat) :=
  if s == "-" then some [] else (s.splitOn ".").mapM String.toNat?

def parseMod (s : String) : Option Mod :=
  match s.splitOn ":" with
  | [f, k] => do
    let f ← f.toNat?
    let k ← k.toNat?
    -- fault 5 exists only for reverse proxy key 6: not a provisioning fault — when the configuration
    -- ends, an upgraded stream through the handler is open and closing it FAILS (Cleanup reports an
    -- error; see C03/CleanupSteps.lean)
    if (f ≤ 4 ∨ (f = 5 ∧ k = 6)) ∧ k < 8 then some ⟨f, k⟩ else none
  | _ => none

def parseMods (s : String) : Option (List Mod) :=
  if s == "-" then some [] else (s.splitOn "+").mapM parseMod

def parseApp (s : String) : Option App :=
  match s.splitOn "," with
  | [n, t, f, l, m] => do
    let n ← n.toNat?
    let t ← t.toNat?
    let f ← f.toNat?
    let l ← natList l
    let m ← parseMods m
    if n ≤ 3 ∧ t < 1000 ∧ l.all (· < 11) ∧ l.length ≤ 4 ∧ m.length ≤ 4 ∧
        (if n = 3 then f = 0 ∨ f = 2 ∨ ((f = 6 ∨ f = 7) ∧ l ≠ []) else f ≤ 5 ∧ f ≠ 1) ∧
        -- keys ≥ 4 are real reverse_proxy handlers: only in the HTTP app, never "unknown"
        m.all (fun g => g.key < 4 ∨ (n = 3 ∧ g.fault ≠ 1)) ∧
        -- the stuck stream is opened through a TCP listener of the app; one such handler per app
        (m.filter (·.fault = 5)).length ≤ 1 ∧ (m.all (·.fault ≠ 5) ∨ l.any (· < 8))
    then some ⟨n, t, f, l, m⟩ else none
  | _ => none

def strictlySorted : List Nat → Bool
  | a :: b :: rest => a < b && strictlySorted (b :: rest)
  | _ => true

def logsOk (l : List Mod) : Bool :=
  l.length ≤ 3 && l.all (fun m => 1 ≤ m.key) && (l.map (·.key)).Nodup &&
  (l.all (fun m => m.fault = 0) || l.length ≤ 1)

def parseCfg3 (t l a : String) (st : Mod) : Option Cfg := do
  let t ← t.toNat?
  let l ← parseMods l
  let a ← if a == "-" then some [] else (a.splitOn ";").mapM parseApp
  -- at most one listener of a configuration names the unix socket (tokens 8‥10): descriptors of one
  -- unix socket share a single accept queue, so "who answers" is only determined with one of them
  if t ≤ 3 ∧ logsOk l ∧ strictlySorted (a.map (·.name)) ∧ st.key ≤ 3 ∧ (st.key = 0 → st.fault = 0) ∧
      ((a.flatMap (·.listen)).filter (· ≥ 8)).length ≤ 1
  then some ⟨t, l, a, st⟩ else none

def parseCfg (s : String) : Option Cfg :=
  match s.splitOn "~" with
  | [t, l, a] => parseCfg3 t l a ⟨0, 0⟩
  | [t, l, a, st] => do
    let st ← parseMod st
    -- canonical: the fourth component is written only when a storage module is configured
    if st.key = 0 then none else parseCfg3 t l a st
  | _ => none

def parseBool (s : String) : Option Bool :=
  if s == "0" then some false else if s == "1" then some true else none

def namesOk (l : List Nat) : Bool := l.all (· ≤ 3) && l.Nodup

def parseEnv (s : String) : Option Env :=
  match s.splitOn "," with
  | [f, p, a, b, pp, ps] => do
    -- how the load is submitted (0‥5, see harness types.go); odd = forceReload
    let f ← if f.length = 1 then f.toNat? else none
    let p ← parseBool p
    let a ← a.toNat?
    let b ← natList b
    let pp ← natList pp
    let ps ← natList ps
    if f ≤ 5 ∧ a ≤ 2 ∧ b.all (· < 8) ∧ namesOk pp ∧ namesOk ps then some ⟨f % 2 == 1, p, a, b, pp, ps⟩ else none
  | _ => none

def opAdm : Op → Option Nat
  | .load _ e => some e.adm
  | .validate _ e => some e.adm
  | .patch _ e => some e.adm
  | .del _ e => some e.adm
  | _ => none

/-- identical admin settings across the history: the endpoint is disabled in every operation or
    enabled in every operation -/
def admConsistent (ops : List Op) : Bool :=
  (ops.filterMap opAdm).all (· = 0) || (ops.filterMap opAdm).all (· ≥ 1)

def parseOp (s : String) : Option Op :=
  match s.splitOn "=" with
  | ["J"] => some .junk
  | ["S"] => some .stop
  | ["L", c, e] => do pure (.load (← parseCfg c) (← parseEnv e))
  | ["V", c, e] => do
    let c ← parseCfg c
    if c.top = 0 then pure (.validate c (← parseEnv e)) else none
  | ["P", a, e] => do
    let a ← parseApp a
    -- the phase-2 fault needs the tls/pki apps of a whole configuration next to the HTTP app
    -- … and a partial change does not introduce the unix socket (another app may have it)
    if a.fault = 6 ∨ ¬ a.listen.all (· < 8) then none else pure (.patch a (← parseEnv e))
  | ["D", n, e] => do
    let n ← n.toNat?
    if n ≤ 3 then pure (.del n (← parseEnv e)) else none
  | _ => none

def parseCase (fs : List String) : Option (List Op) :=
  if fs.isEmpty ∨ fs.length > 12 then none else do
    let ops ← fs.mapM parseOp
    if admConsistent ops then some ops else none

/-! printing -/

def showNats (l : List Nat) : String :=
  if l.isEmpty then "-" else ".".intercalate (l.map toString)

def showMods (l : List Mod) : String :=
  if l.isEmpty then "-" else "+".intercalate (l.map fun m => s!"{m.fault}:{m.key}")

def showApp (a : App) : String :=
  s!"{a.name},{a.tag},{a.fault},{showNats a.listen},{showMods a.mods}"

def showCfg (c : Cfg) : String :=
  s!"{c.top}~{showMods c.logs}~" ++ (if c.apps.isEmpty then "-" else ";".intercalate (c.apps.map showApp)) ++
    (if c.stor.key = 0 then "" else s!"~{c.stor.fault}:{c.stor.key}")

def showRes : Res → String
  | .ok => "ok" | .same => "same"
  | .errBody => "err:body" | .errPath => "err:path" | .errIndex => "err:index" | .errDecode => "err:decode"
  | .errUnknown => "err:unknown" | .errModDecode => "err:moddecode" | .errProvision => "err:provision"
  | .errValidate => "err:validate" | .errStart => "err:start" | .errPost => "err:post"
  | .errAdmin => "err:admin"

def insertNat (x : Nat) : List Nat → List Nat
  | [] => [x]
  | y :: ys => if x < y then x :: y :: ys else if x = y then y :: ys else y :: insertNat x ys

def sortDedup (l : List Nat) : List Nat := l.foldr insertNat []

def insertStr (x : String) : List String → List String
  | [] => [x]
  | y :: ys => if x < y then x :: y :: ys else y :: insertStr x ys

def sortStrs (l : List String) : List String := l.foldr insertStr []

/-- sockets: for every socket 0‥8 (`sockId`: the TCP addresses, and the unix socket under all its
    spellings) with at least one open descriptor `socket:count:tag.tag…` -/
def showSocks (socks : List Sock) : String :=
  let parts := (List.range 9).filterMap fun a =>
    let on := socks.filter (sockId ·.addr == a)
    if on.isEmpty then none
    -- (the unix socket has no observable usage count: listenerPool counts only its first listener)
    else if a = 8 then some s!"{a}:u:{showNats (sortDedup (on.map (·.tag)))}"
    else some s!"{a}:{on.length}:{showNats (sortDedup (on.map (·.tag)))}"
  if parts.isEmpty then "-" else ",".intercalate parts

def showPool (f : Nat → Nat) : String :=
  let parts := (List.range 8).filterMap fun k => if f k = 0 then none else some s!"{k}:{f k}"
  if parts.isEmpty then "-" else ",".intercalate parts

def showInst (i : Inst) : String := s!"{i.cid}.{i.app}.{i.idx}"

def showEv : Ev → Option String
  | .prov i => some ("p" ++ showInst i)
  | .valid i => some ("v" ++ showInst i)
  | .clean i => some ("c" ++ showInst i)
  | .start c n => some s!"s{c}.{n}.0"
  | .started c n => some s!"o{c}.{n}.0"
  | .startFail c n => some s!"f{c}.{n}.0"
  | .stop c n => some s!"x{c}.{n}.0"
  | .cbReg _ => none   -- OnCancel happens inside caddy: not a probe event; its effect is
  | .cbRun _ => none   -- visible as writer closes and in the writers pool
  | .wopen k => if k = 0 then none else some s!"w{k}"   -- the stderr writer is not a probe
  | .wclose k => if k = 0 then none else some s!"W{k}"

def showEvents (es : List Ev) : String :=
  let l := sortStrs (es.filterMap showEv)
  if l.isEmpty then "-" else ",".intercalate l

end CaddyModel.Lifecycle.Proto
