/-
Lifecycle — executable model of caddy's configuration life cycle, shared by C01 and C03.
Core Lean only; structural recursion only.

Transliterates (file:function of /repo, as the code is NOW, i.e. after the `fix:` commits
554c7ed (changeConfig always restores) and dd15951 (run cancels the context on Start /
post-start failure)):

  caddy.go   changeConfig → unsyncedDecodeAndRun → run → provisionContext → (ctx.App per app)
             → start loop (+ failure handler) → finishSettingUp → swap → unsyncedStop;
             Validate; Stop
  context.go NewContext / wrappedCancel (cleanupFuncs of the PARENT value, then Cleanup of every
             entry of moduleInstances), OnCancel (appends to whatever copy it is called on),
             LoadModuleByID (apps map entry before Provision; immediate Cleanup of a module
             whose Provision / Validate failed; moduleInstances entry only on success)
  logging.go openLogs / openWriter (`writers` usage pool) / closeLogs
  modules/caddyhttp/app.go  Start binds the listeners one by one; on the first error it closes
             the ones it already bound (abortStart; former finding F2, fixed) and returns
  listeners.go / listen_unix.go  every bind is one more socket on the address (SO_REUSEPORT)
             and one more reference in listenerPool; closing drops both.

Abstract configurations: a list of apps (probe apps 0‥2, the real HTTP app = 3), each with a
list of guest modules (probe modules / HTTP handlers), listeners, and fault fields; custom logs
with probe writers. Everything Go leaves to the runtime is an explicit argument: the order in
which the `AppsRaw` map is ranged during provisioning (`pp`), the order in which `cfg.apps` is
ranged by the start loop (`ps`), which addresses cannot be bound (`blocked`), whether the
post-start step fails (`post`).
-/
namespace CaddyModel.Lifecycle

/-! ### configurations -/

/-- a guest module (probe module of a probe app, probe handler of the HTTP app, probe log writer).
    fault: 0 none · 1 unknown module name · 2 undecodable module JSON · 3 Provision fails ·
    4 Validate fails.  `key`: the usage-pool entry the module references from Provision to Cleanup
    (for a log writer: the writer key).
    A guest with `key ≥ 4` (only inside the HTTP app) is the REAL `reverse_proxy` handler with one
    upstream; `key` is its entry in reverseproxy's `hosts` pool. Its faults: 2 undecodable · 3
    Provision fails before the upstreams are set up · 4 Provision fails after that. -/
structure Mod where
  fault : Nat
  key : Nat
deriving DecidableEq, Repr

/-- an app. name 0‥2 = probe apps, 3 = the HTTP app. `tag` = what it answers on its listeners.
    fault: 0 none · 1 unknown app module · 2 undecodable app JSON · 3 own Provision fails (after
    its guest modules were loaded) · 4 own Validate fails · 5 Start fails before binding ·
    6 (HTTP app only) Start fails AFTER every listener is bound and served: certificate management
    (automaticHTTPSPhase2) cannot be started. -/
structure App where
  name : Nat
  tag : Nat
  fault : Nat
  listen : List Nat
  mods : List Mod
deriving DecidableEq, Repr

/-- top: 0 none · 1 unknown top-level field (strict decode fails) · 2 `"@id": true` (indexing
    fails) · 3 a valid `"@id"` (harmless). -/
structure Cfg where
  top : Nat
  logs : List Mod
  apps : List App
  /-- the `storage` module: `key` 0 = none configured (caddy.DefaultStorage), 1‥3 = a probe storage
      module with that identity; `fault` as for a guest module -/
  stor : Mod := ⟨0, 0⟩
deriving DecidableEq, Repr

def App.isHttp (a : App) : Bool := a.name == 3

/-! ### run-time things -/

/-- a module instance. `seq` is its identity: the number of the `modInfo.New()` call that created
    it (what a pointer is in Go) — unique by construction. The rest is a label, which is what the
    probes print: (context number, app name, position: 0 = the app itself, j+1 = j-th guest).
    Pseudo apps: 100 = log writers, 101 = the config loader loaded by finishSettingUp. -/
structure Inst where
  seq : Nat
  cid : Nat
  app : Nat
  idx : Nat
deriving DecidableEq, Repr

inductive Ev
  | prov (i : Inst)       -- Provision entered
  | valid (i : Inst)      -- Validate entered
  | clean (i : Inst)      -- Cleanup called
  | start (cid name : Nat)      -- Start of app `name` of context `cid` entered
  | started (cid name : Nat)    -- … returned nil
  | startFail (cid name : Nat)  -- … returned an error
  | stop (cid name : Nat)       -- Stop called
  | cbReg (cid : Nat)     -- OnCancel(closeLogs) called for context cid
  | cbRun (cid : Nat)     -- that callback invoked
  | wopen (k : Nat)       -- log writer k opened (writers pool 0 → 1)
  | wclose (k : Nat)      -- log writer k closed (writers pool 1 → 0)
deriving DecidableEq, Repr

/-- one bound socket: address, the tag it answers with, owning context and app -/
structure Sock where
  addr : Nat
  tag : Nat
  cid : Nat
  app : Nat
deriving DecidableEq, Repr

/-- Listen tokens and the sockets they name. Tokens 0‥7 are TCP addresses, each its own socket.
    Tokens 8, 9, 10 are ONE unix socket path written without permission bits, with `|0600` and
    with `|0660`: the bits say how the socket FILE is chmod'ed, they are not part of the socket's
    identity — NetworkAddress.listen (listeners.go) splits them off (SplitUnixSocketPermissionsBits)
    BEFORE it computes the key under which the socket is tracked in listenerPool / unixSockets,
    so a config that names a socket another config has open, under whatever spelling, shares it
    (reuseUnixSocket) instead of unlinking it. -/
def sockId (t : Nat) : Nat := if t < 8 then t else 8

/-- an entry of `ctx.moduleInstances` (only CleanerUppers matter) with the pool key it holds -/
structure Live where
  inst : Inst
  key : Option Nat
  quiet : Bool        -- a real (non-probe) module: its Cleanup is not a probe event
deriving DecidableEq, Repr

def Mod.isRp (m : Mod) : Bool := decide (4 ≤ m.key)

/-- a context: its number, `cfg.apps`, `moduleInstances`, the writer keys of its Logging, and the
    `cleanupFuncs` slice that its cancel function ranges over (entries = "closeLogs") -/
structure Ctx where
  cid : Nat
  apps : List App
  live : List Live
  wkeys : List Nat
  cbs : List Nat
  stor : Nat := 0     -- cfg.storage (0 = caddy.DefaultStorage)
deriving DecidableEq, Repr

structure State where
  raw : Option Cfg        -- rawCfg["config"]: what GET /config/ returns
  rawJSON : Option Cfg    -- rawCfgJSON: the last configuration that was accepted
  cur : Option Ctx        -- currentCtx
  socks : List Sock       -- every socket caddy has open (listenerPool count of a = #socks on a)
  mpool : Nat → Nat       -- usage pool referenced by guest modules (Provision +1, Cleanup −1)
  writers : Nat → Nat     -- logging.go `writers` usage pool
  events : List Ev        -- module events (Provision / Validate / Cleanup, writers, callbacks)
  aevents : List Ev       -- app events (Start / Stop), kept apart: different identity, different proofs
  next : Nat              -- number of operations so far = number of the next context
  nseq : Nat              -- number of module instances created so far
  dstor : Nat := 0        -- certmagic.Default.Storage (process-global; 0 = caddy.DefaultStorage)
  dlogger : Nat := 0      -- whose default log is the process-wide default logger (caddy.Log()):
                          -- context number + 1; 0 = the logger the process started with

def State.init : State :=
  { raw := none, rawJSON := none, cur := none, socks := [], mpool := fun _ => 0,
    writers := fun _ => 0, events := [], aevents := [], next := 0, nseq := 0 }

/-- per-attempt environment -/
structure Env where
  force : Bool          -- forceReload
  post : Bool           -- the post-start step (finishSettingUp) fails
  adm : Nat             -- admin endpoint: 0 disabled · 1 enabled (private unix socket) · 2 enabled and
                        -- provisioning the admin routers (an `admin.api` module) fails
  blocked : List Nat    -- addresses somebody else holds without SO_REUSEPORT
  pp : List Nat         -- app names in the order provisionContext ranges AppsRaw
  ps : List Nat         -- app names in the order the start loop ranges cfg.apps
deriving DecidableEq, Repr

inductive Res
  | ok | same
  | errBody | errPath | errIndex | errDecode
  | errUnknown | errModDecode | errProvision | errValidate
  | errStart | errPost | errAdmin
deriving DecidableEq, Repr

def Res.accepted : Res → Bool
  | .ok => true
  | .same => true
  | _ => false

/-! ### small helpers -/

def incr (f : Nat → Nat) (k : Nat) : Nat → Nat := fun x => if x = k then f x + 1 else f x
/-- UsagePool.Delete: absent key is a no-op -/
def decr (f : Nat → Nat) (k : Nat) : Nat → Nat := fun x => if x = k then f x - 1 else f x

def ev (s : State) (es : List Ev) : State := { s with events := s.events ++ es }

def evA (s : State) (es : List Ev) : State := { s with aevents := s.aevents ++ es }

/-- `modInfo.New()`: one more module instance exists -/
def alloc (s : State) : State := { s with nseq := s.nseq + 1 }

def takeApp (n : Nat) : List App → Option (App × List App)
  | [] => none
  | a :: rest =>
    if a.name = n then some (a, rest)
    else match takeApp n rest with
      | some (b, rest') => some (b, a :: rest')
      | none => none

/-- the order in which a Go map with these apps is ranged, as dictated by the name list `π`
    (names not in the map are skipped, apps not named come last): always a permutation -/
def order : List Nat → List App → List App
  | [], rest => rest
  | n :: ns, rest =>
    match takeApp n rest with
    | some (a, rest') => a :: order ns rest'
    | none => order ns rest

/-! ### LoadModuleByID -/

/-- failure classes of LoadModuleByID by fault number -/
def faultRes : Nat → Res
  | 1 => .errUnknown
  | 2 => .errModDecode
  | 3 => .errProvision
  | 4 => .errValidate
  | _ => .errProvision

/-- LoadModuleByID of a guest module, from `modInfo.New()` on; `i` is the new instance -/
def loadModAt (i : Inst) (m : Mod) (s : State) (live : List Live) : State × List Live × Option Res :=
  if m.isRp then
    -- reverseproxy.Handler: Provision takes one `hosts` reference per upstream (provisionUpstream,
    -- reverseproxy.go:351) if it gets that far; since fix d6561d4 Cleanup (called by
    -- LoadModuleByID when Provision failed) releases only the upstreams whose Host was set, so
    -- an EARLY failure (fault 3) releases nothing; a late one (fault 4) gives back what it took.
    if m.fault = 3 then (s, live, some .errProvision)
    else if m.fault = 4 then ({ s with mpool := decr (incr s.mpool m.key) m.key }, live, some .errModDecode)
    else ({ s with mpool := incr s.mpool m.key }, live ++ [⟨i, some m.key, true⟩], none)
  else if m.fault = 3 then
    -- Provision took its reference and failed: immediate Cleanup, not recorded in moduleInstances
    (ev { s with mpool := decr (incr s.mpool m.key) m.key } [.prov i, .clean i], live, some .errProvision)
  else if m.fault = 4 then
    (ev { s with mpool := decr (incr s.mpool m.key) m.key } [.prov i, .valid i, .clean i], live, some .errValidate)
  else
    (ev { s with mpool := incr s.mpool m.key } [.prov i, .valid i], live ++ [⟨i, some m.key, false⟩], none)

/-- LoadModuleByID of a guest module holding pool entry `key` (context.go:355-449) -/
def loadMod (cid app idx : Nat) (m : Mod) (s : State) (live : List Live) : State × List Live × Option Res :=
  if m.fault = 1 ∨ m.fault = 2 then (s, live, some (faultRes m.fault))
  else loadModAt ⟨s.nseq, cid, app, idx⟩ m (alloc s) live

/-- ctx.LoadModule on a `[]json.RawMessage` field: in order, stop at the first error -/
def loadMods (cid app : Nat) : Nat → List Mod → State → List Live → State × List Live × Option Res
  | _, [], s, live => (s, live, none)
  | idx, m :: ms, s, live =>
    match loadMod cid app idx m s live with
    | (s', live', none) => loadMods cid app (idx + 1) ms s' live'
    | (s', live', some r) => (s', live', some r)

/-- ctx.App(name) → LoadModuleByID(name, raw) for one app.
    Probe app: Provision loads the guest modules, then may fail itself; then Validate.
    HTTP app: Provision loads the handlers (the app itself is not a CleanerUpper and is not a
    probe, so it produces no events); Validate rejects a repeated listener address. -/
def loadProbeAppAt (i : Inst) (a : App) (s : State) (live : List Live) : State × List Live × Option Res :=
  match loadMods i.cid a.name 1 a.mods (ev s [.prov i]) live with
  | (s', live', some r) => (ev s' [.clean i], live', some r)
  | (s', live', none) =>
    if a.fault = 3 then (ev s' [.clean i], live', some .errProvision)
    else if a.fault = 4 then (ev s' [.valid i, .clean i], live', some .errValidate)
    else (ev s' [.valid i], live' ++ [⟨i, none, false⟩], none)

def loadApp (cid : Nat) (a : App) (s : State) (live : List Live) : State × List Live × Option Res :=
  -- fault 7 (HTTP app only): the `listen_protocols` entry of its first listener enables h2c without
  -- h1. App.Provision checks every LISTENER's protocol list (C01/ListenProtocols.lean) and refuses
  -- before it provisions a single route — nothing of the app exists yet, as with a decode error.
  if a.fault = 1 ∨ a.fault = 2 ∨ a.fault = 7 then (s, live, some (faultRes a.fault))
  else if a.isHttp then
    match loadMods cid a.name 1 a.mods s live with
    | (s', live', some r) => (s', live', some r)
    | (s', live', none) =>
      if a.listen.Nodup then (s', live', none) else (s', live', some .errValidate)
  else loadProbeAppAt ⟨s.nseq, cid, a.name, 0⟩ a (alloc s) live

/-- provisionContext's loop over AppsRaw (caddy.go:574-581) -/
def loadApps (cid : Nat) : List App → State → List Live → State × List Live × Option Res
  | [], s, live => (s, live, none)
  | a :: rest, s, live =>
    match loadApp cid a s live with
    | (s', live', none) => loadApps cid rest s' live'
    | (s', live', some r) => (s', live', some r)

/-! ### logging -/

/-- `ctx.OnCancel(f)` as openLogs calls it: `ctx` is a by-value copy of the context, so the
    append lands in the copy; the slice the cancel function ranges over is unchanged (finding F4) -/
def onCancelOnCopy (parentCbs : List Nat) (_f : Nat) : List Nat := parentCbs

/-- logging.openWriter: writers.LoadOrNew(key) -/
def openWriter (k : Nat) (s : State) : State :=
  if s.writers k = 0 then ev { s with writers := incr s.writers k } [.wopen k]
  else { s with writers := incr s.writers k }

/-- CustomLog.provision for one custom log with a probe writer module: load the module, then
    open its writer -/
def openLogAt (i : Inst) (m : Mod) (s : State) (live : List Live) (wk : List Nat) :
    State × List Live × List Nat × Option Res :=
  if m.fault = 3 then (ev s [.prov i, .clean i], live, wk, some .errProvision)
  else if m.fault = 4 then (ev s [.prov i, .valid i, .clean i], live, wk, some .errValidate)
  else (openWriter m.key (ev s [.prov i, .valid i]), live ++ [⟨i, none, false⟩], wk ++ [m.key], none)

def openLog (cid idx : Nat) (m : Mod) (s : State) (live : List Live) (wk : List Nat) :
    State × List Live × List Nat × Option Res :=
  if m.fault = 1 ∨ m.fault = 2 then (s, live, wk, some (faultRes m.fault))
  else openLogAt ⟨s.nseq, cid, 100, idx⟩ m (alloc s) live wk

def openLogsFrom (cid : Nat) : Nat → List Mod → State → List Live → List Nat →
    State × List Live × List Nat × Option Res
  | _, [], s, live, wk => (s, live, wk, none)
  | idx, m :: ms, s, live, wk =>
    match openLog cid idx m s live wk with
    | (s', live', wk', none) => openLogsFrom cid (idx + 1) ms s' live' wk'
    | (s', live', wk', some r) => (s', live', wk', some r)

/-- Logging.openLogs: register closeLogs (on a copy), set up the default log (stderr writer, key 0)
    and make it the process-wide default logger (setupNewDefault — before anything else of the
    configuration is provisioned), then the custom logs -/
def openLogs (cid : Nat) (logs : List Mod) (s : State) : State × List Live × List Nat × Option Res :=
  openLogsFrom cid 0 logs { openWriter 0 (ev s [.cbReg cid]) with dlogger := cid + 1 } [] [0]

/-- Logging.closeLogs: writers.Delete for every key this Logging opened -/
def closeLogs : List Nat → State → State
  | [], s => s
  | k :: ks, s =>
    if s.writers k = 1 then closeLogs ks (ev { s with writers := decr s.writers k } [.wclose k])
    else closeLogs ks { s with writers := decr s.writers k }

/-! ### storage -/

/-- LoadModuleByID of the storage module (pseudo app 102), from `New()` on -/
def loadStorAt (i : Inst) (m : Mod) (s : State) (live : List Live) : State × List Live × Option Res :=
  if m.fault = 3 then (ev s [.prov i, .clean i], live, some .errProvision)
  else if m.fault = 4 then (ev s [.prov i, .valid i, .clean i], live, some .errValidate)
  else (ev s [.prov i, .valid i], live ++ [⟨i, none, false⟩], none)

/-- provisionContext's storage step (caddy.go:549-571): load the storage module if one is
    configured, then make the config's storage CertMagic's default storage -/
def setStorage (cid : Nat) (m : Mod) (s : State) (live : List Live) : State × List Live × Option Res :=
  if m.key = 0 then ({ s with dstor := 0 }, live, none)
  else if m.fault = 1 ∨ m.fault = 2 then (s, live, some (faultRes m.fault))
  else
    match loadStorAt ⟨s.nseq, cid, 102, 0⟩ m (alloc s) live with
    | (s', live', none) => ({ s' with dstor := m.key }, live', none)
    | (s', live', some r) => (s', live', some r)

/-- the rollback of the process-wide defaults, wherever a configuration that was provisioned turns
    out not to be used: restoreDefaultStorage (caddy.go, since fix e4caa40) — the storage of the
    configuration that is running, or caddy's DefaultStorage if none is — and
    Logging.restoreDefaultLogger (logging.go) — the default logger that was in place before this
    configuration's logging was set up (`prev`). -/
def restoreStorage (prev : Nat) (s : State) : State :=
  match s.cur with
  | some ctx => { s with dstor := ctx.stor, dlogger := prev }
  | none => { s with dstor := 0, dlogger := prev }

/-- the rollback BEFORE the default-logger fix: the storage only -/
def restoreStorageL (s : State) : State :=
  match s.cur with
  | some ctx => { s with dstor := ctx.stor }
  | none => { s with dstor := 0 }

/-- what the rollback did BEFORE fix e4caa40: only in provisionContext's own deferred function, and
    only if some configuration was current -/
def restoreStorageOld (s : State) : State :=
  match s.cur with
  | some ctx => { s with dstor := ctx.stor }
  | none => s

/-! ### cancel -/

/-- the Cleanup of one loaded module: releases its pool reference (if it holds one) -/
def cleanupOne (l : Live) (s : State) : State :=
  match l.key with
  | some k => ev { s with mpool := decr s.mpool k } (if l.quiet then [] else [.clean l.inst])
  | none => ev s (if l.quiet then [] else [.clean l.inst])

def cleanupAll : List Live → State → State
  | [], s => s
  | l :: ls, s => cleanupAll ls (cleanupOne l s)

/-- the cancel function made by NewContext (context.go:66-83): the registered callbacks, then
    Cleanup of every loaded module -/
def cancel (cid : Nat) (cbs : List Nat) (wkeys : List Nat) (live : List Live) (s : State) : State :=
  cleanupAll live (if cbs.isEmpty then s else closeLogs wkeys (ev s [.cbRun cid]))

/-! ### Start / Stop -/

/-- a bind fails iff somebody else holds the address without SO_REUSEPORT, which is impossible
    while caddy itself has a socket on it -/
def isBlocked (blocked : List Nat) (socks : List Sock) (a : Nat) : Bool :=
  blocked.contains a && !(socks.any (fun k => k.addr == a))

/-- bind the listeners one by one; stop at the first failure, leaving the earlier ones bound -/
def bindAll (cid : Nat) (a : App) (blocked : List Nat) : List Nat → State → State × Bool
  | [], s => (s, true)
  | ad :: rest, s =>
    if isBlocked blocked s.socks ad then (s, false)
    else bindAll cid a blocked rest { s with socks := s.socks ++ [⟨ad, a.tag, cid, a.name⟩] }

/-- close every socket app `name` of context `cid` holds -/
def closeApp (cid name : Nat) (s : State) : State :=
  { s with socks := s.socks.filter (fun k => !(k.cid == cid && k.app == name)) }

/-- App.Start. Both kinds of app release what they bound before reporting a failure: the probe
    apps by construction, the HTTP app (modules/caddyhttp/app.go) since the fix that made Start
    call abortStart — it closes the servers it has started, and with them every listener it has
    bound so far. (`startAppOld` below is the HTTP app's Start before that fix.) -/
def startApp (cid : Nat) (blocked : List Nat) (a : App) (s : State) : State × Bool :=
  if a.isHttp then
    -- start(): bind and serve every listener, then automaticHTTPSPhase2 (certificate management;
    -- fault 6 = it fails, with every listener already up); Start aborts on ANY error of start()
    match bindAll cid a blocked a.listen s with
    | (s', true) => if a.fault = 6 then (closeApp cid a.name s', false) else (s', true)
    | (s', false) => (closeApp cid a.name s', false)
  else if a.fault = 5 then (evA s [.start cid a.name, .startFail cid a.name], false)
  else
    match bindAll cid a blocked a.listen (evA s [.start cid a.name]) with
    | (s', true) => (evA s' [.started cid a.name], true)
    | (s', false) => (evA (closeApp cid a.name s') [.startFail cid a.name], false)

/-- the HTTP app's Start BEFORE the fix: it returned the bind error of its k-th listener without
    closing listeners 1‥k-1, which stayed bound and serving (former finding F2). Kept for the
    non-vacuity theorem `load_atomic_old_code_fails`. -/
def startAppOld (cid : Nat) (blocked : List Nat) (a : App) (s : State) : State × Bool :=
  if a.isHttp then bindAll cid a blocked a.listen s else startApp cid blocked a s

def stopApp (cid : Nat) (a : App) (s : State) : State :=
  if a.isHttp then closeApp cid a.name s
  else evA (closeApp cid a.name s) [.stop cid a.name]

def stopApps (cid : Nat) : List App → State → State
  | [], s => s
  | a :: rest, s => stopApps cid rest (stopApp cid a s)

/-- the start loop of run (caddy.go:435-454): on the first failing Start, Stop the apps that had
    started (not the failing one) -/
def startApps (cid : Nat) (blocked : List Nat) : List App → List App → State → State × Bool
  | _, [], s => (s, true)
  | started, a :: rest, s =>
    match startApp cid blocked a s with
    | (s', true) => startApps cid blocked (started ++ [a]) rest s'
    | (s', false) => (stopApps cid started s', false)

/-- unsyncedStop (caddy.go:725-743) -/
def unsyncedStop (c : Option Ctx) (s : State) : State :=
  match c with
  | none => s
  | some ctx => cancel ctx.cid ctx.cbs ctx.wkeys ctx.live (stopApps ctx.cid ctx.apps s)

/-! ### run -/

/-- provisionContext (caddy.go:486-583). NewContext is called with a parent whose cleanupFuncs
    is empty; openLogs registers closeLogs on a copy. On error the deferred function cancels. -/
def provisionContext (cid : Nat) (c : Cfg) (pp : List Nat) (s : State) : State × Option Ctx × Option Res :=
  match openLogs cid c.logs s with
  | (s1, live1, wk, some r) => (restoreStorage s.dlogger (cancel cid (onCancelOnCopy [] 0) wk live1 s1), none, some r)
  | (s1, live1, wk, none) =>
    match setStorage cid c.stor s1 live1 with
    | (s1', live1', some r) => (restoreStorage s.dlogger (cancel cid (onCancelOnCopy [] 0) wk live1' s1'), none, some r)
    | (s1', live1', none) =>
    match loadApps cid (order pp c.apps) s1' live1' with
    | (s2, live2, some r) => (restoreStorage s.dlogger (cancel cid (onCancelOnCopy [] 0) wk live2 s2), none, some r)
    | (s2, live2, none) => (s2, some ⟨cid, c.apps, live2, wk, onCancelOnCopy [] 0, s2.dstor⟩, none)

/-- finishSettingUp: load the config loader module (pseudo app 101) -/
def finishSettingUpAt (i : Inst) (ctx : Ctx) (post : Bool) (s : State) : State × Ctx × Bool :=
  if post then (ev s [.prov i, .clean i], ctx, false)
  else (ev s [.prov i], { ctx with live := ctx.live ++ [⟨i, none, false⟩] }, true)

def finishSettingUp (ctx : Ctx) (post : Bool) (s : State) : State × Ctx × Bool :=
  finishSettingUpAt ⟨s.nseq, ctx.cid, 101, 0⟩ ctx post (alloc s)

/-- run(newCfg, start = true) (caddy.go:414-479) -/
def run (cid : Nat) (c : Cfg) (e : Env) (s : State) : State × Option Ctx × Res :=
  match provisionContext cid c e.pp s with
  | (s1, _, some r) => (s1, none, r)
  | (s1, none, none) => (s1, none, .errProvision)   -- unreachable
  | (s1, some ctx, none) =>
    -- ctx.cfg.Admin.provisionAdminRouters(ctx) (caddy.go:427-432): on error cancel, nothing started
    if e.adm = 2 then (restoreStorage s.dlogger (cancel cid ctx.cbs ctx.wkeys ctx.live s1), none, .errAdmin) else
    match startApps cid e.blocked [] (order e.ps ctx.apps) s1 with
    | (s2, false) => (restoreStorage s.dlogger (cancel cid ctx.cbs ctx.wkeys ctx.live s2), none, .errStart)
    | (s2, true) =>
      match finishSettingUp ctx e.post s2 with
      | (s3, ctx', false) => (restoreStorage s.dlogger (unsyncedStop (some ctx') s3), none, .errPost)
      | (s3, ctx', true) => (s3, some ctx', .ok)

/-! #### the same BEFORE fix e4caa40 (kept for the non-vacuity theorem `default_storage_old_code_fails`):
only provisionContext's deferred function restored the default storage, and only if a
configuration was current; run's later failure paths and Validate did not -/

def provisionContextOld (cid : Nat) (c : Cfg) (pp : List Nat) (s : State) : State × Option Ctx × Option Res :=
  match openLogs cid c.logs s with
  | (s1, live1, wk, some r) => (restoreStorageOld (cancel cid (onCancelOnCopy [] 0) wk live1 s1), none, some r)
  | (s1, live1, wk, none) =>
    match setStorage cid c.stor s1 live1 with
    | (s1', live1', some r) => (restoreStorageOld (cancel cid (onCancelOnCopy [] 0) wk live1' s1'), none, some r)
    | (s1', live1', none) =>
    match loadApps cid (order pp c.apps) s1' live1' with
    | (s2, live2, some r) => (restoreStorageOld (cancel cid (onCancelOnCopy [] 0) wk live2 s2), none, some r)
    | (s2, live2, none) => (s2, some ⟨cid, c.apps, live2, wk, onCancelOnCopy [] 0, s2.dstor⟩, none)

def runOld (cid : Nat) (c : Cfg) (e : Env) (s : State) : State × Option Ctx × Res :=
  match provisionContextOld cid c e.pp s with
  | (s1, _, some r) => (s1, none, r)
  | (s1, none, none) => (s1, none, .errProvision)
  | (s1, some ctx, none) =>
    if e.adm = 2 then (cancel cid ctx.cbs ctx.wkeys ctx.live s1, none, .errAdmin) else
    match startApps cid e.blocked [] (order e.ps ctx.apps) s1 with
    | (s2, false) => (cancel cid ctx.cbs ctx.wkeys ctx.live s2, none, .errStart)
    | (s2, true) =>
      match finishSettingUp ctx e.post s2 with
      | (s3, ctx', false) => (unsyncedStop (some ctx') s3, none, .errPost)
      | (s3, ctx', true) => (s3, some ctx', .ok)

def validateOld (c : Cfg) (e : Env) (s : State) : State × Res :=
  match provisionContextOld s.next c e.pp s with
  | (s1, _, some r) => (s1, r)
  | (s1, none, none) => (s1, .errProvision)
  | (s1, some ctx, none) => (cancel ctx.cid ctx.cbs ctx.wkeys ctx.live s1, .ok)

/-! #### the same BEFORE the default-logger fix (kept for `default_logger_old_code_fails`): the
rollbacks put the default storage back but not the default logger -/

def provisionContextL (cid : Nat) (c : Cfg) (pp : List Nat) (s : State) : State × Option Ctx × Option Res :=
  match openLogs cid c.logs s with
  | (s1, live1, wk, some r) => (restoreStorageL (cancel cid (onCancelOnCopy [] 0) wk live1 s1), none, some r)
  | (s1, live1, wk, none) =>
    match setStorage cid c.stor s1 live1 with
    | (s1', live1', some r) => (restoreStorageL (cancel cid (onCancelOnCopy [] 0) wk live1' s1'), none, some r)
    | (s1', live1', none) =>
    match loadApps cid (order pp c.apps) s1' live1' with
    | (s2, live2, some r) => (restoreStorageL (cancel cid (onCancelOnCopy [] 0) wk live2 s2), none, some r)
    | (s2, live2, none) => (s2, some ⟨cid, c.apps, live2, wk, onCancelOnCopy [] 0, s2.dstor⟩, none)

def runL (cid : Nat) (c : Cfg) (e : Env) (s : State) : State × Option Ctx × Res :=
  match provisionContextL cid c e.pp s with
  | (s1, _, some r) => (s1, none, r)
  | (s1, none, none) => (s1, none, .errProvision)
  | (s1, some ctx, none) =>
    if e.adm = 2 then (restoreStorageL (cancel cid ctx.cbs ctx.wkeys ctx.live s1), none, .errAdmin) else
    match startApps cid e.blocked [] (order e.ps ctx.apps) s1 with
    | (s2, false) => (restoreStorageL (cancel cid ctx.cbs ctx.wkeys ctx.live s2), none, .errStart)
    | (s2, true) =>
      match finishSettingUp ctx e.post s2 with
      | (s3, ctx', false) => (restoreStorageL (unsyncedStop (some ctx') s3), none, .errPost)
      | (s3, ctx', true) => (s3, some ctx', .ok)

def validateL (c : Cfg) (e : Env) (s : State) : State × Res :=
  match provisionContextL s.next c e.pp s with
  | (s1, _, some r) => (s1, r)
  | (s1, none, none) => (s1, .errProvision)
  | (s1, some ctx, none) => (restoreStorageL (cancel ctx.cid ctx.cbs ctx.wkeys ctx.live s1), .ok)

/-- unsyncedDecodeAndRun (caddy.go:325-398) -/
def decodeAndRun (cid : Nat) (c : Cfg) (e : Env) (s : State) : State × Res :=
  if c.top = 1 then (s, .errDecode)
  else
    match run cid c e s with
    | (s1, some ctx, .ok) => (unsyncedStop s.cur { s1 with cur := some ctx }, .ok)
    | (s1, _, r) => (s1, r)

/-- the tail of changeConfig once the raw tree has been mutated to `c` (caddy.go:208-268) -/
def changeTo (c : Cfg) (e : Env) (s : State) : State × Res :=
  if !e.force && s.rawJSON = some c then ({ s with raw := some c }, .same)
  else if c.top = 2 then ({ s with raw := s.rawJSON }, .errIndex)
  else
    match decodeAndRun s.next c e { s with raw := some c } with
    | (s1, .ok) => ({ s1 with rawJSON := some c }, .ok)
    | (s1, r) => ({ s1 with raw := s.rawJSON }, r)

/-! ### operations -/

def replaceApp (a : App) : List App → Option (List App)
  | [] => none
  | b :: rest =>
    if b.name = a.name then some (a :: rest)
    else match replaceApp a rest with
      | some r => some (b :: r)
      | none => none

def removeApp (n : Nat) : List App → Option (List App)
  | [] => none
  | b :: rest =>
    if b.name = n then some rest
    else match removeApp n rest with
      | some r => some (b :: r)
      | none => none

inductive Op
  | load (c : Cfg) (e : Env)       -- POST /config/ (or caddy.Load when e.force)
  | patch (a : App) (e : Env)      -- PATCH /config/apps/<name>
  | del (n : Nat) (e : Env)        -- DELETE /config/apps/<name>
  | junk                           -- POST /config/ with a body that is not JSON
  | validate (c : Cfg) (e : Env)   -- caddy.Validate
  | stop                           -- caddy.Stop
deriving DecidableEq, Repr

/-- caddy.Validate: run(cfg, start = false), cancel on success and put the default storage back;
    the raw tree is not involved -/
def validate (c : Cfg) (e : Env) (s : State) : State × Res :=
  match provisionContext s.next c e.pp s with
  | (s1, _, some r) => (s1, r)
  | (s1, none, none) => (s1, .errProvision)
  | (s1, some ctx, none) => (restoreStorage s.dlogger (cancel ctx.cid ctx.cbs ctx.wkeys ctx.live s1), .ok)

def bump (p : State × Res) : State × Res := ({ p.1 with next := p.1.next + 1 }, p.2)

def step (s : State) : Op → State × Res
  | .load c e => bump (changeTo c e s)
  | .patch a e =>
    match s.raw with
    | none => bump (s, .errPath)
    | some c =>
      match replaceApp a c.apps with
      | none => bump (s, .errPath)
      | some apps => bump (changeTo { c with apps := apps } e s)
  | .del n e =>
    match s.raw with
    | none => bump (s, .errPath)
    | some c =>
      match removeApp n c.apps with
      | none => bump (s, .errPath)
      | some apps => bump (changeTo { c with apps := apps } e s)
  | .junk => bump (s, .errBody)
  | .validate c e => bump (validate c e s)
  | .stop => bump ({ unsyncedStop s.cur s with cur := none, raw := none, rawJSON := none }, .ok)

def runOps : State → List Op → State
  | s, [] => s
  | s, o :: os => runOps (step s o).1 os

/-- the results and states after every operation (what the driver prints) -/
def trace : State → List Op → List (Res × State)
  | _, [] => []
  | s, o :: os => ((step s o).2, (step s o).1) :: trace (step s o).1 os

end CaddyModel.Lifecycle
