/-
C01 — helper lemmas (frame properties of the phases, socket bookkeeping of the start loop).
-/
import CaddyModel.C01.Spec

namespace CaddyModel.C01
open CaddyModel.Lifecycle

/-! ### frame: phases that touch neither the raw tree, the current context, the counter nor sockets -/

structure Frame (s s' : State) : Prop where
  raw : s'.raw = s.raw
  rawJSON : s'.rawJSON = s.rawJSON
  cur : s'.cur = s.cur
  next : s'.next = s.next
  socks : s'.socks = s.socks

theorem Frame.rfl' (s : State) : Frame s s := ⟨rfl, rfl, rfl, rfl, rfl⟩

theorem Frame.trans {a b c : State} (h1 : Frame a b) (h2 : Frame b c) : Frame a c :=
  ⟨h2.raw.trans h1.raw, h2.rawJSON.trans h1.rawJSON, h2.cur.trans h1.cur, h2.next.trans h1.next,
   h2.socks.trans h1.socks⟩

theorem frame_ev (s : State) (es : List Ev) : Frame s (ev s es) := ⟨rfl, rfl, rfl, rfl, rfl⟩

theorem loadMod_frame (i : Inst) (m : Mod) (s : State) (live : List Live) :
    Frame s (loadMod i m s live).1 := by
  unfold loadMod
  split
  · exact Frame.rfl' s
  · split
    · exact ⟨rfl, rfl, rfl, rfl, rfl⟩
    · split <;> exact ⟨rfl, rfl, rfl, rfl, rfl⟩

theorem loadMods_frame (cid app : Nat) : ∀ (ms : List Mod) (idx : Nat) (s : State) (live : List Live),
    Frame s (loadMods cid app idx ms s live).1
  | [], _, s, _ => Frame.rfl' s
  | m :: ms, idx, s, live => by
    unfold loadMods
    have h := loadMod_frame ⟨cid, app, idx⟩ m s live
    generalize loadMod ⟨cid, app, idx⟩ m s live = r at h
    obtain ⟨s', live', o⟩ := r
    cases o with
    | none => exact h.trans (loadMods_frame cid app ms (idx + 1) s' live')
    | some r => exact h

theorem loadApp_frame (cid : Nat) (a : App) (s : State) (live : List Live) :
    Frame s (loadApp cid a s live).1 := by
  unfold loadApp
  split
  · exact Frame.rfl' s
  · split
    · have h := loadMods_frame cid a.name a.mods 1 s live
      generalize loadMods cid a.name 1 a.mods s live = r at h
      obtain ⟨s', live', o⟩ := r
      cases o with
      | none => dsimp only; split <;> exact h
      | some r => exact h
    · have h := (frame_ev s [.prov ⟨cid, a.name, 0⟩]).trans
        (loadMods_frame cid a.name a.mods 1 (ev s [.prov ⟨cid, a.name, 0⟩]) live)
      generalize loadMods cid a.name 1 a.mods (ev s [.prov ⟨cid, a.name, 0⟩]) live = r at h
      obtain ⟨s', live', o⟩ := r
      cases o with
      | none =>
        dsimp only
        split
        · exact h.trans (frame_ev _ _)
        · split <;> exact h.trans (frame_ev _ _)
      | some r => exact h.trans (frame_ev _ _)

theorem loadApps_frame (cid : Nat) : ∀ (as : List App) (s : State) (live : List Live),
    Frame s (loadApps cid as s live).1
  | [], s, _ => Frame.rfl' s
  | a :: as, s, live => by
    unfold loadApps
    have h := loadApp_frame cid a s live
    generalize loadApp cid a s live = r at h
    obtain ⟨s', live', o⟩ := r
    cases o with
    | none => exact h.trans (loadApps_frame cid as s' live')
    | some r => exact h

theorem openWriter_frame (k : Nat) (s : State) : Frame s (openWriter k s) := by
  unfold openWriter; split <;> exact ⟨rfl, rfl, rfl, rfl, rfl⟩

theorem openLog_frame (i : Inst) (m : Mod) (s : State) (live : List Live) (wk : List Nat) :
    Frame s (openLog i m s live wk).1 := by
  unfold openLog
  split
  · exact Frame.rfl' s
  · split
    · exact frame_ev _ _
    · split
      · exact frame_ev _ _
      · exact (frame_ev _ _).trans (openWriter_frame _ _)

theorem openLogsFrom_frame (cid : Nat) : ∀ (ms : List Mod) (idx : Nat) (s : State) (live : List Live)
    (wk : List Nat), Frame s (openLogsFrom cid idx ms s live wk).1
  | [], _, s, _, _ => Frame.rfl' s
  | m :: ms, idx, s, live, wk => by
    unfold openLogsFrom
    have h := openLog_frame ⟨cid, 100, idx⟩ m s live wk
    generalize openLog ⟨cid, 100, idx⟩ m s live wk = r at h
    obtain ⟨s', live', wk', o⟩ := r
    cases o with
    | none => exact h.trans (openLogsFrom_frame cid ms (idx + 1) s' live' wk')
    | some r => exact h

theorem openLogs_frame (cid : Nat) (logs : List Mod) (s : State) : Frame s (openLogs cid logs s).1 :=
  ((frame_ev _ _).trans (openWriter_frame _ _)).trans (openLogsFrom_frame cid logs 0 _ _ _)

theorem closeLogs_frame : ∀ (ks : List Nat) (s : State), Frame s (closeLogs ks s)
  | [], s => Frame.rfl' s
  | k :: ks, s => by
    unfold closeLogs
    split
    · refine Frame.trans ?_ (closeLogs_frame ks _); exact ⟨rfl, rfl, rfl, rfl, rfl⟩
    · refine Frame.trans ?_ (closeLogs_frame ks _); exact ⟨rfl, rfl, rfl, rfl, rfl⟩

theorem cleanupAll_frame : ∀ (ls : List Live) (s : State), Frame s (cleanupAll ls s)
  | [], s => Frame.rfl' s
  | l :: ls, s => by
    unfold cleanupAll
    split
    · refine Frame.trans ?_ (cleanupAll_frame ls _); exact ⟨rfl, rfl, rfl, rfl, rfl⟩
    · refine Frame.trans ?_ (cleanupAll_frame ls _); exact ⟨rfl, rfl, rfl, rfl, rfl⟩

theorem cancel_frame (cid : Nat) (cbs wk : List Nat) (live : List Live) (s : State) :
    Frame s (cancel cid cbs wk live s) := by
  unfold cancel
  split
  · exact cleanupAll_frame _ _
  · exact ((frame_ev _ _).trans (closeLogs_frame _ _)).trans (cleanupAll_frame _ _)

theorem provisionContext_frame (cid : Nat) (c : Cfg) (pp : List Nat) (s : State) :
    Frame s (provisionContext cid c pp s).1 := by
  unfold provisionContext
  have h1 := openLogs_frame cid c.logs s
  generalize openLogs cid c.logs s = r1 at h1
  obtain ⟨s1, live1, wk, o1⟩ := r1
  cases o1 with
  | some r => exact h1.trans (cancel_frame _ _ _ _ _)
  | none =>
    dsimp only
    have h2 := loadApps_frame cid (order pp c.apps) s1 live1
    generalize loadApps cid (order pp c.apps) s1 live1 = r2 at h2
    obtain ⟨s2, live2, o2⟩ := r2
    cases o2 with
    | some r => exact (h1.trans h2).trans (cancel_frame _ _ _ _ _)
    | none => exact h1.trans h2

/-- the context provisionContext returns on success is for `cid` and holds the config's apps -/
theorem provisionContext_ctx (cid : Nat) (c : Cfg) (pp : List Nat) (s : State) (s1 : State) (ctx : Ctx)
    (h : provisionContext cid c pp s = (s1, some ctx, none)) : ctx.cid = cid ∧ ctx.apps = c.apps := by
  unfold provisionContext at h
  generalize openLogs cid c.logs s = r1 at h
  obtain ⟨s1', live1, wk, o1⟩ := r1
  cases o1 with
  | some r => simp at h
  | none =>
    dsimp only at h
    generalize loadApps cid (order pp c.apps) s1' live1 = r2 at h
    obtain ⟨s2, live2, o2⟩ := r2
    cases o2 with
    | some r => simp at h
    | none =>
      simp at h
      obtain ⟨_, h2⟩ := h
      subst h2
      exact ⟨rfl, rfl⟩

/-! ### Start / Stop: what happens to sockets -/

structure Frame4 (s s' : State) : Prop where
  raw : s'.raw = s.raw
  rawJSON : s'.rawJSON = s.rawJSON
  cur : s'.cur = s.cur
  next : s'.next = s.next

theorem Frame4.rfl' (s : State) : Frame4 s s := ⟨rfl, rfl, rfl, rfl⟩

theorem Frame4.trans {a b c : State} (h1 : Frame4 a b) (h2 : Frame4 b c) : Frame4 a c :=
  ⟨h2.raw.trans h1.raw, h2.rawJSON.trans h1.rawJSON, h2.cur.trans h1.cur, h2.next.trans h1.next⟩

theorem Frame.to4 {s s' : State} (h : Frame s s') : Frame4 s s' := ⟨h.raw, h.rawJSON, h.cur, h.next⟩

def mkSock (cid : Nat) (a : App) (ad : Nat) : Sock := ⟨ad, a.tag, cid, a.name⟩

theorem appSocks_eq (cid : Nat) (a : App) : appSocks cid a = a.listen.map (mkSock cid a) := rfl

/-- bindAll binds a prefix of the listener list; it binds all of it iff it reports success, and
    otherwise the first address it did not bind is a blocked one -/
theorem bindAll_spec (cid : Nat) (a : App) (blocked : List Nat) : ∀ (l : List Nat) (s : State),
    ∃ pre suf, l = pre ++ suf ∧
      (bindAll cid a blocked l s).1 = { s with socks := s.socks ++ pre.map (mkSock cid a) } ∧
      ((bindAll cid a blocked l s).2 = true → suf = []) ∧
      ((bindAll cid a blocked l s).2 = false → ∃ x suf', suf = x :: suf' ∧ x ∈ blocked)
  | [], s => ⟨[], [], rfl, by simp [bindAll], fun _ => rfl, by simp [bindAll]⟩
  | ad :: rest, s => by
    unfold bindAll
    split
    · rename_i hb
      refine ⟨[], ad :: rest, rfl, by simp, by simp, fun _ => ⟨ad, rest, rfl, ?_⟩⟩
      unfold isBlocked at hb
      simp at hb
      exact hb.1
    · obtain ⟨pre, suf, h1, h2, h3, h4⟩ :=
        bindAll_spec cid a blocked rest { s with socks := s.socks ++ [⟨ad, a.tag, cid, a.name⟩] }
      refine ⟨ad :: pre, suf, by simp [h1], ?_, h3, h4⟩
      rw [h2]
      simp [mkSock]

theorem bindAll_frame4 (cid : Nat) (a : App) (blocked : List Nat) (l : List Nat) (s : State) :
    Frame4 s (bindAll cid a blocked l s).1 := by
  obtain ⟨pre, suf, _, h2, _, _⟩ := bindAll_spec cid a blocked l s
  rw [h2]; exact ⟨rfl, rfl, rfl, rfl⟩

theorem closeApp_frame4 (cid n : Nat) (s : State) : Frame4 s (closeApp cid n s) := ⟨rfl, rfl, rfl, rfl⟩

theorem ev_frame4 (s : State) (es : List Ev) : Frame4 s (ev s es) := ⟨rfl, rfl, rfl, rfl⟩

theorem startApp_frame4 (cid : Nat) (blocked : List Nat) (a : App) (s : State) :
    Frame4 s (startApp cid blocked a s).1 := by
  unfold startApp
  split
  · exact bindAll_frame4 _ _ _ _ _
  · split
    · exact ev_frame4 _ _
    · have h := (ev_frame4 s [.start ⟨cid, a.name, 0⟩]).trans
        (bindAll_frame4 cid a blocked a.listen (ev s [.start ⟨cid, a.name, 0⟩]))
      generalize bindAll cid a blocked a.listen (ev s [.start ⟨cid, a.name, 0⟩]) = r at h
      obtain ⟨s', b⟩ := r
      cases b with
      | true => exact h.trans (ev_frame4 _ _)
      | false => exact (h.trans (closeApp_frame4 _ _ _)).trans (ev_frame4 _ _)

theorem stopApp_frame4 (cid : Nat) (a : App) (s : State) : Frame4 s (stopApp cid a s) := by
  unfold stopApp; split
  · exact closeApp_frame4 _ _ _
  · exact (closeApp_frame4 _ _ _).trans (ev_frame4 _ _)

theorem stopApps_frame4 (cid : Nat) : ∀ (as : List App) (s : State), Frame4 s (stopApps cid as s)
  | [], s => Frame4.rfl' s
  | a :: as, s => by
    unfold stopApps
    exact (stopApp_frame4 cid a s).trans (stopApps_frame4 cid as _)

theorem startApps_frame4 (cid : Nat) (blocked : List Nat) : ∀ (rest started : List App) (s : State),
    Frame4 s (startApps cid blocked started rest s).1
  | [], _, s => Frame4.rfl' s
  | a :: rest, started, s => by
    unfold startApps
    have h := startApp_frame4 cid blocked a s
    generalize startApp cid blocked a s = r at h
    obtain ⟨s', b⟩ := r
    cases b with
    | true => exact h.trans (startApps_frame4 cid blocked rest _ s')
    | false => exact h.trans (stopApps_frame4 _ _ _)

theorem unsyncedStop_frame4 (c : Option Ctx) (s : State) : Frame4 s (unsyncedStop c s) := by
  unfold unsyncedStop
  cases c with
  | none => exact Frame4.rfl' s
  | some ctx => exact (stopApps_frame4 _ _ _).trans (cancel_frame _ _ _ _ _).to4

/-! #### ownership: which sockets of context `cid` exist, on top of the `base` of older ones -/

def Own (cid : Nat) (base : List Sock) (names : List Nat) (s : State) : Prop :=
  ∃ X, s.socks = base ++ X ∧ ∀ k ∈ X, k.cid = cid ∧ k.app ∈ names

theorem Own.mono {cid : Nat} {base : List Sock} {n1 n2 : List Nat} {s : State}
    (h : Own cid base n1 s) (hs : ∀ n ∈ n1, n ∈ n2) : Own cid base n2 s := by
  obtain ⟨X, h1, h2⟩ := h
  exact ⟨X, h1, fun k hk => ⟨(h2 k hk).1, hs _ (h2 k hk).2⟩⟩

theorem Own.socks_eq {cid : Nat} {base : List Sock} {names : List Nat} {s s' : State}
    (h : Own cid base names s) (hs : s'.socks = s.socks) : Own cid base names s' := by
  obtain ⟨X, h1, h2⟩ := h
  exact ⟨X, hs.trans h1, h2⟩

theorem Own.nil {cid : Nat} {base : List Sock} {s : State} (h : Own cid base [] s) : s.socks = base := by
  obtain ⟨X, h1, h2⟩ := h
  cases X with
  | nil => simpa using h1
  | cons k _ => exact absurd (h2 k (by simp)).2 (by simp)

theorem own_bind {cid : Nat} {base : List Sock} {names : List Nat} {s : State} (a : App)
    (blocked l : List Nat) (h : Own cid base names s) :
    Own cid base (a.name :: names) (bindAll cid a blocked l s).1 := by
  obtain ⟨X, h1, h2⟩ := h
  obtain ⟨pre, suf, _, e, _, _⟩ := bindAll_spec cid a blocked l s
  rw [e]
  refine ⟨X ++ pre.map (mkSock cid a), by simp [h1], ?_⟩
  intro k hk
  rcases List.mem_append.mp hk with hk | hk
  · exact ⟨(h2 k hk).1, List.mem_cons_of_mem _ (h2 k hk).2⟩
  · obtain ⟨ad, _, rfl⟩ := List.mem_map.mp hk
    exact ⟨rfl, List.mem_cons_self⟩

theorem own_close {cid : Nat} {base : List Sock} {names : List Nat} {s : State} (n : Nat)
    (hb : ∀ k ∈ base, k.cid ≠ cid) (h : Own cid base names s) :
    Own cid base (names.filter (· ≠ n)) (closeApp cid n s) := by
  obtain ⟨X, h1, h2⟩ := h
  refine ⟨X.filter (fun k => !(k.cid == cid && k.app == n)), ?_, ?_⟩
  · simp only [closeApp, h1, List.filter_append]
    congr 1
    apply List.filter_eq_self.mpr
    intro k hk
    have := hb k hk
    simp [this]
  · intro k hk
    obtain ⟨hk1, hk2⟩ := List.mem_filter.mp hk
    have hc := (h2 k hk1).1
    refine ⟨hc, List.mem_filter.mpr ⟨(h2 k hk1).2, ?_⟩⟩
    simp [hc] at hk2
    simpa using hk2

theorem own_stopApp {cid : Nat} {base : List Sock} {names : List Nat} {s : State} (a : App)
    (hb : ∀ k ∈ base, k.cid ≠ cid) (h : Own cid base names s) :
    Own cid base (names.filter (· ≠ a.name)) (stopApp cid a s) := by
  unfold stopApp
  split
  · exact own_close _ hb h
  · exact (own_close _ hb h).socks_eq rfl

theorem own_stopApps {cid : Nat} {base : List Sock} (hb : ∀ k ∈ base, k.cid ≠ cid) :
    ∀ (as : List App) (names : List Nat) (s : State), Own cid base names s →
      Own cid base (names.filter (fun n => n ∉ as.map (·.name))) (stopApps cid as s)
  | [], names, s, h => by simpa [stopApps] using h
  | a :: as, names, s, h => by
    unfold stopApps
    refine (own_stopApps hb as _ _ (own_stopApp a hb h)).mono ?_
    intro n hn
    simp only [List.mem_filter, decide_eq_true_eq, List.map_cons, List.mem_cons, not_or] at hn ⊢
    exact ⟨hn.1.1, by simpa using hn.1.2, hn.2⟩

/-- a Start that fails: a probe app leaves nothing of its own; the HTTP app leaves what it bound -/
theorem own_startApp {cid : Nat} {base : List Sock} {names : List Nat} {s : State} (a : App)
    (blocked : List Nat) (hb : ∀ k ∈ base, k.cid ≠ cid) (h : Own cid base names s) :
    Own cid base (if (startApp cid blocked a s).2 = true ∨ a.isHttp then a.name :: names else names)
      (startApp cid blocked a s).1 := by
  unfold startApp
  split
  · rename_i hh
    simp only [hh, or_true, if_true]
    exact own_bind a blocked a.listen h
  · rename_i hh
    split
    · simp [hh]; exact h.socks_eq rfl
    · have h0 : Own cid base names (ev s [.start ⟨cid, a.name, 0⟩]) := h.socks_eq rfl
      have h1 := own_bind a blocked a.listen h0
      generalize bindAll cid a blocked a.listen (ev s [.start ⟨cid, a.name, 0⟩]) = r at h1
      obtain ⟨s', b⟩ := r
      cases b with
      | true => simp; exact h1.socks_eq rfl
      | false =>
        simp [hh]
        refine ((own_close a.name hb h1).socks_eq rfl).mono ?_
        intro n hn
        simp only [List.mem_filter, List.mem_cons, decide_eq_true_eq] at hn
        rcases hn.1 with h | h
        · exact absurd h hn.2
        · exact h

/-- the start loop, when it fails, leaves only sockets of the rejected config's HTTP app -/
theorem own_startApps_fail {cid : Nat} {base : List Sock} (blocked : List Nat)
    (hb : ∀ k ∈ base, k.cid ≠ cid) : ∀ (rest started : List App) (s : State),
    Own cid base (started.map (·.name)) s →
    (startApps cid blocked started rest s).2 = false →
    Own cid base [3] (startApps cid blocked started rest s).1
  | [], _, s, _, hf => by simp [startApps] at hf
  | a :: rest, started, s, h, hf => by
    unfold startApps at hf ⊢
    have h1 := own_startApp a blocked hb h
    generalize startApp cid blocked a s = r at h1 hf
    obtain ⟨s', b⟩ := r
    cases b with
    | true =>
      simp only [true_or, if_true] at h1
      refine own_startApps_fail blocked hb rest (started ++ [a]) s' (h1.mono ?_) hf
      intro n hn; simp at hn ⊢; rcases hn with h | h
      · exact Or.inr h
      · exact Or.inl h
    | false =>
      simp only [Bool.false_eq_true, false_or] at h1
      refine (own_stopApps hb started _ s' h1).mono ?_
      intro n hn
      simp only [List.mem_filter, decide_eq_true_eq] at hn
      obtain ⟨hn1, hn2⟩ := hn
      split at hn1
      · rename_i hh
        rcases List.mem_cons.mp hn1 with h | h
        · simp [App.isHttp] at hh; simp [h, hh]
        · exact absurd h hn2
      · exact absurd hn1 hn2

theorem startApp_ok {cid : Nat} {blocked : List Nat} {a : App} {s s' : State}
    (h : startApp cid blocked a s = (s', true)) : s'.socks = s.socks ++ appSocks cid a := by
  unfold startApp at h
  split at h
  · obtain ⟨pre, suf, h1, h2, h3, _⟩ := bindAll_spec cid a blocked a.listen s
    rw [h] at h2 h3
    have := h3 rfl
    subst this
    simp at h1
    simp only at h2
    rw [h2, appSocks_eq, h1]
  · split at h
    · simp at h
    · obtain ⟨pre, suf, h1, h2, h3, _⟩ := bindAll_spec cid a blocked a.listen (ev s [.start ⟨cid, a.name, 0⟩])
      generalize bindAll cid a blocked a.listen (ev s [.start ⟨cid, a.name, 0⟩]) = r at h h2 h3
      obtain ⟨s1, b⟩ := r
      cases b with
      | false => simp at h
      | true =>
        simp at h
        have := h3 rfl
        subst this
        simp at h1
        simp only at h2
        rw [← h, h2, appSocks_eq, h1]
        rfl

theorem startApps_ok {cid : Nat} {blocked : List Nat} : ∀ (rest started : List App) (s s' : State),
    startApps cid blocked started rest s = (s', true) → s'.socks = s.socks ++ rest.flatMap (appSocks cid)
  | [], _, s, s', h => by simp [startApps] at h; simp [h]
  | a :: rest, started, s, s', h => by
    unfold startApps at h
    generalize hr : startApp cid blocked a s = r at h
    obtain ⟨s1, b⟩ := r
    cases b with
    | false => simp at h
    | true =>
      have := startApps_ok rest _ s1 s' h
      rw [this, startApp_ok hr]
      simp

end CaddyModel.C01
