/-
C01 — helper lemmas (frame properties of the phases, socket bookkeeping of the start loop).
-/
import CaddyModel.C01.Spec

namespace CaddyModel.C01
open CaddyModel.Lifecycle

/-! ### frame: phases that touch neither the raw tree, the current context, the counter nor sockets -/

structure Frame (s s' : State) : Prop where
  raw : s'.raw = s.raw
  rawJSON : s'.rawJSON = s.rawJSON
  cur : s'.cur = s.cur
  next : s'.next = s.next
  socks : s'.socks = s.socks

theorem Frame.rfl' (s : State) : Frame s s := ⟨rfl, rfl, rfl, rfl, rfl⟩

theorem Frame.trans {a b c : State} (h1 : Frame a b) (h2 : Frame b c) : Frame a c :=
  ⟨h2.raw.trans h1.raw, h2.rawJSON.trans h1.rawJSON, h2.cur.trans h1.cur, h2.next.trans h1.next,
   h2.socks.trans h1.socks⟩

theorem frame_ev (s : State) (es : List Ev) : Frame s (ev s es) := ⟨rfl, rfl, rfl, rfl, rfl⟩

theorem loadMod_frame (i : Inst) (m : Mod) (s : State) (live : List Live) :
    Frame s (loadMod i m s live).1 := by
  unfold loadMod
  split
  · exact Frame.rfl' s
  · split
    · exact ⟨rfl, rfl, rfl, rfl, rfl⟩
    · split <;> exact ⟨rfl, rfl, rfl, rfl, rfl⟩

theorem loadMods_frame (cid app : Nat) : ∀ (ms : List Mod) (idx : Nat) (s : State) (live : List Live),
    Frame s (loadMods cid app idx ms s live).1
  | [], _, s, _ => Frame.rfl' s
  | m :: ms, idx, s, live => by
    unfold loadMods
    have h := loadMod_frame ⟨cid, app, idx⟩ m s live
    generalize loadMod ⟨cid, app, idx⟩ m s live = r at h
    obtain ⟨s', live', o⟩ := r
    cases o with
    | none => exact h.trans (loadMods_frame cid app ms (idx + 1) s' live')
    | some r => exact h

theorem loadApp_frame (cid : Nat) (a : App) (s : State) (live : List Live) :
    Frame s (loadApp cid a s live).1 := by
  unfold loadApp
  split
  · exact Frame.rfl' s
  · split
    · have h := loadMods_frame cid a.name a.mods 1 s live
      generalize loadMods cid a.name 1 a.mods s live = r at h
      obtain ⟨s', live', o⟩ := r
      cases o with
      | none => dsimp only; split <;> exact h
      | some r => exact h
    · have h := (frame_ev s [.prov ⟨cid, a.name, 0⟩]).trans
        (loadMods_frame cid a.name a.mods 1 (ev s [.prov ⟨cid, a.name, 0⟩]) live)
      generalize loadMods cid a.name 1 a.mods (ev s [.prov ⟨cid, a.name, 0⟩]) live = r at h
      obtain ⟨s', live', o⟩ := r
      cases o with
      | none =>
        dsimp only
        split
        · exact h.trans (frame_ev _ _)
        · split <;> exact h.trans (frame_ev _ _)
      | some r => exact h.trans (frame_ev _ _)

theorem loadApps_frame (cid : Nat) : ∀ (as : List App) (s : State) (live : List Live),
    Frame s (loadApps cid as s live).1
  | [], s, _ => Frame.rfl' s
  | a :: as, s, live => by
    unfold loadApps
    have h := loadApp_frame cid a s live
    generalize loadApp cid a s live = r at h
    obtain ⟨s', live', o⟩ := r
    cases o with
    | none => exact h.trans (loadApps_frame cid as s' live')
    | some r => exact h

theorem openWriter_frame (k : Nat) (s : State) : Frame s (openWriter k s) := by
  unfold openWriter; split <;> exact ⟨rfl, rfl, rfl, rfl, rfl⟩

theorem openLog_frame (i : Inst) (m : Mod) (s : State) (live : List Live) (wk : List Nat) :
    Frame s (openLog i m s live wk).1 := by
  unfold openLog
  split
  · exact Frame.rfl' s
  · split
    · exact frame_ev _ _
    · split
      · exact frame_ev _ _
      · exact (frame_ev _ _).trans (openWriter_frame _ _)

theorem openLogsFrom_frame (cid : Nat) : ∀ (ms : List Mod) (idx : Nat) (s : State) (live : List Live)
    (wk : List Nat), Frame s (openLogsFrom cid idx ms s live wk).1
  | [], _, s, _, _ => Frame.rfl' s
  | m :: ms, idx, s, live, wk => by
    unfold openLogsFrom
    have h := openLog_frame ⟨cid, 100, idx⟩ m s live wk
    generalize openLog ⟨cid, 100, idx⟩ m s live wk = r at h
    obtain ⟨s', live', wk', o⟩ := r
    cases o with
    | none => exact h.trans (openLogsFrom_frame cid ms (idx + 1) s' live' wk')
    | some r => exact h

theorem openLogs_frame (cid : Nat) (logs : List Mod) (s : State) : Frame s (openLogs cid logs s).1 :=
  ((frame_ev _ _).trans (openWriter_frame _ _)).trans (openLogsFrom_frame cid logs 0 _ _ _)

theorem closeLogs_frame : ∀ (ks : List Nat) (s : State), Frame s (closeLogs ks s)
  | [], s => Frame.rfl' s
  | k :: ks, s => by
    unfold closeLogs
    split
    · refine Frame.trans ?_ (closeLogs_frame ks _); exact ⟨rfl, rfl, rfl, rfl, rfl⟩
    · refine Frame.trans ?_ (closeLogs_frame ks _); exact ⟨rfl, rfl, rfl, rfl, rfl⟩

theorem cleanupAll_frame : ∀ (ls : List Live) (s : State), Frame s (cleanupAll ls s)
  | [], s => Frame.rfl' s
  | l :: ls, s => by
    unfold cleanupAll
    split
    · refine Frame.trans ?_ (cleanupAll_frame ls _); exact ⟨rfl, rfl, rfl, rfl, rfl⟩
    · refine Frame.trans ?_ (cleanupAll_frame ls _); exact ⟨rfl, rfl, rfl, rfl, rfl⟩

theorem cancel_frame (cid : Nat) (cbs wk : List Nat) (live : List Live) (s : State) :
    Frame s (cancel cid cbs wk live s) := by
  unfold cancel
  split
  · exact cleanupAll_frame _ _
  · exact ((frame_ev _ _).trans (closeLogs_frame _ _)).trans (cleanupAll_frame _ _)

theorem provisionContext_frame (cid : Nat) (c : Cfg) (pp : List Nat) (s : State) :
    Frame s (provisionContext cid c pp s).1 := by
  unfold provisionContext
  have h1 := openLogs_frame cid c.logs s
  generalize openLogs cid c.logs s = r1 at h1
  obtain ⟨s1, live1, wk, o1⟩ := r1
  cases o1 with
  | some r => exact h1.trans (cancel_frame _ _ _ _ _)
  | none =>
    dsimp only
    have h2 := loadApps_frame cid (order pp c.apps) s1 live1
    generalize loadApps cid (order pp c.apps) s1 live1 = r2 at h2
    obtain ⟨s2, live2, o2⟩ := r2
    cases o2 with
    | some r => exact (h1.trans h2).trans (cancel_frame _ _ _ _ _)
    | none => exact h1.trans h2

/-- the context provisionContext returns on success is for `cid` and holds the config's apps -/
theorem provisionContext_ctx (cid : Nat) (c : Cfg) (pp : List Nat) (s : State) (s1 : State) (ctx : Ctx)
    (h : provisionContext cid c pp s = (s1, some ctx, none)) : ctx.cid = cid ∧ ctx.apps = c.apps := by
  unfold provisionContext at h
  generalize openLogs cid c.logs s = r1 at h
  obtain ⟨s1', live1, wk, o1⟩ := r1
  cases o1 with
  | some r => simp at h
  | none =>
    dsimp only at h
    generalize loadApps cid (order pp c.apps) s1' live1 = r2 at h
    obtain ⟨s2, live2, o2⟩ := r2
    cases o2 with
    | some r => simp at h
    | none =>
      simp at h
      obtain ⟨_, h2⟩ := h
      subst h2
      exact ⟨rfl, rfl⟩

end CaddyModel.C01
