/-
C01 — helper lemmas (frame properties of the phases, socket bookkeeping of the start loop).
-/
import CaddyModel.C01.Spec

namespace CaddyModel.C01
open CaddyModel.Lifecycle

/-! ### frame: phases that touch neither the raw tree, the current context, the counter nor sockets -/

structure Frame (s s' : State) : Prop where
  raw : s'.raw = s.raw
  rawJSON : s'.rawJSON = s.rawJSON
  cur : s'.cur = s.cur
  next : s'.next = s.next
  socks : s'.socks = s.socks
  aevents : s'.aevents = s.aevents
  dstor : s'.dstor = s.dstor
  dlogger : s'.dlogger = s.dlogger

theorem Frame.rfl' (s : State) : Frame s s := ⟨rfl, rfl, rfl, rfl, rfl, rfl, rfl, rfl⟩

theorem Frame.trans {a b c : State} (h1 : Frame a b) (h2 : Frame b c) : Frame a c :=
  ⟨h2.raw.trans h1.raw, h2.rawJSON.trans h1.rawJSON, h2.cur.trans h1.cur, h2.next.trans h1.next,
   h2.socks.trans h1.socks, h2.aevents.trans h1.aevents, h2.dstor.trans h1.dstor,
   h2.dlogger.trans h1.dlogger⟩

/-- like `Frame`, but the process-wide default storage may change (provisionContext, Validate) -/
structure FrameX (s s' : State) : Prop where
  raw : s'.raw = s.raw
  rawJSON : s'.rawJSON = s.rawJSON
  cur : s'.cur = s.cur
  next : s'.next = s.next
  socks : s'.socks = s.socks
  aevents : s'.aevents = s.aevents

theorem FrameX.rfl' (s : State) : FrameX s s := ⟨rfl, rfl, rfl, rfl, rfl, rfl⟩

theorem FrameX.trans {a b c : State} (h1 : FrameX a b) (h2 : FrameX b c) : FrameX a c :=
  ⟨h2.raw.trans h1.raw, h2.rawJSON.trans h1.rawJSON, h2.cur.trans h1.cur, h2.next.trans h1.next,
   h2.socks.trans h1.socks, h2.aevents.trans h1.aevents⟩

theorem Frame.toX {s s' : State} (h : Frame s s') : FrameX s s' :=
  ⟨h.raw, h.rawJSON, h.cur, h.next, h.socks, h.aevents⟩

theorem frame_ev (s : State) (es : List Ev) : Frame s (ev s es) := ⟨rfl, rfl, rfl, rfl, rfl, rfl, rfl, rfl⟩

theorem frame_alloc (s : State) : Frame s (alloc s) := ⟨rfl, rfl, rfl, rfl, rfl, rfl, rfl, rfl⟩

theorem loadModAt_frame (i : Inst) (m : Mod) (s : State) (live : List Live) :
    Frame s (loadModAt i m s live).1 := by
  unfold loadModAt
  repeat' split
  all_goals first | exact Frame.rfl' s | exact ⟨rfl, rfl, rfl, rfl, rfl, rfl, rfl, rfl⟩

theorem loadMod_frame (cid app idx : Nat) (m : Mod) (s : State) (live : List Live) :
    Frame s (loadMod cid app idx m s live).1 := by
  unfold loadMod
  split
  · exact Frame.rfl' s
  · exact (frame_alloc s).trans (loadModAt_frame _ _ _ _)

theorem loadMods_frame (cid app : Nat) : ∀ (ms : List Mod) (idx : Nat) (s : State) (live : List Live),
    Frame s (loadMods cid app idx ms s live).1
  | [], _, s, _ => Frame.rfl' s
  | m :: ms, idx, s, live => by
    unfold loadMods
    have h := loadMod_frame cid app idx m s live
    generalize loadMod cid app idx m s live = r at h
    obtain ⟨s', live', o⟩ := r
    cases o with
    | none => exact h.trans (loadMods_frame cid app ms (idx + 1) s' live')
    | some r => exact h

theorem loadProbeAppAt_frame (i : Inst) (a : App) (s : State) (live : List Live) :
    Frame s (loadProbeAppAt i a s live).1 := by
  unfold loadProbeAppAt
  have h := (frame_ev s [.prov i]).trans (loadMods_frame i.cid a.name a.mods 1 (ev s [.prov i]) live)
  generalize loadMods i.cid a.name 1 a.mods (ev s [.prov i]) live = r at h
  obtain ⟨s', live', o⟩ := r
  cases o with
  | none =>
    dsimp only
    split
    · exact h.trans (frame_ev _ _)
    · split <;> exact h.trans (frame_ev _ _)
  | some r => exact h.trans (frame_ev _ _)

theorem loadApp_frame (cid : Nat) (a : App) (s : State) (live : List Live) :
    Frame s (loadApp cid a s live).1 := by
  unfold loadApp
  split
  · exact Frame.rfl' s
  · split
    · have h := loadMods_frame cid a.name a.mods 1 s live
      generalize loadMods cid a.name 1 a.mods s live = r at h
      obtain ⟨s', live', o⟩ := r
      cases o with
      | none => dsimp only; split <;> exact h
      | some r => exact h
    · exact (frame_alloc s).trans (loadProbeAppAt_frame _ _ _ _)

theorem loadApps_frame (cid : Nat) : ∀ (as : List App) (s : State) (live : List Live),
    Frame s (loadApps cid as s live).1
  | [], s, _ => Frame.rfl' s
  | a :: as, s, live => by
    unfold loadApps
    have h := loadApp_frame cid a s live
    generalize loadApp cid a s live = r at h
    obtain ⟨s', live', o⟩ := r
    cases o with
    | none => exact h.trans (loadApps_frame cid as s' live')
    | some r => exact h

theorem openWriter_frame (k : Nat) (s : State) : Frame s (openWriter k s) := by
  unfold openWriter; split <;> exact ⟨rfl, rfl, rfl, rfl, rfl, rfl, rfl, rfl⟩

theorem openLog_frame (cid idx : Nat) (m : Mod) (s : State) (live : List Live) (wk : List Nat) :
    Frame s (openLog cid idx m s live wk).1 := by
  unfold openLog
  split
  · exact Frame.rfl' s
  · refine (frame_alloc s).trans ?_
    unfold openLogAt
    split
    · exact frame_ev _ _
    · split
      · exact frame_ev _ _
      · exact (frame_ev _ _).trans (openWriter_frame _ _)

theorem openLogsFrom_frame (cid : Nat) : ∀ (ms : List Mod) (idx : Nat) (s : State) (live : List Live)
    (wk : List Nat), Frame s (openLogsFrom cid idx ms s live wk).1
  | [], _, s, _, _ => Frame.rfl' s
  | m :: ms, idx, s, live, wk => by
    unfold openLogsFrom
    have h := openLog_frame cid idx m s live wk
    generalize openLog cid idx m s live wk = r at h
    obtain ⟨s', live', wk', o⟩ := r
    cases o with
    | none => exact h.trans (openLogsFrom_frame cid ms (idx + 1) s' live' wk')
    | some r => exact h

theorem openLogs_frame (cid : Nat) (logs : List Mod) (s : State) : FrameX s (openLogs cid logs s).1 := by
  have h1 : Frame s (openWriter 0 (ev s [.cbReg cid])) := (frame_ev _ _).trans (openWriter_frame _ _)
  have h2 : FrameX (openWriter 0 (ev s [.cbReg cid]))
      { openWriter 0 (ev s [.cbReg cid]) with dlogger := cid + 1 } := ⟨rfl, rfl, rfl, rfl, rfl, rfl⟩
  exact (h1.toX.trans h2).trans (openLogsFrom_frame cid logs 0 _ _ _).toX

/-- openLogs makes this context's default log the process default logger, and leaves the default
    storage alone -/
theorem openLogs_dlogger (cid : Nat) (logs : List Mod) (s : State) :
    (openLogs cid logs s).1.dlogger = cid + 1 ∧ (openLogs cid logs s).1.dstor = s.dstor := by
  have h := openLogsFrom_frame cid logs 0 { openWriter 0 (ev s [.cbReg cid]) with dlogger := cid + 1 } [] [0]
  have h1 : Frame s (openWriter 0 (ev s [.cbReg cid])) := (frame_ev _ _).trans (openWriter_frame _ _)
  exact ⟨h.dlogger, h.dstor.trans h1.dstor⟩

theorem closeLogs_frame : ∀ (ks : List Nat) (s : State), Frame s (closeLogs ks s)
  | [], s => Frame.rfl' s
  | k :: ks, s => by
    unfold closeLogs
    split
    · refine Frame.trans ?_ (closeLogs_frame ks _); exact ⟨rfl, rfl, rfl, rfl, rfl, rfl, rfl, rfl⟩
    · refine Frame.trans ?_ (closeLogs_frame ks _); exact ⟨rfl, rfl, rfl, rfl, rfl, rfl, rfl, rfl⟩

theorem cleanupOne_frame (l : Live) (s : State) : Frame s (cleanupOne l s) := by
  unfold cleanupOne; split <;> exact ⟨rfl, rfl, rfl, rfl, rfl, rfl, rfl, rfl⟩

theorem cleanupAll_frame : ∀ (ls : List Live) (s : State), Frame s (cleanupAll ls s)
  | [], s => Frame.rfl' s
  | l :: ls, s => by
    unfold cleanupAll
    exact (cleanupOne_frame l s).trans (cleanupAll_frame ls _)

theorem cancel_frame (cid : Nat) (cbs wk : List Nat) (live : List Live) (s : State) :
    Frame s (cancel cid cbs wk live s) := by
  unfold cancel
  split
  · exact cleanupAll_frame _ _
  · exact ((frame_ev _ _).trans (closeLogs_frame _ _)).trans (cleanupAll_frame _ _)

theorem loadStorAt_frame (i : Inst) (m : Mod) (s : State) (live : List Live) :
    Frame s (loadStorAt i m s live).1 := by
  unfold loadStorAt
  split
  · exact frame_ev _ _
  · split <;> exact frame_ev _ _

theorem setStorage_frame (cid : Nat) (m : Mod) (s : State) (live : List Live) :
    FrameX s (setStorage cid m s live).1 := by
  unfold setStorage
  split
  · exact ⟨rfl, rfl, rfl, rfl, rfl, rfl⟩
  · split
    · exact FrameX.rfl' s
    · have h := ((frame_alloc s).trans (loadStorAt_frame ⟨s.nseq, cid, 102, 0⟩ m (alloc s) live)).toX
      generalize loadStorAt ⟨s.nseq, cid, 102, 0⟩ m (alloc s) live = r at h
      obtain ⟨s', live', o⟩ := r
      cases o with
      | none => exact h.trans ⟨rfl, rfl, rfl, rfl, rfl, rfl⟩
      | some r => exact h

theorem restoreStorage_frame (p : Nat) (s : State) : FrameX s (restoreStorage p s) := by
  unfold restoreStorage
  split <;> exact ⟨rfl, rfl, rfl, rfl, rfl, rfl⟩

theorem restoreStorage_socks (p : Nat) (s : State) : (restoreStorage p s).socks = s.socks := (restoreStorage_frame p s).socks

theorem provisionContext_frame (cid : Nat) (c : Cfg) (pp : List Nat) (s : State) :
    FrameX s (provisionContext cid c pp s).1 := by
  unfold provisionContext
  have h1 := openLogs_frame cid c.logs s
  generalize openLogs cid c.logs s = r1 at h1
  obtain ⟨s1, live1, wk, o1⟩ := r1
  cases o1 with
  | some r => exact (h1.trans (cancel_frame _ _ _ _ _).toX).trans (restoreStorage_frame _ _)
  | none =>
    dsimp only
    have h1' := h1.trans (setStorage_frame cid c.stor s1 live1)
    generalize setStorage cid c.stor s1 live1 = r1' at h1'
    obtain ⟨s1', live1', o1'⟩ := r1'
    cases o1' with
    | some r => exact (h1'.trans (cancel_frame _ _ _ _ _).toX).trans (restoreStorage_frame _ _)
    | none =>
      dsimp only
      have h2 := (loadApps_frame cid (order pp c.apps) s1' live1').toX
      generalize loadApps cid (order pp c.apps) s1' live1' = r2 at h2
      obtain ⟨s2, live2, o2⟩ := r2
      cases o2 with
      | some r => exact ((h1'.trans h2).trans (cancel_frame _ _ _ _ _).toX).trans (restoreStorage_frame _ _)
      | none => exact h1'.trans h2

/-- the context provisionContext returns on success is for `cid` and holds the config's apps -/
theorem provisionContext_ctx (cid : Nat) (c : Cfg) (pp : List Nat) (s : State) (s1 : State) (ctx : Ctx)
    (h : provisionContext cid c pp s = (s1, some ctx, none)) : ctx.cid = cid ∧ ctx.apps = c.apps := by
  unfold provisionContext at h
  generalize openLogs cid c.logs s = r1 at h
  obtain ⟨s1', live1, wk, o1⟩ := r1
  cases o1 with
  | some r => simp at h
  | none =>
    dsimp only at h
    generalize setStorage cid c.stor s1' live1 = r1' at h
    obtain ⟨s1'', live1', o1'⟩ := r1'
    cases o1' with
    | some r => simp at h
    | none =>
      dsimp only at h
      generalize loadApps cid (order pp c.apps) s1'' live1' = r2 at h
      obtain ⟨s2, live2, o2⟩ := r2
      cases o2 with
      | some r => simp at h
      | none =>
        simp at h
        obtain ⟨_, h2⟩ := h
        subst h2
        exact ⟨rfl, rfl⟩

/-! ### Start / Stop: what happens to sockets -/

structure Frame4 (s s' : State) : Prop where
  raw : s'.raw = s.raw
  rawJSON : s'.rawJSON = s.rawJSON
  cur : s'.cur = s.cur
  next : s'.next = s.next

theorem Frame4.rfl' (s : State) : Frame4 s s := ⟨rfl, rfl, rfl, rfl⟩

theorem Frame4.trans {a b c : State} (h1 : Frame4 a b) (h2 : Frame4 b c) : Frame4 a c :=
  ⟨h2.raw.trans h1.raw, h2.rawJSON.trans h1.rawJSON, h2.cur.trans h1.cur, h2.next.trans h1.next⟩

theorem Frame.to4 {s s' : State} (h : Frame s s') : Frame4 s s' := ⟨h.raw, h.rawJSON, h.cur, h.next⟩

theorem FrameX.to4 {s s' : State} (h : FrameX s s') : Frame4 s s' := ⟨h.raw, h.rawJSON, h.cur, h.next⟩

def mkSock (cid : Nat) (a : App) (ad : Nat) : Sock := ⟨ad, a.tag, cid, a.name⟩

theorem appSocks_eq (cid : Nat) (a : App) : appSocks cid a = a.listen.map (mkSock cid a) := rfl

/-- bindAll binds a prefix of the listener list; it binds all of it iff it reports success, and
    otherwise the first address it did not bind is a blocked one -/
theorem bindAll_spec (cid : Nat) (a : App) (blocked : List Nat) : ∀ (l : List Nat) (s : State),
    ∃ pre suf, l = pre ++ suf ∧
      (bindAll cid a blocked l s).1 = { s with socks := s.socks ++ pre.map (mkSock cid a) } ∧
      ((bindAll cid a blocked l s).2 = true → suf = []) ∧
      ((bindAll cid a blocked l s).2 = false → ∃ x suf', suf = x :: suf' ∧ x ∈ blocked)
  | [], s => ⟨[], [], rfl, by simp [bindAll], fun _ => rfl, by simp [bindAll]⟩
  | ad :: rest, s => by
    unfold bindAll
    split
    · rename_i hb
      refine ⟨[], ad :: rest, rfl, by simp, by simp, fun _ => ⟨ad, rest, rfl, ?_⟩⟩
      unfold isBlocked at hb
      simp at hb
      exact hb.1
    · obtain ⟨pre, suf, h1, h2, h3, h4⟩ :=
        bindAll_spec cid a blocked rest { s with socks := s.socks ++ [⟨ad, a.tag, cid, a.name⟩] }
      refine ⟨ad :: pre, suf, by simp [h1], ?_, h3, h4⟩
      rw [h2]
      simp [mkSock]

theorem bindAll_frame4 (cid : Nat) (a : App) (blocked : List Nat) (l : List Nat) (s : State) :
    Frame4 s (bindAll cid a blocked l s).1 := by
  obtain ⟨pre, suf, _, h2, _, _⟩ := bindAll_spec cid a blocked l s
  rw [h2]; exact ⟨rfl, rfl, rfl, rfl⟩

theorem closeApp_frame4 (cid n : Nat) (s : State) : Frame4 s (closeApp cid n s) := ⟨rfl, rfl, rfl, rfl⟩

theorem ev_frame4 (s : State) (es : List Ev) : Frame4 s (evA s es) := ⟨rfl, rfl, rfl, rfl⟩

theorem startApp_frame4 (cid : Nat) (blocked : List Nat) (a : App) (s : State) :
    Frame4 s (startApp cid blocked a s).1 := by
  unfold startApp
  split
  · have h := bindAll_frame4 cid a blocked a.listen s
    generalize bindAll cid a blocked a.listen s = r at h
    obtain ⟨s', b⟩ := r
    cases b with
    | true => dsimp only; split; exact h.trans (closeApp_frame4 _ _ _); exact h
    | false => exact h.trans (closeApp_frame4 _ _ _)
  · split
    · exact ev_frame4 _ _
    · have h := (ev_frame4 s [.start cid a.name]).trans
        (bindAll_frame4 cid a blocked a.listen (evA s [.start cid a.name]))
      generalize bindAll cid a blocked a.listen (evA s [.start cid a.name]) = r at h
      obtain ⟨s', b⟩ := r
      cases b with
      | true => exact h.trans (ev_frame4 _ _)
      | false => exact (h.trans (closeApp_frame4 _ _ _)).trans (ev_frame4 _ _)

theorem stopApp_frame4 (cid : Nat) (a : App) (s : State) : Frame4 s (stopApp cid a s) := by
  unfold stopApp; split
  · exact closeApp_frame4 _ _ _
  · exact (closeApp_frame4 _ _ _).trans (ev_frame4 _ _)

theorem stopApps_frame4 (cid : Nat) : ∀ (as : List App) (s : State), Frame4 s (stopApps cid as s)
  | [], s => Frame4.rfl' s
  | a :: as, s => by
    unfold stopApps
    exact (stopApp_frame4 cid a s).trans (stopApps_frame4 cid as _)

theorem startApps_frame4 (cid : Nat) (blocked : List Nat) : ∀ (rest started : List App) (s : State),
    Frame4 s (startApps cid blocked started rest s).1
  | [], _, s => Frame4.rfl' s
  | a :: rest, started, s => by
    unfold startApps
    have h := startApp_frame4 cid blocked a s
    generalize startApp cid blocked a s = r at h
    obtain ⟨s', b⟩ := r
    cases b with
    | true => exact h.trans (startApps_frame4 cid blocked rest _ s')
    | false => exact h.trans (stopApps_frame4 _ _ _)

theorem unsyncedStop_frame4 (c : Option Ctx) (s : State) : Frame4 s (unsyncedStop c s) := by
  unfold unsyncedStop
  cases c with
  | none => exact Frame4.rfl' s
  | some ctx => exact (stopApps_frame4 _ _ _).trans (cancel_frame _ _ _ _ _).to4

/-! #### ownership: which sockets of context `cid` exist, on top of the `base` of older ones -/

def Own (cid : Nat) (base : List Sock) (names : List Nat) (s : State) : Prop :=
  ∃ X, s.socks = base ++ X ∧ ∀ k ∈ X, k.cid = cid ∧ k.app ∈ names

theorem Own.mono {cid : Nat} {base : List Sock} {n1 n2 : List Nat} {s : State}
    (h : Own cid base n1 s) (hs : ∀ n ∈ n1, n ∈ n2) : Own cid base n2 s := by
  obtain ⟨X, h1, h2⟩ := h
  exact ⟨X, h1, fun k hk => ⟨(h2 k hk).1, hs _ (h2 k hk).2⟩⟩

theorem Own.socks_eq {cid : Nat} {base : List Sock} {names : List Nat} {s s' : State}
    (h : Own cid base names s) (hs : s'.socks = s.socks) : Own cid base names s' := by
  obtain ⟨X, h1, h2⟩ := h
  exact ⟨X, hs.trans h1, h2⟩

theorem Own.nil {cid : Nat} {base : List Sock} {s : State} (h : Own cid base [] s) : s.socks = base := by
  obtain ⟨X, h1, h2⟩ := h
  cases X with
  | nil => simpa using h1
  | cons k _ => exact absurd (h2 k (by simp)).2 (by simp)

theorem own_bind {cid : Nat} {base : List Sock} {names : List Nat} {s : State} (a : App)
    (blocked l : List Nat) (h : Own cid base names s) :
    Own cid base (a.name :: names) (bindAll cid a blocked l s).1 := by
  obtain ⟨X, h1, h2⟩ := h
  obtain ⟨pre, suf, _, e, _, _⟩ := bindAll_spec cid a blocked l s
  rw [e]
  refine ⟨X ++ pre.map (mkSock cid a), by simp [h1], ?_⟩
  intro k hk
  rcases List.mem_append.mp hk with hk | hk
  · exact ⟨(h2 k hk).1, List.mem_cons_of_mem _ (h2 k hk).2⟩
  · obtain ⟨ad, _, rfl⟩ := List.mem_map.mp hk
    exact ⟨rfl, List.mem_cons_self⟩

theorem own_close {cid : Nat} {base : List Sock} {names : List Nat} {s : State} (n : Nat)
    (hb : ∀ k ∈ base, k.cid ≠ cid) (h : Own cid base names s) :
    Own cid base (names.filter (· ≠ n)) (closeApp cid n s) := by
  obtain ⟨X, h1, h2⟩ := h
  refine ⟨X.filter (fun k => !(k.cid == cid && k.app == n)), ?_, ?_⟩
  · simp only [closeApp, h1, List.filter_append]
    congr 1
    apply List.filter_eq_self.mpr
    intro k hk
    have := hb k hk
    simp [this]
  · intro k hk
    obtain ⟨hk1, hk2⟩ := List.mem_filter.mp hk
    have hc := (h2 k hk1).1
    refine ⟨hc, List.mem_filter.mpr ⟨(h2 k hk1).2, ?_⟩⟩
    simp [hc] at hk2
    simpa using hk2

theorem own_stopApp {cid : Nat} {base : List Sock} {names : List Nat} {s : State} (a : App)
    (hb : ∀ k ∈ base, k.cid ≠ cid) (h : Own cid base names s) :
    Own cid base (names.filter (· ≠ a.name)) (stopApp cid a s) := by
  unfold stopApp
  split
  · exact own_close _ hb h
  · exact (own_close _ hb h).socks_eq rfl

theorem own_stopApps {cid : Nat} {base : List Sock} (hb : ∀ k ∈ base, k.cid ≠ cid) :
    ∀ (as : List App) (names : List Nat) (s : State), Own cid base names s →
      Own cid base (names.filter (fun n => n ∉ as.map (·.name))) (stopApps cid as s)
  | [], names, s, h => by
    refine Own.mono (s := s) h ?_
    intro n hn; simp [hn]
  | a :: as, names, s, h => by
    unfold stopApps
    refine (own_stopApps hb as _ _ (own_stopApp a hb h)).mono ?_
    intro n hn
    simp only [List.mem_filter, decide_eq_true_eq, List.map_cons, List.mem_cons, not_or] at hn ⊢
    exact ⟨hn.1.1, by simpa using hn.1.2, hn.2⟩

/-- a Start that fails leaves nothing of its own (probe apps and, since the fix, the HTTP app) -/
theorem own_startApp {cid : Nat} {base : List Sock} {names : List Nat} {s : State} (a : App)
    (blocked : List Nat) (hb : ∀ k ∈ base, k.cid ≠ cid) (h : Own cid base names s) :
    Own cid base (if (startApp cid blocked a s).2 = true then a.name :: names else names)
      (startApp cid blocked a s).1 := by
  have hclose : ∀ s', Own cid base (a.name :: names) s' → Own cid base names (closeApp cid a.name s') := by
    intro s' h1
    refine (own_close a.name hb h1).mono ?_
    intro n hn
    simp only [List.mem_filter, List.mem_cons, decide_eq_true_eq] at hn
    rcases hn.1 with h | h
    · exact absurd h hn.2
    · exact h
  unfold startApp
  split
  · have h1 := own_bind a blocked a.listen h
    generalize bindAll cid a blocked a.listen s = r at h1
    obtain ⟨s', b⟩ := r
    cases b with
    | true =>
      dsimp only
      split
      · simpa using hclose s' h1
      · simpa using h1
    | false => simpa using hclose s' h1
  · split
    · simp; exact h.socks_eq rfl
    · have h0 : Own cid base names (evA s [.start cid a.name]) := h.socks_eq rfl
      have h1 := own_bind a blocked a.listen h0
      generalize bindAll cid a blocked a.listen (evA s [.start cid a.name]) = r at h1
      obtain ⟨s', b⟩ := r
      cases b with
      | true => simp; exact h1.socks_eq rfl
      | false => simp; exact (hclose s' h1).socks_eq rfl

/-- the start loop, when it fails, leaves no socket of the rejected configuration -/
theorem own_startApps_fail {cid : Nat} {base : List Sock} (blocked : List Nat)
    (hb : ∀ k ∈ base, k.cid ≠ cid) : ∀ (rest started : List App) (s : State),
    Own cid base (started.map (·.name)) s →
    (startApps cid blocked started rest s).2 = false →
    Own cid base [] (startApps cid blocked started rest s).1
  | [], _, s, _, hf => by simp [startApps] at hf
  | a :: rest, started, s, h, hf => by
    unfold startApps at hf ⊢
    have h1 := own_startApp a blocked hb h
    generalize startApp cid blocked a s = r at h1 hf
    obtain ⟨s', b⟩ := r
    cases b with
    | true =>
      simp only [if_true] at h1
      refine own_startApps_fail blocked hb rest (started ++ [a]) s' (h1.mono ?_) hf
      intro n hn; simp at hn ⊢; rcases hn with h | h
      · exact Or.inr h
      · exact Or.inl h
    | false =>
      simp only [Bool.false_eq_true, if_false] at h1
      refine (own_stopApps hb started _ s' h1).mono ?_
      intro n hn
      simp only [List.mem_filter, decide_eq_true_eq] at hn
      exact absurd hn.1 hn.2

theorem startApp_ok {cid : Nat} {blocked : List Nat} {a : App} {s s' : State}
    (h : startApp cid blocked a s = (s', true)) : s'.socks = s.socks ++ appSocks cid a := by
  unfold startApp at h
  split at h
  · obtain ⟨pre, suf, h1, h2, h3, _⟩ := bindAll_spec cid a blocked a.listen s
    generalize bindAll cid a blocked a.listen s = r at h h2 h3
    obtain ⟨s1, b⟩ := r
    cases b with
    | false => simp at h
    | true =>
      dsimp only at h
      split at h
      · simp at h
      simp at h
      have := h3 rfl
      subst this
      simp at h1
      simp only at h2
      rw [← h, h2, appSocks_eq, h1]
  · split at h
    · simp at h
    · obtain ⟨pre, suf, h1, h2, h3, _⟩ := bindAll_spec cid a blocked a.listen (evA s [.start cid a.name])
      generalize bindAll cid a blocked a.listen (evA s [.start cid a.name]) = r at h h2 h3
      obtain ⟨s1, b⟩ := r
      cases b with
      | false => simp at h
      | true =>
        simp at h
        have := h3 rfl
        subst this
        simp at h1
        simp only at h2
        rw [← h, h2, appSocks_eq, h1]
        rfl

theorem startApps_ok {cid : Nat} {blocked : List Nat} : ∀ (rest started : List App) (s s' : State),
    startApps cid blocked started rest s = (s', true) → s'.socks = s.socks ++ rest.flatMap (appSocks cid)
  | [], _, s, s', h => by simp [startApps] at h; simp [h]
  | a :: rest, started, s, s', h => by
    unfold startApps at h
    generalize hr : startApp cid blocked a s = r at h
    obtain ⟨s1, b⟩ := r
    cases b with
    | false => simp at h
    | true =>
      have := startApps_ok rest _ s1 s' h
      rw [this, startApp_ok hr]
      simp

/-! ### a provisioning error is an error -/

theorem faultRes_err (f : Nat) : (faultRes f).accepted = false := by
  unfold faultRes; split <;> rfl

theorem loadMod_err (cid app idx : Nat) (m : Mod) (s : State) (live : List Live) (r : Res)
    (h : (loadMod cid app idx m s live).2.2 = some r) : r.accepted = false := by
  unfold loadMod at h
  split at h
  · simp at h; rw [← h]; exact faultRes_err _
  · unfold loadModAt at h
    repeat' split at h
    all_goals first
      | (simp at h; rw [← h]; rfl)
      | simp at h

theorem loadMods_err (cid app : Nat) : ∀ (ms : List Mod) (idx : Nat) (s : State) (live : List Live) (r : Res),
    (loadMods cid app idx ms s live).2.2 = some r → r.accepted = false
  | [], _, _, _, r, h => by simp [loadMods] at h
  | m :: ms, idx, s, live, r, h => by
    unfold loadMods at h
    have h0 := loadMod_err cid app idx m s live
    generalize loadMod cid app idx m s live = q at h h0
    obtain ⟨s', live', o⟩ := q
    cases o with
    | none => exact loadMods_err cid app ms (idx + 1) s' live' r h
    | some r' => simp at h; exact h0 r (by simp [h])

theorem loadApp_err (cid : Nat) (a : App) (s : State) (live : List Live) (r : Res)
    (h : (loadApp cid a s live).2.2 = some r) : r.accepted = false := by
  unfold loadApp at h
  split at h
  · simp at h; rw [← h]; exact faultRes_err _
  · split at h
    · have h0 := loadMods_err cid a.name a.mods 1 s live
      generalize loadMods cid a.name 1 a.mods s live = q at h h0
      obtain ⟨s', live', o⟩ := q
      cases o with
      | none =>
        dsimp only at h
        split at h
        · simp at h
        · simp at h; rw [← h]; rfl
      | some r' => simp at h; exact h0 r (by simp [h])
    · unfold loadProbeAppAt at h
      have h0 := loadMods_err cid a.name a.mods 1 (ev (alloc s) [.prov ⟨s.nseq, cid, a.name, 0⟩]) live
      dsimp only at h
      generalize loadMods cid a.name 1 a.mods (ev (alloc s) [.prov ⟨s.nseq, cid, a.name, 0⟩]) live = q at h h0
      obtain ⟨s', live', o⟩ := q
      cases o with
      | none =>
        dsimp only at h
        split at h
        · simp at h; rw [← h]; rfl
        · split at h
          · simp at h; rw [← h]; rfl
          · simp at h
      | some r' => simp at h; exact h0 r (by simp [h])

theorem loadApps_err (cid : Nat) : ∀ (as : List App) (s : State) (live : List Live) (r : Res),
    (loadApps cid as s live).2.2 = some r → r.accepted = false
  | [], _, _, r, h => by simp [loadApps] at h
  | a :: as, s, live, r, h => by
    unfold loadApps at h
    have h0 := loadApp_err cid a s live
    generalize loadApp cid a s live = q at h h0
    obtain ⟨s', live', o⟩ := q
    cases o with
    | none => exact loadApps_err cid as s' live' r h
    | some r' => simp at h; exact h0 r (by simp [h])

theorem openLog_err (cid idx : Nat) (m : Mod) (s : State) (live : List Live) (wk : List Nat) (r : Res)
    (h : (openLog cid idx m s live wk).2.2.2 = some r) : r.accepted = false := by
  unfold openLog at h
  split at h
  · simp at h; rw [← h]; exact faultRes_err _
  · unfold openLogAt at h
    split at h
    · simp at h; rw [← h]; rfl
    · split at h
      · simp at h; rw [← h]; rfl
      · simp at h

theorem openLogsFrom_err (cid : Nat) : ∀ (ms : List Mod) (idx : Nat) (s : State) (live : List Live)
    (wk : List Nat) (r : Res), (openLogsFrom cid idx ms s live wk).2.2.2 = some r → r.accepted = false
  | [], _, _, _, _, r, h => by simp [openLogsFrom] at h
  | m :: ms, idx, s, live, wk, r, h => by
    unfold openLogsFrom at h
    have h0 := openLog_err cid idx m s live wk
    generalize openLog cid idx m s live wk = q at h h0
    obtain ⟨s', live', wk', o⟩ := q
    cases o with
    | none => exact openLogsFrom_err cid ms (idx + 1) s' live' wk' r h
    | some r' => simp at h; exact h0 r (by simp [h])

theorem loadStorAt_err (i : Inst) (m : Mod) (s : State) (live : List Live) (r : Res)
    (h : (loadStorAt i m s live).2.2 = some r) : r.accepted = false := by
  unfold loadStorAt at h
  split at h
  · simp at h; rw [← h]; rfl
  · split at h
    · simp at h; rw [← h]; rfl
    · simp at h

theorem setStorage_err (cid : Nat) (m : Mod) (s : State) (live : List Live) (r : Res)
    (h : (setStorage cid m s live).2.2 = some r) : r.accepted = false := by
  unfold setStorage at h
  split at h
  · simp at h
  · split at h
    · simp at h; rw [← h]; exact faultRes_err _
    · have h0 := loadStorAt_err ⟨s.nseq, cid, 102, 0⟩ m (alloc s) live
      generalize loadStorAt ⟨s.nseq, cid, 102, 0⟩ m (alloc s) live = q at h h0
      obtain ⟨s', live', o⟩ := q
      cases o with
      | none => simp at h
      | some r' => simp at h; exact h0 r (by simp [h])

theorem provisionContext_err (cid : Nat) (c : Cfg) (pp : List Nat) (s : State) (r : Res)
    (h : (provisionContext cid c pp s).2.2 = some r) : r.accepted = false := by
  unfold provisionContext at h
  have h1 := openLogsFrom_err cid c.logs 0 { openWriter 0 (ev s [.cbReg cid]) with dlogger := cid + 1 } [] [0]
  unfold openLogs at h
  generalize openLogsFrom cid 0 c.logs { openWriter 0 (ev s [.cbReg cid]) with dlogger := cid + 1 } [] [0] = q1 at h h1
  obtain ⟨s1, live1, wk, o1⟩ := q1
  cases o1 with
  | some r' => simp at h; exact h1 r (by simp [h])
  | none =>
    dsimp only at h
    have h1' := setStorage_err cid c.stor s1 live1
    generalize setStorage cid c.stor s1 live1 = q1' at h h1'
    obtain ⟨s1', live1', o1'⟩ := q1'
    cases o1' with
    | some r' => simp at h; exact h1' r (by simp [h])
    | none =>
      dsimp only at h
      have h2 := loadApps_err cid (order pp c.apps) s1' live1'
      generalize loadApps cid (order pp c.apps) s1' live1' = q2 at h h2
      obtain ⟨s2, live2, o2⟩ := q2
      cases o2 with
      | some r' => simp at h; exact h2 r (by simp [h])
      | none => simp at h

/-! ### map order -/

theorem takeApp_perm (n : Nat) : ∀ (l : List App) (a : App) (rest : List App),
    takeApp n l = some (a, rest) → l.Perm (a :: rest)
  | [], _, _, h => by simp [takeApp] at h
  | b :: l, a, rest, h => by
    unfold takeApp at h
    split at h
    · simp at h; obtain ⟨rfl, rfl⟩ := h; exact List.Perm.refl _
    · generalize hr : takeApp n l = r at h
      cases r with
      | none => simp at h
      | some p =>
        obtain ⟨b', rest'⟩ := p
        simp at h
        obtain ⟨rfl, rfl⟩ := h
        exact ((takeApp_perm n l _ _ hr).cons b).trans (List.Perm.swap _ _ _)

theorem order_perm : ∀ (π : List Nat) (l : List App), (order π l).Perm l
  | [], l => List.Perm.refl _
  | n :: ns, l => by
    unfold order
    generalize hr : takeApp n l = r
    cases r with
    | none => exact order_perm ns l
    | some p =>
      obtain ⟨a, rest⟩ := p
      exact ((order_perm ns rest).cons a).trans (takeApp_perm n l a rest hr).symm

/-! ### Stop as a filter -/

theorem stopApps_socks (cid : Nat) : ∀ (as : List App) (s : State),
    (stopApps cid as s).socks = s.socks.filter (fun k => !(k.cid == cid && as.any (fun a => a.name == k.app)))
  | [], s => by
    show s.socks = _
    rw [List.filter_eq_self.mpr]
    intro k _; simp
  | a :: as, s => by
    unfold stopApps
    rw [stopApps_socks cid as]
    have : (stopApp cid a s).socks = s.socks.filter (fun k => !(k.cid == cid && k.app == a.name)) := by
      unfold stopApp; split <;> rfl
    rw [this, List.filter_filter]
    apply List.filter_congr
    intro k _
    have hcomm : (a.name == k.app) = (k.app == a.name) := BEq.comm
    simp only [List.any_cons, hcomm]
    cases (k.cid == cid) <;> cases (k.app == a.name) <;> cases (as.any fun a => a.name == k.app) <;> rfl

/-! ### finishSettingUp, run -/

theorem finishSettingUp_spec (ctx : Ctx) (post : Bool) (s : State) :
    Frame s (finishSettingUp ctx post s).1 ∧ (finishSettingUp ctx post s).2.1.cid = ctx.cid ∧
    (finishSettingUp ctx post s).2.1.apps = ctx.apps ∧ (finishSettingUp ctx post s).2.2 = !post := by
  unfold finishSettingUp finishSettingUpAt
  cases post <;> simp <;> exact (frame_alloc s).trans (frame_ev _ _)

theorem run_frame4 (cid : Nat) (c : Cfg) (e : Env) (s : State) : Frame4 s (run cid c e s).1 := by
  unfold run
  have h1 := (provisionContext_frame cid c e.pp s).to4
  generalize provisionContext cid c e.pp s = r1 at h1
  obtain ⟨s1, o1, e1⟩ := r1
  cases e1 with
  | some r => exact h1
  | none =>
    cases o1 with
    | none => exact h1
    | some ctx =>
      dsimp only
      split
      · exact (h1.trans (cancel_frame _ _ _ _ _).to4).trans (restoreStorage_frame _ _).to4
      have h2 := startApps_frame4 cid e.blocked (order e.ps ctx.apps) [] s1
      generalize startApps cid e.blocked [] (order e.ps ctx.apps) s1 = r2 at h2
      obtain ⟨s2, b⟩ := r2
      cases b with
      | false => exact ((h1.trans h2).trans (cancel_frame _ _ _ _ _).to4).trans (restoreStorage_frame _ _).to4
      | true =>
        dsimp only
        have h3 := (finishSettingUp_spec ctx e.post s2).1.to4
        generalize finishSettingUp ctx e.post s2 = r3 at h3
        obtain ⟨s3, ctx', b3⟩ := r3
        cases b3 with
        | false => dsimp only; exact (((h1.trans h2).trans h3).trans (unsyncedStop_frame4 _ _)).trans (restoreStorage_frame _ _).to4
        | true => dsimp only; exact (h1.trans h2).trans h3

/-- an accepted run: the context is the new one and the sockets are exactly the old ones plus
    every listener of every app of the new configuration -/
theorem run_ok {cid : Nat} {c : Cfg} {e : Env} {s s' : State} {o : Option Ctx}
    (h : run cid c e s = (s', o, .ok)) :
    ∃ ctx, o = some ctx ∧ ctx.cid = cid ∧ ctx.apps = c.apps ∧
      s'.socks = s.socks ++ (order e.ps c.apps).flatMap (appSocks cid) := by
  unfold run at h
  have h1 := provisionContext_frame cid c e.pp s
  have hc := provisionContext_ctx cid c e.pp s
  have he := provisionContext_err cid c e.pp s
  generalize provisionContext cid c e.pp s = r1 at h h1 hc he
  obtain ⟨s1, o1, e1⟩ := r1
  cases e1 with
  | some r =>
    simp at h
    have := he r rfl
    rw [h.2.2] at this
    cases this
  | none =>
    cases o1 with
    | none => simp at h
    | some ctx =>
      obtain ⟨hc1, hc2⟩ := hc s1 ctx rfl
      dsimp only at h
      split at h
      · simp at h
      generalize h2 : startApps cid e.blocked [] (order e.ps ctx.apps) s1 = r2 at h
      obtain ⟨s2, b⟩ := r2
      cases b with
      | false => simp at h
      | true =>
        dsimp only at h
        have h3 := finishSettingUp_spec ctx e.post s2
        generalize finishSettingUp ctx e.post s2 = r3 at h h3
        obtain ⟨s3, ctx', b3⟩ := r3
        cases b3 with
        | false => simp at h
        | true =>
          simp at h
          obtain ⟨rfl, rfl⟩ := h
          refine ⟨ctx', rfl, h3.2.1.trans hc1, h3.2.2.1.trans hc2, ?_⟩
          rw [h3.1.socks, startApps_ok _ _ _ _ h2, h1.socks, hc2]

/-- closing every app of the configuration removes every socket of the context -/
theorem own_stop_all {cid : Nat} {base : List Sock} (hb : ∀ k ∈ base, k.cid ≠ cid)
    {names : List Nat} {as : List App} {s : State} (h : Own cid base names s)
    (hs : ∀ n ∈ names, n ∈ as.map (·.name)) : (stopApps cid as s).socks = base := by
  refine (Own.mono (own_stopApps hb as names s h) ?_).nil
  intro n hn
  simp only [List.mem_filter, decide_eq_true_eq] at hn
  exact absurd (hs n hn.1) hn.2

theorem own_of_flatMap {cid : Nat} {base : List Sock} {l : List App} {s : State}
    (h : s.socks = base ++ l.flatMap (appSocks cid)) : Own cid base (l.map (·.name)) s := by
  refine ⟨_, h, ?_⟩
  intro k hk
  obtain ⟨a, ha, hka⟩ := List.mem_flatMap.mp hk
  obtain ⟨ad, _, rfl⟩ := List.mem_map.mp hka
  exact ⟨rfl, List.mem_map.mpr ⟨a, ha, rfl⟩⟩

/-- a rejected run leaves the sockets exactly as they were -/
theorem run_err {cid : Nat} {c : Cfg} {e : Env} {s s' : State} {o : Option Ctx} {r : Res}
    (hb : ∀ k ∈ s.socks, k.cid ≠ cid) (h : run cid c e s = (s', o, r)) (hr : r ≠ .ok) :
    s'.socks = s.socks := by
  unfold run at h
  have h1 := provisionContext_frame cid c e.pp s
  have hc := provisionContext_ctx cid c e.pp s
  generalize provisionContext cid c e.pp s = r1 at h h1 hc
  obtain ⟨s1, o1, e1⟩ := r1
  have base1 : Own cid s.socks [] s1 := ⟨[], by have := h1.socks; simp at this; simp [this], by simp⟩
  cases e1 with
  | some r' =>
    simp at h
    obtain ⟨rfl, _, _⟩ := h
    exact h1.socks
  | none =>
    cases o1 with
    | none =>
      simp at h
      obtain ⟨rfl, _, _⟩ := h
      exact h1.socks
    | some ctx =>
      obtain ⟨hc1, hc2⟩ := hc s1 ctx rfl
      dsimp only at h
      split at h
      · simp at h
        obtain ⟨rfl, _, _⟩ := h
        rw [restoreStorage_socks]
        exact (cancel_frame cid ctx.cbs ctx.wkeys ctx.live s1).socks.trans h1.socks
      have hf := own_startApps_fail e.blocked hb (order e.ps ctx.apps) [] s1 (by simpa using base1)
      generalize h2 : startApps cid e.blocked [] (order e.ps ctx.apps) s1 = r2 at h hf
      obtain ⟨s2, b⟩ := r2
      cases b with
      | false =>
        simp at h
        obtain ⟨rfl, _, _⟩ := h
        have hs := (cancel_frame cid ctx.cbs ctx.wkeys ctx.live s2).socks
        rw [restoreStorage_socks, hs]
        exact (hf rfl).nil
      | true =>
        dsimp only at h
        have h3 := finishSettingUp_spec ctx e.post s2
        generalize finishSettingUp ctx e.post s2 = r3 at h h3
        obtain ⟨s3, ctx', b3⟩ := r3
        cases b3 with
        | true => simp at h; exact absurd h.2.2.symm hr
        | false =>
          simp at h
          obtain ⟨rfl, _, _⟩ := h
          rw [restoreStorage_socks]
          unfold unsyncedStop
          dsimp only
          rw [(cancel_frame _ _ _ _ _).socks]
          have hs3 : s3.socks = s.socks ++ (order e.ps ctx.apps).flatMap (appSocks cid) := by
            rw [h3.1.socks, startApps_ok _ _ _ _ h2, h1.socks]
          have hown := own_of_flatMap hs3
          rw [h3.2.1, hc1]
          refine own_stop_all hb hown ?_
          intro n hn
          rw [h3.2.2.1]
          obtain ⟨a, ha, rfl⟩ := List.mem_map.mp hn
          exact List.mem_map.mpr ⟨a, (order_perm e.ps ctx.apps).mem_iff.mp ha, rfl⟩

/-! ### decodeAndRun, changeTo -/

theorem decodeAndRun_ok {cid : Nat} {c : Cfg} {e : Env} {s0 s1 : State}
    (h : decodeAndRun cid c e s0 = (s1, .ok)) :
    ∃ s' ctx, run cid c e s0 = (s', some ctx, .ok) ∧ s1 = unsyncedStop s0.cur { s' with cur := some ctx } := by
  unfold decodeAndRun at h
  split at h
  · simp at h
  · generalize hrun : run cid c e s0 = q at h
    obtain ⟨s', o, res⟩ := q
    by_cases hok : res = .ok
    · subst hok
      obtain ⟨ctx, rfl, _⟩ := run_ok hrun
      simp at h
      exact ⟨s', ctx, rfl, h.symm⟩
    · exfalso
      cases o <;> cases res <;> simp at h hok

theorem decodeAndRun_err {cid : Nat} {c : Cfg} {e : Env} {s0 s1 : State} {r : Res}
    (hb : ∀ k ∈ s0.socks, k.cid ≠ cid) (h : decodeAndRun cid c e s0 = (s1, r)) (hr : r ≠ .ok) :
    Frame4 s0 s1 ∧ s1.socks = s0.socks := by
  unfold decodeAndRun at h
  split at h
  · simp at h
    obtain ⟨rfl, _⟩ := h
    exact ⟨Frame4.rfl' _, rfl⟩
  · have hf := run_frame4 cid c e s0
    generalize hrun : run cid c e s0 = q at h hf
    obtain ⟨s', o, res⟩ := q
    by_cases hok : res = .ok
    · subst hok
      obtain ⟨ctx, rfl, _⟩ := run_ok hrun
      simp at h
      exact absurd h.2.symm hr
    · have herr := run_err hb hrun hok
      have : s1 = s' := by
        cases o <;> cases res <;> simp at h hok ⊢ <;> exact h.1.symm
      subst this
      exact ⟨hf, herr⟩

/-- the four ways `changeTo` can go -/
theorem changeTo_cases (c : Cfg) (e : Env) (s : State) :
    (s.rawJSON = some c ∧ changeTo c e s = ({ s with raw := some c }, .same)) ∨
    (changeTo c e s = ({ s with raw := s.rawJSON }, .errIndex)) ∨
    (∃ s1, decodeAndRun s.next c e { s with raw := some c } = (s1, .ok) ∧
      changeTo c e s = ({ s1 with rawJSON := some c }, .ok)) ∨
    (∃ s1 r, r ≠ .ok ∧ decodeAndRun s.next c e { s with raw := some c } = (s1, r) ∧
      changeTo c e s = ({ s1 with raw := s.rawJSON }, r)) := by
  unfold changeTo
  split
  · rename_i h
    simp at h
    exact Or.inl ⟨h.2, rfl⟩
  · split
    · exact Or.inr (Or.inl rfl)
    · generalize hq : decodeAndRun s.next c e { s with raw := some c } = q
      obtain ⟨s1, res⟩ := q
      by_cases hok : res = .ok
      · subst hok
        exact Or.inr (Or.inr (Or.inl ⟨s1, rfl, rfl⟩))
      · refine Or.inr (Or.inr (Or.inr ⟨s1, res, hok, rfl, ?_⟩))
        cases res <;> first | exact absurd rfl hok | rfl


/-! ### rejected attempts -/

theorem rejected_changes_nothing' (s : State) (c : Cfg) (e : Env)
    (hw : s.raw = s.rawJSON) (hs : ∀ k ∈ s.socks, k.cid < s.next)
    (hr : (changeTo c e s).2.accepted = false) :
    (changeTo c e s).1.raw = s.raw ∧ (changeTo c e s).1.rawJSON = s.rawJSON ∧
    (changeTo c e s).1.cur = s.cur ∧ (changeTo c e s).1.next = s.next ∧
    (changeTo c e s).1.socks = s.socks := by
  have hb : ∀ k ∈ s.socks, k.cid ≠ s.next := fun k hk => Nat.ne_of_lt (hs k hk)
  rcases changeTo_cases c e s with ⟨_, h⟩ | h | ⟨s1, _, h⟩ | ⟨s1, r, hok, hq, h⟩
  · rw [h] at hr; simp [Res.accepted] at hr
  · rw [h]; exact ⟨hw.symm, rfl, rfl, rfl, rfl⟩
  · rw [h] at hr; simp [Res.accepted] at hr
  · rw [h]
    obtain ⟨hf, hsock⟩ := decodeAndRun_err (s0 := { s with raw := some c }) hb hq hok
    exact ⟨hw.symm, hf.rawJSON, hf.cur, hf.next, hsock⟩

/-! ### accepted attempts; the invariant of histories without the F2 event -/

/-- what stopping the old context does to the socket list -/
def closeOld (old : Option Ctx) (l : List Sock) : List Sock :=
  match old with
  | none => l
  | some o => l.filter (fun k => !(k.cid == o.cid && o.apps.any (fun a => a.name == k.app)))

theorem unsyncedStop_socks (old : Option Ctx) (s : State) :
    (unsyncedStop old s).socks = closeOld old s.socks := by
  unfold unsyncedStop closeOld
  cases old with
  | none => rfl
  | some o => dsimp only; rw [(cancel_frame _ _ _ _ _).socks, stopApps_socks]

/-- an accepted attempt: raw tree = submitted config, the current context is the new one, the
    old context's sockets are closed and the new config's listeners are all bound -/
theorem changeTo_ok {c : Cfg} {e : Env} {s : State} (h : (changeTo c e s).2 = .ok) :
    (changeTo c e s).1.raw = some c ∧ (changeTo c e s).1.rawJSON = some c ∧
    (changeTo c e s).1.next = s.next ∧
    (∃ ctx, (changeTo c e s).1.cur = some ctx ∧ ctx.cid = s.next ∧ ctx.apps = c.apps) ∧
    (changeTo c e s).1.socks = closeOld s.cur (s.socks ++ (order e.ps c.apps).flatMap (appSocks s.next)) := by
  rcases changeTo_cases c e s with ⟨_, h'⟩ | h' | ⟨s1, hq, h'⟩ | ⟨s1, r, hok, hq, h'⟩
  · rw [h'] at h; cases h
  · rw [h'] at h; cases h
  · rw [h']
    obtain ⟨s', ctx, hrun, rfl⟩ := decodeAndRun_ok hq
    obtain ⟨ctx', hctx, h1, h2, h3⟩ := run_ok hrun
    cases hctx
    have hf := run_frame4 s.next c e { s with raw := some c }
    rw [hrun] at hf
    have hu := unsyncedStop_frame4 ({ s with raw := some c } : State).cur { s' with cur := some ctx }
    refine ⟨hu.raw.trans hf.raw, rfl, hu.next.trans hf.next, ⟨ctx, hu.cur, h1, h2⟩, ?_⟩
    show (unsyncedStop _ _).socks = _
    rw [unsyncedStop_socks]
    show closeOld s.cur s'.socks = _
    rw [h3]
  · rw [h'] at h; exact absurd h hok

theorem run_accepted {cid : Nat} {c : Cfg} {e : Env} {s s' : State} {o : Option Ctx} {r : Res}
    (h : run cid c e s = (s', o, r)) (ha : r.accepted = true) : r = .ok := by
  unfold run at h
  have he := provisionContext_err cid c e.pp s
  generalize provisionContext cid c e.pp s = r1 at h he
  obtain ⟨s1, o1, e1⟩ := r1
  cases e1 with
  | some r' =>
    simp at h
    have := he r' rfl
    rw [h.2.2, ha] at this
    cases this
  | none =>
    cases o1 with
    | none => simp at h; rw [← h.2.2] at ha; cases ha
    | some ctx =>
      dsimp only at h
      split at h
      · simp at h; rw [← h.2.2] at ha; cases ha
      generalize startApps cid e.blocked [] (order e.ps ctx.apps) s1 = r2 at h
      obtain ⟨s2, b⟩ := r2
      cases b with
      | false => simp at h; rw [← h.2.2] at ha; cases ha
      | true =>
        dsimp only at h
        generalize finishSettingUp ctx e.post s2 = r3 at h
        obtain ⟨s3, ctx', b3⟩ := r3
        cases b3 with
        | false => simp at h; rw [← h.2.2] at ha; cases ha
        | true => simp at h; exact h.2.2.symm

theorem decodeAndRun_accepted {cid : Nat} {c : Cfg} {e : Env} {s0 s1 : State} {r : Res}
    (h : decodeAndRun cid c e s0 = (s1, r)) (ha : r.accepted = true) : r = .ok := by
  unfold decodeAndRun at h
  split at h
  · simp at h; rw [← h.2] at ha; cases ha
  · generalize hrun : run cid c e s0 = q at h
    obtain ⟨s', o, res⟩ := q
    by_cases hok : res = .ok
    · subst hok
      obtain ⟨ctx, rfl, _⟩ := run_ok hrun
      simp at h; exact h.2.symm
    · have : r = res := by
        cases o <;> cases res <;> simp at h hok ⊢ <;> exact h.2.symm
      subst this
      exact absurd (run_accepted hrun ha) hok

theorem changeTo_same {c : Cfg} {e : Env} {s : State} (h : (changeTo c e s).2 = .same) :
    s.rawJSON = some c ∧ (changeTo c e s).1 = { s with raw := some c } := by
  rcases changeTo_cases c e s with ⟨h0, h'⟩ | h' | ⟨s1, hq, h'⟩ | ⟨s1, r, hok, hq, h'⟩
  · rw [h']; exact ⟨h0, rfl⟩
  · rw [h'] at h; cases h
  · rw [h'] at h; cases h
  · exfalso
    rw [h'] at h
    simp only at h
    subst h
    have := decodeAndRun_accepted hq rfl
    cases this

theorem changeTo_accepted {c : Cfg} {e : Env} {s : State} (h : (changeTo c e s).2.accepted = true) :
    (changeTo c e s).2 = .ok ∨ (changeTo c e s).2 = .same := by
  rcases changeTo_cases c e s with ⟨h0, h'⟩ | h' | ⟨s1, hq, h'⟩ | ⟨s1, r, hok, hq, h'⟩
  · rw [h']; exact Or.inr rfl
  · rw [h'] at h; cases h
  · rw [h']; exact Or.inl rfl
  · rw [h'] at h ⊢
    exact Or.inl (decodeAndRun_accepted hq h)

/-! ### the invariant: the server is exactly what the spec says is running -/

def RunInv (s : State) : Option Cfg → Prop
  | none => s.cur = none ∧ s.socks = []
  | some c => ∃ ctx, s.cur = some ctx ∧ ctx.apps = c.apps ∧ ctx.cid < s.next ∧
      (∀ k ∈ s.socks, k.cid = ctx.cid ∧ k.app ∈ c.apps.map (·.name)) ∧
      (answers s).Perm (Spec.cfgAnswers (some c))

structure Inv (s : State) (r : Option Cfg) : Prop where
  raw : s.raw = r
  rawJSON : s.rawJSON = r
  sockCid : ∀ k ∈ s.socks, k.cid < s.next
  run : RunInv s r

theorem inv_init : Inv State.init none := ⟨rfl, rfl, by simp [State.init], ⟨rfl, rfl⟩⟩

theorem closeOld_inv {s : State} {r : Option Cfg} (h : Inv s r) (new : List Sock)
    (hn : ∀ k ∈ new, k.cid = s.next) : closeOld s.cur (s.socks ++ new) = new := by
  cases r with
  | none =>
    obtain ⟨h1, h2⟩ := h.run
    rw [h1, h2]; rfl
  | some c =>
    obtain ⟨ctx, h1, h2, h3, h4, _⟩ := h.run
    rw [h1]
    unfold closeOld
    dsimp only
    rw [List.filter_append]
    have e1 : s.socks.filter (fun k => !(k.cid == ctx.cid && ctx.apps.any (fun a => a.name == k.app))) = [] := by
      apply List.filter_eq_nil_iff.mpr
      intro k hk
      obtain ⟨hc, ha⟩ := h4 k hk
      rw [← h2] at ha
      obtain ⟨a, ha1, ha2⟩ := List.mem_map.mp ha
      have : ctx.apps.any (fun a => a.name == k.app) = true := List.any_eq_true.mpr ⟨a, ha1, by simp [ha2]⟩
      simp [hc, this]
    have e2 : new.filter (fun k => !(k.cid == ctx.cid && ctx.apps.any (fun a => a.name == k.app))) = new := by
      apply List.filter_eq_self.mpr
      intro k hk
      have : k.cid ≠ ctx.cid := by rw [hn k hk]; exact Nat.ne_of_gt h3
      simp [this]
    rw [e1, e2]; rfl

theorem answers_new (cid : Nat) (l : List App) :
    (l.flatMap (appSocks cid)).map (fun k => (k.addr, k.tag)) = l.flatMap Spec.appAnswers := by
  induction l with
  | nil => rfl
  | cons a l ih =>
    simp only [List.flatMap_cons, List.map_append, ih]
    congr 1
    simp [appSocks, Spec.appAnswers]

/-- one attempt keeps the invariant, with the spec's all-or-nothing update -/
theorem inv_changeTo {s : State} {r : Option Cfg} (h : Inv s r) (c : Cfg) (e : Env) :
    Inv (bump (changeTo c e s)).1 (bif (changeTo c e s).2.accepted then some c else r) := by
  cases ha : (changeTo c e s).2.accepted with
  | false =>
    simp only [cond_false]
    obtain ⟨h1, h2, h3, h4, h6⟩ :=
      rejected_changes_nothing' s c e (h.raw.trans h.rawJSON.symm) h.sockCid ha
    refine ⟨h1.trans h.raw, h2.trans h.rawJSON, ?_, ?_⟩
    · intro k hk
      show k.cid < (changeTo c e s).1.next + 1
      rw [h4]
      have hk' : k ∈ (changeTo c e s).1.socks := hk
      rw [h6] at hk'
      exact Nat.lt_succ_of_lt (h.sockCid k hk')
    · cases r with
      | none =>
        obtain ⟨r1, r2⟩ := h.run
        exact ⟨h3.trans r1, h6.trans r2⟩
      | some c0 =>
        obtain ⟨ctx, r1, r2, r3, r4, r5⟩ := h.run
        refine ⟨ctx, h3.trans r1, r2, ?_, ?_, ?_⟩
        · show ctx.cid < (changeTo c e s).1.next + 1
          rw [h4]; exact Nat.lt_succ_of_lt r3
        · intro k hk
          have hk' : k ∈ (changeTo c e s).1.socks := hk
          rw [h6] at hk'
          exact r4 k hk'
        · show ((changeTo c e s).1.socks.map _).Perm _
          rw [h6]; exact r5
  | true =>
    simp only [cond_true]
    rcases changeTo_accepted ha with hok | hsame
    · obtain ⟨h1, h2, h3, ⟨ctx, h4, h5, h6⟩, h7⟩ := changeTo_ok hok
      have hnew : ∀ k ∈ (order e.ps c.apps).flatMap (appSocks s.next), k.cid = s.next := by
        intro k hk
        obtain ⟨a, _, hka⟩ := List.mem_flatMap.mp hk
        obtain ⟨ad, _, rfl⟩ := List.mem_map.mp hka
        rfl
      rw [closeOld_inv h _ hnew] at h7
      refine ⟨h1, h2, ?_, ctx, h4, h6, ?_, ?_, ?_⟩
      · intro k hk
        show k.cid < (changeTo c e s).1.next + 1
        have hk' : k ∈ (changeTo c e s).1.socks := hk
        rw [h3]; rw [h7] at hk'; rw [hnew k hk']; exact Nat.lt_succ_self _
      · show ctx.cid < (changeTo c e s).1.next + 1
        rw [h3, h5]; exact Nat.lt_succ_self _
      · intro k hk0
        have hk : k ∈ (changeTo c e s).1.socks := hk0
        rw [h7] at hk
        refine ⟨(hnew k hk).trans h5.symm, ?_⟩
        obtain ⟨a, ha1, hka⟩ := List.mem_flatMap.mp hk
        obtain ⟨ad, _, rfl⟩ := List.mem_map.mp hka
        exact List.mem_map.mpr ⟨a, (order_perm e.ps c.apps).mem_iff.mp ha1, rfl⟩
      · show ((changeTo c e s).1.socks.map _).Perm _
        rw [h7, answers_new]
        exact (order_perm e.ps c.apps).flatMap_right _
    · obtain ⟨h0, h1⟩ := changeTo_same hsame
      have hr : r = some c := h.rawJSON.symm.trans h0
      subst hr
      show Inv { (changeTo c e s).1 with next := (changeTo c e s).1.next + 1 } (some c)
      rw [h1]
      exact ⟨rfl, h.rawJSON, fun k hk => Nat.lt_succ_of_lt (h.sockCid k hk), by
        obtain ⟨ctx, r1, r2, r3, r4, r5⟩ := h.run
        exact ⟨ctx, r1, r2, Nat.lt_succ_of_lt r3, r4, r5⟩⟩

theorem inv_frame_bump {s s' : State} {r : Option Cfg} (h : Inv s r) (hf : FrameX s s') (res : Res) :
    Inv (bump (s', res)).1 r := by
  refine ⟨hf.raw.trans h.raw, hf.rawJSON.trans h.rawJSON, ?_, ?_⟩
  · intro k hk
    have hk' : k ∈ s'.socks := hk
    rw [hf.socks] at hk'
    show k.cid < s'.next + 1
    rw [hf.next]; exact Nat.lt_succ_of_lt (h.sockCid k hk')
  · cases r with
    | none =>
      obtain ⟨r1, r2⟩ := h.run
      exact ⟨hf.cur.trans r1, hf.socks.trans r2⟩
    | some c0 =>
      obtain ⟨ctx, r1, r2, r3, r4, r5⟩ := h.run
      refine ⟨ctx, hf.cur.trans r1, r2, ?_, ?_, ?_⟩
      · show ctx.cid < s'.next + 1
        rw [hf.next]; exact Nat.lt_succ_of_lt r3
      · intro k hk
        have hk' : k ∈ s'.socks := hk
        rw [hf.socks] at hk'
        exact r4 k hk'
      · show (s'.socks.map _).Perm _
        rw [hf.socks]; exact r5

theorem validate_frame (c : Cfg) (e : Env) (s : State) : FrameX s (validate c e s).1 := by
  unfold validate
  have h1 := provisionContext_frame s.next c e.pp s
  generalize provisionContext s.next c e.pp s = q at h1
  obtain ⟨s1, o, r⟩ := q
  cases r with
  | some r => exact h1
  | none =>
    cases o with
    | none => exact h1
    | some ctx => exact (h1.trans (cancel_frame _ _ _ _ _).toX).trans (restoreStorage_frame _ _)

/-- one operation keeps the invariant; the spec is told only whether the operation was accepted -/
theorem inv_step {s : State} {r : Option Cfg} (h : Inv s r) (op : Op) :
    Inv (step s op).1 (Spec.step r op (step s op).2.accepted) := by
  cases op with
  | load c e =>
    have := inv_changeTo h c e
    show Inv (bump (changeTo c e s)).1 (Spec.step r (.load c e) (changeTo c e s).2.accepted)
    cases hacc : (changeTo c e s).2.accepted <;> rw [hacc] at this <;> exact this
  | patch a e =>
    unfold step
    rw [h.raw]
    cases r with
    | none => exact inv_frame_bump h (FrameX.rfl' s) _
    | some c0 =>
      dsimp only
      cases hra : replaceApp a c0.apps with
      | none => exact inv_frame_bump h (FrameX.rfl' s) _
      | some apps =>
        have := inv_changeTo h { c0 with apps := apps } e
        show Inv (bump (changeTo { c0 with apps := apps } e s)).1
          (Spec.step (some c0) (.patch a e) (changeTo { c0 with apps := apps } e s).2.accepted)
        cases hacc : (changeTo { c0 with apps := apps } e s).2.accepted <;> rw [hacc] at this
        · exact this
        · simpa [Spec.step, Spec.attempted, hra] using this
  | del n e =>
    unfold step
    rw [h.raw]
    cases r with
    | none => exact inv_frame_bump h (FrameX.rfl' s) _
    | some c0 =>
      dsimp only
      cases hra : removeApp n c0.apps with
      | none => exact inv_frame_bump h (FrameX.rfl' s) _
      | some apps =>
        have := inv_changeTo h { c0 with apps := apps } e
        show Inv (bump (changeTo { c0 with apps := apps } e s)).1
          (Spec.step (some c0) (.del n e) (changeTo { c0 with apps := apps } e s).2.accepted)
        cases hacc : (changeTo { c0 with apps := apps } e s).2.accepted <;> rw [hacc] at this
        · exact this
        · simpa [Spec.step, Spec.attempted, hra] using this
  | junk => exact inv_frame_bump h (FrameX.rfl' s) _
  | validate c e =>
    have := inv_frame_bump h (validate_frame c e s) (validate c e s).2
    simpa [step, Spec.step] using this
  | stop =>
    have hs : (unsyncedStop s.cur s).socks = [] := by
      rw [unsyncedStop_socks]
      have := closeOld_inv h [] (by simp)
      simpa using this
    have hf := unsyncedStop_frame4 s.cur s
    refine ⟨rfl, rfl, ?_, ⟨rfl, hs⟩⟩
    intro k hk
    have hk' : k ∈ (unsyncedStop s.cur s).socks := hk
    rw [hs] at hk'
    cases hk'

theorem inv_runBoth : ∀ (ops : List Op) (s : State) (r : Option Cfg), Inv s r →
    Inv (runBoth s r ops).1 (runBoth s r ops).2
  | [], _, _, h => h
  | o :: os, s, r, h => by
    unfold runBoth
    exact inv_runBoth os _ _ (inv_step h o)

/-! ### the process-wide default storage (certmagic.Default.Storage) -/

theorem setStorage_ok {cid : Nat} {m : Mod} {s s' : State} {live live' : List Live}
    (h : setStorage cid m s live = (s', live', none)) : s'.dstor = m.key := by
  unfold setStorage at h
  split at h
  · rename_i hk
    simp at h; rw [← h.1]; exact hk.symm
  · split at h
    · simp at h
    · generalize loadStorAt ⟨s.nseq, cid, 102, 0⟩ m (alloc s) live = r at h
      obtain ⟨s1, live1, o⟩ := r
      cases o with
      | none => simp at h; rw [← h.1]
      | some r => simp at h

/-- the storage of the configuration that is current; caddy's DefaultStorage (0) if none is -/
def storOf : Option Ctx → Nat
  | some ctx => ctx.stor
  | none => 0

theorem restoreStorage_dstor (p : Nat) (s : State) : (restoreStorage p s).dstor = storOf s.cur := by
  unfold restoreStorage storOf; split <;> rename_i h <;> rw [h]

/-- provisionContext and the default storage: on success it is the new config's storage (also
    recorded in the context); on failure it is put back to the storage of the configuration that
    is current, or to caddy's DefaultStorage if none is. -/
theorem provisionContext_dstor (cid : Nat) (c : Cfg) (pp : List Nat) (s : State) :
    (∀ s1 ctx, provisionContext cid c pp s = (s1, some ctx, none) → s1.dstor = c.stor.key ∧ ctx.stor = c.stor.key) ∧
    (∀ r, (provisionContext cid c pp s).2.2 = some r → (provisionContext cid c pp s).1.dstor = storOf s.cur) ∧
    ((provisionContext cid c pp s).2.2 = none → ∃ ctx, (provisionContext cid c pp s).2.1 = some ctx) := by
  unfold provisionContext
  have h1 := openLogs_frame cid c.logs s
  generalize openLogs cid c.logs s = r1 at h1
  obtain ⟨s1, live1, wk, o1⟩ := r1
  cases o1 with
  | some r =>
    refine ⟨fun _ _ hh => by simp at hh, fun _ _ => ?_, fun hh => by simp at hh⟩
    show (restoreStorage _ _).dstor = _
    rw [restoreStorage_dstor, (cancel_frame _ _ _ _ _).cur, h1.cur]
  | none =>
    dsimp only
    have h1' := setStorage_frame cid c.stor s1 live1
    have hk : ∀ s' live', setStorage cid c.stor s1 live1 = (s', live', none) → s'.dstor = c.stor.key :=
      fun _ _ h => setStorage_ok h
    generalize setStorage cid c.stor s1 live1 = r1' at h1' hk
    obtain ⟨s1', live1', o1'⟩ := r1'
    cases o1' with
    | some r =>
      refine ⟨fun _ _ hh => by simp at hh, fun _ _ => ?_, fun hh => by simp at hh⟩
      show (restoreStorage _ _).dstor = _
      rw [restoreStorage_dstor, (cancel_frame _ _ _ _ _).cur, h1'.cur, h1.cur]
    | none =>
      dsimp only
      have hk' := hk s1' live1' rfl
      have h2 := loadApps_frame cid (order pp c.apps) s1' live1'
      generalize loadApps cid (order pp c.apps) s1' live1' = r2 at h2
      obtain ⟨s2, live2, o2⟩ := r2
      cases o2 with
      | some r =>
        refine ⟨fun _ _ hh => by simp at hh, fun _ _ => ?_, fun hh => by simp at hh⟩
        show (restoreStorage _ _).dstor = _
        rw [restoreStorage_dstor, (cancel_frame _ _ _ _ _).cur, h2.cur, h1'.cur, h1.cur]
      | none =>
        refine ⟨fun s1x ctx hh => ?_, fun r hh => by simp at hh, fun _ => ⟨_, rfl⟩⟩
        simp at hh
        obtain ⟨rfl, rfl⟩ := hh
        exact ⟨h2.dstor.trans hk', h2.dstor.trans hk'⟩

theorem bindAll_dstor (cid : Nat) (a : App) (blocked l : List Nat) (s : State) :
    (bindAll cid a blocked l s).1.dstor = s.dstor := by
  obtain ⟨pre, suf, _, h2, _, _⟩ := bindAll_spec cid a blocked l s
  rw [h2]

theorem startApp_dstor (cid : Nat) (blocked : List Nat) (a : App) (s : State) :
    (startApp cid blocked a s).1.dstor = s.dstor := by
  unfold startApp
  split
  · have h := bindAll_dstor cid a blocked a.listen s
    generalize bindAll cid a blocked a.listen s = r at h
    obtain ⟨s', b⟩ := r
    cases b with
    | true => dsimp only; split <;> exact h
    | false => exact h
  · split
    · rfl
    · have h := bindAll_dstor cid a blocked a.listen (evA s [.start cid a.name])
      generalize bindAll cid a blocked a.listen (evA s [.start cid a.name]) = r at h
      obtain ⟨s', b⟩ := r
      cases b <;> exact h

theorem stopApps_dstor (cid : Nat) : ∀ (as : List App) (s : State), (stopApps cid as s).dstor = s.dstor
  | [], _ => rfl
  | a :: as, s => by
    unfold stopApps
    rw [stopApps_dstor cid as]
    unfold stopApp; split <;> rfl

theorem startApps_dstor (cid : Nat) (blocked : List Nat) : ∀ (rest started : List App) (s : State),
    (startApps cid blocked started rest s).1.dstor = s.dstor
  | [], _, _ => rfl
  | a :: rest, started, s => by
    unfold startApps
    have h := startApp_dstor cid blocked a s
    generalize startApp cid blocked a s = r at h
    obtain ⟨s', b⟩ := r
    cases b with
    | true => dsimp only; rw [startApps_dstor cid blocked rest, h]
    | false => dsimp only; rw [stopApps_dstor, h]

theorem unsyncedStop_dstor (c : Option Ctx) (s : State) : (unsyncedStop c s).dstor = s.dstor := by
  unfold unsyncedStop
  cases c with
  | none => rfl
  | some ctx => dsimp only; rw [(cancel_frame _ _ _ _ _).dstor, stopApps_dstor]

theorem finishSettingUp_stor (ctx : Ctx) (post : Bool) (s : State) :
    (finishSettingUp ctx post s).2.1.stor = ctx.stor := by
  unfold finishSettingUp finishSettingUpAt
  cases post <;> rfl

/-- run and the default storage: an accepted run leaves it at the new config's storage; a run
    rejected ANYWHERE (provisionContext, admin routers, Start, post-start) puts it back to the
    storage of the configuration that is current, or to caddy's DefaultStorage if none is -/
theorem run_dstor (cid : Nat) (c : Cfg) (e : Env) (s : State) :
    (∀ s' ctx, run cid c e s = (s', some ctx, .ok) → s'.dstor = c.stor.key ∧ ctx.stor = c.stor.key) ∧
    ((run cid c e s).2.2 ≠ .ok → (run cid c e s).1.dstor = storOf s.cur) := by
  unfold run
  have hd := provisionContext_dstor cid c e.pp s
  have hf := provisionContext_frame cid c e.pp s
  generalize provisionContext cid c e.pp s = r1 at hd hf
  obtain ⟨s1, o1, e1⟩ := r1
  cases e1 with
  | some r =>
    refine ⟨fun _ _ hh => by simp at hh, fun _ => ?_⟩
    exact hd.2.1 r rfl
  | none =>
    obtain ⟨ctx, hctx⟩ := hd.2.2 rfl
    simp only at hctx
    subst hctx
    obtain ⟨hk1, hk2⟩ := hd.1 s1 ctx rfl
    dsimp only
    by_cases hadm : e.adm = 2
    · simp only [hadm, if_true]
      refine ⟨fun _ _ hh => by simp at hh, fun _ => ?_⟩
      show (restoreStorage _ _).dstor = _
      rw [restoreStorage_dstor, (cancel_frame _ _ _ _ _).cur, hf.cur]
    simp only [hadm, if_false]
    have hs := startApps_frame4 cid e.blocked (order e.ps ctx.apps) [] s1
    have hsd := startApps_dstor cid e.blocked (order e.ps ctx.apps) [] s1
    generalize startApps cid e.blocked [] (order e.ps ctx.apps) s1 = r2 at hs hsd
    obtain ⟨s2, b⟩ := r2
    simp only at hsd
    cases b with
    | false =>
      dsimp only
      refine ⟨fun _ _ hh => by simp at hh, fun _ => ?_⟩
      show (restoreStorage _ _).dstor = _
      rw [restoreStorage_dstor, (cancel_frame _ _ _ _ _).cur, hs.cur, hf.cur]
    | true =>
      dsimp only
      have h3 := (finishSettingUp_spec ctx e.post s2).1
      have h4 := finishSettingUp_stor ctx e.post s2
      generalize finishSettingUp ctx e.post s2 = r3 at h3 h4
      obtain ⟨s3, ctx', b3⟩ := r3
      simp only at h3 h4
      cases b3 with
      | false =>
        dsimp only
        refine ⟨fun _ _ hh => by simp at hh, fun _ => ?_⟩
        show (restoreStorage _ _).dstor = _
        rw [restoreStorage_dstor, (unsyncedStop_frame4 _ _).cur, h3.cur, hs.cur, hf.cur]
      | true =>
        dsimp only
        refine ⟨fun _ _ hh => ?_, fun hne => absurd rfl hne⟩
        simp at hh
        obtain ⟨rfl, rfl⟩ := hh
        exact ⟨(h3.dstor.trans hsd).trans hk1, h4.trans hk2⟩

/-- Validate puts the default storage back, whether the dry run succeeds or not -/
theorem validate_dstor (c : Cfg) (e : Env) (s : State) : (validate c e s).1.dstor = storOf s.cur := by
  unfold validate
  have hd := provisionContext_dstor s.next c e.pp s
  have hf := provisionContext_frame s.next c e.pp s
  generalize provisionContext s.next c e.pp s = q at hd hf
  obtain ⟨s1, o, r⟩ := q
  cases r with
  | some r => exact hd.2.1 r rfl
  | none =>
    obtain ⟨ctx, hctx⟩ := hd.2.2 rfl
    simp only at hctx
    subst hctx
    show (restoreStorage _ _).dstor = _
    rw [restoreStorage_dstor, (cancel_frame _ _ _ _ _).cur, hf.cur]

/-! ### the process-wide default logger (caddy.Log()) -/

theorem setStorage_dlogger (cid : Nat) (m : Mod) (s : State) (live : List Live) :
    (setStorage cid m s live).1.dlogger = s.dlogger := by
  unfold setStorage
  split
  · rfl
  · split
    · rfl
    · have h := (frame_alloc s).trans (loadStorAt_frame ⟨s.nseq, cid, 102, 0⟩ m (alloc s) live)
      generalize loadStorAt ⟨s.nseq, cid, 102, 0⟩ m (alloc s) live = r at h
      obtain ⟨s', live', o⟩ := r
      cases o <;> exact h.dlogger

theorem restoreStorage_dlogger (p : Nat) (s : State) : (restoreStorage p s).dlogger = p := by
  unfold restoreStorage; split <;> rfl

/-- provisionContext: on success the process default logger is ITS context's default log
    (openLogs installs it first); on every error the previous one is put back -/
theorem provisionContext_dlogger (cid : Nat) (c : Cfg) (pp : List Nat) (s : State) :
    (∀ r, (provisionContext cid c pp s).2.2 = some r → (provisionContext cid c pp s).1.dlogger = s.dlogger) ∧
    ((provisionContext cid c pp s).2.2 = none → (provisionContext cid c pp s).1.dlogger = cid + 1) := by
  unfold provisionContext
  have h1 := (openLogs_dlogger cid c.logs s).1
  generalize openLogs cid c.logs s = r1 at h1
  obtain ⟨s1, live1, wk, o1⟩ := r1
  cases o1 with
  | some r =>
    refine ⟨fun _ _ => ?_, fun hh => by simp at hh⟩
    show (restoreStorage _ _).dlogger = _
    rw [restoreStorage_dlogger]
  | none =>
    dsimp only
    have h1' := setStorage_dlogger cid c.stor s1 live1
    generalize setStorage cid c.stor s1 live1 = r1' at h1'
    obtain ⟨s1', live1', o1'⟩ := r1'
    cases o1' with
    | some r =>
      refine ⟨fun _ _ => ?_, fun hh => by simp at hh⟩
      show (restoreStorage _ _).dlogger = _
      rw [restoreStorage_dlogger]
    | none =>
      dsimp only
      have h2 := (loadApps_frame cid (order pp c.apps) s1' live1').dlogger
      generalize loadApps cid (order pp c.apps) s1' live1' = r2 at h2
      obtain ⟨s2, live2, o2⟩ := r2
      cases o2 with
      | some r =>
        refine ⟨fun _ _ => ?_, fun hh => by simp at hh⟩
        show (restoreStorage _ _).dlogger = _
        rw [restoreStorage_dlogger]
      | none =>
        refine ⟨fun _ hh => by simp at hh, fun _ => ?_⟩
        show s2.dlogger = _; rw [h2, h1']; exact h1

theorem bindAll_dlogger (cid : Nat) (a : App) (blocked l : List Nat) (s : State) :
    (bindAll cid a blocked l s).1.dlogger = s.dlogger := by
  obtain ⟨pre, suf, _, h2, _, _⟩ := bindAll_spec cid a blocked l s
  rw [h2]

theorem startApp_dlogger (cid : Nat) (blocked : List Nat) (a : App) (s : State) :
    (startApp cid blocked a s).1.dlogger = s.dlogger := by
  unfold startApp
  split
  · have h := bindAll_dlogger cid a blocked a.listen s
    generalize bindAll cid a blocked a.listen s = r at h
    obtain ⟨s', b⟩ := r
    cases b with
    | true => dsimp only; split <;> exact h
    | false => exact h
  · split
    · rfl
    · have h := bindAll_dlogger cid a blocked a.listen (evA s [.start cid a.name])
      generalize bindAll cid a blocked a.listen (evA s [.start cid a.name]) = r at h
      obtain ⟨s', b⟩ := r
      cases b <;> exact h

theorem stopApps_dlogger (cid : Nat) : ∀ (as : List App) (s : State), (stopApps cid as s).dlogger = s.dlogger
  | [], _ => rfl
  | a :: as, s => by
    unfold stopApps
    rw [stopApps_dlogger cid as]
    unfold stopApp; split <;> rfl

theorem startApps_dlogger (cid : Nat) (blocked : List Nat) : ∀ (rest started : List App) (s : State),
    (startApps cid blocked started rest s).1.dlogger = s.dlogger
  | [], _, _ => rfl
  | a :: rest, started, s => by
    unfold startApps
    have h := startApp_dlogger cid blocked a s
    generalize startApp cid blocked a s = r at h
    obtain ⟨s', b⟩ := r
    cases b with
    | true => dsimp only; rw [startApps_dlogger cid blocked rest, h]
    | false => dsimp only; rw [stopApps_dlogger, h]

theorem unsyncedStop_dlogger (c : Option Ctx) (s : State) : (unsyncedStop c s).dlogger = s.dlogger := by
  unfold unsyncedStop
  cases c with
  | none => rfl
  | some ctx => dsimp only; rw [(cancel_frame _ _ _ _ _).dlogger, stopApps_dlogger]

/-- run: accepted ⇒ the process default logger is the new context's default log; rejected, wherever
    it failed ⇒ it is what it was when run was entered -/
theorem run_dlogger (cid : Nat) (c : Cfg) (e : Env) (s : State) :
    ((run cid c e s).2.2 = .ok → (run cid c e s).1.dlogger = cid + 1) ∧
    ((run cid c e s).2.2 ≠ .ok → (run cid c e s).1.dlogger = s.dlogger) := by
  unfold run
  have hd := provisionContext_dlogger cid c e.pp s
  have he := provisionContext_err cid c e.pp s
  have hx := (provisionContext_dstor cid c e.pp s).2.2
  generalize provisionContext cid c e.pp s = r1 at hd he hx
  obtain ⟨s1, o1, e1⟩ := r1
  simp only at hd he hx
  cases e1 with
  | some r =>
    refine ⟨fun hh => ?_, fun _ => hd.1 r rfl⟩
    have := he r rfl
    simp only at hh; subst hh; cases this
  | none =>
    have hd2 := hd.2 rfl
    cases o1 with
    | none => obtain ⟨ctx, hctx⟩ := hx rfl; cases hctx
    | some ctx =>
      dsimp only
      by_cases hadm : e.adm = 2
      · simp only [hadm, if_true]
        refine ⟨fun hh => absurd hh (by simp), fun _ => ?_⟩
        show (restoreStorage _ _).dlogger = _
        rw [restoreStorage_dlogger]
      simp only [hadm, if_false]
      have hs := startApps_dlogger cid e.blocked (order e.ps ctx.apps) [] s1
      generalize startApps cid e.blocked [] (order e.ps ctx.apps) s1 = r2 at hs
      obtain ⟨s2, b⟩ := r2
      simp only at hs
      cases b with
      | false =>
        refine ⟨fun hh => absurd hh (by simp), fun _ => ?_⟩
        show (restoreStorage _ _).dlogger = _
        rw [restoreStorage_dlogger]
      | true =>
        dsimp only
        have h3 := (finishSettingUp_spec ctx e.post s2).1.dlogger
        generalize finishSettingUp ctx e.post s2 = r3 at h3
        obtain ⟨s3, ctx', b3⟩ := r3
        simp only at h3
        cases b3 with
        | false =>
          refine ⟨fun hh => absurd hh (by simp), fun _ => ?_⟩
          show (restoreStorage _ _).dlogger = _
          rw [restoreStorage_dlogger]
        | true =>
          refine ⟨fun _ => ?_, fun hne => absurd rfl hne⟩
          show s3.dlogger = _; rw [h3, hs]; exact hd2

/-- Validate puts the process default logger back, whether the dry run succeeds or not -/
theorem validate_dlogger (c : Cfg) (e : Env) (s : State) : (validate c e s).1.dlogger = s.dlogger := by
  unfold validate
  have hd := provisionContext_dlogger s.next c e.pp s
  have hx := (provisionContext_dstor s.next c e.pp s).2.2
  generalize provisionContext s.next c e.pp s = q at hd hx
  obtain ⟨s1, o, r⟩ := q
  simp only at hd hx
  cases r with
  | some r => exact hd.1 r rfl
  | none =>
    cases o with
    | none => obtain ⟨ctx, hctx⟩ := hx rfl; cases hctx
    | some ctx =>
      show (restoreStorage _ _).dlogger = _
      rw [restoreStorage_dlogger]

end CaddyModel.C01
