import CaddyModel.C05.Props
open CaddyModel.C05
#print axioms subroute_same_rules
