/-
C05 — theorems about the Caddyfile adaptation of `handle_errors` (Adapt.lean).
-/
import CaddyModel.C05.Adapt
import CaddyModel.C05.Lemmas

namespace CaddyModel.C05

/-! ### what the status arguments select -/

theorem class_range_is_hundred (v c : Nat) : (decide (v * 100 ≤ c) && decide (c ≤ v * 100 + 99)) = decide (c / 100 = v) := by
  by_cases hc : c / 100 = v
  · have : v * 100 ≤ c ∧ c ≤ v * 100 + 99 := by omega
    simp [hc, this.1, this.2]
  · simp only [hc, decide_false]
    by_cases h1 : v * 100 ≤ c
    · have : ¬ c ≤ v * 100 + 99 := by omega
      simp [h1, this]
    · simp [h1]

/-- `Dxx` selects exactly the statuses D00 … D99 (in the error path, where the placeholder is set) -/
theorem status_class_selects_its_hundred (b : UInt8) (r : Req) (c : Nat) (h : r.replStatus = some c) :
    evalMatcher (selMatcher ⟨[[b]], []⟩) r = .ok (decide (c / 100 = b.toNat - 48)) := by
  have hv : C16.digitsVal 0 [b] = b.toNat - 48 := by
    unfold C16.digitsVal C16.digitsVal; omega
  simp only [selMatcher, classRange, hv, evalMatcher, h, List.map_cons, List.map_nil, List.any_cons,
    List.any_nil, Bool.or_false, List.contains_nil]
  rw [class_range_is_hundred]

/-- a code selects exactly itself -/
theorem status_code_selects_itself (x : Bytes) (r : Req) (c : Nat) (h : r.replStatus = some c) :
    evalMatcher (selMatcher ⟨[], [x]⟩) r = .ok (decide (C16.digitsVal 0 x = c)) := by
  simp only [selMatcher, codeVal, evalMatcher, h, List.map_nil, List.any_nil, Bool.false_or,
    List.map_cons]
  congr 1
  by_cases hv : C16.digitsVal 0 x = c
  · simp [hv]
  · simp only [hv, decide_false]
    have : ((c : Int) == ((C16.digitsVal 0 x : Nat) : Int)) = false := by
      simp only [beq_eq_false_iff_ne, ne_eq, Int.natCast_inj]
      exact fun h => hv h.symm
    simp [List.contains, List.elem, this]

example : parseArgs [str "4xx", str "500", str "404"] ⟨[], []⟩ = some ⟨[str "4"], [str "500", str "404"]⟩ := by decide
example : bytesToString (renderExpr ⟨[str "4"], [str "500", str "404"]⟩)
    = "{http.error.status_code} >= 400 && {http.error.status_code} <= 499 || {http.error.status_code} in [500, 404]" := by decide
-- only digits: signs, letters, wrong lengths are refused by the adapter
example : parseArgs [str "4XX"] ⟨[], []⟩ = none ∧ parseArgs [str "40"] ⟨[], []⟩ = none ∧
    parseArgs [str "-xx"] ⟨[], []⟩ = none ∧ parseArgs [str "+40"] ⟨[], []⟩ = none ∧
    parseArgs [str "-12"] ⟨[], []⟩ = none := by decide

/-! ### the directives of a `handle_errors <codes>` block keep their own matchers -/

/-- **a body directive applies iff the status is selected AND its own matcher matches**: the route
    the code builds for it (status expression in front of a subroute holding the directive's route
    as it is) behaves, in every chain and for every request, like the one route the Caddyfile
    describes — including when the status test is a matcher error. -/
theorem handle_errors_directive_keeps_its_matcher (a : StatusArgs) (d : Dir) (k : K) (r : Req) (t : Trace) :
    runRoute (dirRoute a d) k r t = runRoute (dirRouteIntended a d) k r t := by
  unfold dirRoute dirRouteIntended
  by_cases he : (a.classes.isEmpty && a.codes.isEmpty) = true
  · simp [he]
  · simp only [he, Bool.false_eq_true, if_false]
    cases hp : d.path with
    | none => rfl
    | some p =>
      simp only [runRoute, anyMatch, List.isEmpty_cons, Bool.false_eq_true, if_false, evalAny, evalSet,
        groupDone, markGroup, bne_self_eq_false, Bool.false_and, runHandlers]
      cases hm : evalMatcher (selMatcher a) r with
      | err st => rfl
      | ok b =>
        cases b with
        | false => rfl
        | true =>
          rw [runHandler_sub_without_errors]
          simp only [runRoutes, runRoute, dirSets, hp, anyMatch, List.isEmpty_cons, Bool.false_eq_true,
            if_false, evalAny, evalSet, groupDone, markGroup, bne_self_eq_false, Bool.false_and, runHandlers]

def wBlocks : List Block := [⟨[str "404"], [⟨some 1, 201⟩]⟩]

/-- `handle_errors 404 { respond /a 201 }`, a 404 on /b: the repaired adapter leaves the 404 alone
    (as the Caddyfile says); BEFORE the repair `parseHandleErrors` assigned
    `MatcherSetsRaw = [{expression}]` to every route of the body, the `/a` was gone and the
    answer was 201. -/
theorem handle_errors_inner_matcher_dropped_by_old_code :
    (serveAdapted (adaptOld wBlocks) 404 ⟨0, 0, 3, 0, [], none, none⟩).map (·.status) = some (some 201) ∧
    (serveAdapted (adapt wBlocks) 404 ⟨0, 0, 3, 0, [], none, none⟩).map (·.status) = some (some 404) ∧
    (serveAdapted (adaptIntended wBlocks) 404 ⟨0, 0, 3, 0, [], none, none⟩).map (·.status) = some (some 404) := by
  decide

example : (serveAdapted (adapt wBlocks) 404 ⟨0, 0, 1, 0, [], none, none⟩).map (·.status) = some (some 201) := by decide

end CaddyModel.C05
