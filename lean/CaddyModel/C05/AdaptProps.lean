/-
C05 — theorems about the Caddyfile adaptation modelled in Adapt.lean: `handle_errors` (status
arguments, a directive's own matcher, the block sort: `handle_errors_site_behaves_as_written`),
`handle` / `handle_path` blocks with `respond` / `error` (group names, consolidation, the as-written
reading: `adaptNodes_fresh`, `consolidate_preserves_behaviour`, `site_behaves_as_written`).
-/
import CaddyModel.C05.Adapt
import CaddyModel.C05.Lemmas
import CaddyModel.Gen.RouteCompile

namespace CaddyModel.C05

/-! ### what the status arguments select -/

theorem class_range_is_hundred (v c : Nat) : (decide (v * 100 ≤ c) && decide (c ≤ v * 100 + 99)) = decide (c / 100 = v) := by
  by_cases hc : c / 100 = v
  · have : v * 100 ≤ c ∧ c ≤ v * 100 + 99 := by omega
    simp [hc, this.1, this.2]
  · simp only [hc, decide_false]
    by_cases h1 : v * 100 ≤ c
    · have : ¬ c ≤ v * 100 + 99 := by omega
      simp [h1, this]
    · simp [h1]

/-- `Dxx` selects exactly the statuses D00 … D99 (in the error path, where the placeholder is set) -/
theorem status_class_selects_its_hundred (b : UInt8) (r : Req) (c : Nat) (h : r.replStatus = some c) :
    evalMatcher (selMatcher ⟨[[b]], []⟩) r = .ok (decide (c / 100 = b.toNat - 48)) := by
  have hv : C16.digitsVal 0 [b] = b.toNat - 48 := by
    unfold C16.digitsVal C16.digitsVal; omega
  simp only [selMatcher, classRange, hv, evalMatcher, h, List.map_cons, List.map_nil, List.any_cons,
    List.any_nil, Bool.or_false, List.contains_nil]
  rw [class_range_is_hundred]

/-- a code selects exactly itself -/
theorem status_code_selects_itself (x : Bytes) (r : Req) (c : Nat) (h : r.replStatus = some c) :
    evalMatcher (selMatcher ⟨[], [x]⟩) r = .ok (decide (C16.digitsVal 0 x = c)) := by
  simp only [selMatcher, codeVal, evalMatcher, h, List.map_nil, List.any_nil, Bool.false_or,
    List.map_cons]
  congr 1
  by_cases hv : C16.digitsVal 0 x = c
  · simp [hv]
  · simp only [hv, decide_false]
    have : ((c : Int) == ((C16.digitsVal 0 x : Nat) : Int)) = false := by
      simp only [beq_eq_false_iff_ne, ne_eq, Int.natCast_inj]
      exact fun h => hv h.symm
    simp [List.contains, List.elem, this]

example : parseArgs [str "4xx", str "500", str "404"] ⟨[], []⟩ = some ⟨[str "4"], [str "500", str "404"]⟩ := by decide
example : bytesToString (renderExpr ⟨[str "4"], [str "500", str "404"]⟩)
    = "{http.error.status_code} >= 400 && {http.error.status_code} <= 499 || {http.error.status_code} in [500, 404]" := by decide
-- only digits: signs, letters, wrong lengths are refused by the adapter
example : parseArgs [str "4XX"] ⟨[], []⟩ = none ∧ parseArgs [str "40"] ⟨[], []⟩ = none ∧
    parseArgs [str "-xx"] ⟨[], []⟩ = none ∧ parseArgs [str "+40"] ⟨[], []⟩ = none ∧
    parseArgs [str "-12"] ⟨[], []⟩ = none := by decide

/-! ### the directives of a `handle_errors <codes>` block keep their own matchers -/

/-- **a body directive applies iff the status is selected AND its own matcher matches**: the route
    the code builds for it (status expression in front of a subroute holding the directive's route
    as it is) behaves, in every chain and for every request, like the one route the Caddyfile
    describes — including when the status test is a matcher error. -/
theorem handle_errors_directive_keeps_its_matcher (a : StatusArgs) (d : Dir) (k : K) (r : Req) (t : Trace) :
    runRoute (dirRoute a d) k r t = runRoute (dirRouteIntended a d) k r t := by
  unfold dirRoute dirRouteIntended
  by_cases he : (a.classes.isEmpty && a.codes.isEmpty) = true
  · simp [he]
  · simp only [he, Bool.false_eq_true, if_false]
    cases hp : d.path with
    | none => rfl
    | some p =>
      simp only [runRoute, anyMatch, List.isEmpty_cons, Bool.false_eq_true, if_false, evalAny, evalSet,
        groupDone, markGroup, bne_self_eq_false, Bool.false_and, runHandlers]
      cases hm : evalMatcher (selMatcher a) r with
      | err st => rfl
      | ok b =>
        cases b with
        | false => rfl
        | true =>
          rw [runHandler_sub_without_errors]
          simp only [runRoutes, runRoute, dirSets, hp, anyMatch, List.isEmpty_cons, Bool.false_eq_true,
            if_false, evalAny, evalSet, groupDone, markGroup, bne_self_eq_false, Bool.false_and, runHandlers]

def wBlocks : List Block := [⟨[str "404"], [⟨some 1, 201⟩]⟩]

/-- `handle_errors 404 { respond /a 201 }`, a 404 on /b: the repaired adapter leaves the 404 alone
    (as the Caddyfile says); BEFORE the repair `parseHandleErrors` assigned
    `MatcherSetsRaw = [{expression}]` to every route of the body, the `/a` was gone and the
    answer was 201. -/
theorem handle_errors_inner_matcher_dropped_by_old_code :
    (serveAdapted (adaptOld wBlocks) 404 ⟨0, 0, 3, 0, [], none, none, 3, []⟩).map (·.status) = some (some 201) ∧
    (serveAdapted (adapt wBlocks) 404 ⟨0, 0, 3, 0, [], none, none, 3, []⟩).map (·.status) = some (some 404) ∧
    (serveAdapted (adaptIntended wBlocks) 404 ⟨0, 0, 3, 0, [], none, none, 3, []⟩).map (·.status) = some (some 404) := by
  decide

example : (serveAdapted (adapt wBlocks) 404 ⟨0, 0, 1, 0, [], none, none, 1, []⟩).map (·.status) = some (some 201) := by decide

/-! ### the whole site: the adapted error routes behave as the Caddyfile says -/

section SortMap
variable {α β : Type}

theorem insR_map (lt : α → α → Bool) (lt' : β → β → Bool) (f : α → β)
    (h : ∀ a b, lt' (f a) (f b) = lt a b) (x : α) :
    ∀ l : List α, C16.insR lt' (f x) (l.map f) = (C16.insR lt x l).map f
  | [] => rfl
  | y :: ys => by
    simp only [List.map_cons, C16.insR, h]
    split
    · simp [insR_map lt lt' f h x ys]
    · simp

theorem foldl_insR_map (lt : α → α → Bool) (lt' : β → β → Bool) (f : α → β)
    (h : ∀ a b, lt' (f a) (f b) = lt a b) :
    ∀ (l acc : List α), (l.map f).foldl (fun acc x => C16.insR lt' x acc) (acc.map f)
      = (l.foldl (fun acc x => C16.insR lt x acc) acc).map f
  | [], acc => rfl
  | x :: xs, acc => by
    simp only [List.map_cons, List.foldl_cons]
    rw [insR_map lt lt' f h x acc]
    exact foldl_insR_map lt lt' f h xs _

/-- Go's insertion sort commutes with a map that preserves the comparator -/
theorem insertionSort_map (lt : α → α → Bool) (lt' : β → β → Bool) (f : α → β)
    (h : ∀ a b, lt' (f a) (f b) = lt a b) (l : List α) :
    C16.insertionSort lt' (l.map f) = (C16.insertionSort lt l).map f := by
  unfold C16.insertionSort C16.isortR
  have := foldl_insR_map lt lt' f h l []
  simp only [List.map_nil] at this
  rw [this, List.map_reverse]

end SortMap

/-- pointwise relation of two lists of equal length -/
inductive All₂ {α β : Type} (R : α → β → Prop) : List α → List β → Prop where
  | nil : All₂ R [] []
  | cons {a b l l'} : R a b → All₂ R l l' → All₂ R (a :: l) (b :: l')

theorem all₂_isEmpty {α β : Type} {R : α → β → Prop} {l : List α} {l' : List β} (h : All₂ R l l') :
    l.isEmpty = l'.isEmpty := by
  cases h <;> rfl

/-- two routes no chain can tell apart -/
def RouteEquiv (a b : Route) : Prop := ∀ k r t, runRoute a k r t = runRoute b k r t

theorem runRoutes_congr : ∀ (l l' : List Route), All₂ RouteEquiv l l' →
    ∀ k, runRoutes l k = runRoutes l' k
  | [], [], _, k => rfl
  | [], _ :: _, h, _ => by cases h
  | _ :: _, [], h, _ => by cases h
  | a :: l, b :: l', h, k => by
    cases h with
    | cons hab hl =>
      have ih := runRoutes_congr l l' hl k
      funext r t
      simp only [runRoutes, ih]
      exact hab _ r t

theorem forall₂_map_same {γ : Type} (f g : γ → Route) (h : ∀ x, RouteEquiv (f x) (g x)) :
    ∀ l : List γ, All₂ RouteEquiv (l.map f) (l.map g)
  | [] => .nil
  | x :: xs => .cons (h x) (forall₂_map_same f g h xs)

theorem forall₂_flatten : ∀ (ls ls' : List (List Route)),
    All₂ (All₂ RouteEquiv) ls ls' → All₂ RouteEquiv ls.flatten ls'.flatten
  | [], [], _ => .nil
  | [], _ :: _, h => by cases h
  | _ :: _, [], h => by cases h
  | a :: l, b :: l', h => by
    cases h with
    | cons hab hl =>
      simp only [List.flatten_cons]
      have ih := forall₂_flatten l l' hl
      clear hl
      induction hab with
      | nil => simpa using ih
      | cons hx _ ihx => exact .cons hx ihx

theorem forall₂_map_blocks {γ : Type} (f g : γ → List Route)
    (h : ∀ x, All₂ RouteEquiv (f x) (g x)) :
    ∀ l : List γ, All₂ (All₂ RouteEquiv) (l.map f) (l.map g)
  | [] => .nil
  | x :: xs => .cons (h x) (forall₂_map_blocks f g h xs)

/-- the comparator of the block sort only looks at "empty?" and "does the first route have a
    matcher?" — both builds agree on that -/
theorem blockLess_same (p q : StatusArgs × List Dir) :
    blockLess (blockRoutes p.1 p.2) (blockRoutes q.1 q.2)
      = blockLess (blockRoutesIntended p.1 p.2) (blockRoutesIntended q.1 q.2) := by
  have key : ∀ (a : StatusArgs) (ds : List Dir),
      (blockRoutes a ds).isEmpty = (blockRoutesIntended a ds).isEmpty ∧
      firstHasNoMatcher (blockRoutes a ds) = firstHasNoMatcher (blockRoutesIntended a ds) := by
    intro a ds
    cases ds with
    | nil => simp [blockRoutes, blockRoutesIntended, firstHasNoMatcher]
    | cons d ds =>
      simp only [blockRoutes, blockRoutesIntended, List.map_cons, List.isEmpty_cons, true_and]
      unfold dirRoute dirRouteIntended
      by_cases he : (a.classes.isEmpty && a.codes.isEmpty) = true
      · simp [he, firstHasNoMatcher]
      · cases hp : d.path <;> simp [he, firstHasNoMatcher]
  unfold blockLess
  rw [(key p.1 p.2).1, (key p.1 p.2).2, (key q.1 q.2).1, (key q.1 q.2).2]

/-- **a site's `handle_errors` blocks mean what they say**: whatever the blocks, their status
    arguments, the matchers of their directives and the order the adapter's sort puts them in, the
    error routes the adapter builds answer every error on every request exactly like the routes the
    Caddyfile describes (status selected AND the directive's own matcher). -/
theorem handle_errors_site_behaves_as_written (blocks : List Block) (s : Nat) (req : Req) :
    serveAdapted (adapt blocks) s req = serveAdapted (adaptIntended blocks) s req := by
  unfold adapt adaptIntended adaptWith
  cases hp : parseBlocks blocks with
  | none => rfl
  | some ps =>
    simp only [serveAdapted]
    -- both block lists are the same sorted list of parsed blocks, mapped with the two builds
    let L : (StatusArgs × List Dir) → (StatusArgs × List Dir) → Bool :=
      fun p q => blockLess (blockRoutes p.1 p.2) (blockRoutes q.1 q.2)
    have h1 := insertionSort_map L blockLess (fun p => blockRoutes p.1 p.2) (fun _ _ => rfl) ps
    have h2 := insertionSort_map L blockLess (fun p => blockRoutesIntended p.1 p.2)
      (fun a b => (blockLess_same a b).symm) ps
    rw [h1, h2]
    have hb : ∀ x : StatusArgs × List Dir,
        All₂ RouteEquiv (blockRoutes x.1 x.2) (blockRoutesIntended x.1 x.2) := fun x =>
      forall₂_map_same (dirRoute x.1) (dirRouteIntended x.1)
        (fun d k r t => handle_errors_directive_keeps_its_matcher x.1 d k r t) x.2
    have hf := forall₂_flatten _ _ (forall₂_map_blocks _ _ hb (C16.insertionSort L ps))
    have hr := runRoutes_congr _ _ hf errorEmptyK
    have he := all₂_isEmpty hf
    simp only [serve, hr, he]

example : (serveAdapted (adapt [⟨[str "5xx"], [⟨none, 211⟩]⟩, ⟨[str "404", str "4xx"], [⟨some 1, 201⟩, ⟨none, 202⟩]⟩]) 404
    ⟨0, 0, 3, 0, [], none, none, 3, []⟩).map (·.status) = some (some 202) := by decide


mutual
def allGroups : List Route → List Nat
  | [] => []
  | rt :: rs => allGroupsRoute rt ++ allGroups rs
def allGroupsRoute : Route → List Nat
  | .mk g _ hs _ => g :: allGroupsHandlers hs
def allGroupsHandlers : List Handler → List Nat
  | [] => []
  | h :: hs => allGroupsHandler h ++ allGroupsHandlers hs
def allGroupsHandler : Handler → List Nat
  | .sub rs _ _ => allGroups rs
  | _ => []
end

/-! ### the group names of nested `handle` blocks never collide

The route-group set is ONE set per request, shared by every nesting level (Model.lean), so the
mutual exclusion of the `handle` blocks of one body is only sound if no group name is used both by
a body and by anything nested in it.  The adapter's counter guarantees that: -/

theorem allGroupsHandlers_append : ∀ (a b : List Handler),
    allGroupsHandlers (a ++ b) = allGroupsHandlers a ++ allGroupsHandlers b
  | [], b => by simp [allGroupsHandlers]
  | h :: hs, b => by simp [allGroupsHandlers, allGroupsHandlers_append hs b]

theorem mem_allGroups_consolidateStep (rt : Route) (acc : List Route) (g : Nat)
    (h : g ∈ allGroups (consolidateStep rt acc)) : g ∈ allGroups (rt :: acc) := by
  unfold consolidateStep at h
  split at h
  · rename_i hs hs' rest
    simp only [allGroups, allGroupsRoute, allGroupsHandlers_append, List.cons_append, List.mem_cons,
      List.mem_append] at h ⊢
    rcases h with h | (h | h) | h <;> simp [h]
  · exact h

theorem mem_allGroups_consolidate : ∀ (rs : List Route) (g : Nat), g ∈ allGroups (consolidate rs) → g ∈ allGroups rs
  | [], g, h => by simpa [consolidate] using h
  | rt :: rs, g, h => by
    have h1 : g ∈ allGroups (rt :: consolidate rs) := by
      apply mem_allGroups_consolidateStep
      simpa [consolidate] using h
    simp only [allGroups, List.mem_append] at h1 ⊢
    rcases h1 with h1 | h1
    · exact Or.inl h1
    · exact Or.inr (mem_allGroups_consolidate rs g h1)

theorem mem_allGroups_withGroup (g0 : Nat) (rt : Route) (g : Nat) (h : g ∈ allGroupsRoute (rt.withGroup g0)) :
    g = g0 ∨ g ∈ allGroupsRoute rt := by
  cases rt with
  | mk g1 sets hs term =>
    simp only [Route.withGroup, allGroupsRoute, List.mem_cons] at h ⊢
    rcases h with h | h
    · exact Or.inl h
    · exact Or.inr (Or.inr h)

theorem mem_allGroups_setGroups (g0 : Nat) : ∀ (ns : List Node) (rs : List Route) (g : Nat),
    g ∈ allGroups (setGroups g0 ns rs) → g = g0 ∨ g ∈ allGroups rs
  | [], _, g, h => by simp [setGroups, allGroups] at h
  | _ :: _, [], g, h => by simp [setGroups, allGroups] at h
  | n :: ns, rt :: rts, g, h => by
    simp only [setGroups, allGroups, List.mem_append] at h ⊢
    rcases h with h | h
    · split at h
      · rcases mem_allGroups_withGroup g0 rt g h with h | h
        · exact Or.inl h
        · exact Or.inr (Or.inl h)
      · exact Or.inr (Or.inl h)
    · rcases mem_allGroups_setGroups g0 ns rts g h with h | h
      · exact Or.inl h
      · exact Or.inr (Or.inr h)

theorem allGroups_append : ∀ (a b : List Route), allGroups (a ++ b) = allGroups a ++ allGroups b
  | [], b => by simp [allGroups]
  | x :: xs, b => by simp [allGroups, allGroups_append xs b]

theorem mem_allGroups_strip (q : Option Nat) (rs : List Route) (g : Nat) (hne : g ≠ 0)
    (h : g ∈ allGroups (stripRoutes q ++ rs)) : g ∈ allGroups rs := by
  rw [allGroups_append] at h
  rcases List.mem_append.mp h with h | h
  · exfalso
    unfold stripRoutes at h
    split at h
    · simp [allGroups, allGroupsRoute, allGroupsHandlers, allGroupsHandler] at h; exact hne h
    · simp [allGroups] at h
  · exact h

theorem drawGroups_bounds (n c : Nat) :
    c < (drawGroups n c).2 ∧ ((drawGroups n c).1 = 0 ∨ (c < (drawGroups n c).1 ∧ (drawGroups n c).1 ≤ (drawGroups n c).2)) := by
  unfold drawGroups; split <;> simp <;> omega

/-- every group name drawn while a list of directives is adapted with the counter at `c` lies in
    `(c, c']`, where `c'` is the counter afterwards -/
def FreshIn (rs : List Route) (c c' : Nat) : Prop := c ≤ c' ∧ ∀ g ∈ allGroups rs, g ≠ 0 → c < g ∧ g ≤ c'

mutual
theorem adaptNode_fresh : ∀ (n : Node) (c : Nat), FreshIn [(adaptNode n c).1] c (adaptNode n c).2
  | .respond st, c => by
    simp only [adaptNode]
    split <;> simp [FreshIn, allGroups, allGroupsRoute, allGroupsHandlers, allGroupsHandler]
  | .handle p body, c => by
    have ih := adaptNodes_fresh body c
    simp only [adaptNode]
    generalize hb : adaptNodes body c = res at ih
    obtain ⟨rs, c1⟩ := res
    simp only at ih ⊢
    have hd := drawGroups_bounds (body.filter Node.isHandle).length c1
    refine ⟨by have := ih.1; omega, ?_⟩
    intro g hg hne
    simp only [allGroups, allGroupsRoute, allGroupsHandlers, allGroupsHandler, List.append_nil, List.mem_cons] at hg
    rcases hg with hg | hg
    · exact absurd hg hne
    · have h1 := mem_allGroups_consolidate _ g (mem_allGroups_strip _ _ g hne hg)
      rcases mem_allGroups_setGroups _ body rs g h1 with h2 | h2
      · rcases hd.2 with h0 | h3
        · rw [h2] at hne; exact absurd h0 hne
        · have := ih.1; rw [h2]; omega
      · have := ih.2 g h2 hne
        omega
theorem adaptNodes_fresh : ∀ (ns : List Node) (c : Nat), FreshIn (adaptNodes ns c).1 c (adaptNodes ns c).2
  | [], c => by simp [adaptNodes, FreshIn, allGroups]
  | n :: ns, c => by
    have h1 := adaptNode_fresh n c
    simp only [adaptNodes]
    generalize hn : adaptNode n c = r1 at h1
    obtain ⟨rt, c1⟩ := r1
    have h2 := adaptNodes_fresh ns c1
    generalize hns : adaptNodes ns c1 = r2 at h2
    obtain ⟨rts, c2⟩ := r2
    simp only at h1 h2 ⊢
    refine ⟨by have := h1.1; have := h2.1; omega, ?_⟩
    intro g hg hne
    simp only [allGroups, List.mem_append] at hg
    rcases hg with hg | hg
    · have := h1.2 g (by simpa [allGroups] using hg) hne
      have := h2.1
      omega
    · have := h2.2 g hg hne
      have := h1.1
      omega
end

/-- **the group a body's `handle` blocks share is new**: it is different from every group name
    used anywhere inside those blocks (and inside anything adapted before).  Together with
    `first_of_group_only` / `applicable_grouped_route_marks_group` this is what makes "only the
    first matching handle of a body is evaluated" hold level by level although the group set is
    global to the request. -/
theorem handle_body_group_is_new (body : List Node) (c : Nat) (g : Nat)
    (hg : g ∈ allGroups (adaptNodes body c).1) (hne : g ≠ 0) :
    g ≠ (drawGroups (body.filter Node.isHandle).length (adaptNodes body c).2).1 ∨
      (drawGroups (body.filter Node.isHandle).length (adaptNodes body c).2).1 = 0 := by
  have h := (adaptNodes_fresh body c).2 g hg hne
  have hd := drawGroups_bounds (body.filter Node.isHandle).length (adaptNodes body c).2
  rcases hd.2 with h0 | h1
  · exact Or.inr h0
  · left; omega

theorem handlers_chain_in_order' (hs₁ hs₂ : List Handler) (k : K) :
    runHandlers (hs₁ ++ hs₂) k = runHandlers hs₁ (runHandlers hs₂ k) := by
  induction hs₁ with
  | nil => simp [runHandlers]
  | cons h hs ih => simp [runHandlers, ih]

/-- `consolidateRoutes` is invisible to routing: merging two adjacent matcher-less, group-less,
    non-terminal routes into one route with the handlers of both changes no chain. -/
theorem consolidate_preserves_behaviour : ∀ (rs : List Route) (k : K), runRoutes (consolidate rs) k = runRoutes rs k
  | [], k => rfl
  | rt :: rs, k => by
    have ih := consolidate_preserves_behaviour rs k
    have hc : consolidate (rt :: rs) = consolidateStep rt (consolidate rs) := by simp [consolidate]
    rw [hc]
    unfold consolidateStep
    split
    · rename_i hs hs' rest heq
      have ih' : runRoutes (Route.mk 0 [] hs' false :: rest) k = runRoutes rs k := by rw [← heq]; exact ih
      funext r t
      simp only [runRoutes] at ih' ⊢
      rw [← ih']
      simp only [runRoute, anyMatch, List.isEmpty_nil, if_true, groupDone, markGroup, bne_self_eq_false,
        Bool.false_and, Bool.false_eq_true, if_false]
      rw [handlers_chain_in_order']
    · simp only [runRoutes, ih]

/-- `handle /a/b { handle /a/b { respond 201 }  handle { respond 202 }  respond 203 }
     handle /a { respond 204 }   handle { handle /c { respond 205 } }   respond 206` -/
def wHandleSite : List Node :=
  [ .handle (some 2) [.handle (some 2) [.respond 201], .handle none [.respond 202], .respond 203],
    .handle (some 1) [.respond 204],
    .handle none [.handle (some 4) [.respond 205]],
    .respond 206 ]

/-! ### a site of `handle` blocks means what it says -/

def nodeMatches : Option Nat → Nat → Bool
  | none, _ => true
  | some q, p => [q].contains p

mutual
/-- the Caddyfile read as written: `(answer, has a handle of this body been evaluated now?)` -/
def evalNode : Node → Bool → Nat → Option Nat × Bool
  | .respond st, taken, _ => (some st, taken)
  | .handle q body, taken, p =>
    if taken || !nodeMatches q p then (none, taken) else (evalNodes body false p, true)
/-- of the `handle` blocks of one body only the first whose matcher matches is evaluated; what it
    does not answer goes on to the `respond` behind the blocks, then up -/
def evalNodes : List Node → Bool → Nat → Option Nat
  | [], _, _ => none
  | n :: ns, taken, p =>
    match evalNode n taken p with
    | (some st, _) => some st
    | (none, tk) => evalNodes ns tk p
end

mutual
def nodesNoHints : List Node → Bool
  | [] => true
  | n :: ns => nodeNoHints n && nodesNoHints ns
def nodeNoHints : Node → Bool
  | .respond st => st != 103 && decide (st < 1000)
  | .handle q body => q != some 100 && nodesNoHints body      -- no `handle_path` either
end

/-- the marked groups avoid the names `(lo, hi]` -/
def Disj (gs : List Nat) (lo hi : Nat) : Prop := ∀ x ∈ gs, x ≤ lo ∨ hi < x

/-- `r'` is `r` with more groups marked, all of them in `(lo, hi]` or the (non-empty) name `g` -/
def Ext (r r' : Req) (lo hi g : Nat) : Prop :=
  r'.path = r.path ∧ (∀ x ∈ r.groups, x ∈ r'.groups) ∧
    (∀ x ∈ r'.groups, x ∈ r.groups ∨ (lo < x ∧ x ≤ hi) ∨ (x = g ∧ g ≠ 0))

theorem Ext.refl (r : Req) (lo hi g : Nat) : Ext r r lo hi g :=
  ⟨rfl, fun _ h => h, fun _ h => Or.inl h⟩

theorem adaptNode_mono (n : Node) (c : Nat) : c ≤ (adaptNode n c).2 := (adaptNode_fresh n c).1
theorem adaptNodes_mono (ns : List Node) (c : Nat) : c ≤ (adaptNodes ns c).2 := (adaptNodes_fresh ns c).1

/-- the outcome of a list of adapted directives in any chain: answered, or passed on with only
    fresh groups marked -/
def Outcome (res : Option Nat) (out : Out) (k : K) (r : Req) (t : Trace) (lo hi g : Nat) (P : Req → Prop) : Prop :=
  match res with
  | some st => out = .done t (some st)
  | none => ∃ r', out = k r' t ∧ Ext r r' lo hi g ∧ P r'

mutual
theorem adaptNode_sem : ∀ (n : Node) (c g : Nat) (taken : Bool) (k : K) (r : Req) (t : Trace),
    nodeNoHints n = true →
    Disj r.groups c (adaptNode n c).2 →
    (g ≠ 0 → (adaptNode n c).2 < g ∧ (taken = true ↔ g ∈ r.groups)) →
    (g = 0 → n.isHandle = true → taken = false) →
    Outcome (evalNode n taken r.path).1
      (runRoute (if n.isHandle then (adaptNode n c).1.withGroup g else (adaptNode n c).1) k r t) k r t
      c (adaptNode n c).2 g
      (fun r' => g ≠ 0 → ((evalNode n taken r.path).2 = true ↔ g ∈ r'.groups))
  | .respond st, c, g, taken, k, r, t, hh, hd, hg, h0 => by
    simp only [nodeNoHints, bne_iff_ne, ne_eq, Bool.and_eq_true, decide_eq_true_eq] at hh
    have hlt : ¬ st ≥ 1000 := by omega
    simp [adaptNode, Node.isHandle, evalNode, Outcome, runRoute, anyMatch, groupDone,
      runHandlers, runHandler, answerStep, Src.resolve, hh.1, hlt]
  | .handle q body, c, g, taken, k, r, t, hh, hd, hg, h0 => by
    simp only [nodeNoHints, Bool.and_eq_true, bne_iff_ne, ne_eq] at hh
    obtain ⟨hq, hh⟩ := hh
    have hstrip : stripRoutes q = [] := by
      unfold stripRoutes; split
      · exact absurd rfl hq
      · rfl
    have hfb := adaptNodes_fresh body c
    have ihb := adaptNodes_sem body c
    simp only [adaptNode, Node.isHandle, if_true, Route.withGroup] at hd hg ⊢
    generalize hb : adaptNodes body c = resb at hd hg hfb ihb ⊢
    obtain ⟨rsb, cb⟩ := resb
    simp only at hd hg hfb ihb ⊢
    have hdg := drawGroups_bounds (body.filter Node.isHandle).length cb
    generalize hdr : drawGroups (body.filter Node.isHandle).length cb = dg at hd hg hdg ⊢
    obtain ⟨gb, c2⟩ := dg
    simp only at hd hg hdg ⊢
    -- does the block's matcher match?
    have hm : anyMatch (handleSets q) r = .ok (nodeMatches q r.path) := by
      cases q with
      | none => simp [handleSets, anyMatch, nodeMatches]
      | some v =>
        have hv : v ≠ 100 := fun h => hq (by rw [h])
        simp only [handleSets, hv, if_false, anyMatch, List.isEmpty_cons, Bool.false_eq_true, evalAny, evalSet,
          evalMatcher, nodeMatches, Req.get]
        cases ([v].contains r.path) <;> rfl
    simp only [evalNode, runRoute, hm]
    cases hmt : nodeMatches q r.path with
    | false =>
      simp only [Bool.not_false, Bool.or_true, if_true, Outcome]
      exact ⟨r, rfl, Ext.refl _ _ _ _, fun hne => (hg hne).2⟩
    | true =>
      simp only [Bool.not_true, Bool.or_false]
      cases htk : taken with
      | true =>
        have hgne : g ≠ 0 := fun h => by have := h0 h rfl; rw [htk] at this; cases this
        have hin : g ∈ r.groups := ((hg hgne).2).mp htk
        have hgd : groupDone g r = true := by simp [groupDone, hgne, hin]
        simp only [if_true, hgd, Outcome]
        exact ⟨r, rfl, Ext.refl _ _ _ _, fun _ => by first | exact iff_of_true rfl hin | exact iff_of_true trivial hin | simpa using hin⟩
      | false =>
        have hnotin : g ≠ 0 → g ∉ r.groups := fun hne hin => by
          have := ((hg hne).2).mpr hin; rw [htk] at this; cases this
        have hgd : groupDone g r = false := by
          by_cases hne : g = 0
          · simp [groupDone, hne]
          · simp [groupDone, hne, hnotin hne]
        simp only [Bool.false_eq_true, if_false, hgd, runHandlers]
        rw [runHandler_sub_without_errors, hstrip, List.nil_append, consolidate_preserves_behaviour]
        -- inside the block
        have hcb : cb < c2 := hdg.1
        have hdisj1 : Disj (markGroup g r).groups c cb := by
          intro x hx
          unfold markGroup at hx
          split at hx
          · rename_i hne
            simp only [List.mem_cons] at hx
            rcases hx with hx | hx
            · right; have := (hg (by simpa using hne)).1; omega
            · rcases hd x hx with h | h
              · exact Or.inl h
              · right; omega
          · rcases hd x hx with h | h
            · exact Or.inl h
            · right; omega
        have hgb : gb ≠ 0 → cb < gb ∧ (false = true ↔ gb ∈ (markGroup g r).groups) := by
          intro hne
          rcases hdg.2 with h | h
          · exact absurd h hne
          · refine ⟨h.1, ⟨fun hf => (by cases hf), fun hin => ?_⟩⟩
            exfalso
            have hc := hfb.1
            unfold markGroup at hin
            split at hin
            · rename_i hne'
              simp only [List.mem_cons] at hin
              rcases hin with hin | hin
              · have := (hg (by simpa using hne')).1; omega
              · rcases hd gb hin with h1 | h1 <;> omega
            · rcases hd gb hin with h1 | h1 <;> omega
        have hgb0 : gb = 0 → ((body.filter Node.isHandle).length ≤ if false = true then 0 else 1) := by
          intro h0'
          unfold drawGroups at hdr
          split at hdr
          · simp at hdr; omega
          · simp; omega
        have hin := ihb gb false k (markGroup g r) t hh hdisj1 hgb hgb0
        have hp : (markGroup g r).path = r.path := by unfold markGroup; split <;> rfl
        rw [hp] at hin
        cases hev : evalNodes body false r.path with
        | some st =>
          rw [hev] at hin
          simpa [Outcome] using hin
        | none =>
          rw [hev] at hin
          simp only [Outcome] at hin ⊢
          obtain ⟨r2, he, hext, _⟩ := hin
          refine ⟨r2, he, ⟨by rw [hext.1, hp], ?_, ?_⟩, ?_⟩
          · intro x hx
            exact hext.2.1 x (markGroup_groups g r x hx)
          · intro x hx
            rcases hext.2.2 x hx with h | h | h
            · unfold markGroup at h
              split at h
              · rename_i hne
                simp only [List.mem_cons] at h
                rcases h with h | h
                · exact Or.inr (Or.inr ⟨h, by simpa using hne⟩)
                · exact Or.inl h
              · exact Or.inl h
            · exact Or.inr (Or.inl ⟨h.1, by omega⟩)
            · right; left
              rcases hdg.2 with h' | h'
              · exact absurd h' h.2
              · rw [h.1]; have := hfb.1; omega
          · intro hne
            have hmem : g ∈ r2.groups := by
              apply hext.2.1
              unfold markGroup
              simp [hne]
            first | exact iff_of_true rfl hmem | exact iff_of_true trivial hmem | simpa using hmem
theorem adaptNodes_sem : ∀ (ns : List Node) (c g : Nat) (taken : Bool) (k : K) (r : Req) (t : Trace),
    nodesNoHints ns = true →
    Disj r.groups c (adaptNodes ns c).2 →
    (g ≠ 0 → (adaptNodes ns c).2 < g ∧ (taken = true ↔ g ∈ r.groups)) →
    (g = 0 → (ns.filter Node.isHandle).length ≤ if taken = true then 0 else 1) →
    Outcome (evalNodes ns taken r.path)
      (runRoutes (setGroups g ns (adaptNodes ns c).1) k r t) k r t c (adaptNodes ns c).2 g (fun _ => True)
  | [], c, g, taken, k, r, t, _, _, _, _ => by
    simp only [adaptNodes, setGroups, runRoutes, evalNodes, Outcome]
    exact ⟨r, rfl, Ext.refl _ _ _ _, trivial⟩
  | n :: ns, c, g, taken, k, r, t, hh, hd, hg, h0 => by
    simp only [nodesNoHints, Bool.and_eq_true] at hh
    have ihn := adaptNode_sem n c g taken
    have hmn := adaptNode_mono n c
    simp only [adaptNodes] at hd hg ⊢
    generalize hn : adaptNode n c = r1 at hd hg ihn hmn ⊢
    obtain ⟨rt, c1⟩ := r1
    have ihs := adaptNodes_sem ns c1 g
    have hms := adaptNodes_mono ns c1
    generalize hns : adaptNodes ns c1 = r2 at hd hg ihs hms ⊢
    obtain ⟨rts, c2⟩ := r2
    simp only at hd hg ihn ihs hmn hms ⊢
    simp only [setGroups, runRoutes, evalNodes]
    have hd1 : Disj r.groups c c1 := fun x hx => by
      rcases hd x hx with h | h
      · exact Or.inl h
      · right; omega
    have hg1 : g ≠ 0 → c1 < g ∧ (taken = true ↔ g ∈ r.groups) := fun hne => ⟨by have := (hg hne).1; omega, (hg hne).2⟩
    have h01 : g = 0 → n.isHandle = true → taken = false := by
      intro hz hnh
      have := h0 hz
      cases htk : taken with
      | false => rfl
      | true =>
        rw [htk] at this
        simp [List.filter, hnh] at this
    have hnode := ihn (runRoutes (setGroups g ns rts) k) r t hh.1 hd1 hg1 h01
    cases hev : evalNode n taken r.path with
    | mk res tk =>
      rw [hev] at hnode
      cases res with
      | some st => simpa [Outcome] using hnode
      | none =>
        simp only [Outcome] at hnode ⊢
        obtain ⟨r', he, hext, htk⟩ := hnode
        rw [he]
        have hd2 : Disj r'.groups c1 c2 := by
          intro x hx
          rcases hext.2.2 x hx with h | h | h
          · rcases hd x h with h' | h'
            · left; omega
            · exact Or.inr h'
          · left; omega
          · right; rw [h.1]; exact (hg h.2).1
        have hg2 : g ≠ 0 → c2 < g ∧ (tk = true ↔ g ∈ r'.groups) := fun hne => ⟨(hg hne).1, htk hne⟩
        have h02 : g = 0 → (ns.filter Node.isHandle).length ≤ if tk = true then 0 else 1 := by
          intro hz
          have hc := h0 hz
          cases hnh : n.isHandle with
          | false =>
            -- a respond never passes on: `res = none` is impossible
            cases n with
            | respond st => simp [evalNode] at hev
            | handle q b => simp [Node.isHandle] at hnh
          | true =>
            have htf := h01 hz hnh
            rw [htf] at hc
            simp only [List.filter, hnh, List.length_cons, Bool.false_eq_true, if_false] at hc
            have : (ns.filter Node.isHandle).length = 0 := by omega
            rw [this]; split <;> omega
        have hrest := ihs tk k r' t hh.2 hd2 hg2 h02
        rw [hext.1] at hrest
        cases hev2 : evalNodes ns tk r.path with
        | some st =>
          rw [hev2] at hrest
          simpa [Outcome] using hrest
        | none =>
          rw [hev2] at hrest
          simp only [Outcome] at hrest ⊢
          obtain ⟨r'', he2, hext2, _⟩ := hrest
          refine ⟨r'', he2, ⟨by rw [hext2.1, hext.1], fun x hx => hext2.2.1 x (hext.2.1 x hx), ?_⟩, trivial⟩
          intro x hx
          rcases hext2.2.2 x hx with h | h | h
          · rcases hext.2.2 x h with h' | h' | h'
            · exact Or.inl h'
            · exact Or.inr (Or.inl ⟨h'.1, by omega⟩)
            · exact Or.inr (Or.inr h')
          · exact Or.inr (Or.inl ⟨by omega, h.2⟩)
          · exact Or.inr (Or.inr h)
end

/-- **a site of `handle` blocks means what it says**: through the adapter's group names, its
    consolidation of routes and the request-global group set, a site of nested `handle` blocks
    answers every request with exactly what the Caddyfile read as written prescribes — of the
    `handle` blocks of one body only the first whose matcher matches is evaluated, at every level. -/
theorem handle_site_behaves_as_written (ns : List Node) (req : Req) (hh : nodesNoHints ns = true) :
    serve (adaptSite ns) false [] req = ⟨[], evalNodes ns false req.path⟩ := by
  unfold adaptSite serve
  have hsem := adaptNodes_sem ns 0
  generalize hn : adaptNodes ns 0 = res at hsem
  obtain ⟨rs, c1⟩ := res
  simp only at hsem ⊢
  rw [consolidate_preserves_behaviour]
  have hdg := drawGroups_bounds (ns.filter Node.isHandle).length c1
  generalize hdr : drawGroups (ns.filter Node.isHandle).length c1 = dg at hdg ⊢
  obtain ⟨g, c2⟩ := dg
  simp only at hdg ⊢
  have h := hsem g false emptyK { req with groups := [], ctxErr := none, replStatus := none } [] hh
    (fun x hx => by simp at hx)
    (fun hne => by
      rcases hdg.2 with h | h
      · exact absurd h hne
      · exact ⟨h.1, ⟨fun hf => (by cases hf), fun hin => (by simp at hin)⟩⟩)
    (fun hz => by
      unfold drawGroups at hdr
      split at hdr
      · simp at hdr; omega
      · simp; omega)
  simp only at h
  cases hev : evalNodes ns false req.path with
  | some st => rw [hev] at h; simp only [Outcome] at h; simp [h]
  | none =>
    rw [hev] at h
    simp only [Outcome] at h
    obtain ⟨r', he, _, _⟩ := h
    simp [he, emptyK]

example : evalNodes wHandleSite false 2 = some 201 ∧ evalNodes wHandleSite false 3 = some 206 := by decide

/-! ### … also with `handle_path` and `error`: the path is threaded through the reading -/

def nodeMatchesP : Option Nat → Nat → Bool
  | none, _ => true
  | some q, p => if q = 100 then [2, 5].contains p else [q].contains p

def enterPath (q : Option Nat) (p : Nat) : Nat := if q = some 100 then stripPath p else p

mutual
def evalNodeP : Node → Bool → Nat → Option Nat × Bool × Nat
  | .respond st, taken, p => (some st, taken, p)
  | .handle q body, taken, p =>
    if taken || !nodeMatchesP q p then (none, taken, p)
    else ((evalNodesP body false (enterPath q p)).1, true, (evalNodesP body false (enterPath q p)).2)
def evalNodesP : List Node → Bool → Nat → Option Nat × Nat
  | [], _, p => (none, p)
  | n :: ns, taken, p =>
    match evalNodeP n taken p with
    | (some st, _, p') => (some st, p')
    | (none, tk, p') => evalNodesP ns tk p'
end

mutual
def nodesPlain : List Node → Bool
  | [] => true
  | n :: ns => nodePlain n && nodesPlain ns
def nodePlain : Node → Bool
  | .respond st => st != 103 && st != 1000
  | .handle _ body => nodesPlain body
end

/-- what an answer `st` of the as-written reading means for the chain: statuses from 1000 on are
    the `error` directive -/
def Answered (st : Nat) (out : Out) (t : Trace) : Prop :=
  if st ≥ 1000 then ∃ r'', out = .err t (st - 1000) r'' else out = .done t (some st)

def ExtP (r r' : Req) (p' lo hi g : Nat) : Prop :=
  r'.path = p' ∧ (∀ x ∈ r.groups, x ∈ r'.groups) ∧
    (∀ x ∈ r'.groups, x ∈ r.groups ∨ (lo < x ∧ x ≤ hi) ∨ (x = g ∧ g ≠ 0))

def OutcomeP (res : Option Nat) (p' : Nat) (out : Out) (k : K) (r : Req) (t : Trace) (lo hi g : Nat)
    (P : Req → Prop) : Prop :=
  match res with
  | some st => Answered st out t
  | none => ∃ r', out = k r' t ∧ ExtP r r' p' lo hi g ∧ P r'

theorem ExtP.refl (r : Req) (lo hi g : Nat) : ExtP r r r.path lo hi g :=
  ⟨rfl, fun _ h => h, fun _ h => Or.inl h⟩

theorem strip_route_run (X : List Route) (k : K) (m : Req) (t : Trace) :
    runRoutes (Route.mk 0 [] [Handler.strip] false :: X) k m t
      = runRoutes X k { m with path := stripPath m.path, uri := requestLineOf (stripPath m.path) } t := by
  simp [runRoutes, runRoute, anyMatch, groupDone, markGroup, runHandlers, runHandler]

/-- the request inside a block: group marked, prefix stripped by `handle_path` -/
def enterReq (q : Option Nat) (g : Nat) (r : Req) : Req :=
  let m := markGroup g r
  { m with path := enterPath q r.path, uri := if q = some 100 then requestLineOf (stripPath r.path) else m.uri }

mutual
theorem adaptNode_semP : ∀ (n : Node) (c g : Nat) (taken : Bool) (k : K) (r : Req) (t : Trace),
    nodePlain n = true →
    Disj r.groups c (adaptNode n c).2 →
    (g ≠ 0 → (adaptNode n c).2 < g ∧ (taken = true ↔ g ∈ r.groups)) →
    (g = 0 → n.isHandle = true → taken = false) →
    OutcomeP (evalNodeP n taken r.path).1 (evalNodeP n taken r.path).2.2
      (runRoute (if n.isHandle then (adaptNode n c).1.withGroup g else (adaptNode n c).1) k r t) k r t
      c (adaptNode n c).2 g
      (fun r' => g ≠ 0 → ((evalNodeP n taken r.path).2.1 = true ↔ g ∈ r'.groups))
  | .respond st, c, g, taken, k, r, t, hh, hd, hg, h0 => by
    simp only [nodePlain, bne_iff_ne, ne_eq, Bool.and_eq_true] at hh
    by_cases hlt : st ≥ 1000
    · have h1 : st - 1000 ≠ 103 ∨ True := Or.inr trivial
      simp [adaptNode, Node.isHandle, evalNodeP, OutcomeP, Answered, runRoute, anyMatch, groupDone,
        runHandlers, runHandler, raiseStatus, Src.resolve, hlt]
    · simp [adaptNode, Node.isHandle, evalNodeP, OutcomeP, Answered, runRoute, anyMatch, groupDone,
        runHandlers, runHandler, answerStep, Src.resolve, hh.1, hlt]
  | .handle q body, c, g, taken, k, r, t, hh, hd, hg, h0 => by
    simp only [nodePlain] at hh
    have hfb := adaptNodes_fresh body c
    have ihb := adaptNodes_semP body c
    simp only [adaptNode, Node.isHandle, if_true, Route.withGroup] at hd hg ⊢
    generalize hb : adaptNodes body c = resb at hd hg hfb ihb ⊢
    obtain ⟨rsb, cb⟩ := resb
    simp only at hd hg hfb ihb ⊢
    have hdg := drawGroups_bounds (body.filter Node.isHandle).length cb
    generalize hdr : drawGroups (body.filter Node.isHandle).length cb = dg at hd hg hdg ⊢
    obtain ⟨gb, c2⟩ := dg
    simp only at hd hg hdg ⊢
    have hm : anyMatch (handleSets q) r = .ok (nodeMatchesP q r.path) := by
      cases q with
      | none => simp [handleSets, anyMatch, nodeMatchesP]
      | some v =>
        by_cases hv : v = 100
        · subst hv
          simp only [handleSets, if_true, anyMatch, List.isEmpty_cons, Bool.false_eq_true, if_false, evalAny,
            evalSet, evalMatcher, nodeMatchesP, Req.get]
          cases ([2, 5].contains r.path) <;> rfl
        · simp only [handleSets, hv, if_false, anyMatch, List.isEmpty_cons, Bool.false_eq_true, evalAny, evalSet,
            evalMatcher, nodeMatchesP, Req.get]
          cases ([v].contains r.path) <;> rfl
    simp only [evalNodeP, runRoute, hm]
    cases hmt : nodeMatchesP q r.path with
    | false =>
      simp only [Bool.not_false, Bool.or_true, if_true, OutcomeP]
      exact ⟨r, rfl, ExtP.refl _ _ _ _, fun hne => (hg hne).2⟩
    | true =>
      simp only [Bool.not_true, Bool.or_false]
      cases htk : taken with
      | true =>
        have hgne : g ≠ 0 := fun h => by have := h0 h rfl; rw [htk] at this; cases this
        have hin : g ∈ r.groups := ((hg hgne).2).mp htk
        have hgd : groupDone g r = true := by simp [groupDone, hgne, hin]
        simp only [if_true, hgd, OutcomeP]
        exact ⟨r, rfl, ExtP.refl _ _ _ _, fun _ => by first | exact iff_of_true rfl hin | exact iff_of_true trivial hin | simpa using hin⟩
      | false =>
        have hnotin : g ≠ 0 → g ∉ r.groups := fun hne hin => by
          have := ((hg hne).2).mpr hin; rw [htk] at this; cases this
        have hgd : groupDone g r = false := by
          by_cases hne : g = 0
          · simp [groupDone, hne]
          · simp [groupDone, hnotin hne]
        simp only [Bool.false_eq_true, if_false, hgd, runHandlers]
        rw [runHandler_sub_without_errors]
        -- the request inside the block: group marked, prefix stripped by handle_path
        let rin : Req := enterReq q g r
        have hinside : runRoutes (stripRoutes q ++ consolidate (setGroups gb body rsb)) k (markGroup g r) t
            = runRoutes (setGroups gb body rsb) k rin t := by
          have hmp : (markGroup g r).path = r.path := by unfold markGroup; split <;> rfl
          by_cases hq : q = some 100
          · subst hq
            simp only [stripRoutes, List.cons_append, List.nil_append]
            rw [strip_route_run, consolidate_preserves_behaviour]
            simp only [rin, enterReq, enterPath, if_true, hmp]
          · have hs : stripRoutes q = [] := by
              unfold stripRoutes; split
              · exact absurd rfl hq
              · rfl
            rw [hs, List.nil_append, consolidate_preserves_behaviour]
            have : rin = markGroup g r := by
              simp only [rin, enterReq, enterPath, hq, if_false]
              cases hmg : markGroup g r
              simp [hmg] at hmp
              simp [hmp]
            rw [this]
        rw [hinside]
        have hring : rin.groups = (markGroup g r).groups := rfl
        have hcb : cb < c2 := hdg.1
        have hdisj1 : Disj rin.groups c cb := by
          rw [hring]
          intro x hx
          unfold markGroup at hx
          split at hx
          · rename_i hne
            simp only [List.mem_cons] at hx
            rcases hx with hx | hx
            · right; have := (hg (by simpa using hne)).1; omega
            · rcases hd x hx with h | h
              · exact Or.inl h
              · right; omega
          · rcases hd x hx with h | h
            · exact Or.inl h
            · right; omega
        have hgb : gb ≠ 0 → cb < gb ∧ (false = true ↔ gb ∈ rin.groups) := by
          intro hne
          rcases hdg.2 with h | h
          · exact absurd h hne
          · refine ⟨h.1, ⟨fun hf => (by cases hf), fun hin => ?_⟩⟩
            exfalso
            have hc := hfb.1
            rw [hring] at hin
            unfold markGroup at hin
            split at hin
            · rename_i hne'
              simp only [List.mem_cons] at hin
              rcases hin with hin | hin
              · have := (hg (by simpa using hne')).1; omega
              · rcases hd gb hin with h1 | h1 <;> omega
            · rcases hd gb hin with h1 | h1 <;> omega
        have hgb0 : gb = 0 → ((body.filter Node.isHandle).length ≤ if false = true then 0 else 1) := by
          intro h0'
          unfold drawGroups at hdr
          split at hdr
          · simp at hdr; omega
          · simp; omega
        have hin := ihb gb false k rin t hh hdisj1 hgb hgb0
        have hp : rin.path = enterPath q r.path := rfl
        rw [hp] at hin
        cases hev : (evalNodesP body false (enterPath q r.path)).1 with
        | some st =>
          rw [hev] at hin
          simpa [OutcomeP] using hin
        | none =>
          rw [hev] at hin
          simp only [OutcomeP] at hin ⊢
          obtain ⟨r2, he, hext, _⟩ := hin
          refine ⟨r2, he, ⟨hext.1, ?_, ?_⟩, ?_⟩
          · intro x hx
            exact hext.2.1 x (by rw [hring]; exact markGroup_groups g r x hx)
          · intro x hx
            rcases hext.2.2 x hx with h | h | h
            · rw [hring] at h
              unfold markGroup at h
              split at h
              · rename_i hne
                simp only [List.mem_cons] at h
                rcases h with h | h
                · exact Or.inr (Or.inr ⟨h, by simpa using hne⟩)
                · exact Or.inl h
              · exact Or.inl h
            · exact Or.inr (Or.inl ⟨h.1, by omega⟩)
            · right; left
              rcases hdg.2 with h' | h'
              · exact absurd h' h.2
              · rw [h.1]; have := hfb.1; omega
          · intro hne
            have hmem : g ∈ r2.groups := by
              apply hext.2.1
              rw [hring]
              unfold markGroup
              simp [hne]
            first | exact iff_of_true rfl hmem | exact iff_of_true trivial hmem | simpa using hmem
theorem adaptNodes_semP : ∀ (ns : List Node) (c g : Nat) (taken : Bool) (k : K) (r : Req) (t : Trace),
    nodesPlain ns = true →
    Disj r.groups c (adaptNodes ns c).2 →
    (g ≠ 0 → (adaptNodes ns c).2 < g ∧ (taken = true ↔ g ∈ r.groups)) →
    (g = 0 → (ns.filter Node.isHandle).length ≤ if taken = true then 0 else 1) →
    OutcomeP (evalNodesP ns taken r.path).1 (evalNodesP ns taken r.path).2
      (runRoutes (setGroups g ns (adaptNodes ns c).1) k r t) k r t c (adaptNodes ns c).2 g (fun _ => True)
  | [], c, g, taken, k, r, t, _, _, _, _ => by
    simp only [adaptNodes, setGroups, runRoutes, evalNodesP, OutcomeP]
    exact ⟨r, rfl, ExtP.refl _ _ _ _, trivial⟩
  | n :: ns, c, g, taken, k, r, t, hh, hd, hg, h0 => by
    simp only [nodesPlain, Bool.and_eq_true] at hh
    have ihn := adaptNode_semP n c g taken
    have hmn := adaptNode_mono n c
    simp only [adaptNodes] at hd hg ⊢
    generalize hn : adaptNode n c = r1 at hd hg ihn hmn ⊢
    obtain ⟨rt, c1⟩ := r1
    have ihs := adaptNodes_semP ns c1 g
    have hms := adaptNodes_mono ns c1
    generalize hns : adaptNodes ns c1 = r2 at hd hg ihs hms ⊢
    obtain ⟨rts, c2⟩ := r2
    simp only at hd hg ihn ihs hmn hms ⊢
    simp only [setGroups, runRoutes, evalNodesP]
    have hd1 : Disj r.groups c c1 := fun x hx => by
      rcases hd x hx with h | h
      · exact Or.inl h
      · right; omega
    have hg1 : g ≠ 0 → c1 < g ∧ (taken = true ↔ g ∈ r.groups) := fun hne => ⟨by have := (hg hne).1; omega, (hg hne).2⟩
    have h01 : g = 0 → n.isHandle = true → taken = false := by
      intro hz hnh
      have := h0 hz
      cases htk : taken with
      | false => rfl
      | true =>
        rw [htk] at this
        simp [List.filter, hnh] at this
    have hnode := ihn (runRoutes (setGroups g ns rts) k) r t hh.1 hd1 hg1 h01
    cases hev : evalNodeP n taken r.path with
    | mk res rest =>
      obtain ⟨tk, p1⟩ := rest
      rw [hev] at hnode
      simp only at hnode
      cases res with
      | some st => simpa [OutcomeP] using hnode
      | none =>
        simp only [OutcomeP] at hnode ⊢
        obtain ⟨r', he, hext, htk⟩ := hnode
        rw [he]
        have hd2 : Disj r'.groups c1 c2 := by
          intro x hx
          rcases hext.2.2 x hx with h | h | h
          · rcases hd x h with h' | h'
            · left; omega
            · exact Or.inr h'
          · left; omega
          · right; rw [h.1]; exact (hg h.2).1
        have hg2 : g ≠ 0 → c2 < g ∧ (tk = true ↔ g ∈ r'.groups) := fun hne => ⟨(hg hne).1, htk hne⟩
        have h02 : g = 0 → (ns.filter Node.isHandle).length ≤ if tk = true then 0 else 1 := by
          intro hz
          have hc := h0 hz
          cases hnh : n.isHandle with
          | false =>
            cases n with
            | respond st => simp [evalNodeP] at hev
            | handle q b => simp [Node.isHandle] at hnh
          | true =>
            have htf := h01 hz hnh
            rw [htf] at hc
            simp only [List.filter, hnh, List.length_cons, Bool.false_eq_true, if_false] at hc
            have : (ns.filter Node.isHandle).length = 0 := by omega
            rw [this]; split <;> omega
        have hrest := ihs tk k r' t hh.2 hd2 hg2 h02
        rw [hext.1] at hrest
        cases hev2 : (evalNodesP ns tk p1).1 with
        | some st =>
          rw [hev2] at hrest
          simpa [OutcomeP] using hrest
        | none =>
          rw [hev2] at hrest
          simp only [OutcomeP] at hrest ⊢
          obtain ⟨r'', he2, hext2, _⟩ := hrest
          refine ⟨r'', he2, ⟨hext2.1, fun x hx => hext2.2.1 x (hext.2.1 x hx), ?_⟩, trivial⟩
          intro x hx
          rcases hext2.2.2 x hx with h | h | h
          · rcases hext.2.2 x h with h' | h' | h'
            · exact Or.inl h'
            · exact Or.inr (Or.inl ⟨h'.1, by omega⟩)
            · exact Or.inr (Or.inr h')
          · exact Or.inr (Or.inl ⟨by omega, h.2⟩)
          · exact Or.inr (Or.inr h)
end

/-- the response the as-written reading prescribes -/
def writtenStatus : Option Nat → Option Nat
  | none => none
  | some st => some (if st ≥ 1000 then writeStatus (some (st - 1000)) else st)

/-- **a site of `handle` / `handle_path` blocks with `respond` and `error` means what it says**:
    the adapted routes answer every request with exactly what the Caddyfile read as written
    prescribes — of the blocks of one body only the first whose matcher matches is evaluated, at
    every level; `handle_path` strips its prefix for everything that follows; an `error` ends
    routing with its status (no error routes here). -/
theorem site_behaves_as_written (ns : List Node) (req : Req) (hh : nodesPlain ns = true) :
    serve (adaptSite ns) false [] req = ⟨[], writtenStatus (evalNodesP ns false req.path).1⟩ := by
  unfold adaptSite serve
  have hsem := adaptNodes_semP ns 0
  generalize hn : adaptNodes ns 0 = res at hsem
  obtain ⟨rs, c1⟩ := res
  simp only at hsem ⊢
  rw [consolidate_preserves_behaviour]
  have hdg := drawGroups_bounds (ns.filter Node.isHandle).length c1
  generalize hdr : drawGroups (ns.filter Node.isHandle).length c1 = dg at hdg ⊢
  obtain ⟨g, c2⟩ := dg
  simp only at hdg ⊢
  have h := hsem g false emptyK { req with groups := [], ctxErr := none, replStatus := none } [] hh
    (fun x hx => by simp at hx)
    (fun hne => by
      rcases hdg.2 with h | h
      · exact absurd h hne
      · exact ⟨h.1, ⟨fun hf => (by cases hf), fun hin => (by simp at hin)⟩⟩)
    (fun hz => by
      unfold drawGroups at hdr
      split at hdr
      · simp at hdr; omega
      · simp; omega)
  simp only at h
  cases hev : (evalNodesP ns false req.path).1 with
  | some st =>
    rw [hev] at h
    simp only [OutcomeP, Answered] at h
    by_cases hge : st ≥ 1000
    · simp only [hge, if_true] at h
      obtain ⟨r'', he⟩ := h
      simp [he, writtenStatus, hge]
    · simp only [hge, if_false] at h
      simp [h, writtenStatus, hge]
  | none =>
    rw [hev] at h
    simp only [OutcomeP] at h
    obtain ⟨r', he, _, _⟩ := h
    simp [he, emptyK, writtenStatus]

example : (evalNodesP [.handle (some 100) [.handle (some 3) [.respond 201], .respond 1404]] false 2).1 = some 201 ∧
    (evalNodesP [.handle (some 100) [.handle (some 3) [.respond 201], .respond 1404]] false 5).1 = some 1404 := by decide


/-! ### `handle` blocks: kernel-checked instances (the general statement is checked by the oracle) -/

-- the group names the adapter draws (group2 inside, group7 outside; a lone handle gets none)
example : allGroups (adaptSite wHandleSite) = [8, 3, 0, 3, 0, 0, 8, 0, 8, 0, 0, 0] := by decide
-- only the first matching handle of a body is evaluated, at every level; what no block answers
-- reaches the `respond` behind the blocks
example : (serve (adaptSite wHandleSite) false [] ⟨0, 0, 2, 0, [], none, none, 2, []⟩).status = some 201 := by decide
example : (serve (adaptSite wHandleSite) false [] ⟨0, 0, 1, 0, [], none, none, 1, []⟩).status = some 204 := by decide
example : (serve (adaptSite wHandleSite) false [] ⟨0, 0, 4, 0, [], none, none, 4, []⟩).status = some 205 := by decide
example : (serve (adaptSite wHandleSite) false [] ⟨0, 0, 3, 0, [], none, none, 3, []⟩).status = some 206 := by decide

theorem terminal_stops' (g : Nat) (sets : List (List Matcher)) (hs : List Handler) (rest : List Route)
    (k : K) (r : Req) (t : Trace) (h : anyMatch sets r = .ok true) (hg : groupDone g r = false) :
    runRoutes (.mk g sets hs true :: rest) k r t = runHandlers hs (termK r) (markGroup g r) t := by
  simp [runRoutes, runRoute, h, hg]

/-! ### several sites on one server: what the wrapping of a site block guarantees -/

/-- **site blocks do not cascade**: the route a site block becomes (host matcher, the site's routes
    in a subroute, `terminal: true`) gives a request for that host to the site's routes and to
    nothing else — whatever follows in the server's route list and whatever the enclosing chain
    is; the site's routes end in the empty handler (or, in the error chain, in the handler that
    writes the error's status). -/
theorem site_wrapper_takes_its_host (h : Nat) (routes rest : List Route) (k : K) (r : Req) (t : Trace)
    (hr : r.host = h) (hne : routes ≠ []) :
    runRoutes (wrapSite (some h) routes ++ rest) k r t = runRoutes routes (termK r) r t := by
  have he : routes.isEmpty = false := by cases routes <;> simp_all
  simp only [wrapSite, Option.isNone_some, Bool.false_and, Bool.false_eq_true, if_false, he,
    List.cons_append, List.nil_append, hostSets]
  rw [terminal_stops' 0 [[.atom .host [h]]] [.sub routes false []] rest k r t
    (by simp [anyMatch, evalAny, evalSet, evalMatcher, Req.get, hr]) (by simp [groupDone])]
  simp only [runHandlers, markGroup, bne_self_eq_false, Bool.false_eq_true, if_false]
  exact runHandler_sub_without_errors routes [] (termK r) r t

/-- … and leaves every other host to the blocks that follow, untouched. -/
theorem site_wrapper_skips_other_hosts (h : Nat) (routes rest : List Route) (k : K) (r : Req) (t : Trace)
    (hr : r.host ≠ h) :
    runRoutes (wrapSite (some h) routes ++ rest) k r t = runRoutes rest k r t := by
  have hm : anyMatch (hostSets (some h)) r = .ok false := by
    have : decide (r.host = h) = false := by simp [hr]
    simp [hostSets, anyMatch, evalAny, evalSet, evalMatcher, Req.get, this]
  unfold wrapSite
  simp only [Option.isNone_some, Bool.false_and, Bool.false_eq_true, if_false, List.cons_append,
    List.nil_append, runRoutes, runRoute, hm]

/-- a.test { error 404 }   :8080 { respond 299; handle_errors { respond 211 } } -/
def wTwoSites : List Site :=
  [ ⟨some 0, [.respond 1404], []⟩, ⟨none, [.respond 299], [⟨[], [.respond 211]⟩]⟩ ]

/-
OBSERVATION (not a clause of the property: the server evaluates the emitted route tree exactly by
the rules; this is about what the adapter emits).  Only sites that have `handle_errors` blocks get
a wrapper in the server's error routes, so the error of a site without any falls through to the
next wrapper whose address matches: here the 404 of a.test is answered 211 by the `handle_errors`
of the block without a host, although the Caddyfile documentation says site blocks do not inherit.
Candidate patch for the adapter: /verif/.run/fixes/C05-site-errors-stay-in-their-site.patch.
-/
theorem site_error_reaches_other_sites_handle_errors_observation :
    (adaptSites wTwoSites).map (fun x => (serve x.1 x.2.1 x.2.2 ⟨0, 0, 1, 0, [], none, none, 1, []⟩).status)
      = some (some 211) ∧
    (adaptSites [⟨some 0, [.respond 1404], []⟩]).map
        (fun x => (serve x.1 x.2.1 x.2.2 ⟨0, 0, 1, 0, [], none, none, 1, []⟩).status)
      = some (some 404) := by decide

/-! ### second line of defence: the call sites, read off the source on every run -/

/-- **who compiles a route list, and with which rest-of-chain** (regenerated from the source by
    tools/extract on every run): exactly these seven call sites — the server's two chains ending in
    the empty / error-empty handler (`serve`), the subroute's routes in front of the wrapped `next`
    and its error routes in front of `next` (`runHandler (.sub …)`), a named route (`inlineH`), and
    the two response-handler callers (`serveIntercepted`; reverse_proxy shares the type).  A new
    caller, or a different continuation, breaks this obligation before any test runs. -/
theorem route_compile_call_sites_match_source :
    Gen.routeCompileCalls =
      [ ("modules/caddyhttp/app.go:Provision", "srv.Routes", "emptyHandler"),
        ("modules/caddyhttp/app.go:Provision", "srv.Errors.Routes", "errorEmptyHandler"),
        ("modules/caddyhttp/intercept/intercept.go:ServeHTTP", "rec.handler.Routes", "next"),
        ("modules/caddyhttp/invoke.go:ServeHTTP", "route", "next"),
        ("modules/caddyhttp/reverseproxy/reverseproxy.go:reverseProxy", "rh.Routes", "next"),
        ("modules/caddyhttp/subroute.go:ServeHTTP", "sr.Routes", "HandlerFunc(func literal)"),
        ("modules/caddyhttp/subroute.go:ServeHTTP", "sr.Errors.Routes", "next") ] := by decide

/-- the one `Terminal:` the Caddyfile adapter writes is the site wrapper's `true` — and the model's
    wrapper is terminal -/
theorem site_wrapper_terminal_matches_source :
    Gen.adapterTerminalLiterals = [("caddyconfig/httpcaddyfile/httptype.go:appendSubrouteToRouteList", "true")] ∧
    wrapSite (some 0) [.mk 0 [] [] false] = [.mk 0 [[.atom .host [0]]] [.sub [.mk 0 [] [] false] false []] true] := by
  constructor
  · decide
  · rfl

end CaddyModel.C05
