/-
C05 — theorems about the Caddyfile adaptation of `handle_errors` (Adapt.lean).
-/
import CaddyModel.C05.Adapt

namespace CaddyModel.C05

/-! ### what the status arguments select -/

/-- `Dxx` selects exactly the statuses D00 … D99 (in the error path, where the placeholder is set) -/
theorem status_class_selects_its_hundred (b : UInt8) (hb : 48 ≤ b.toNat ∧ b.toNat ≤ 57) (r : Req) (c : Nat)
    (h : r.replStatus = some c) :
    evalMatcher (selMatcher ⟨[[b]], []⟩) r = .ok (decide (c / 100 = b.toNat - 48)) := by
  have hd : C16.isDigit b = true := by
    simp only [C16.isDigit, Bool.and_eq_true, decide_eq_true_eq, UInt8.le_iff_toNat_le]
    exact ⟨by simpa using hb.1, by simpa using hb.2⟩
  have h45 : (45 : UInt8).toNat = 45 := by rfl
  have h43 : (43 : UInt8).toNat = 43 := by rfl
  have hne : b ≠ 45 ∧ b ≠ 43 := by
    constructor <;> (intro he; have := congrArg UInt8.toNat he; omega)
  have hv : C16.digitsVal 0 [b] = b.toNat - 48 := by
    unfold C16.digitsVal C16.digitsVal; omega
  have hlt : b.toNat - 48 ≤ 9223372036854775807 := by omega
  have ha : C16.atoi [b] = some ((b.toNat - 48 : Nat) : Int) := by
    rw [C16.atoi.eq_def]
    split
    · rename_i heq; cases heq
    · rename_i ds heq; simp at heq; exact absurd heq.1 hne.1
    · rename_i ds heq; simp at heq; exact absurd heq.1 hne.2
    · simp [hd, hv, hlt]
  simp only [selMatcher, classRange, ha, evalMatcher, h, List.map_cons, List.map_nil, List.any_cons,
    List.any_nil, Bool.or_false, List.contains_nil, Int.toNat_natCast]
  congr 1
  by_cases hc : c / 100 = b.toNat - 48
  · simp only [hc, decide_true]
    have : (b.toNat - 48) * 100 ≤ c ∧ c ≤ (b.toNat - 48) * 100 + 99 := by omega
    simp [this.1, this.2]
  · simp only [hc, decide_false]
    by_cases h1 : (b.toNat - 48) * 100 ≤ c
    · have : ¬ c ≤ (b.toNat - 48) * 100 + 99 := by omega
      simp [h1, this]
    · simp [h1]

/-- a code selects exactly itself -/
theorem status_code_selects_itself (x : Bytes) (v : Int) (hx : C16.atoi x = some v) (r : Req) (c : Nat)
    (h : r.replStatus = some c) :
    evalMatcher (selMatcher ⟨[], [x]⟩) r = .ok (decide (v = (c : Int))) := by
  simp only [selMatcher, codeVal, hx, evalMatcher, h, List.map_nil, List.any_nil, Bool.false_or,
    List.map_cons, Option.getD_some]
  congr 1
  by_cases hv : v = (c : Int)
  · subst hv; simp
  · simp only [hv, decide_false]
    have : ((c : Int) == v) = false := by
      simp only [beq_eq_false_iff_ne, ne_eq]
      exact fun h => hv h.symm
    simp [List.contains, List.elem, this]

example : parseArgs [str "4xx", str "500", str "404"] ⟨[], []⟩ = some ⟨[str "4"], [str "500", str "404"]⟩ := by decide
example : bytesToString (renderExpr ⟨[str "4"], [str "500", str "404"]⟩)
    = "{http.error.status_code} >= 400 && {http.error.status_code} <= 499 || {http.error.status_code} in [500, 404]" := by decide
example : parseArgs [str "4XX"] ⟨[], []⟩ = none ∧ parseArgs [str "40"] ⟨[], []⟩ = none ∧
    parseArgs [str "-xx"] ⟨[], []⟩ = none := by decide

/-! ### the directives of a `handle_errors <codes>` block keep their own matchers — they do not -/

/-- every block that has status arguments contains only matcher-less directives -/
def innerMatchersSafe (blocks : List Block) : Bool :=
  match parseBlocks blocks with
  | none => true
  | some ps => ps.all fun p => (p.1.classes.isEmpty && p.1.codes.isEmpty) || p.2.all (fun d => d.path.isNone)

def wBlocks : List Block := [⟨[str "404"], [⟨some 1, 201⟩]⟩]

/-
FULL STATEMENT (false): ∀ blocks, adapt blocks = adaptIntended blocks — "a directive inside
`handle_errors <codes> { … }` applies iff the status is selected AND its own matcher matches".
`parseHandleErrors` assigns `MatcherSetsRaw = [{expression}]` to every route of the body: the
`/a` of `respond /a 201` is gone, a 404 on /b is answered 201.
-/
theorem handle_errors_inner_matchers_full_fails :
    ∃ blocks s req, (serveAdapted (adapt blocks) s req).map (·.status)
      ≠ (serveAdapted (adaptIntended blocks) s req).map (·.status) :=
  ⟨wBlocks, 404, ⟨0, 0, 3, 0, [], none, none⟩, by decide⟩

/-- the same witness spelled out: 404 on /b — the code answers 201, the Caddyfile says 404 -/
theorem handle_errors_inner_matcher_dropped :
    (serveAdapted (adapt wBlocks) 404 ⟨0, 0, 3, 0, [], none, none⟩).map (·.status) = some (some 201) ∧
    (serveAdapted (adaptIntended wBlocks) 404 ⟨0, 0, 3, 0, [], none, none⟩).map (·.status) = some (some 404) := by
  decide

theorem blockRoutes_eq_intended (a : StatusArgs) (dirs : List Dir)
    (h : ((a.classes.isEmpty && a.codes.isEmpty) || dirs.all (fun d => d.path.isNone)) = true) :
    blockRoutes a dirs = blockRoutesIntended a dirs := by
  unfold blockRoutes blockRoutesIntended
  apply List.map_congr_left
  intro d hd
  by_cases he : (a.classes.isEmpty && a.codes.isEmpty) = true
  · simp [he]
  · have hall : dirs.all (fun d => d.path.isNone) = true := by
      cases hh : (a.classes.isEmpty && a.codes.isEmpty) with
      | true => exact absurd hh he
      | false => simpa [hh] using h
    have hp : d.path = none := by
      have := List.all_eq_true.mp hall d hd
      simpa using this
    simp [he, hp]

/-- … the partial statement that does hold: when no directive under a status list has a matcher of
    its own, the adapted error routes are exactly the ones the Caddyfile describes. -/
theorem handle_errors_inner_matchers_partial (blocks : List Block) (h : innerMatchersSafe blocks = true) :
    adapt blocks = adaptIntended blocks := by
  unfold adapt adaptIntended adaptWith
  unfold innerMatchersSafe at h
  cases hp : parseBlocks blocks with
  | none => rfl
  | some ps =>
    rw [hp] at h
    simp only
    have : (ps.map fun p => blockRoutes p.1 p.2) = (ps.map fun p => blockRoutesIntended p.1 p.2) := by
      apply List.map_congr_left
      intro p hpm
      exact blockRoutes_eq_intended p.1 p.2 (List.all_eq_true.mp h p hpm)
    rw [this]

example : innerMatchersSafe [⟨[str "4xx", str "500"], [⟨none, 201⟩]⟩, ⟨[], [⟨some 1, 202⟩, ⟨none, 203⟩]⟩] = true := by decide

/-
A code written with a plus sign passes `strconv.Atoi`, so the adapter accepts it and writes
`… in [+40]`; CEL has no unary plus, the expression matcher fails to compile and the adapted
config cannot be loaded.
-/
theorem adapter_accepts_unloadable_plus_code :
    (match adapt [⟨[str "+40"], [⟨none, 201⟩]⟩] with | .unloadable => true | _ => false) = true := by decide

end CaddyModel.C05
