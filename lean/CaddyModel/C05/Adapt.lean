/-
C05 — model of how the Caddyfile's `handle_errors [<codes…>] { … }` becomes the server's error
routes (caddyconfig/httpcaddyfile/builtins.go:parseHandleErrors and the `error_route` step of
httptype.go), transliterated:

  * every status argument must be 3 bytes long; `Dxx` (D a digit: `strconv.ParseUint`) is the class
    D00..D99, anything else must be three digits (`strconv.ParseUint`) and is a single code;
  * the classes become range tests joined by ` || ` in argument order, the codes (all of them,
    wherever they stood) one trailing `… in [c1, c2]`;
  * the block body is parsed as a subroute; if there is a status expression, a route of the body
    without matchers gets `MatcherSetsRaw = [{expression}]`, a route WITH matchers is kept as it is
    inside a subroute behind a route carrying the expression (before the repair every route got
    `MatcherSetsRaw = [{expression}]` and lost its own matchers: `blockRoutesOld`);
  * the blocks of a site are sorted with `sort.SliceStable` and a comparator that is not an order
    ("true unless one block is empty or i has no matcher and j has one"), i.e. by Go's insertion
    sort for up to 20 blocks, then their routes are concatenated.

Body directives here are `respond [<path>] <status>` (a `static_response` behind an optional exact
`path` matcher), listed in the order `buildSubroute`'s own sort leaves them in (longer paths first,
matcher-less last — the harness only sends bodies in that order; that sort is property C16's).

Digit parsing and Go's insertion sort are the models of property C16 (reused, not re-modelled).
-/
import CaddyModel.C05.Model
import CaddyModel.C16.Args
import CaddyModel.C16.Model

namespace CaddyModel.C05

/-- `respond [<path>] <status>` -/
structure Dir where
  path : Option Nat
  status : Nat
deriving DecidableEq, Repr

/-- one `handle_errors` block: its status arguments (raw bytes) and its body -/
structure Block where
  args : List Bytes
  dirs : List Dir
deriving Repr

/-- what the argument loop collects: the class digits (each a 1-byte string accepted by Atoi) and
    the codes (raw 3-byte strings accepted by Atoi) -/
structure StatusArgs where
  classes : List Bytes
  codes : List Bytes
deriving DecidableEq, Repr

def endsWithXX (val : Bytes) : Bool := val.drop (val.length - 2) == [120, 120]

/-- `strconv.ParseUint(s, 10, 16)` succeeds on these 1- and 3-byte strings iff they are digits -/
def isUint (s : Bytes) : Bool := !s.isEmpty && s.all C16.isDigit

/-- the `for _, val := range args` loop; `none` = `h.Errf("bad status value …")` -/
def parseArgs : List Bytes → StatusArgs → Option StatusArgs
  | [], acc => some acc
  | val :: rest, acc =>
    if val.length != 3 then none
    else if endsWithXX val then
      if isUint (val.take 1) then parseArgs rest { acc with classes := acc.classes ++ [val.take 1] }
      else none
    else
      if isUint val then parseArgs rest { acc with codes := acc.codes ++ [val] }
      else none

def ph : Bytes := str "{http.error.status_code}"

def joinWith (sep : Bytes) : List Bytes → Bytes
  | [] => []
  | [x] => x
  | x :: xs => x ++ sep ++ joinWith sep xs

/-- the CEL text `parseHandleErrors` builds (empty = no expression) -/
def renderExpr (a : StatusArgs) : Bytes :=
  joinWith (str " || ")
    (a.classes.map (fun d => ph ++ str " >= " ++ d ++ str "00 && " ++ ph ++ str " <= " ++ d ++ str "99")
      ++ (if a.codes.isEmpty then [] else [ph ++ str " in [" ++ joinWith (str ", ") a.codes ++ str "]"]))

def classRange (d : Bytes) : Nat × Nat :=
  (C16.digitsVal 0 d * 100, C16.digitsVal 0 d * 100 + 99)

def codeVal (c : Bytes) : Int := (C16.digitsVal 0 c : Nat)

/-- the matcher that text denotes -/
def selMatcher (a : StatusArgs) : Matcher :=
  .errSel (a.classes.map classRange) (a.codes.map codeVal)

/-- the matcher sets a body directive has of its own -/
def dirSets (d : Dir) : List (List Matcher) :=
  match d.path with
  | some p => [[.atom .path [p]]]
  | none => []

/-- the route of one body directive, as the code builds it -/
def dirRoute (a : StatusArgs) (d : Dir) : Route :=
  if a.classes.isEmpty && a.codes.isEmpty then .mk 0 (dirSets d) [.answer (.lit d.status)] false
  else match d.path with
    | none => .mk 0 [[selMatcher a]] [.answer (.lit d.status)] false
    | some _ => .mk 0 [[selMatcher a]] [.sub [.mk 0 (dirSets d) [.answer (.lit d.status)] false] false []] false

/-- the routes of one block, as the code builds them -/
def blockRoutes (a : StatusArgs) (dirs : List Dir) : List Route := dirs.map (dirRoute a)

/-- … and as the code built them BEFORE the repair: the status expression overwrote the matchers -/
def blockRoutesOld (a : StatusArgs) (dirs : List Dir) : List Route :=
  dirs.map fun d =>
    .mk 0 (if a.classes.isEmpty && a.codes.isEmpty then dirSets d else [[selMatcher a]])
      [.answer (.lit d.status)] false

/-- the route of one body directive, as the Caddyfile says: status test, then its own matcher -/
def dirRouteIntended (a : StatusArgs) (d : Dir) : Route :=
  .mk 0 (if a.classes.isEmpty && a.codes.isEmpty then dirSets d
         else match d.path with
           | some p => [[selMatcher a, .atom .path [p]]]
           | none => [[selMatcher a]])
    [.answer (.lit d.status)] false

/-- … and as the Caddyfile says: the status test in front of the directive's own matcher -/
def blockRoutesIntended (a : StatusArgs) (dirs : List Dir) : List Route := dirs.map (dirRouteIntended a)

def firstHasNoMatcher : List Route → Bool
  | .mk _ sets _ _ :: _ => sets.isEmpty
  | [] => false

/-- the comparator handed to `sort.SliceStable(errorSubrouteVals, …)` -/
def blockLess (i j : List Route) : Bool :=
  if i.isEmpty || j.isEmpty then false
  else if firstHasNoMatcher i && !firstHasNoMatcher j then false
  else true

inductive Adapted where
  | err                         -- the adapter refuses the Caddyfile
  | routes (rs : List Route)

def parseBlocks : List Block → Option (List (StatusArgs × List Dir))
  | [] => some []
  | b :: bs =>
    match parseArgs b.args ⟨[], []⟩, parseBlocks bs with
    | some a, some rest => some ((a, b.dirs) :: rest)
    | _, _ => none

/-- the server's error routes for a site with these `handle_errors` blocks -/
def adaptWith (build : StatusArgs → List Dir → List Route) (blocks : List Block) : Adapted :=
  match parseBlocks blocks with
  | none => .err
  | some ps =>
    .routes ((C16.insertionSort blockLess (ps.map fun p => build p.1 p.2)).flatten)

def adapt : List Block → Adapted := adaptWith blockRoutes
def adaptIntended : List Block → Adapted := adaptWith blockRoutesIntended
def adaptOld : List Block → Adapted := adaptWith blockRoutesOld

/-- a site `error <S>` + these blocks, asked for path `p`: the status answered -/
def serveAdapted (a : Adapted) (s : Nat) (req : Req) : Option Result :=
  match a with
  | .routes errs => some (serve [.mk 0 [] [.raise (.lit s)] false] true errs req)
  | _ => none

/-! ### `handle` blocks

`handle [<path>] { … }` (httpcaddyfile: parseHandle → ParseSegmentAsSubroute → buildSubroute): the
body becomes a subroute in a route carrying the block's matcher.  `buildSubroute` makes the
`handle` directives of ONE body mutually exclusive by giving their routes a common group name —
only if there are at least two of them — drawn from a counter shared by the whole site; every
call of `buildSubroute` also draws one name for its `rewrite` directives whether there are any or
not.  Bodies are built inside out (a block is parsed when its directive is parsed), so the counter
runs in post-order.  Group `k+1` here is the name `group<k>`; 0 is no group.

Bodies are listed in the order `sortRoutes` leaves (property C16): handles with longer paths first,
the matcher-less handle last, then `respond`; no two handles of a body have the same matcher (they
would be consolidated into one route). -/

inductive Node where
  | handle (path : Option Nat) (body : List Node)
  | respond (status : Nat)

def Node.isHandle : Node → Bool
  | .handle _ _ => true
  | .respond _ => false

def Route.withGroup (g : Nat) : Route → Route
  | .mk _ sets hs term => .mk g sets hs term

def setGroups (g : Nat) : List Node → List Route → List Route
  | n :: ns, rt :: rts => (if n.isHandle then rt.withGroup g else rt) :: setGroups g ns rts
  | _, _ => []

/-- one step of `consolidateRoutes`, from the right: adjacent routes with the same matchers, the
    same `terminal` and the same group become one route with the handlers of both, in order.  With
    the bodies the harness writes (no two handles of a body share a matcher) only matcher-less,
    group-less routes can meet: a lone `handle { … }` and the `respond` behind it. -/
def consolidateStep (rt : Route) (acc : List Route) : List Route :=
  match rt, acc with
  | .mk 0 [] hs false, .mk 0 [] hs' false :: rest => .mk 0 [] (hs ++ hs') false :: rest
  | _, _ => rt :: acc

def consolidate (rs : List Route) : List Route := rs.foldr consolidateStep []

/-- the group bookkeeping of one `buildSubroute` call: counter before → (group of the handles, counter after) -/
def drawGroups (nHandles c : Nat) : Nat × Nat :=
  if nHandles > 1 then (c + 1, c + 2) else (0, c + 1)

/-- the matcher of `handle [<path>]`; path 100 is `handle_path /a/*`: the real path matcher with
    the pattern `/a/*`, which on the path alphabet matches `/a/b` and `/a/c` -/
def handleSets : Option Nat → List (List Matcher)
  | some q => if q = 100 then [[.atom .path [2, 5]]] else [[.atom .path [q]]]
  | none => []

/-- `handle_path` (rewrite/caddyfile.go:parseCaddyfileHandlePath) prepends a route with the
    `rewrite` handler stripping the prefix to the body's routes — after `buildSubroute` has
    consolidated them -/
def stripRoutes : Option Nat → List Route
  | some 100 => [.mk 0 [] [.strip] false]
  | _ => []

mutual
/-- one directive: its route (group still unset) and the counter afterwards -/
def adaptNode : Node → Nat → Route × Nat
  | .respond st, c =>
    -- statuses from 1000 on stand for the `error <st - 1000>` directive (the real `error` handler)
    (.mk 0 [] [if st ≥ 1000 then .raise (.lit (st - 1000)) else .answer (.lit st)] false, c)
  | .handle p body, c =>
    match adaptNodes body c with
    | (rs, c1) =>
      (.mk 0 (handleSets p)
          [.sub (stripRoutes p ++ consolidate (setGroups (drawGroups (body.filter Node.isHandle).length c1).1 body rs)) false []] false,
        (drawGroups (body.filter Node.isHandle).length c1).2)
def adaptNodes : List Node → Nat → List Route × Nat
  | [], c => ([], c)
  | n :: ns, c =>
    match adaptNode n c with
    | (rt, c1) =>
      match adaptNodes ns c1 with
      | (rts, c2) => (rt :: rts, c2)
end

/-- the routes of a site whose body is `nodes` -/
def adaptSite (nodes : List Node) : List Route :=
  match adaptNodes nodes 0 with
  | (rs, c1) => consolidate (setGroups (drawGroups (nodes.filter Node.isHandle).length c1).1 nodes rs)

/-! ### a whole site: `handle` blocks, `error`, and `handle_errors` blocks with `handle` blocks inside

The directives of a site are parsed in source order with ONE group counter: first the bodies of the
primary `handle` blocks (inside out), then the bodies of the `handle_errors` blocks (each body is a
`buildSubroute` of its own, drawing its groups), and only then the site's own `buildSubroute`. -/

structure EBlock where
  args : List Bytes
  body : List Node

/-- the status test put on the routes of one `handle_errors` body -/
def statusWrap (a : StatusArgs) (rs : List Route) : List Route :=
  if a.classes.isEmpty && a.codes.isEmpty then rs
  else rs.map fun rt =>
    match rt with
    | .mk g [] hs term => .mk g [[selMatcher a]] hs term
    | rt => .mk 0 [[selMatcher a]] [.sub [rt] false []] false

/-- the error-route bodies, in source order, threading the counter -/
def adaptEBlocks : List EBlock → Nat → Option (List (List Route) × Nat)
  | [], c => some ([], c)
  | b :: bs, c =>
    match parseArgs b.args ⟨[], []⟩ with
    | none => none
    | some a =>
      match adaptNodes b.body c with
      | (rs, c1) =>
        match adaptEBlocks bs (drawGroups (b.body.filter Node.isHandle).length c1).2 with
        | none => none
        | some (rest, c2) =>
          some (statusWrap a (consolidate (setGroups (drawGroups (b.body.filter Node.isHandle).length c1).1 b.body rs)) :: rest, c2)

/-- primary routes and error routes of the site; `none` = the adapter refuses it -/
def adaptFull (nodes : List Node) (ebs : List EBlock) : Option (List Route × List Route) :=
  match adaptNodes nodes 0 with
  | (rs, c1) =>
    match adaptEBlocks ebs c1 with
    | none => none
    | some (blocks, c2) =>
      some (consolidate (setGroups (drawGroups (nodes.filter Node.isHandle).length c2).1 nodes rs),
            (C16.insertionSort blockLess blocks).flatten)

/-! ### several sites on one server

`ServerType.Setup` (httptype.go) parses the directives of ALL site blocks first, in source order,
with ONE group counter for the whole Caddyfile (the bodies of `handle` / `handle_errors` blocks
draw their names then); afterwards, per server, the site blocks are sorted (longer hosts first,
the block without a host last — the harness lists them in that order, equal-length hosts stay in
source order) and each site's own `buildSubroute` draws its names.  `appendSubrouteToRouteList`
puts every site — unless it is the only block and has no host — into ONE route: the site's host
matcher, the site's routes in a subroute, and `terminal: true` ("site blocks do not cascade nor
inherit").  The error routes of a site that has `handle_errors` blocks are wrapped the same way. -/

structure Site where
  host : Option Nat
  nodes : List Node
  ebs : List EBlock

/-- what the parse phase leaves of one site: its directive routes (groups unset) and its error blocks -/
structure ParsedSite where
  host : Option Nat
  nodes : List Node
  rs : List Route
  blocks : List (List Route)
  hasErrorBlocks : Bool

def parseSites : List Site → Nat → Option (List ParsedSite × Nat)
  | [], c => some ([], c)
  | s :: ss, c =>
    match adaptNodes s.nodes c with
    | (rs, c1) =>
      match adaptEBlocks s.ebs c1 with
      | none => none
      | some (blocks, c2) =>
        match parseSites ss c2 with
        | none => none
        | some (rest, c3) => some (⟨s.host, s.nodes, rs, blocks, !s.ebs.isEmpty⟩ :: rest, c3)

def hostSets : Option Nat → List (List Matcher)
  | some h => [[.atom .host [h]]]
  | none => []

/-- `appendSubrouteToRouteList` for a block that is wrapped -/
def wrapSite (host : Option Nat) (routes : List Route) : List Route :=
  if host.isNone && routes.isEmpty then []
  else [.mk 0 (hostSets host) (if routes.isEmpty then [] else [.sub routes false []]) true]

/-- the second phase: each site's own `buildSubroute`, in (sorted) order, then the wrapping -/
def buildSites (single : Bool) : List ParsedSite → Nat → List Route × List Route
  | [], _ => ([], [])
  | p :: ps, c =>
    match buildSites single ps (drawGroups (p.nodes.filter Node.isHandle).length c).2 with
    | (prim, errs) =>
      let routes := consolidate (setGroups (drawGroups (p.nodes.filter Node.isHandle).length c).1 p.nodes p.rs)
      let eroutes := (C16.insertionSort blockLess p.blocks).flatten
      if single && p.host.isNone then (routes ++ prim, eroutes ++ errs)
      else (wrapSite p.host routes ++ prim, (if p.hasErrorBlocks then wrapSite p.host eroutes else []) ++ errs)

/-- primary routes, `srv.Errors != nil`, error routes of the server -/
def adaptSites (sites : List Site) : Option (List Route × Bool × List Route) :=
  match parseSites sites 0 with
  | none => none
  | some (ps, c) =>
    match buildSites (sites.length == 1) ps c with
    | (prim, errs) => some (prim, sites.any (fun s => !s.ebs.isEmpty), errs)

end CaddyModel.C05
