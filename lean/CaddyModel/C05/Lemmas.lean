/-
C05 — helper lemmas: the continuation-passing code shape (`run*`) against the direct rules
(`spec*`), by mutual structural recursion over the nested route tree.
-/
import CaddyModel.C05.Spec

namespace CaddyModel.C05

def Out.isErr : Out → Bool
  | .err _ _ _ => true
  | .done _ _ => false

/-- "this rest-of-the-chain never returns a Go error" -/
def NoErrK (k : K) : Prop := ∀ r t, (k r t).isErr = false

theorem noErr_emptyK : NoErrK emptyK := fun _ _ => rfl
theorem noErr_errorEmptyK : NoErrK errorEmptyK := fun _ _ => rfl
theorem noErr_termK (e : Req) : NoErrK (termK e) := by
  unfold termK; split
  · exact noErr_errorEmptyK
  · exact noErr_emptyK

/-! ### matchers that contain no error matcher never report an error -/

mutual
theorem evalMatcher_noerr : ∀ (m : Matcher) (r : Req), mCanErr m = false → ∀ st, evalMatcher m r ≠ .err st
  | .atom f vals, r, _, st => by simp [evalMatcher]
  | .err k s, r, h, st => by simp [mCanErr] at h
  | .legacy b, r, _, st => by simp [evalMatcher]
  | .not sets, r, h, st => by
    rw [evalMatcher]; exact evalNot_noerr sets r (by simpa [mCanErr] using h) st
theorem evalNot_noerr : ∀ (sets : List (List Matcher)) (r : Req), setsCanErr sets = false → ∀ st, evalNot sets r ≠ .err st
  | [], r, _, st => by simp [evalNot]
  | s :: ss, r, h, st => by
    simp only [setsCanErr, Bool.or_eq_false_iff] at h
    rw [evalNot]
    have h1 := evalSet_noerr s r h.1
    have h2 := evalNot_noerr ss r h.2 st
    cases hs : evalSet s r with
    | err st' => exact absurd hs (h1 st')
    | ok b => cases b <;> simp [h2]
theorem evalSet_noerr : ∀ (s : List Matcher) (r : Req), setCanErr s = false → ∀ st, evalSet s r ≠ .err st
  | [], r, _, st => by simp [evalSet]
  | m :: ms, r, h, st => by
    simp only [setCanErr, Bool.or_eq_false_iff] at h
    rw [evalSet]
    have h1 := evalMatcher_noerr m r h.1
    have h2 := evalSet_noerr ms r h.2 st
    cases hm : evalMatcher m r with
    | err st' => exact absurd hm (h1 st')
    | ok b => cases b <;> simp [h2]
end

theorem evalAny_noerr : ∀ (sets : List (List Matcher)) (r : Req), setsCanErr sets = false → ∀ st, evalAny sets r ≠ .err st
  | [], r, _, st => by simp [evalAny]
  | s :: ss, r, h, st => by
    simp only [setsCanErr, Bool.or_eq_false_iff] at h
    rw [evalAny]
    have h1 := evalSet_noerr s r h.1
    have h2 := evalAny_noerr ss r h.2 st
    cases hs : evalSet s r with
    | err st' => exact absurd hs (h1 st')
    | ok b => cases b <;> simp [h2]

theorem anyMatch_noerr (sets : List (List Matcher)) (r : Req) (h : setsCanErr sets = false) (st : Nat) :
    anyMatch sets r ≠ .err st := by
  unfold anyMatch; split
  · simp
  · exact evalAny_noerr sets r h st

/-! ### a chain that contains nothing that can fail never returns an error -/

mutual
theorem runHandlers_noerr : ∀ (hs : List Handler) (k : K), hsCanFail hs = false → NoErrK k → NoErrK (runHandlers hs k)
  | [], k, _, hk => by simpa [runHandlers] using hk
  | h :: hs, k, hf, hk => by
    simp only [hsCanFail, Bool.or_eq_false_iff] at hf
    rw [runHandlers]
    exact runHandler_noerr h _ hf.1 (runHandlers_noerr hs k hf.2 hk)
theorem runHandler_noerr : ∀ (h : Handler) (k : K), hCanFail h = false → NoErrK k → NoErrK (runHandler h k)
  | .pass id, k, _, hk => fun r t => by simp [runHandler, hk _ _]
  | .respond id st, k, _, _ => fun r t => by simp [runHandler, Out.isErr]
  | .rewrite id p, k, _, hk => fun r t => by simp [runHandler, hk _ _]
  | .fail id st, k, hf, _ => by simp [hCanFail] at hf
  | .raise src, k, hf, _ => by simp [hCanFail] at hf
  | .answer src, k, hf, _ => fun r t => by
    cases src <;> simp [hCanFail] at hf <;> simp [runHandler, Src.resolve, Out.isErr]
  | .sub rs hasErrs errs, k, hf, hk => fun r t => by
    simp only [runHandler]
    cases hasErrs with
    | false =>
      simp only [hCanFail, Bool.false_eq_true, if_false] at hf
      have := runRoutes_noerr rs k hf hk r t
      cases hr : runRoutes rs k r t with
      | done t' s => simp [Out.isErr]
      | err t' st r' => simp [hr, Out.isErr] at this
    | true =>
      simp only [hCanFail, if_true] at hf
      cases hr : runRoutes rs k r t with
      | done t' s => simp [Out.isErr]
      | err t' st r' => simpa using runRoutes_noerr errs k hf hk _ _
theorem runRoutes_noerr : ∀ (rs : List Route) (k : K), rsCanFail rs = false → NoErrK k → NoErrK (runRoutes rs k)
  | [], k, _, hk => by simpa [runRoutes] using hk
  | rt :: rs, k, hf, hk => by
    simp only [rsCanFail, Bool.or_eq_false_iff] at hf
    rw [runRoutes]
    exact runRoute_noerr rt _ hf.1 (runRoutes_noerr rs k hf.2 hk)
theorem runRoute_noerr : ∀ (rt : Route) (k : K), rCanFail rt = false → NoErrK k → NoErrK (runRoute rt k)
  | .mk g sets hs term, k, hf, hk => fun r t => by
    simp only [rCanFail, Bool.or_eq_false_iff] at hf
    simp only [runRoute]
    have hm := anyMatch_noerr sets r hf.1
    cases ha : anyMatch sets r with
    | err st => exact absurd ha (hm st)
    | ok b =>
      cases b with
      | false => simpa using hk r t
      | true =>
        simp only
        split
        · exact hk r t
        · apply runHandlers_noerr hs _ hf.2
          split
          · exact noErr_termK r
          · exact hk
end

/-! ### the refinement: code shape = documented rules, when nothing can fail behind a
subroute that has error routes (`ks` is the static "rest of the chain cannot fail") -/

mutual
theorem hs_ok : ∀ (hs : List Handler) (ks : Bool) (k : K) (r : Req) (t : Trace),
    hsOk hs ks = true → (ks = true → NoErrK k) →
    runHandlers hs k r t = (specHandlers hs r t).bind k
  | [], ks, k, r, t, _, _ => by simp [runHandlers, specHandlers, Res.bind]
  | h :: hs, ks, k, r, t, ho, hk => by
    simp only [hsOk, Bool.and_eq_true] at ho
    have hk' : (ks && !hsCanFail hs) = true → NoErrK (runHandlers hs k) := by
      intro hh
      simp only [Bool.and_eq_true, Bool.not_eq_true'] at hh
      exact runHandlers_noerr hs k hh.2 (hk hh.1)
    rw [runHandlers, h_ok h _ (runHandlers hs k) r t ho.1 hk', specHandlers]
    cases hh : specHandler h r t with
    | cont r' t' => simp [Res.bind, hs_ok hs ks k r' t' ho.2 hk]
    | stop o => simp [Res.bind]
theorem h_ok : ∀ (h : Handler) (ks : Bool) (k : K) (r : Req) (t : Trace),
    hOk h ks = true → (ks = true → NoErrK k) →
    runHandler h k r t = (specHandler h r t).bind k
  | .pass id, ks, k, r, t, _, _ => by simp [runHandler, specHandler, Res.bind]
  | .respond id st, ks, k, r, t, _, _ => by simp [runHandler, specHandler, Res.bind]
  | .rewrite id p, ks, k, r, t, _, _ => by simp [runHandler, specHandler, Res.bind]
  | .fail id st, ks, k, r, t, _, _ => by simp [runHandler, specHandler, Res.bind]
  | .raise src, ks, k, r, t, _, _ => by simp [runHandler, specHandler, Res.bind]
  | .answer src, ks, k, r, t, _, _ => by
    cases src <;> simp only [runHandler, specHandler, Res.bind] <;>
      (try cases Src.resolve _ r) <;> simp
  | .sub rs hasErrs errs, ks, k, r, t, ho, hk => by
    simp only [runHandler, specHandler]
    cases hasErrs with
    | false =>
      simp only [hOk, Bool.false_eq_true, if_false] at ho
      rw [rs_ok rs ks k r t ho hk]
      cases hs : specRoutes rs r t with
      | cont r' t' =>
        simp only [Res.bind]
        cases hkk : k r' t' <;> simp
      | stop o => cases o <;> simp [Res.bind]
    | true =>
      simp only [hOk, if_true, Bool.and_eq_true] at ho
      obtain ⟨⟨hks, hrs⟩, hes⟩ := ho
      rw [rs_ok rs ks k r t hrs hk]
      cases hs : specRoutes rs r t with
      | cont r' t' =>
        simp only [Res.bind]
        have hne := hk hks r' t'
        cases hkk : k r' t' with
        | done t'' s => rfl
        | err t'' st r'' => simp [hkk, Out.isErr] at hne
      | stop o =>
        cases o with
        | done t' s => simp [Res.bind]
        | err t' st r' => simp [Res.bind, rs_ok errs ks k _ t' hes hk]
theorem rs_ok : ∀ (rs : List Route) (ks : Bool) (k : K) (r : Req) (t : Trace),
    rsOk rs ks = true → (ks = true → NoErrK k) →
    runRoutes rs k r t = (specRoutes rs r t).bind k
  | [], ks, k, r, t, _, _ => by simp [runRoutes, specRoutes, Res.bind]
  | rt :: rs, ks, k, r, t, ho, hk => by
    simp only [rsOk, Bool.and_eq_true] at ho
    have hk' : (ks && !rsCanFail rs) = true → NoErrK (runRoutes rs k) := by
      intro hh
      simp only [Bool.and_eq_true, Bool.not_eq_true'] at hh
      exact runRoutes_noerr rs k hh.2 (hk hh.1)
    rw [runRoutes, r_ok rt _ (runRoutes rs k) r t ho.1 hk', specRoutes]
    cases hh : specRoute rt r t with
    | cont r' t' => simp [Res.bind, rs_ok rs ks k r' t' ho.2 hk]
    | stop o => simp [Res.bind]
theorem r_ok : ∀ (rt : Route) (ks : Bool) (k : K) (r : Req) (t : Trace),
    rOk rt ks = true → (ks = true → NoErrK k) →
    runRoute rt k r t = (specRoute rt r t).bind k
  | .mk g sets hs term, ks, k, r, t, ho, hk => by
    simp only [rOk] at ho
    simp only [runRoute, specRoute]
    cases ha : anyMatch sets r with
    | err st => simp [Res.bind]
    | ok b =>
      cases b with
      | false => simp [Res.bind]
      | true =>
        simp only
        by_cases hg : groupDone g r = true
        · simp [hg, Res.bind]
        · simp only [hg]
          have hk2 : (term || ks) = true → NoErrK (if term then termK r else k) := by
            intro hh
            cases term with
            | true => simpa using noErr_termK r
            | false => simpa using hk (by simpa using hh)
          rw [hs_ok hs (term || ks) _ (markGroup g r) t ho hk2]
          cases specHandlers hs (markGroup g r) t <;> cases term <;> simp [Res.bind]
end


/-! ### matcher sets as propositions -/

theorem evalSet_true_iff : ∀ (s : List Matcher) (r : Req),
    evalSet s r = .ok true ↔ ∀ m ∈ s, evalMatcher m r = .ok true
  | [], r => by simp [evalSet]
  | m :: ms, r => by
    rw [evalSet]
    have ih := evalSet_true_iff ms r
    cases hm : evalMatcher m r with
    | err st => simp [hm]
    | ok b => cases b <;> simp [hm, ih]

theorem evalAny_ok : ∀ (sets : List (List Matcher)) (r : Req) (b : Bool), evalAny sets r = .ok b →
    (b = true ↔ ∃ s ∈ sets, evalSet s r = .ok true)
  | [], r, b, h => by simp [evalAny] at h; simp [← h]
  | s :: ss, r, b, h => by
    rw [evalAny] at h
    cases hs : evalSet s r with
    | err st => simp [hs] at h
    | ok c =>
      cases c with
      | true => simp [hs] at h; simp [← h, hs]
      | false =>
        simp only [hs] at h
        have ih := evalAny_ok ss r b h
        simp [ih, hs]

theorem evalNot_ok : ∀ (sets : List (List Matcher)) (r : Req) (b : Bool), evalNot sets r = .ok b →
    (b = true ↔ ¬ ∃ s ∈ sets, evalSet s r = .ok true)
  | [], r, b, h => by simp [evalNot] at h; simp [← h]
  | s :: ss, r, b, h => by
    rw [evalNot] at h
    cases hs : evalSet s r with
    | err st => simp [hs] at h
    | ok c =>
      cases c with
      | true => simp [hs] at h; simp [← h, hs]
      | false =>
        simp only [hs] at h
        have ih := evalNot_ok ss r b h
        simp [ih, hs]

/-- without errors a matcher set is a plain conjunction -/
theorem evalSet_eq_all : ∀ (s : List Matcher) (r : Req), (∀ m ∈ s, ∀ st, evalMatcher m r ≠ .err st) →
    evalSet s r = .ok (s.all fun m => evalMatcher m r == .ok true)
  | [], r, _ => by simp [evalSet]
  | m :: ms, r, h => by
    rw [evalSet]
    have ih := evalSet_eq_all ms r (fun m' hm' => h m' (List.mem_cons_of_mem _ hm'))
    cases hm : evalMatcher m r with
    | err st => exact absurd hm (h m (List.mem_cons_self ..) st)
    | ok b => cases b <;> simp [hm, ih]

/-! ### the group set only grows along a chain -/

/-- every group in `gs` is still marked in the request state a run hands on (or fails with) -/
def Res.KeepsGroups (x : Res) (gs : List Nat) : Prop :=
  match x with
  | .cont r' _ => ∀ g ∈ gs, g ∈ r'.groups
  | .stop (.err _ _ r') => ∀ g ∈ gs, g ∈ r'.groups
  | .stop (.done _ _) => True

theorem Res.KeepsGroups.mono {x : Res} {gs gs' : List Nat} (h : x.KeepsGroups gs')
    (hs : ∀ g ∈ gs, g ∈ gs') : x.KeepsGroups gs := by
  cases x with
  | cont r t => exact fun g hg => h g (hs g hg)
  | stop o =>
    cases o with
    | done t s => trivial
    | err t st r => exact fun g hg => h g (hs g hg)

theorem termK_done (e r : Req) (t : Trace) : ∃ s, termK e r t = .done t s := by
  unfold termK; split
  · exact ⟨_, rfl⟩
  · exact ⟨_, rfl⟩

theorem markGroup_groups (g : Nat) (r : Req) : ∀ x ∈ r.groups, x ∈ (markGroup g r).groups := by
  intro x hx; unfold markGroup; split
  · exact List.mem_cons_of_mem _ hx
  · exact hx

mutual
theorem specHandlers_keeps : ∀ (hs : List Handler) (r : Req) (t : Trace), (specHandlers hs r t).KeepsGroups r.groups
  | [], r, t => by simp [specHandlers, Res.KeepsGroups]
  | h :: hs, r, t => by
    rw [specHandlers]
    have h1 := specHandler_keeps h r t
    cases hh : specHandler h r t with
    | cont r' t' =>
      rw [hh] at h1
      exact (specHandlers_keeps hs r' t').mono h1
    | stop o => rw [hh] at h1; exact h1
theorem specHandler_keeps : ∀ (h : Handler) (r : Req) (t : Trace), (specHandler h r t).KeepsGroups r.groups
  | .pass id, r, t => by simp [specHandler, Res.KeepsGroups]
  | .respond id st, r, t => by simp [specHandler, Res.KeepsGroups]
  | .rewrite id p, r, t => by simp [specHandler, Res.KeepsGroups]
  | .fail id st, r, t => by simp [specHandler, Res.KeepsGroups]
  | .raise src, r, t => by simp [specHandler, Res.KeepsGroups]
  | .answer src, r, t => by
    cases src <;> simp only [specHandler] <;> (try split) <;> simp [Res.KeepsGroups]
  | .sub rs hasErrs errs, r, t => by
    rw [specHandler]
    have h1 := specRoutes_keeps rs r t
    cases hs : specRoutes rs r t with
    | cont r' t' => rw [hs] at h1; exact h1
    | stop o =>
      rw [hs] at h1
      cases o with
      | done t' s => trivial
      | err t' st r' =>
        cases hasErrs with
        | false => exact h1
        | true => exact (specRoutes_keeps errs (withError st r') t').mono h1
theorem specRoutes_keeps : ∀ (rs : List Route) (r : Req) (t : Trace), (specRoutes rs r t).KeepsGroups r.groups
  | [], r, t => by simp [specRoutes, Res.KeepsGroups]
  | rt :: rs, r, t => by
    rw [specRoutes]
    have h1 := specRoute_keeps rt r t
    cases hh : specRoute rt r t with
    | cont r' t' =>
      rw [hh] at h1
      exact (specRoutes_keeps rs r' t').mono h1
    | stop o => rw [hh] at h1; exact h1
theorem specRoute_keeps : ∀ (rt : Route) (r : Req) (t : Trace), (specRoute rt r t).KeepsGroups r.groups
  | .mk g sets hs term, r, t => by
    rw [specRoute]
    cases anyMatch sets r with
    | err st => simp [Res.KeepsGroups]
    | ok b =>
      cases b with
      | false => simp [Res.KeepsGroups]
      | true =>
        simp only
        split
        · simp [Res.KeepsGroups]
        · have h1 := (specHandlers_keeps hs (markGroup g r) t).mono (markGroup_groups g r)
          cases hh : specHandlers hs (markGroup g r) t with
          | cont r' t' =>
            rw [hh] at h1
            cases term with
            | true =>
              obtain ⟨s, hs⟩ := termK_done r r' t'
              simp [hs, Res.KeepsGroups]
            | false => simpa using h1
          | stop o => rw [hh] at h1; exact h1
end

/-! ### the `{http.error.status_code}` placeholder follows the error in the request context -/

/-- the placeholder agrees with the context error whenever that is a `HandlerError` -/
def Req.PlaceholderOk (r : Req) : Prop := ∀ st, r.ctxErr = some st → st ≠ 0 → r.replStatus = some st

def Ev.PlaceholderOk (e : Ev) : Prop := ∀ st, e.err = some st → st ≠ 0 → e.repl = some st

def Out.trace : Out → Trace
  | .done t _ => t
  | .err t _ _ => t

/-- a rest-of-chain that keeps the invariant: from a good request and a good trace, a good trace -/
def KPlaceholderOk (k : K) : Prop :=
  ∀ r t, r.PlaceholderOk → (∀ e ∈ t, e.PlaceholderOk) → ∀ e ∈ (k r t).trace, e.PlaceholderOk

theorem withError_ok (st : Nat) (r : Req) : (withError st r).PlaceholderOk := by
  intro st' h hne
  simp only [withError] at h ⊢
  cases h
  simp [hne]

theorem ev_ok (id : Nat) (r : Req) (h : r.PlaceholderOk) : (ev id r).PlaceholderOk := h

theorem markGroup_ok (g : Nat) (r : Req) (h : r.PlaceholderOk) : (markGroup g r).PlaceholderOk := by
  unfold markGroup; split <;> exact h

theorem snoc_ok {t : Trace} {e : Ev} (ht : ∀ e ∈ t, e.PlaceholderOk) (he : e.PlaceholderOk) :
    ∀ e' ∈ t ++ [e], e'.PlaceholderOk := by
  intro e' hm
  rcases List.mem_append.mp hm with h | h
  · exact ht e' h
  · simp at h; subst h; exact he

theorem kOk_emptyK : KPlaceholderOk emptyK := fun _ _ _ ht => ht
theorem kOk_errorEmptyK : KPlaceholderOk errorEmptyK := fun _ _ _ ht => ht
theorem kOk_termK (e : Req) : KPlaceholderOk (termK e) := by
  unfold termK; split
  · exact kOk_errorEmptyK
  · exact kOk_emptyK

mutual
theorem runHandlers_pok : ∀ (hs : List Handler) (k : K), KPlaceholderOk k → KPlaceholderOk (runHandlers hs k)
  | [], k, hk => by simpa [runHandlers] using hk
  | h :: hs, k, hk => by
    rw [runHandlers]; exact runHandler_pok h _ (runHandlers_pok hs k hk)
theorem runHandler_pok : ∀ (h : Handler) (k : K), KPlaceholderOk k → KPlaceholderOk (runHandler h k)
  | .pass id, k, hk => fun r t hr ht => by
    simp only [runHandler]; exact hk r _ hr (snoc_ok ht (ev_ok id r hr))
  | .respond id st, k, _ => fun r t hr ht => by
    simp only [runHandler, Out.trace]; exact snoc_ok ht (ev_ok id r hr)
  | .rewrite id p, k, hk => fun r t hr ht => by
    simp only [runHandler]; exact hk _ _ hr (snoc_ok ht (ev_ok id r hr))
  | .fail id st, k, _ => fun r t hr ht => by
    simp only [runHandler, Out.trace]; exact snoc_ok ht (ev_ok id r hr)
  | .raise src, k, _ => fun r t _ ht => by simpa [runHandler, Out.trace] using ht
  | .answer src, k, _ => fun r t _ ht => by
    cases src <;> simp only [runHandler, Src.resolve] <;> (try cases r.replStatus) <;>
      simpa [Out.trace] using ht
  | .sub rs hasErrs errs, k, hk => fun r t hr ht => by
    simp only [runHandler]
    have h1 := runRoutes_pok rs k hk r t hr ht
    cases hrr : runRoutes rs k r t with
    | done t' s => rw [hrr] at h1; exact h1
    | err t' st r' =>
      rw [hrr] at h1
      cases hasErrs with
      | false => exact h1
      | true => exact runRoutes_pok errs k hk _ t' (withError_ok st r') h1
theorem runRoutes_pok : ∀ (rs : List Route) (k : K), KPlaceholderOk k → KPlaceholderOk (runRoutes rs k)
  | [], k, hk => by simpa [runRoutes] using hk
  | rt :: rs, k, hk => by
    rw [runRoutes]; exact runRoute_pok rt _ (runRoutes_pok rs k hk)
theorem runRoute_pok : ∀ (rt : Route) (k : K), KPlaceholderOk k → KPlaceholderOk (runRoute rt k)
  | .mk g sets hs term, k, hk => fun r t hr ht => by
    simp only [runRoute]
    cases anyMatch sets r with
    | err st => simpa [Out.trace] using ht
    | ok b =>
      cases b with
      | false => exact hk r t hr ht
      | true =>
        simp only
        split
        · exact hk r t hr ht
        · apply runHandlers_pok hs _ _ _ t (markGroup_ok g r hr) ht
          split
          · exact kOk_termK r
          · exact hk
end

end CaddyModel.C05
