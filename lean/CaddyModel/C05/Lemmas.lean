import CaddyModel.C05.Spec

namespace CaddyModel.C05

end CaddyModel.C05
