/-
C05 — helper lemmas: the continuation-passing code shape (`run*`) against the direct rules
(`spec*`), by mutual structural recursion over the nested route tree.
-/
import CaddyModel.C05.Spec

namespace CaddyModel.C05

def Out.isMarker : Out → Bool
  | .reached _ _ => true
  | _ => false

/-- "this rest-of-the-chain never returns the subroute marker" -/
def NoMarkK (k : K) : Prop := ∀ r t, (k r t).isMarker = false

theorem noMark_emptyK : NoMarkK emptyK := fun _ _ => rfl
theorem noMark_errorEmptyK : NoMarkK errorEmptyK := fun _ _ => rfl
theorem noMark_termK (e : Req) : NoMarkK (termK e) := by
  unfold termK; split
  · exact noMark_errorEmptyK
  · exact noMark_emptyK

/-! ### matchers that contain no error matcher never report an error -/

mutual
theorem evalMatcher_noerr : ∀ (m : Matcher) (r : Req), mCanErr m = false → ∀ st, evalMatcher m r ≠ .err st
  | .atom f vals, r, _, st => by simp [evalMatcher]
  | .err k s, r, h, st => by simp [mCanErr] at h
  | .legacy b, r, _, st => by simp [evalMatcher]
  | .errRange lo hi, r, h, st => by simp [mCanErr] at h
  | .errIn codes, r, _, st => by cases hr : r.replStatus <;> simp [evalMatcher, hr]
  | .errSel ranges codes, r, h, st => by
    simp only [mCanErr, Bool.not_eq_eq_eq_not, Bool.not_false] at h
    cases hr : r.replStatus <;> simp [evalMatcher, hr, h]
  | .not sets, r, h, st => by
    rw [evalMatcher]; exact evalNot_noerr sets r (by simpa [mCanErr] using h) st
theorem evalNot_noerr : ∀ (sets : List (List Matcher)) (r : Req), setsCanErr sets = false → ∀ st, evalNot sets r ≠ .err st
  | [], r, _, st => by simp [evalNot]
  | s :: ss, r, h, st => by
    simp only [setsCanErr, Bool.or_eq_false_iff] at h
    rw [evalNot]
    have h1 := evalSet_noerr s r h.1
    have h2 := evalNot_noerr ss r h.2 st
    cases hs : evalSet s r with
    | err st' => exact absurd hs (h1 st')
    | ok b => cases b <;> simp [h2]
theorem evalSet_noerr : ∀ (s : List Matcher) (r : Req), setCanErr s = false → ∀ st, evalSet s r ≠ .err st
  | [], r, _, st => by simp [evalSet]
  | m :: ms, r, h, st => by
    simp only [setCanErr, Bool.or_eq_false_iff] at h
    rw [evalSet]
    have h1 := evalMatcher_noerr m r h.1
    have h2 := evalSet_noerr ms r h.2 st
    cases hm : evalMatcher m r with
    | err st' => exact absurd hm (h1 st')
    | ok b => cases b <;> simp [h2]
end

theorem evalAny_noerr : ∀ (sets : List (List Matcher)) (r : Req), setsCanErr sets = false → ∀ st, evalAny sets r ≠ .err st
  | [], r, _, st => by simp [evalAny]
  | s :: ss, r, h, st => by
    simp only [setsCanErr, Bool.or_eq_false_iff] at h
    rw [evalAny]
    have h1 := evalSet_noerr s r h.1
    have h2 := evalAny_noerr ss r h.2 st
    cases hs : evalSet s r with
    | err st' => exact absurd hs (h1 st')
    | ok b => cases b <;> simp [h2]

theorem anyMatch_noerr (sets : List (List Matcher)) (r : Req) (h : setsCanErr sets = false) (st : Nat) :
    anyMatch sets r ≠ .err st := by
  unfold anyMatch; split
  · simp
  · exact evalAny_noerr sets r h st

/-! ### the subroute marker never leaves `Subroute.ServeHTTP` -/

mutual
theorem runHandlers_nomark : ∀ (hs : List Handler) (k : K), NoMarkK k → NoMarkK (runHandlers hs k)
  | [], k, hk => by simpa [runHandlers] using hk
  | h :: hs, k, hk => by
    rw [runHandlers]; exact runHandler_nomark h _ (runHandlers_nomark hs k hk)
theorem runHandler_nomark : ∀ (h : Handler) (k : K), NoMarkK k → NoMarkK (runHandler h k)
  | .pass id, k, hk => fun r t => by simp [runHandler, hk _ _]
  | .respond id st, k, _ => fun r t => by simp [runHandler, Out.isMarker]
  | .rewrite id p, k, hk => fun r t => by simp [runHandler, hk _ _]
  | .strip, k, hk => fun r t => by simp [runHandler, hk _ _]
  | .fail id st, k, _ => fun r t => by simp [runHandler, Out.isMarker]
  | .raise src, k, _ => fun r t => by simp [runHandler, Out.isMarker]
  | .invoke n, k, _ => fun r t => by simp [runHandler, Out.isMarker]
  | .answer src, k, hk => fun r t => by
    simp only [runHandler]
    cases answerStep src r with
    | write n => simp [Out.isMarker]
    | hint => exact hk r _
    | fail => simp [Out.isMarker]
  | .sub rs hasErrs errs, k, hk => fun r t => by
    simp only [runHandler]
    cases hr : runRoutes rs reachK r t with
    | reached r' t' => exact hk r' t'
    | done t' s => simp [Out.isMarker]
    | err t' st r' =>
      cases hasErrs with
      | false => simp [Out.isMarker]
      | true => simpa using runRoutes_nomark errs k hk _ _
theorem runRoutes_nomark : ∀ (rs : List Route) (k : K), NoMarkK k → NoMarkK (runRoutes rs k)
  | [], k, hk => by simpa [runRoutes] using hk
  | rt :: rs, k, hk => by
    rw [runRoutes]; exact runRoute_nomark rt _ (runRoutes_nomark rs k hk)
theorem runRoute_nomark : ∀ (rt : Route) (k : K), NoMarkK k → NoMarkK (runRoute rt k)
  | .mk g sets hs term, k, hk => fun r t => by
    simp only [runRoute]
    cases anyMatch sets r with
    | err st => simp [Out.isMarker]
    | ok b =>
      cases b with
      | false => simpa using hk r t
      | true =>
        simp only
        split
        · exact hk r t
        · apply runHandlers_nomark hs _
          split
          · exact noMark_termK r
          · exact hk
end

/-- the rules never produce the marker as an outcome -/
def Res.NoMarker : Res → Prop
  | .stop (.reached _ _) => False
  | _ => True

theorem termK_not_marker (e r : Req) (t : Trace) : (Res.stop (termK e r t)).NoMarker := by
  unfold termK; split <;> simp [errorEmptyK, emptyK, Res.NoMarker]

mutual
theorem specHandlers_no_marker : ∀ (hs : List Handler) (r : Req) (t : Trace), (specHandlers hs r t).NoMarker
  | [], r, t => by simp [specHandlers, Res.NoMarker]
  | h :: hs, r, t => by
    rw [specHandlers]
    have h1 := specHandler_no_marker h r t
    cases hh : specHandler h r t with
    | cont r' t' => exact specHandlers_no_marker hs r' t'
    | stop o => rw [hh] at h1; exact h1
theorem specHandler_no_marker : ∀ (h : Handler) (r : Req) (t : Trace), (specHandler h r t).NoMarker
  | .pass id, r, t => by simp [specHandler, Res.NoMarker]
  | .respond id st, r, t => by simp [specHandler, Res.NoMarker]
  | .rewrite id p, r, t => by simp [specHandler, Res.NoMarker]
  | .strip, r, t => by simp [specHandler, Res.NoMarker]
  | .fail id st, r, t => by simp [specHandler, Res.NoMarker]
  | .raise src, r, t => by simp [specHandler, Res.NoMarker]
  | .invoke n, r, t => by simp [specHandler, Res.NoMarker]
  | .answer src, r, t => by
    simp only [specHandler]; cases answerStep src r <;> simp [Res.NoMarker]
  | .sub rs hasErrs errs, r, t => by
    rw [specHandler]
    cases hs : specRoutes rs r t with
    | cont r' t' => simp [Res.NoMarker]
    | stop o =>
      cases o with
      | done t' s => simp [Res.NoMarker]
      | reached r' t' => simp [Res.NoMarker]
      | err t' st r' =>
        cases hasErrs with
        | false => simp [Res.NoMarker]
        | true => simpa using specRoutes_no_marker errs (catchAt r st r') t'
theorem specRoutes_no_marker : ∀ (rs : List Route) (r : Req) (t : Trace), (specRoutes rs r t).NoMarker
  | [], r, t => by simp [specRoutes, Res.NoMarker]
  | rt :: rs, r, t => by
    rw [specRoutes]
    have h1 := specRoute_no_marker rt r t
    cases hh : specRoute rt r t with
    | cont r' t' => exact specRoutes_no_marker rs r' t'
    | stop o => rw [hh] at h1; exact h1
theorem specRoute_no_marker : ∀ (rt : Route) (r : Req) (t : Trace), (specRoute rt r t).NoMarker
  | .mk g sets hs term, r, t => by
    rw [specRoute]
    cases anyMatch sets r with
    | err st => simp [Res.NoMarker]
    | ok b =>
      cases b with
      | false => simp [Res.NoMarker]
      | true =>
        simp only
        split
        · simp [Res.NoMarker]
        · have h1 := specHandlers_no_marker hs (markGroup g r) t
          cases hh : specHandlers hs (markGroup g r) t with
          | cont r' t' =>
            cases term with
            | true => simpa using termK_not_marker r r' t'
            | false => simp [Res.NoMarker]
          | stop o => rw [hh] at h1; exact h1
end

/-! ### the refinement: code shape = documented rules, for every tree and every continuation -/

mutual
theorem hs_ok : ∀ (hs : List Handler) (k : K) (r : Req) (t : Trace),
    runHandlers hs k r t = (specHandlers hs r t).bind k
  | [], k, r, t => by simp [runHandlers, specHandlers, Res.bind]
  | h :: hs, k, r, t => by
    rw [runHandlers, h_ok h (runHandlers hs k) r t, specHandlers]
    cases hh : specHandler h r t with
    | cont r' t' => simp [Res.bind, hs_ok hs k r' t']
    | stop o => simp [Res.bind]
theorem h_ok : ∀ (h : Handler) (k : K) (r : Req) (t : Trace),
    runHandler h k r t = (specHandler h r t).bind k
  | .pass id, k, r, t => by simp [runHandler, specHandler, Res.bind]
  | .respond id st, k, r, t => by simp [runHandler, specHandler, Res.bind]
  | .rewrite id p, k, r, t => by simp [runHandler, specHandler, Res.bind]
  | .strip, k, r, t => by simp [runHandler, specHandler, Res.bind]
  | .fail id st, k, r, t => by simp [runHandler, specHandler, Res.bind]
  | .raise src, k, r, t => by simp [runHandler, specHandler, Res.bind]
  | .invoke n, k, r, t => by simp [runHandler, specHandler, Res.bind]
  | .answer src, k, r, t => by
    simp only [runHandler, specHandler]; cases answerStep src r <;> simp [Res.bind]
  | .sub rs hasErrs errs, k, r, t => by
    simp only [runHandler, specHandler]
    rw [rs_ok rs reachK r t]
    cases hs : specRoutes rs r t with
    | cont r' t' => simp [Res.bind, reachK]
    | stop o =>
      cases o with
      | done t' s => simp [Res.bind]
      | reached r' t' => simp [Res.bind]
      | err t' st r' =>
        cases hasErrs with
        | false => simp [Res.bind]
        | true => simp [Res.bind, rs_ok errs k _ t']
theorem rs_ok : ∀ (rs : List Route) (k : K) (r : Req) (t : Trace),
    runRoutes rs k r t = (specRoutes rs r t).bind k
  | [], k, r, t => by simp [runRoutes, specRoutes, Res.bind]
  | rt :: rs, k, r, t => by
    rw [runRoutes, r_ok rt (runRoutes rs k) r t, specRoutes]
    cases hh : specRoute rt r t with
    | cont r' t' => simp [Res.bind, rs_ok rs k r' t']
    | stop o => simp [Res.bind]
theorem r_ok : ∀ (rt : Route) (k : K) (r : Req) (t : Trace),
    runRoute rt k r t = (specRoute rt r t).bind k
  | .mk g sets hs term, k, r, t => by
    simp only [runRoute, specRoute]
    cases ha : anyMatch sets r with
    | err st => simp [Res.bind]
    | ok b =>
      cases b with
      | false => simp [Res.bind]
      | true =>
        simp only
        by_cases hg : groupDone g r = true
        · simp [hg, Res.bind]
        · simp only [hg]
          rw [hs_ok hs _ (markGroup g r) t]
          cases specHandlers hs (markGroup g r) t <;> cases term <;> simp [Res.bind]
end

/-- a subroute without error routes is its route list (stated in Props as `subroute_same_rules`) -/
theorem runHandler_sub_without_errors (rs es : List Route) (k : K) (r : Req) (t : Trace) :
    runHandler (.sub rs false es) k r t = runRoutes rs k r t := by
  simp only [runHandler]
  rw [rs_ok rs reachK r t, rs_ok rs k r t]
  have hn := specRoutes_no_marker rs r t
  cases hs : specRoutes rs r t with
  | cont r' t' => simp [Res.bind, reachK]
  | stop o =>
    rw [hs] at hn
    cases o with
    | done t' s => simp [Res.bind]
    | err t' st r' => simp [Res.bind]
    | reached r' t' => exact absurd hn (by simp [Res.NoMarker])

/-! ### matcher sets as propositions -/

theorem evalSet_true_iff : ∀ (s : List Matcher) (r : Req),
    evalSet s r = .ok true ↔ ∀ m ∈ s, evalMatcher m r = .ok true
  | [], r => by simp [evalSet]
  | m :: ms, r => by
    rw [evalSet]
    have ih := evalSet_true_iff ms r
    cases hm : evalMatcher m r with
    | err st => simp [hm]
    | ok b => cases b <;> simp [hm, ih]

theorem evalAny_ok : ∀ (sets : List (List Matcher)) (r : Req) (b : Bool), evalAny sets r = .ok b →
    (b = true ↔ ∃ s ∈ sets, evalSet s r = .ok true)
  | [], r, b, h => by simp [evalAny] at h; simp [← h]
  | s :: ss, r, b, h => by
    rw [evalAny] at h
    cases hs : evalSet s r with
    | err st => simp [hs] at h
    | ok c =>
      cases c with
      | true => simp [hs] at h; simp [← h, hs]
      | false =>
        simp only [hs] at h
        have ih := evalAny_ok ss r b h
        simp [ih, hs]

theorem evalNot_ok : ∀ (sets : List (List Matcher)) (r : Req) (b : Bool), evalNot sets r = .ok b →
    (b = true ↔ ¬ ∃ s ∈ sets, evalSet s r = .ok true)
  | [], r, b, h => by simp [evalNot] at h; simp [← h]
  | s :: ss, r, b, h => by
    rw [evalNot] at h
    cases hs : evalSet s r with
    | err st => simp [hs] at h
    | ok c =>
      cases c with
      | true => simp [hs] at h; simp [← h, hs]
      | false =>
        simp only [hs] at h
        have ih := evalNot_ok ss r b h
        simp [ih, hs]

/-- without errors a matcher set is a plain conjunction -/
theorem evalSet_eq_all : ∀ (s : List Matcher) (r : Req), (∀ m ∈ s, ∀ st, evalMatcher m r ≠ .err st) →
    evalSet s r = .ok (s.all fun m => evalMatcher m r == .ok true)
  | [], r, _ => by simp [evalSet]
  | m :: ms, r, h => by
    rw [evalSet]
    have ih := evalSet_eq_all ms r (fun m' hm' => h m' (List.mem_cons_of_mem _ hm'))
    cases hm : evalMatcher m r with
    | err st => exact absurd hm (h m (List.mem_cons_self ..) st)
    | ok b => cases b <;> simp [hm, ih]

/-! ### the group set only grows along a chain -/

/-- every group in `gs` is still marked in the request state a run hands on (or fails with) -/
def Res.KeepsGroups (x : Res) (gs : List Nat) : Prop :=
  match x with
  | .cont r' _ => ∀ g ∈ gs, g ∈ r'.groups
  | .stop (.err _ _ r') => ∀ g ∈ gs, g ∈ r'.groups
  | .stop (.done _ _) => True
  | .stop (.reached r' _) => ∀ g ∈ gs, g ∈ r'.groups

theorem Res.KeepsGroups.mono {x : Res} {gs gs' : List Nat} (h : x.KeepsGroups gs')
    (hs : ∀ g ∈ gs, g ∈ gs') : x.KeepsGroups gs := by
  cases x with
  | cont r t => exact fun g hg => h g (hs g hg)
  | stop o =>
    cases o with
    | done t s => trivial
    | reached r t => exact fun g hg => h g (hs g hg)
    | err t st r => exact fun g hg => h g (hs g hg)

theorem termK_done (e r : Req) (t : Trace) : ∃ s, termK e r t = .done t s := by
  unfold termK; split
  · exact ⟨_, rfl⟩
  · exact ⟨_, rfl⟩

theorem markGroup_groups (g : Nat) (r : Req) : ∀ x ∈ r.groups, x ∈ (markGroup g r).groups := by
  intro x hx; unfold markGroup; split
  · exact List.mem_cons_of_mem _ hx
  · exact hx

mutual
theorem specHandlers_keeps : ∀ (hs : List Handler) (r : Req) (t : Trace), (specHandlers hs r t).KeepsGroups r.groups
  | [], r, t => by simp [specHandlers, Res.KeepsGroups]
  | h :: hs, r, t => by
    rw [specHandlers]
    have h1 := specHandler_keeps h r t
    cases hh : specHandler h r t with
    | cont r' t' =>
      rw [hh] at h1
      exact (specHandlers_keeps hs r' t').mono h1
    | stop o => rw [hh] at h1; exact h1
theorem specHandler_keeps : ∀ (h : Handler) (r : Req) (t : Trace), (specHandler h r t).KeepsGroups r.groups
  | .pass id, r, t => by simp [specHandler, Res.KeepsGroups]
  | .respond id st, r, t => by simp [specHandler, Res.KeepsGroups]
  | .rewrite id p, r, t => by simp [specHandler, Res.KeepsGroups]
  | .strip, r, t => by simp [specHandler, Res.KeepsGroups]
  | .fail id st, r, t => by simp [specHandler, Res.KeepsGroups]
  | .raise src, r, t => by simp [specHandler, Res.KeepsGroups]
  | .invoke n, r, t => by simp [specHandler, Res.KeepsGroups]
  | .answer src, r, t => by
    simp only [specHandler]; cases answerStep src r <;> simp [Res.KeepsGroups]
  | .sub rs hasErrs errs, r, t => by
    rw [specHandler]
    have h1 := specRoutes_keeps rs r t
    cases hs : specRoutes rs r t with
    | cont r' t' => rw [hs] at h1; exact h1
    | stop o =>
      rw [hs] at h1
      cases o with
      | done t' s => trivial
      | reached r' t' => exact h1
      | err t' st r' =>
        cases hasErrs with
        | false => exact h1
        | true => exact (specRoutes_keeps errs (catchAt r st r') t').mono h1
theorem specRoutes_keeps : ∀ (rs : List Route) (r : Req) (t : Trace), (specRoutes rs r t).KeepsGroups r.groups
  | [], r, t => by simp [specRoutes, Res.KeepsGroups]
  | rt :: rs, r, t => by
    rw [specRoutes]
    have h1 := specRoute_keeps rt r t
    cases hh : specRoute rt r t with
    | cont r' t' =>
      rw [hh] at h1
      exact (specRoutes_keeps rs r' t').mono h1
    | stop o => rw [hh] at h1; exact h1
theorem specRoute_keeps : ∀ (rt : Route) (r : Req) (t : Trace), (specRoute rt r t).KeepsGroups r.groups
  | .mk g sets hs term, r, t => by
    rw [specRoute]
    cases anyMatch sets r with
    | err st => simp [Res.KeepsGroups]
    | ok b =>
      cases b with
      | false => simp [Res.KeepsGroups]
      | true =>
        simp only
        split
        · simp [Res.KeepsGroups]
        · have h1 := (specHandlers_keeps hs (markGroup g r) t).mono (markGroup_groups g r)
          cases hh : specHandlers hs (markGroup g r) t with
          | cont r' t' =>
            rw [hh] at h1
            cases term with
            | true =>
              obtain ⟨s, hs⟩ := termK_done r r' t'
              simp [hs, Res.KeepsGroups]
            | false => simpa using h1
          | stop o => rw [hh] at h1; exact h1
end

/-! ### request objects are only ever added: a frame's own object still exists when it catches -/

/-- the state a run hands on (or fails with) has at least `n` older request objects -/
def Res.OldsGE (x : Res) (n : Nat) : Prop :=
  match x with
  | .cont r' _ => n ≤ r'.olds.length
  | .stop (.err _ _ r') => n ≤ r'.olds.length
  | .stop (.done _ _) => True
  | .stop (.reached r' _) => n ≤ r'.olds.length

theorem Res.OldsGE.mono {x : Res} {n m : Nat} (h : x.OldsGE m) (hs : n ≤ m) : x.OldsGE n := by
  cases x with
  | cont r t => exact Nat.le_trans hs h
  | stop o =>
    cases o with
    | done t s => trivial
    | reached r t => exact Nat.le_trans hs h
    | err t st r => exact Nat.le_trans hs h

theorem catchAt_olds (frame : Req) (st : Nat) (r : Req) : r.olds.length ≤ (catchAt frame st r).olds.length := by
  simp [catchAt, withError, newObject]

theorem markGroup_olds (g : Nat) (r : Req) : (markGroup g r).olds = r.olds := by
  unfold markGroup; split <;> rfl

mutual
theorem specHandlers_olds : ∀ (hs : List Handler) (r : Req) (t : Trace), (specHandlers hs r t).OldsGE r.olds.length
  | [], r, t => by simp [specHandlers, Res.OldsGE]
  | h :: hs, r, t => by
    rw [specHandlers]
    have h1 := specHandler_olds h r t
    cases hh : specHandler h r t with
    | cont r' t' =>
      rw [hh] at h1
      exact (specHandlers_olds hs r' t').mono h1
    | stop o => rw [hh] at h1; exact h1
theorem specHandler_olds : ∀ (h : Handler) (r : Req) (t : Trace), (specHandler h r t).OldsGE r.olds.length
  | .pass id, r, t => by simp [specHandler, Res.OldsGE]
  | .respond id st, r, t => by simp [specHandler, Res.OldsGE]
  | .rewrite id p, r, t => by simp [specHandler, Res.OldsGE]
  | .strip, r, t => by simp [specHandler, Res.OldsGE]
  | .fail id st, r, t => by simp [specHandler, Res.OldsGE]
  | .raise src, r, t => by simp [specHandler, Res.OldsGE]
  | .invoke n, r, t => by simp [specHandler, Res.OldsGE]
  | .answer src, r, t => by
    simp only [specHandler]; cases answerStep src r <;> simp [Res.OldsGE]
  | .sub rs hasErrs errs, r, t => by
    rw [specHandler]
    have h1 := specRoutes_olds rs r t
    cases hs : specRoutes rs r t with
    | cont r' t' => rw [hs] at h1; exact h1
    | stop o =>
      rw [hs] at h1
      cases o with
      | done t' s => trivial
      | reached r' t' => exact h1
      | err t' st r' =>
        cases hasErrs with
        | false => exact h1
        | true =>
          exact (specRoutes_olds errs (catchAt r st r') t').mono (Nat.le_trans h1 (catchAt_olds r st r'))
theorem specRoutes_olds : ∀ (rs : List Route) (r : Req) (t : Trace), (specRoutes rs r t).OldsGE r.olds.length
  | [], r, t => by simp [specRoutes, Res.OldsGE]
  | rt :: rs, r, t => by
    rw [specRoutes]
    have h1 := specRoute_olds rt r t
    cases hh : specRoute rt r t with
    | cont r' t' =>
      rw [hh] at h1
      exact (specRoutes_olds rs r' t').mono h1
    | stop o => rw [hh] at h1; exact h1
theorem specRoute_olds : ∀ (rt : Route) (r : Req) (t : Trace), (specRoute rt r t).OldsGE r.olds.length
  | .mk g sets hs term, r, t => by
    rw [specRoute]
    cases anyMatch sets r with
    | err st => simp [Res.OldsGE]
    | ok b =>
      cases b with
      | false => simp [Res.OldsGE]
      | true =>
        simp only
        split
        · simp [Res.OldsGE]
        · have h1 := specHandlers_olds hs (markGroup g r) t
          rw [markGroup_olds] at h1
          cases hh : specHandlers hs (markGroup g r) t with
          | cont r' t' =>
            rw [hh] at h1
            cases term with
            | true =>
              obtain ⟨s, hs⟩ := termK_done r r' t'
              simp [hs, Res.OldsGE]
            | false => simpa using h1
          | stop o => rw [hh] at h1; exact h1
end

/-! ### the `{http.error.status_code}` placeholder follows the error in the request context -/

/-- the placeholder agrees with the context error whenever that is a `HandlerError` -/
def Req.PlaceholderOk (r : Req) : Prop := ∀ st, r.ctxErr = some st → st ≠ 0 → r.replStatus = some st

def Ev.PlaceholderOk (e : Ev) : Prop := ∀ st, e.err = some st → st ≠ 0 → e.repl = some st

def Out.trace : Out → Trace
  | .done t _ => t
  | .err t _ _ => t
  | .reached _ t => t

/-- an outcome whose events all satisfy the invariant (and, for the subroute marker, whose request
    does) -/
def Out.POk (o : Out) : Prop :=
  (∀ e ∈ o.trace, e.PlaceholderOk) ∧ (∀ r' t', o = .reached r' t' → r'.PlaceholderOk)

/-- a rest-of-chain that keeps the invariant: from a good request and a good trace, a good outcome -/
def KPlaceholderOk (k : K) : Prop :=
  ∀ r t, r.PlaceholderOk → (∀ e ∈ t, e.PlaceholderOk) → (k r t).POk

theorem withError_ok (st : Nat) (r : Req) : (withError st r).PlaceholderOk := by
  intro st' h hne
  simp only [withError] at h ⊢
  cases h
  simp [hne]

theorem catchAt_ok (frame : Req) (st : Nat) (r : Req) : (catchAt frame st r).PlaceholderOk :=
  withError_ok st _
theorem serverCatch_ok (req : Req) (st : Nat) (r : Req) : (serverCatch req st r).PlaceholderOk :=
  withError_ok st _

theorem ev_ok (id : Nat) (r : Req) (h : r.PlaceholderOk) : (ev id r).PlaceholderOk := h

theorem markGroup_ok (g : Nat) (r : Req) (h : r.PlaceholderOk) : (markGroup g r).PlaceholderOk := by
  unfold markGroup; split <;> exact h

theorem snoc_ok {t : Trace} {e : Ev} (ht : ∀ e ∈ t, e.PlaceholderOk) (he : e.PlaceholderOk) :
    ∀ e' ∈ t ++ [e], e'.PlaceholderOk := by
  intro e' hm
  rcases List.mem_append.mp hm with h | h
  · exact ht e' h
  · simp at h; subst h; exact he

theorem pok_done {t : Trace} (s : Option Nat) (ht : ∀ e ∈ t, e.PlaceholderOk) : (Out.done t s).POk :=
  ⟨ht, fun _ _ h => by cases h⟩
theorem pok_err {t : Trace} (st : Nat) (r : Req) (ht : ∀ e ∈ t, e.PlaceholderOk) : (Out.err t st r).POk :=
  ⟨ht, fun _ _ h => by cases h⟩

theorem kOk_emptyK : KPlaceholderOk emptyK := fun _ _ _ ht => pok_done _ ht
theorem kOk_errorEmptyK : KPlaceholderOk errorEmptyK := fun _ _ _ ht => pok_done _ ht
theorem kOk_reachK : KPlaceholderOk reachK := fun r t hr ht =>
  ⟨ht, fun r' t' h => by simp only [reachK] at h; cases h; exact hr⟩
theorem kOk_termK (e : Req) : KPlaceholderOk (termK e) := by
  unfold termK; split
  · exact kOk_errorEmptyK
  · exact kOk_emptyK

mutual
theorem runHandlers_pok : ∀ (hs : List Handler) (k : K), KPlaceholderOk k → KPlaceholderOk (runHandlers hs k)
  | [], k, hk => by simpa [runHandlers] using hk
  | h :: hs, k, hk => by
    rw [runHandlers]; exact runHandler_pok h _ (runHandlers_pok hs k hk)
theorem runHandler_pok : ∀ (h : Handler) (k : K), KPlaceholderOk k → KPlaceholderOk (runHandler h k)
  | .pass id, k, hk => fun r t hr ht => by
    simp only [runHandler]; exact hk r _ hr (snoc_ok ht (ev_ok id r hr))
  | .respond id st, k, _ => fun r t hr ht => by
    simp only [runHandler]; exact pok_done _ (snoc_ok ht (ev_ok id r hr))
  | .strip, k, hk => fun r t hr ht => by
    simp only [runHandler]; exact hk _ _ hr ht
  | .rewrite id p, k, hk => fun r t hr ht => by
    simp only [runHandler]; exact hk _ _ hr (snoc_ok ht (ev_ok id r hr))
  | .fail id st, k, _ => fun r t hr ht => by
    simp only [runHandler]; exact pok_err _ _ (snoc_ok ht (ev_ok id r hr))
  | .raise src, k, _ => fun r t _ ht => by simp only [runHandler]; exact pok_err _ _ ht
  | .invoke n, k, _ => fun r t _ ht => by simp only [runHandler]; exact pok_err _ _ ht
  | .answer src, k, hk => fun r t hr ht => by
    simp only [runHandler]
    cases answerStep src r with
    | write n => exact pok_done _ ht
    | hint => exact hk r _ hr (snoc_ok ht (by intro st h; cases h))
    | fail => exact pok_err _ _ ht
  | .sub rs hasErrs errs, k, hk => fun r t hr ht => by
    simp only [runHandler]
    have h1 := runRoutes_pok rs reachK kOk_reachK r t hr ht
    cases hrr : runRoutes rs reachK r t with
    | reached r' t' =>
      rw [hrr] at h1
      exact hk r' t' (h1.2 r' t' rfl) h1.1
    | done t' s => rw [hrr] at h1; exact pok_done _ h1.1
    | err t' st r' =>
      rw [hrr] at h1
      cases hasErrs with
      | false => exact pok_err _ _ h1.1
      | true => exact runRoutes_pok errs k hk _ t' (catchAt_ok r st r') h1.1
theorem runRoutes_pok : ∀ (rs : List Route) (k : K), KPlaceholderOk k → KPlaceholderOk (runRoutes rs k)
  | [], k, hk => by simpa [runRoutes] using hk
  | rt :: rs, k, hk => by
    rw [runRoutes]; exact runRoute_pok rt _ (runRoutes_pok rs k hk)
theorem runRoute_pok : ∀ (rt : Route) (k : K), KPlaceholderOk k → KPlaceholderOk (runRoute rt k)
  | .mk g sets hs term, k, hk => fun r t hr ht => by
    simp only [runRoute]
    cases anyMatch sets r with
    | err st => exact pok_err _ _ ht
    | ok b =>
      cases b with
      | false => exact hk r t hr ht
      | true =>
        simp only
        split
        · exact hk r t hr ht
        · apply runHandlers_pok hs _ _ _ t (markGroup_ok g r hr) ht
          split
          · exact kOk_termK r
          · exact hk
end

/-! ### `inlineNamed` resolves every defined name when named routes only invoke later ones -/

mutual
/-- every `invoke` of a DEFINED name inside names a route > `b` -/
def hsResGt (env : List Route) (b : Nat) : List Handler → Bool
  | [] => true
  | h :: hs => hResGt env b h && hsResGt env b hs
def hResGt (env : List Route) (b : Nat) : Handler → Bool
  | .invoke n => (lookupNamed env n).isNone || decide (n > b)
  | .sub rs _ errs => rsResGt env b rs && rsResGt env b errs
  | _ => true
def rsResGt (env : List Route) (b : Nat) : List Route → Bool
  | [] => true
  | rt :: rs => rResGt env b rt && rsResGt env b rs
def rResGt (env : List Route) (b : Nat) : Route → Bool
  | .mk _ _ hs _ => hsResGt env b hs
end

theorem lookupNamed_le {env : List Route} {n : Nat} {rt : Route} (h : lookupNamed env n = some rt) :
    1 ≤ n ∧ n ≤ env.length := by
  unfold lookupNamed at h
  split at h
  · cases h
  · have := List.getElem?_eq_some_iff.mp h
    obtain ⟨hlt, _⟩ := this
    omega

theorem namedValid_get : ∀ (env : List Route) (j i : Nat) (rt : Route),
    namedValid j env = true → env[i]? = some rt → rInvGt (j + i + 1) rt = true
  | [], _, _, _, _, h => by simp at h
  | r :: rs, j, 0, rt, hv, h => by
    simp only [namedValid, Bool.and_eq_true] at hv
    simp at h; subst h; simpa using hv.1
  | r :: rs, j, i + 1, rt, hv, h => by
    simp only [namedValid, Bool.and_eq_true] at hv
    have := namedValid_get rs (j + 1) i rt hv.2 (by simpa using h)
    have e : j + 1 + i + 1 = j + (i + 1) + 1 := by omega
    rw [e] at this; exact this

theorem namedValid_lookup {env : List Route} {n : Nat} {rt : Route}
    (hv : namedValid 0 env = true) (h : lookupNamed env n = some rt) : rInvGt n rt = true := by
  have hle := lookupNamed_le h
  unfold lookupNamed at h
  split at h
  · cases h
  · have := namedValid_get env 0 (n - 1) rt hv h
    have e : 0 + (n - 1) + 1 = n := by omega
    rw [e] at this; exact this

mutual
theorem hsInvGt_resGt : ∀ (env : List Route) (m b : Nat) (hs : List Handler), b ≤ m →
    hsInvGt m hs = true → hsResGt env b hs = true
  | _, _, _, [], _, _ => by simp [hsResGt]
  | env, m, b, h :: hs, hb, hh => by
    simp only [hsInvGt, Bool.and_eq_true] at hh
    simp only [hsResGt, Bool.and_eq_true]
    exact ⟨hInvGt_resGt env m b h hb hh.1, hsInvGt_resGt env m b hs hb hh.2⟩
theorem hInvGt_resGt : ∀ (env : List Route) (m b : Nat) (h : Handler), b ≤ m →
    hInvGt m h = true → hResGt env b h = true
  | env, m, b, .invoke n, hb, hh => by
    simp only [hInvGt, decide_eq_true_eq] at hh
    simp only [hResGt, Bool.or_eq_true, decide_eq_true_eq]
    right; omega
  | env, m, b, .sub rs he es, hb, hh => by
    simp only [hInvGt, Bool.and_eq_true] at hh
    simp only [hResGt, Bool.and_eq_true]
    exact ⟨rsInvGt_resGt env m b rs hb hh.1, rsInvGt_resGt env m b es hb hh.2⟩
  | _, _, _, .pass _, _, _ => by simp [hResGt]
  | _, _, _, .respond _ _, _, _ => by simp [hResGt]
  | _, _, _, .rewrite _ _, _, _ => by simp [hResGt]
  | _, _, _, .strip, _, _ => by simp [hResGt]
  | _, _, _, .fail _ _, _, _ => by simp [hResGt]
  | _, _, _, .raise _, _, _ => by simp [hResGt]
  | _, _, _, .answer _, _, _ => by simp [hResGt]
theorem rsInvGt_resGt : ∀ (env : List Route) (m b : Nat) (rs : List Route), b ≤ m →
    rsInvGt m rs = true → rsResGt env b rs = true
  | _, _, _, [], _, _ => by simp [rsResGt]
  | env, m, b, rt :: rs, hb, hh => by
    simp only [rsInvGt, Bool.and_eq_true] at hh
    simp only [rsResGt, Bool.and_eq_true]
    exact ⟨rInvGt_resGt env m b rt hb hh.1, rsInvGt_resGt env m b rs hb hh.2⟩
theorem rInvGt_resGt : ∀ (env : List Route) (m b : Nat) (rt : Route), b ≤ m →
    rInvGt m rt = true → rResGt env b rt = true
  | env, m, b, .mk _ _ hs _, hb, hh => by
    simp only [rInvGt] at hh
    simp only [rResGt]
    exact hsInvGt_resGt env m b hs hb hh
end

mutual
theorem inlineHs_step : ∀ (env : List Route) (b : Nat) (hs : List Handler), namedValid 0 env = true →
    hsResGt env b hs = true → hsResGt env (b + 1) (inlineHs env hs) = true
  | _, _, [], _, _ => by simp [inlineHs, hsResGt]
  | env, b, h :: hs, hv, hh => by
    simp only [hsResGt, Bool.and_eq_true] at hh
    simp only [inlineHs, hsResGt, Bool.and_eq_true]
    exact ⟨inlineH_step env b h hv hh.1, inlineHs_step env b hs hv hh.2⟩
theorem inlineH_step : ∀ (env : List Route) (b : Nat) (h : Handler), namedValid 0 env = true →
    hResGt env b h = true → hResGt env (b + 1) (inlineH env h) = true
  | env, b, .invoke n, hv, hh => by
    simp only [inlineH]
    cases hl : lookupNamed env n with
    | none => simp [hResGt, hl]
    | some rt =>
      simp only [hResGt, hl, Option.isNone_some, Bool.false_or, decide_eq_true_eq] at hh
      simp only [hResGt, rsResGt, Bool.and_true]
      exact rInvGt_resGt env n (b + 1) rt (by omega) (namedValid_lookup hv hl)
  | env, b, .sub rs he es, hv, hh => by
    simp only [hResGt, Bool.and_eq_true] at hh
    simp only [inlineH, hResGt, Bool.and_eq_true]
    exact ⟨inlineRs_step env b rs hv hh.1, inlineRs_step env b es hv hh.2⟩
  | _, _, .pass _, _, _ => by simp [inlineH, hResGt]
  | _, _, .respond _ _, _, _ => by simp [inlineH, hResGt]
  | _, _, .rewrite _ _, _, _ => by simp [inlineH, hResGt]
  | _, _, .strip, _, _ => by simp [inlineH, hResGt]
  | _, _, .fail _ _, _, _ => by simp [inlineH, hResGt]
  | _, _, .raise _, _, _ => by simp [inlineH, hResGt]
  | _, _, .answer _, _, _ => by simp [inlineH, hResGt]
theorem inlineRs_step : ∀ (env : List Route) (b : Nat) (rs : List Route), namedValid 0 env = true →
    rsResGt env b rs = true → rsResGt env (b + 1) (inlineRs env rs) = true
  | _, _, [], _, _ => by simp [inlineRs, rsResGt]
  | env, b, rt :: rs, hv, hh => by
    simp only [rsResGt, Bool.and_eq_true] at hh
    simp only [inlineRs, rsResGt, Bool.and_eq_true]
    exact ⟨inlineR_step env b rt hv hh.1, inlineRs_step env b rs hv hh.2⟩
theorem inlineR_step : ∀ (env : List Route) (b : Nat) (rt : Route), namedValid 0 env = true →
    rResGt env b rt = true → rResGt env (b + 1) (inlineR env rt) = true
  | env, b, .mk _ _ hs _, hv, hh => by
    simp only [rResGt] at hh
    simp only [inlineR, rResGt]
    exact inlineHs_step env b hs hv hh
end

mutual
theorem hsResGt_zero : ∀ (env : List Route) (hs : List Handler), hsResGt env 0 hs = true
  | _, [] => by simp [hsResGt]
  | env, h :: hs => by simp [hsResGt, hResGt_zero env h, hsResGt_zero env hs]
theorem hResGt_zero : ∀ (env : List Route) (h : Handler), hResGt env 0 h = true
  | env, .invoke n => by
    simp only [hResGt, Bool.or_eq_true, decide_eq_true_eq]
    cases n with
    | zero => left; simp [lookupNamed]
    | succ m => right; omega
  | env, .sub rs he es => by simp [hResGt, rsResGt_zero env rs, rsResGt_zero env es]
  | _, .pass _ => by simp [hResGt]
  | _, .respond _ _ => by simp [hResGt]
  | _, .rewrite _ _ => by simp [hResGt]
  | _, .strip => by simp [hResGt]
  | _, .fail _ _ => by simp [hResGt]
  | _, .raise _ => by simp [hResGt]
  | _, .answer _ => by simp [hResGt]
theorem rsResGt_zero : ∀ (env : List Route) (rs : List Route), rsResGt env 0 rs = true
  | _, [] => by simp [rsResGt]
  | env, rt :: rs => by simp [rsResGt, rResGt_zero env rt, rsResGt_zero env rs]
theorem rResGt_zero : ∀ (env : List Route) (rt : Route), rResGt env 0 rt = true
  | env, .mk _ _ hs _ => by simp [rResGt, hsResGt_zero env hs]
end

mutual
theorem hsResolved : ∀ (env : List Route) (hs : List Handler), hsResGt env env.length hs = true →
    hsUnresolved env hs = false
  | _, [], _ => by simp [hsUnresolved]
  | env, h :: hs, hh => by
    simp only [hsResGt, Bool.and_eq_true] at hh
    simp [hsUnresolved, hResolved env h hh.1, hsResolved env hs hh.2]
theorem hResolved : ∀ (env : List Route) (h : Handler), hResGt env env.length h = true →
    hUnresolved env h = false
  | env, .invoke n, hh => by
    simp only [hResGt, Bool.or_eq_true, decide_eq_true_eq] at hh
    simp only [hUnresolved]
    cases hl : lookupNamed env n with
    | none => rfl
    | some rt =>
      have := lookupNamed_le hl
      rcases hh with h1 | h1
      · simp [hl] at h1
      · omega
  | env, .sub rs he es, hh => by
    simp only [hResGt, Bool.and_eq_true] at hh
    simp [hUnresolved, rsResolved env rs hh.1, rsResolved env es hh.2]
  | _, .pass _, _ => by simp [hUnresolved]
  | _, .respond _ _, _ => by simp [hUnresolved]
  | _, .rewrite _ _, _ => by simp [hUnresolved]
  | _, .strip, _ => by simp [hUnresolved]
  | _, .fail _ _, _ => by simp [hUnresolved]
  | _, .raise _, _ => by simp [hUnresolved]
  | _, .answer _, _ => by simp [hUnresolved]
theorem rsResolved : ∀ (env : List Route) (rs : List Route), rsResGt env env.length rs = true →
    rsUnresolved env rs = false
  | _, [], _ => by simp [rsUnresolved]
  | env, rt :: rs, hh => by
    simp only [rsResGt, Bool.and_eq_true] at hh
    simp [rsUnresolved, rResolved env rt hh.1, rsResolved env rs hh.2]
theorem rResolved : ∀ (env : List Route) (rt : Route), rResGt env env.length rt = true →
    rUnresolved env rt = false
  | env, .mk _ _ hs _, hh => by
    simp only [rResGt] at hh
    simp [rUnresolved, hsResolved env hs hh]
end

theorem inlineNamed_resGt (env : List Route) (hv : namedValid 0 env = true) :
    ∀ (n b : Nat) (rs : List Route), rsResGt env b rs = true → rsResGt env (b + n) (inlineNamed env n rs) = true
  | 0, b, rs, h => by simpa [inlineNamed] using h
  | n + 1, b, rs, h => by
    have := inlineNamed_resGt env hv n (b + 1) (inlineRs env rs) (inlineRs_step env b rs hv h)
    have e : b + 1 + n = b + (n + 1) := by omega
    rw [e] at this
    simpa [inlineNamed] using this

end CaddyModel.C05
