/-
C05 — provisioning of a route tree, as the code performs it
(modules/caddyhttp/routes.go: MatcherSets.FromInterface, Route.ProvisionMatchers,
Route.ProvisionHandlers, RouteList.Provision*; matchers.go: MatchNot.Provision;
subroute.go: Subroute.Provision).

What a config lists (`MatcherSetsRaw`, `HandlersRaw`: the trees the driver parses) is turned into
the values the evaluator ranges over (`MatcherSets`, `Handlers`) by loops that APPEND to the
provisioned field:

  * `FromInterface`: per loaded matcher set an inner loop appends every matcher to a fresh
    `matcherSet`, then `*ms = append(*ms, matcherSet)` — unconditionally, so an EMPTY set is kept
    (it matches every request: `MatcherSet.MatchWithError` of no matchers is true);
  * `MatchNot.Provision` does the same for the sets of a `not`;
  * `ProvisionHandlers`: `r.Handlers = append(r.Handlers, handler)` per loaded handler, then one
    `wrapMiddleware` per handler in the same order; `Subroute.Provision` provisions its routes and
    its error routes;
  * `RouteList.ProvisionMatchers/Handlers` go through the routes by index: group, terminal flag and
    position of a route are not touched.

The accumulators are explicit (`acc`): the code appends to whatever the field held before (a
freshly decoded route holds nothing: both fields are `json:"-"`).
-/
import CaddyModel.C05.Model

namespace CaddyModel.C05

mutual
/-- a loaded matcher module after its own `Provision` -/
def provMatcher : Matcher → Matcher
  | .atom f vals => .atom f vals
  | .err kind st => .err kind st
  | .legacy b => .legacy b
  | .errRange lo hi => .errRange lo hi
  | .errIn codes => .errIn codes
  | .errSel ranges codes => .errSel ranges codes
  | .not sets => .not (provSetsInto [] sets)      -- MatchNot.Provision
/-- the inner loop of `FromInterface`: `matcherSet = append(matcherSet, m)` -/
def provSetInto (acc : List Matcher) : List Matcher → List Matcher
  | [] => acc
  | m :: ms => provSetInto (acc ++ [provMatcher m]) ms
/-- `MatcherSets.FromInterface`: `*ms = append(*ms, matcherSet)` once per loaded set -/
def provSetsInto (acc : List (List Matcher)) : List (List Matcher) → List (List Matcher)
  | [] => acc
  | s :: ss => provSetsInto (acc ++ [provSetInto [] s]) ss
end

/-- `MatcherSets.FromInterface` on the field as it is (`ms`) -/
def fromInterface (ms loaded : List (List Matcher)) : List (List Matcher) := provSetsInto ms loaded

mutual
/-- the loop of `Route.ProvisionHandlers`: `r.Handlers = append(r.Handlers, handler)` -/
def provHandlersInto (acc : List Handler) : List Handler → List Handler
  | [] => acc
  | h :: hs => provHandlersInto (acc ++ [provHandler h]) hs
/-- a loaded handler module after its own `Provision` (`Subroute.Provision`) -/
def provHandler : Handler → Handler
  | .pass id => .pass id
  | .respond id st => .respond id st
  | .rewrite id p => .rewrite id p
  | .fail id st => .fail id st
  | .strip => .strip
  | .raise src => .raise src
  | .answer src => .answer src
  | .invoke n => .invoke n
  | .sub rs hasErrs errs => .sub (provRoutes rs) hasErrs (provRoutes errs)
/-- `RouteList.Provision`: every route in place -/
def provRoutes : List Route → List Route
  | [] => []
  | rt :: rs => provRoute rt :: provRoutes rs
/-- `Route.Provision` of a freshly decoded route: `ProvisionMatchers` then `ProvisionHandlers` -/
def provRoute : Route → Route
  | .mk g sets hs term => .mk g (fromInterface [] sets) (provHandlersInto [] hs) term
end

/-- what a route exposes to the evaluator -/
def Route.sets : Route → List (List Matcher)
  | .mk _ sets _ _ => sets
def Route.group : Route → Nat
  | .mk g _ _ _ => g
def Route.terminal : Route → Bool
  | .mk _ _ _ term => term
def Route.handlers : Route → List Handler
  | .mk _ _ hs _ => hs

/-- `App.Provision` + `Server.ServeHTTP`: the config is provisioned, then requests are served -/
def serveProvisioned (env routes : List Route) (hasErrs : Bool) (errs : List Route) (req : Req) : Result :=
  serveNamed (provRoutes env) (provRoutes routes) hasErrs (provRoutes errs) req

/-- a route list with the empty matcher sets dropped (what provisioning must NOT do) -/
def dropEmptySets : List (List Matcher) → List (List Matcher)
  | [] => []
  | s :: ss => if s.isEmpty then dropEmptySets ss else s :: dropEmptySets ss

end CaddyModel.C05
