/-
C05 line-protocol driver.   One case = one line of three or four fields:

    <routes> <errors> <request> [<named routes>]

  routes   comma-separated prefix notation:  N route^N
  route    G T S set^S H handler^H      G group number (0 = none), T terminal 0/1
  set      M matcher^M                  (at most one matcher of each kind, as in a JSON object)
  matcher  a F V val^V                  real method(0)/host(1)/path(2)/header(3) matcher, V ≥ 1 exact values
         | e K ST                       error matcher, kind K ∈ {0,1,2}, status ST (0 or 400..599)
         | l B                          legacy RequestMatcher answering B ∈ {0,1}
         | c LO HI                      real `expression` matcher: error status placeholder in LO..HI
         | k V val^V                    real `expression` matcher: error status placeholder in [vals]
         | n S set^S                    not
  handler  p ID | r ID ST | w ID PATH | f ID ST | s routes E [routes]     (E = 1: error routes follow)
         | x SRC                        the real `error` handler            SRC = 0 no status_code,
         | y SRC                        the real `static_response` handler        1 "{http.error.status_code}",
         | i NAME                       the real `invoke` handler (NAME ≥ 1)
         | z                            the real `rewrite` handler with strip_path_prefix "/a" (path 6 = the empty path)
                                                                                  2 not a number, else the number
  errors   `-` (Server.Errors == nil) or a route list
  request  method,host,path,header      indices into the alphabets (2, 3, 6, 3; header 0 = absent)
  named    a route list: the server's named routes "1", "2", …; the route named j may only invoke
           names > j (no cycles: a cycle is unbounded recursion in the Go code)

Answer:  `t=<id.path.err,…|-> s=<status|->`   (err = `n` or the status in the request context;
         `err/repl` when the `{http.error.status_code}` placeholder the handler saw differs from it;
         `path!uri` when the RequestURI the handler saw differs from its URL path; `H` = an interim
         `WriteHeader(103)` by static_response)
-/
import CaddyModel.Util.Hex
import CaddyModel.C05.Model
import CaddyModel.C05.WitnessData
import CaddyModel.C05.Adapt
import CaddyModel.C05.Provision

namespace CaddyModel.C05

/-- strict decimal: digits only, no sign, no leading zero, at most 9 digits -/
def natTok (s : String) : Option Nat :=
  let cs := s.toList
  if cs.isEmpty || cs.length > 9 then none
  else if cs.length > 1 && cs.head? == some '0' then none
  else if cs.all (fun c => '0' ≤ c && c ≤ '9') then
    some (cs.foldl (fun acc c => acc * 10 + (c.toNat - 48)) 0)
  else none

abbrev P (α : Type) := List String → Option (α × List String)

def pNat : P Nat
  | tok :: rest => (natTok tok).map (·, rest)
  | [] => none

def fieldOf : Nat → Option Field
  | 0 => some .method
  | 1 => some .host
  | 2 => some .path
  | 3 => some .header
  | _ => none

partial def pMany {α : Type} (p : P α) : Nat → P (List α)
  | 0, toks => some ([], toks)
  | n + 1, toks => do
    let (x, toks) ← p toks
    let (xs, toks) ← pMany p n toks
    pure (x :: xs, toks)

mutual
partial def pMatcher : P Matcher
  | "a" :: toks => do
    let (f, toks) ← pNat toks
    let fld ← fieldOf f
    let (v, toks) ← pNat toks
    let (vals, toks) ← pMany pNat v toks
    pure (.atom fld vals, toks)
  | "e" :: toks => do
    let (k, toks) ← pNat toks
    let (st, toks) ← pNat toks
    pure (.err k st, toks)
  | "c" :: toks => do
    let (lo, toks) ← pNat toks
    let (hi, toks) ← pNat toks
    pure (.errRange lo hi, toks)
  | "k" :: toks => do
    let (v, toks) ← pNat toks
    let (vals, toks) ← pMany pNat v toks
    pure (.errIn vals, toks)
  | "l" :: toks => do
    let (b, toks) ← pNat toks
    if b > 1 then none else pure (.legacy (b == 1), toks)
  | "n" :: toks => do
    let (s, toks) ← pNat toks
    let (sets, toks) ← pMany pSet s toks
    pure (.not sets, toks)
  | _ => none
partial def pSet : P (List Matcher) := fun toks => do
  let (m, toks) ← pNat toks
  pMany pMatcher m toks
end

def srcOf : Nat → Src
  | 0 => .empty
  | 1 => .errCode
  | 2 => .bad
  | n => .lit n

def srcNo : Src → Nat
  | .empty => 0
  | .errCode => 1
  | .bad => 2
  | .lit n => n

/-- literal statuses the harness configures: `lo..599` -/
def srcOk (lo : Nat) : Src → Bool
  | .lit n => (lo ≤ n && n ≤ 599) || (lo == 200 && n == 103)   -- static_response also: 103 Early Hints
  | _ => true

mutual
partial def pHandler : P Handler
  | "p" :: toks => do
    let (id, toks) ← pNat toks
    pure (.pass id, toks)
  | "r" :: toks => do
    let (id, toks) ← pNat toks
    let (st, toks) ← pNat toks
    pure (.respond id st, toks)
  | "w" :: toks => do
    let (id, toks) ← pNat toks
    let (p, toks) ← pNat toks
    pure (.rewrite id p, toks)
  | "f" :: toks => do
    let (id, toks) ← pNat toks
    let (st, toks) ← pNat toks
    pure (.fail id st, toks)
  | "x" :: toks => do
    let (s, toks) ← pNat toks
    pure (.raise (srcOf s), toks)
  | "y" :: toks => do
    let (s, toks) ← pNat toks
    pure (.answer (srcOf s), toks)
  | "z" :: toks => pure (.strip, toks)
  | "i" :: toks => do
    let (n, toks) ← pNat toks
    pure (.invoke n, toks)
  | "s" :: toks => do
    let (rs, toks) ← pRoutes toks
    let (e, toks) ← pNat toks
    match e with
    | 0 => pure (.sub rs false [], toks)
    | 1 => do
      let (es, toks) ← pRoutes toks
      pure (.sub rs true es, toks)
    | _ => none
  | _ => none
partial def pRoute : P Route := fun toks => do
  let (g, toks) ← pNat toks
  let (t, toks) ← pNat toks
  if t > 1 then none else
  let (s, toks) ← pNat toks
  let (sets, toks) ← pMany pSet s toks
  let (h, toks) ← pNat toks
  let (hs, toks) ← pMany pHandler h toks
  pure (.mk g sets hs (t == 1), toks)
partial def pRoutes : P (List Route) := fun toks => do
  let (n, toks) ← pNat toks
  pMany pRoute n toks
end

def parseRoutes (s : String) : Option (List Route) :=
  match pRoutes (s.splitOn ",") with
  | some (rs, []) => some rs
  | _ => none

/-! validation: what the harness can express as a caddy JSON config over its alphabets -/

def errStatusOk (st : Nat) : Bool := st == 0 || (400 ≤ st && st ≤ 599)

def fieldSize : Field → Nat
  | .method => 2
  | .host => 3
  | .path => 6
  | .header => 3

def atomOk (f : Field) (vals : List Nat) : Bool :=
  !vals.isEmpty && vals.all (fun v => v < fieldSize f && (f != .header || v ≥ 1))

/-- JSON-object key of a matcher (a set is a JSON object: keys are unique) -/
def kindKey : Matcher → Nat
  | .atom .method _ => 0
  | .atom .host _ => 1
  | .atom .path _ => 2
  | .atom .header _ => 3
  | .err k _ => 4 + k
  | .not _ => 7
  | .legacy false => 8
  | .legacy true => 9
  | .errRange _ _ => 10
  | .errIn _ => 10
  | .errSel _ _ => 10

def distinct : List Nat → Bool
  | [] => true
  | x :: xs => !xs.contains x && distinct xs

mutual
def mValid : Matcher → Bool
  | .atom f vals => atomOk f vals
  | .err k st => k < 3 && errStatusOk st
  | .legacy _ => true
  | .errRange lo hi => 100 ≤ lo && lo ≤ 599 && 100 ≤ hi && hi ≤ 599
  | .errIn codes => !codes.isEmpty && codes.all (fun c => 100 ≤ c && c ≤ 599)
  | .errSel _ _ => false      -- only produced by the adapter model (op `he`), never written in a tree
  | .not sets => setsValid sets
def setsValid : List (List Matcher) → Bool
  | [] => true
  | s :: ss => setValid s && distinct (s.map kindKey) && setsValid ss
def setValid : List Matcher → Bool
  | [] => true
  | m :: ms => mValid m && setValid ms
end

mutual
def hsValid : List Handler → Bool
  | [] => true
  | h :: hs => hValid h && hsValid hs
def hValid : Handler → Bool
  | .pass _ => true
  | .respond _ st => 200 ≤ st && st ≤ 599
  | .rewrite _ p => p < 6
  | .strip => true
  | .fail _ st => errStatusOk st
  | .raise src => srcOk 400 src
  | .answer src => srcOk 200 src
  | .invoke n => n ≥ 1
  | .sub rs _ errs => rsValid rs && rsValid errs
def rsValid : List Route → Bool
  | [] => true
  | rt :: rs => rValid rt && rsValid rs
def rValid : Route → Bool
  | .mk _ sets hs _ => setsValid sets && hsValid hs
end

def parseReq (s : String) : Option Req :=
  match (s.splitOn ",").mapM natTok with
  | some [m, h, p, x] => if m < 2 && h < 3 && p < 6 && x < 3 then some ⟨m, h, p, x, [], none, none, p, []⟩ else none
  | _ => none

def showErr : Option Nat → String
  | none => "n"
  | some st => toString st

def showTrace (t : Trace) : String :=
  if t.isEmpty then "-" else
  ",".intercalate (t.map fun e =>
    if e == hintEv then "H" else
    let p := if e.uri == requestLineOf e.path then toString e.path else s!"{e.path}!{e.uri}"
    if e.repl == e.err then s!"{e.id}.{p}.{showErr e.err}"
    else s!"{e.id}.{p}.{showErr e.err}/{showErr e.repl}")

def showResult (x : Result) : String :=
  "t=" ++ showTrace x.trace ++ " s=" ++ (match x.status with | none => "-" | some s => toString s)

def handleCase (routes errs req named : String) : String :=
  match parseRoutes routes, parseReq req, parseRoutes named with
  | some rs, some r, some env =>
    if !rsValid rs || !rsValid env || !namedValid 0 env then "bad-op" else
    if errs == "-" then showResult (serveProvisioned env rs false [] r)
    else match parseRoutes errs with
      | some es => if rsValid es then showResult (serveProvisioned env rs true es r) else "bad-op"
      | none => "bad-op"
  | _, _, _ => "bad-op"

/-! op `he`: a Caddyfile site `error <S>` + `handle_errors` blocks, adapted and asked for path P

    he <S> <P> <blocks>      blocks = B (A hexarg^A D (PATH ST)^D)^B     PATH 0 = no matcher, k = path k-1
  answer  `he err` (adapter refuses) | `he s=<status> r=<route;…>` with route =
          `E<hex of the expression>` | `P<path>` | `-` (no matcher)                                -/

def pathLen : Nat → Nat
  | 0 => 1 | 1 => 2 | 2 => 4 | 3 => 2 | 4 => 2 | 5 => 4 | 100 => 4 | _ => 0

partial def pDir : P Dir := fun toks => do
  let (p, toks) ← pNat toks
  let (st, toks) ← pNat toks
  if p > 6 then none else pure (⟨if p == 0 then none else some (p - 1), st⟩, toks)

partial def pBlock : P Block := fun toks => do
  let (a, toks) ← pNat toks
  let (args, toks) ← pMany (fun ts => match ts with
      | t :: rest => (Hex.decode t).map (·, rest)
      | [] => none) a toks
  let (d, toks) ← pNat toks
  let (dirs, toks) ← pMany pDir d toks
  pure (⟨args, dirs⟩, toks)

def parseBlocksField (s : String) : Option (List Block) :=
  match (do let (b, toks) ← pNat (s.splitOn ","); pMany pBlock b toks) with
  | some (bs, []) => some bs
  | _ => none

/-- the body order `buildSubroute` leaves: longer paths first, matcher-less directives last -/
def dirsSorted : List Dir → Bool
  | [] => true
  | [_] => true
  | a :: b :: rest =>
    (match a.path, b.path with
      | some p, some q => pathLen p ≥ pathLen q
      | some _, none => true
      | none, some _ => false
      | none, none => true) && dirsSorted (b :: rest)

def blocksValid (bs : List Block) : Bool :=
  bs.length ≤ 4 && bs.all fun b =>
    b.args.length ≤ 4 && b.dirs.length ≤ 3 && dirsSorted b.dirs &&
      b.dirs.all (fun d => 200 ≤ d.status && d.status ≤ 599)

def dirDesc (a : StatusArgs) (d : Dir) : String :=
  if a.classes.isEmpty && a.codes.isEmpty then
    match d.path with
    | some p => s!"P{p}"
    | none => "-"
  else "E" ++ Hex.encode (renderExpr a)

def handleHE (sF pF blocksF : String) : String :=
  match natTok sF, natTok pF, parseBlocksField blocksF with
  | some s, some p, some bs =>
    if !(400 ≤ s && s ≤ 599) || p ≥ 6 || !blocksValid bs then "bad-op" else
    match adapt bs, parseBlocks bs with
    | .err, _ => "he err"
    | .routes errs, some ps =>
      let sorted := C16.insertionSort (fun x y => blockLess x.1 y.1)
        (ps.map fun q => (blockRoutes q.1 q.2, q.2.map (dirDesc q.1)))
      let descs := (sorted.map (·.2)).flatten
      let res := serve [.mk 0 [] [.raise (.lit s)] false] true errs ⟨0, 0, p, 0, [], none, none, p, []⟩
      "he s=" ++ (match res.status with | none => "-" | some c => toString c) ++
        " r=" ++ (if descs.isEmpty then "-" else ";".intercalate descs)
    | .routes _, none => "bad-op"
  | _, _, _ => "bad-op"

/-! op `hd`: a Caddyfile site made of nested `handle [<path>] { … }` blocks and `respond <status>`

    hd <P> <nodes>       nodes = N node^N,  node = h PATH nodes | r ST      (PATH 0 = no matcher, k = path k-1,
                                                                             7 = `handle_path /a/*`)
  answer  `hd s=<status|-> g=<group of every route, pre-order: number | ->`                       -/

mutual
partial def pNode : P Node
  | "r" :: toks => do
    let (st, toks) ← pNat toks
    if st ≥ 1000 then none else pure (.respond st, toks)
  | "f" :: toks => do       -- the `error <st>` directive
    let (st, toks) ← pNat toks
    if st ≥ 1000 then none else pure (.respond (1000 + st), toks)
  | "h" :: toks => do
    let (p, toks) ← pNat toks
    if p > 7 then none else
    let (body, toks) ← pNodes toks
    pure (.handle (if p == 0 then none else if p == 7 then some 100 else some (p - 1)) body, toks)
  | _ => none
partial def pNodes : P (List Node) := fun toks => do
  let (n, toks) ← pNat toks
  pMany pNode n toks
end

def handlePathOk : Option Nat → Option Nat → Bool
  | some p, some q => pathLen p ≥ pathLen q && p != q
  | some _, none => true
  | none, _ => false

/-- the body order `sortRoutes` leaves, no two handles with the same matcher, one `respond` at most, last -/
def bodySorted : List Node → Bool
  | [] => true
  | [_] => true
  | .handle p _ :: .handle q b :: rest => handlePathOk p q && bodySorted (.handle q b :: rest)
  | .handle _ _ :: .respond st :: rest => rest.isEmpty && bodySorted (.respond st :: rest)
  | .respond _ :: _ :: _ => false

/-- no two handles with the same matcher; `handle_path /a/*` (100) not next to `/a/b` or `/a/c` (their
    relative order is the adapter sort's business) -/
def distinctPaths (ns : List Node) : Bool :=
  let ps := ns.filterMap fun n => match n with | .handle (some p) _ => some p | _ => none
  distinct ps && (!ps.contains 100 || (!ps.contains 2 && !ps.contains 5))

mutual
def nodesValid : Nat → List Node → Bool
  | _, [] => true
  | d, n :: ns => nodeValid d n && nodesValid d ns
def nodeValid : Nat → Node → Bool
  | _, .respond st => (200 ≤ st && st ≤ 599) || (1400 ≤ st && st ≤ 1599)
  | 0, .handle _ _ => false
  | d + 1, .handle _ body => body.length ≤ 4 && bodySorted body && distinctPaths body && nodesValid d body
end

mutual
def groupsOfRoutes : List Route → List String
  | [] => []
  | rt :: rs => groupsOfRoute rt ++ groupsOfRoutes rs
def groupsOfRoute : Route → List String
  | .mk g _ hs _ => (if g == 0 then "-" else toString (g - 1)) :: groupsOfHandlers hs
def groupsOfHandlers : List Handler → List String
  | [] => []
  | .sub rs _ _ :: hs => groupsOfRoutes rs ++ groupsOfHandlers hs
  | _ :: hs => groupsOfHandlers hs
end

mutual
def nodesNoErr : List Node → Bool
  | [] => true
  | n :: ns => nodeNoErr n && nodesNoErr ns
def nodeNoErr : Node → Bool
  | .respond st => st < 1000
  | .handle _ body => nodesNoErr body
end

def handleHD (pF nodesF : String) : String :=
  match natTok pF, (match pNodes (nodesF.splitOn ",") with | some (ns, []) => some ns | _ => none) with
  | some p, some ns =>
    if p ≥ 6 || ns.length > 4 || !bodySorted ns || !distinctPaths ns || !nodesValid 3 ns || !nodesNoErr ns then "bad-op" else
    let rs := adaptSite ns
    let res := serve rs false [] ⟨0, 0, p, 0, [], none, none, p, []⟩
    "hd s=" ++ (match res.status with | none => "-" | some c => toString c) ++
      " g=" ++ (if rs.isEmpty then "-" else ",".intercalate (groupsOfRoutes rs))
  | _, _ => "bad-op"

/-! op `cf`: a whole site — nested `handle` blocks with `respond` / `error` leaves (leaf `f ST`),
    followed by `handle_errors [<args>] { <nodes> }` blocks

    cf <P> <nodes> <eblocks>      eblocks = B (A hexarg^A nodes)^B
  answer  `cf err` | `cf s=<status|-> g=<groups of the primary routes>|<groups of the error routes>`   -/

partial def pEBlock : P EBlock := fun toks => do
  let (a, toks) ← pNat toks
  let (args, toks) ← pMany (fun ts => match ts with
      | t :: rest => (Hex.decode t).map (·, rest)
      | [] => none) a toks
  let (body, toks) ← pNodes toks
  pure (⟨args, body⟩, toks)

def noErrorLeaves : List Node → Bool
  | [] => true
  | .respond st :: rest => st < 1000 && noErrorLeaves rest
  | _ :: rest => noErrorLeaves rest

def siteBodyOk (ns : List Node) : Bool :=
  ns.length ≤ 4 && bodySorted ns && distinctPaths ns && nodesValid 3 ns

def groupsField (rs : List Route) : String :=
  if rs.isEmpty then "-" else ",".intercalate (groupsOfRoutes rs)

def handleCF (pF nodesF ebF : String) : String :=
  match natTok pF, (match pNodes (nodesF.splitOn ",") with | some (ns, []) => some ns | _ => none),
      (match (do let (b, toks) ← pNat (ebF.splitOn ","); pMany pEBlock b toks) with
        | some (bs, []) => some bs | _ => none) with
  | some p, some ns, some ebs =>
    if p ≥ 6 || !siteBodyOk ns || ebs.length > 3 ||
        !ebs.all (fun b => b.args.length ≤ 3 && siteBodyOk b.body) then "bad-op" else
    match adaptFull ns ebs with
    | none => "cf err"
    | some (rs, errs) =>
      let res := serve rs true errs ⟨0, 0, p, 0, [], none, none, p, []⟩
      "cf s=" ++ (match res.status with | none => "-" | some c => toString c) ++
        " g=" ++ groupsField rs ++ "|" ++ groupsField errs
  | _, _, _ => "bad-op"

/-! op `ms`: several sites on one server

    ms <H> <P> <sites>       sites = S (HOST nodes eblocks)^S    HOST 0 = no host (last, once), k = host k-1
  answer  `ms err` | `ms s=<status|-> g=<groups of the primary routes>|<groups of the error routes>`   -/

partial def pSite : P Site := fun toks => do
  let (h, toks) ← pNat toks
  if h > 3 then none else
  let (nodes, toks) ← pNodes toks
  let (b, toks) ← pNat toks
  let (ebs, toks) ← pMany pEBlock b toks
  pure (⟨if h == 0 then none else some (h - 1), nodes, ebs⟩, toks)

/-- hosted sites first (distinct hosts), the site without a host last and at most once -/
def sitesOrdered : List Site → Bool
  | [] => true
  | s :: rest => (s.host.isSome || rest.isEmpty) && sitesOrdered rest

def handleMS (hF pF sitesF : String) : String :=
  match natTok hF, natTok pF,
      (match (do let (n, toks) ← pNat (sitesF.splitOn ","); pMany pSite n toks) with
        | some (ss, []) => some ss | _ => none) with
  | some h, some p, some sites =>
    if h ≥ 3 || p ≥ 6 || sites.isEmpty || sites.length > 3 || !sitesOrdered sites ||
        !distinct (sites.filterMap (·.host)) ||
        !sites.all (fun s => siteBodyOk s.nodes && s.ebs.length ≤ 2 &&
          s.ebs.all (fun b => b.args.length ≤ 3 && siteBodyOk b.body)) then "bad-op" else
    match adaptSites sites with
    | none => "ms err"
    | some (rs, hasErrs, errs) =>
      let res := serve rs hasErrs errs ⟨0, h, p, 0, [], none, none, p, []⟩
      "ms s=" ++ (match res.status with | none => "-" | some c => toString c) ++
        " g=" ++ groupsField rs ++ "|" ++ groupsField errs
  | _, _, _ => "bad-op"

/-! op `ic`: the real `intercept` handler in front of `static_response <ST>`

    ic <ST> <request> <handlers>     handlers = H (C code^C K (SC | routes))^H    K 0 = replace the status by SC, 1 = routes
  answer as for a tree case: `t=… s=…`                                                            -/

partial def pRespHandler : P RespHandler := fun toks => do
  let (c, toks) ← pNat toks
  let (codes, toks) ← pMany pNat c toks
  let (k, toks) ← pNat toks
  match k with
  | 0 => do
    let (sc, toks) ← pNat toks
    pure (⟨codes, some sc, []⟩, toks)
  | 1 => do
    let (rs, toks) ← pRoutes toks
    pure (⟨codes, none, rs⟩, toks)
  | _ => none

def handleIC (stF reqF hsF : String) : String :=
  match natTok stF, parseReq reqF,
      (match (do let (n, toks) ← pNat (hsF.splitOn ","); pMany pRespHandler n toks) with
        | some (hs, []) => some hs | _ => none) with
  | some st, some r, some hs =>
    if !(200 ≤ st && st ≤ 599) || hs.length > 3 ||
        !hs.all (fun h => h.codes.length ≤ 3 && h.codes.all (fun c => (1 ≤ c && c ≤ 5) || (200 ≤ c && c ≤ 599)) &&
          (match h.replace with | some sc => 200 ≤ sc && sc ≤ 599 | none => true) && rsValid h.routes) then "bad-op"
    else showResult (serveIntercepted hs st r)
  | _, _, _ => "bad-op"

def handle : List String → String
  | ["he", s, p, blocks] => handleHE s p blocks
  | ["ic", st, req, hs] => handleIC st req hs
  | ["ms", h, p, sites] => handleMS h p sites
  | ["cf", p, nodes, ebs] => handleCF p nodes ebs
  | ["hd", p, nodes] => handleHD p nodes
  | [routes, errs, req] => handleCase routes errs req "0"
  | [routes, errs, req, named] => if named == "0" then "bad-op" else handleCase routes errs req named
  | _ => "bad-op"

/-! encoder (used to export proved counter-examples as protocol lines) -/

def fieldNo : Field → Nat
  | .method => 0
  | .host => 1
  | .path => 2
  | .header => 3

mutual
def encMatcher : Matcher → List String
  | .atom f vals => ["a", toString (fieldNo f), toString vals.length] ++ vals.map toString
  | .err k st => ["e", toString k, toString st]
  | .legacy b => ["l", if b then "1" else "0"]
  | .errRange lo hi => ["c", toString lo, toString hi]
  | .errIn codes => ["k", toString codes.length] ++ codes.map toString
  | .errSel _ _ => ["?"]
  | .not sets => ["n", toString sets.length] ++ encSets sets
def encSets : List (List Matcher) → List String
  | [] => []
  | s :: ss => (toString s.length :: encSet s) ++ encSets ss
def encSet : List Matcher → List String
  | [] => []
  | m :: ms => encMatcher m ++ encSet ms
end

mutual
def encHandlers : List Handler → List String
  | [] => []
  | h :: hs => encHandler h ++ encHandlers hs
def encHandler : Handler → List String
  | .pass id => ["p", toString id]
  | .respond id st => ["r", toString id, toString st]
  | .rewrite id p => ["w", toString id, toString p]
  | .strip => ["z"]
  | .fail id st => ["f", toString id, toString st]
  | .raise src => ["x", toString (srcNo src)]
  | .answer src => ["y", toString (srcNo src)]
  | .invoke n => ["i", toString n]
  | .sub rs hasErrs errs =>
    ["s", toString rs.length] ++ encRoutes rs ++
      (if hasErrs then ["1", toString errs.length] ++ encRoutes errs else ["0"])
def encRoutes : List Route → List String
  | [] => []
  | rt :: rs => encRoute rt ++ encRoutes rs
def encRoute : Route → List String
  | .mk g sets hs term =>
    [toString g, if term then "1" else "0", toString sets.length] ++ encSets sets ++
      [toString hs.length] ++ encHandlers hs
end

def encList (rs : List Route) : String := ",".intercalate (toString rs.length :: encRoutes rs)

def encCase (routes : List Route) (hasErrs : Bool) (errs : List Route) (r : Req) : String :=
  encList routes ++ " " ++ (if hasErrs then encList errs else "-") ++ " " ++
    s!"{r.method},{r.host},{r.path},{r.hdr}"

/-- counter-example lines replayed on the implementation on every run (see Witness.lean) -/
def witnessLines : List String :=
  [ encCase wRewriteRoutes true wRewriteErrs wReq,
    encCase wStaleRoutes true wStaleErrs wReq,
    encCase wStaleUriRoutes false [] wReq,
    encCase (wOrderRoutes wSetA) false [] wReq,
    encCase (wOrderRoutes wSetB) false [] wReq ]

end CaddyModel.C05
