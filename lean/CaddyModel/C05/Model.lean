/-
C05 — model of HTTP route evaluation as the code performs it
(modules/caddyhttp/routes.go, subroute.go, server.go, matchers.go:MatchNot).

The Go code compiles a route list into a chain of closures (`RouteList.Compile`,
`wrapRoute`, `wrapMiddleware`): every route and every handler receives "the rest of the
chain" as a `next` handler.  The model keeps exactly that shape: continuation-passing
functions `runRoutes / runRoute / runHandlers / runHandler`, one per Go function.

What travels with a request (`Req`):
  * `method host path hdr` – the fields the real `method`/`host`/`path`/`header` matchers read
    (indices into the harness alphabets); only `path` is ever rewritten;
  * `groups` – the `routeGroupCtxKey` map: ONE map per request, created in `PrepareRequest`,
    shared by the primary chain, every subroute and the error chain;
  * `replStatus` – the `http.error.status_code` placeholder in the request's replacer (ONE
    replacer per request, shared by every copy of the request): `WithError` sets it for a
    `HandlerError` and leaves it alone for any other error;
  * `uri`, `olds` – `RequestURI` is a string field of the request STRUCT, the URL sits behind a
    pointer: `WithError` (`r.WithContext`) copies the struct, so every catch creates a new request
    object that shares `path` but has its own `RequestURI`.  Running code always holds the newest
    object (`uri`); a `Subroute.ServeHTTP` frame that catches an error resumes with ITS object —
    the one that was newest when the frame was entered (`olds` keeps those) — and copies that;
  * `ctxErr` – the `ErrorCtxKey` context value put there by `HTTPErrorConfig.WithError`
    (`some st`, `st = 0` meaning "an error that is not a `HandlerError`").

Go `error` return values are the `Out.err` outcome; it carries the request state at the moment
of failure because URL and group map are shared by pointer and stay mutated.
-/
namespace CaddyModel.C05

inductive Field where
  | method | host | path | header
deriving DecidableEq, Repr

structure Req where
  method : Nat
  host : Nat
  path : Nat
  hdr : Nat
  groups : List Nat := []
  ctxErr : Option Nat := none
  replStatus : Option Nat := none
  uri : Nat                     -- `RequestURI` of the CURRENT request object
  olds : List Nat := []         -- `RequestURI` of every older request object, in creation order
deriving DecidableEq, Repr

def Req.get (r : Req) : Field → Nat
  | .method => r.method
  | .host => r.host
  | .path => r.path
  | .header => r.hdr

/-- one probe-handler invocation: which handler, the URL path it saw, the context error it saw,
    the `{http.error.status_code}` placeholder it saw, the `RequestURI` it saw -/
structure Ev where
  id : Nat
  path : Nat
  err : Option Nat
  repl : Option Nat
  uri : Nat
deriving DecidableEq, Repr

abbrev Trace := List Ev

def ev (id : Nat) (r : Req) : Ev := ⟨id, r.path, r.ctxErr, r.replStatus, r.uri⟩

/-- `HTTPErrorConfig.WithError(r, err)`: the error goes into the context of a shallow copy of the
    request; `http.error.status_code` is set in the shared replacer only `if handlerErr, ok :=
    err.(HandlerError)` (status 0 = not a `HandlerError`). -/
def withError (st : Nat) (r : Req) : Req :=
  { r with ctxErr := some st, replStatus := if st = 0 then r.replStatus else some st }

/-- `RequestURI` of request object number `i` (objects are numbered in creation order; the
    current one is number `olds.length`) -/
def objUri (r : Req) (i : Nat) : Option Nat := (r.olds ++ [r.uri])[i]?

/-- a shallow copy of a request object whose `RequestURI` is `u` becomes the current object -/
def newObject (u : Nat) (r : Req) : Req := { r with olds := r.olds ++ [r.uri], uri := u }

/-- the `RequestURI` a `Subroute.ServeHTTP` frame finds in ITS request when it catches an error:
    `frame` is the state in which the frame was entered, `r'` the state at the failure.  The
    fallback is never used (`Props.frame_object_always_exists`). -/
def frameUri (frame r' : Req) : Nat := (objUri r' frame.olds.length).getD frame.uri

/-- Subroute.ServeHTTP on an error of its own routes: `r = sr.Errors.WithError(r, err)` with the
    frame's `r` — shared URL and group map as mutated, the frame's own `RequestURI` -/
def catchAt (frame : Req) (st : Nat) (r' : Req) : Req := withError st (newObject (frameUri frame r') r')

/-- Server.ServeHTTP on an error: `r.RequestURI = origReq.RequestURI; cloneURL(origReq.URL, r.URL)`
    on the server's request object, then `s.Errors.WithError(r, err)` -/
def serverCatch (req : Req) (st : Nat) (r' : Req) : Req :=
  withError st (newObject req.uri { r' with path := req.path })

/-- `strip_path_prefix "/a"` on the path alphabet `/ /a /a/b /b /c /a/c` (0…5): `/a/b ↦ /b`,
    `/a/c ↦ /c`, `/a ↦ ""` (index 6: the empty path, which no request has and no matcher lists),
    everything else unchanged — except that the handler first CLEANS the path and `path.Clean("")`
    is `.` (index 7): stripping an already empty path yields `.` -/
def stripPath : Nat → Nat
  | 1 => 6
  | 2 => 3
  | 5 => 4
  | 6 => 7
  | p => p

/-- `r.URL.RequestURI()`: the empty path is written `/` in the request line -/
def requestLineOf (p : Nat) : Nat := if p = 6 then 0 else p

/-- where a real `error` / `static_response` handler takes its status from (`status_code`, a
    `WeakString` expanded by the replacer and parsed with `strconv.Atoi`) -/
inductive Src where
  | empty            -- not configured
  | lit (n : Nat)    -- a number
  | errCode          -- "{http.error.status_code}"
  | bad              -- text that is not a number
deriving DecidableEq, Repr

/-- `strconv.Atoi(repl.ReplaceAll(codeStr, ""))`; `none` = Atoi failed (an unset placeholder
    expands to the empty string) -/
def Src.resolve : Src → Req → Option Nat
  | .empty, _ => none
  | .lit n, _ => some n
  | .errCode, r => r.replStatus
  | .bad, _ => none

/-- StaticError.ServeHTTP: default 500; a status that does not parse is a 500 as well -/
def raiseStatus (src : Src) (r : Req) : Nat :=
  match src with
  | .empty => 500
  | _ => (src.resolve r).getD 500

/-- StaticResponse.ServeHTTP without `status_code`: 200, or "the recommended status code" of the
    `HandlerError` in the request context -/
def answerDefault (r : Req) : Nat :=
  match r.ctxErr with
  | some st => if st = 0 then 200 else st
  | none => 200

/-- what StaticResponse.ServeHTTP does once it has its status: answer; or, for 103 Early Hints,
    write the interim header and `return next.ServeHTTP(w, r)`; or fail (`Atoi` error → 500) -/
inductive AnswerStep where
  | write (n : Nat)
  | hint
  | fail
deriving DecidableEq, Repr

def answerStep (src : Src) (r : Req) : AnswerStep :=
  match src with
  | .empty => .write (answerDefault r)
  | _ =>
    match src.resolve r with
    | some n => if n = 103 then .hint else .write n
    | none => .fail

/-- the trace entry of an interim `WriteHeader(103)` (no probe, no request data) -/
def hintEv : Ev := ⟨0, 999, none, none, 999⟩   -- no probe event has this path

/-- request matchers. `atom f vals` is a real `host`/`path`/`method`/`header` matcher configured
    with exact values; `err kind st` is a matcher that reports an error (kind 0: `(false, err)`,
    kind 1: `(true, err)`, kind 2: legacy `Match` + `MatcherErrorVarKey`); `legacy b` implements
    only the deprecated `RequestMatcher` interface and answers `b`; `not` is `MatchNot`. -/
inductive Matcher where
  | atom (f : Field) (vals : List Nat)
  | err (kind st : Nat)
  | legacy (b : Bool)
  | errRange (lo hi : Nat)       -- real `expression` matcher, what `handle_errors 4xx` adapts to:
                                 -- "{http.error.status_code} >= lo && {http.error.status_code} <= hi"
  | errIn (codes : List Nat)     -- "{http.error.status_code} in [c, …]"  (`handle_errors 404 500`)
  | errSel (ranges : List (Nat × Nat)) (codes : List Int)
                                 -- the general form `parseHandleErrors` builds: the range tests joined
                                 -- by `||`, then `|| … in [codes]` (see Adapt.lean)
  | not (sets : List (List Matcher))

/-- `(bool, error)` of the `MatchWithError` family -/
inductive MRes where
  | ok (b : Bool)
  | err (st : Nat)
deriving DecidableEq, Repr

mutual
/-- `m.MatchWithError(r)` -/
def evalMatcher : Matcher → Req → MRes
  | .atom f vals, r => .ok (vals.contains (r.get f))
  | .err _ st, _ => .err st
  | .legacy b, _ => .ok b
  | .errRange lo hi, r =>
    match r.replStatus with
    | some c => .ok (decide (lo ≤ c) && decide (c ≤ hi))
    | none => .err 0               -- CEL: "no such overload: _>=_" on the unset placeholder
  | .errIn codes, r =>
    match r.replStatus with
    | some c => .ok (codes.contains c)
    | none => .ok false
  | .errSel ranges codes, r =>
    match r.replStatus with
    | some c => .ok (ranges.any (fun p => decide (p.1 ≤ c) && decide (c ≤ p.2)) || codes.contains (c : Int))
    | none => if ranges.isEmpty then .ok false else .err 0   -- CEL: `error || false` is the error
  | .not sets, r => evalNot sets r
/-- `MatchNot.MatchWithError`: an error aborts, a matching set makes the result false -/
def evalNot : List (List Matcher) → Req → MRes
  | [], _ => .ok true
  | s :: ss, r =>
    match evalSet s r with
    | .err st => .err st
    | .ok true => .ok false
    | .ok false => evalNot ss r
/-- `MatcherSet.MatchWithError`: AND, left to right, first error or non-match returns -/
def evalSet : List Matcher → Req → MRes
  | [], _ => .ok true
  | m :: ms, r =>
    match evalMatcher m r with
    | .err st => .err st
    | .ok false => .ok false
    | .ok true => evalSet ms r
end

/-- loop of `MatcherSets.AnyMatchWithError`: OR, left to right, first error or match returns -/
def evalAny : List (List Matcher) → Req → MRes
  | [], _ => .ok false
  | s :: ss, r =>
    match evalSet s r with
    | .err st => .err st
    | .ok true => .ok true
    | .ok false => evalAny ss r

/-- `MatcherSets.AnyMatchWithError` (`return len(ms) == 0, nil` after the loop) -/
def anyMatch (sets : List (List Matcher)) (r : Req) : MRes :=
  if sets.isEmpty then .ok true else evalAny sets r

mutual
/-- `pass/respond/rewrite/fail` are the harness probe handlers; `sub` is `caddyhttp.Subroute`
    (`hasErrs = false` ⇔ `Errors == nil`; then `errs` is ignored). Status 0 in `fail` = an
    `error` that is not a `HandlerError`. -/
inductive Handler where
  | pass (id : Nat)
  | respond (id st : Nat)
  | rewrite (id p : Nat)
  | fail (id st : Nat)
  | strip                 -- the real `rewrite` handler with `strip_path_prefix: "/a"` (no probe);
                          -- this is what the Caddyfile's `handle_path /a/*` puts in front of its body
  | raise (src : Src)     -- the real `error` handler (no probe: leaves no trace event)
  | answer (src : Src)    -- the real `static_response` handler (no probe)
  | invoke (name : Nat)   -- the real `invoke` handler; in a tree handed to `run*` it stands for a
                          -- name that is NOT among the server's named routes (see `inlineNamed`)
  | sub (rs : List Route) (hasErrs : Bool) (errs : List Route)
/-- `group = 0` is the empty group name -/
inductive Route where
  | mk (group : Nat) (sets : List (List Matcher)) (hs : List Handler) (terminal : Bool)
end

/-- what `Server.ServeHTTP` / a handler chain ends with: `done` = returned nil, `status` is the
    `WriteHeader` call that happened (`none`: nothing was written — the empty default response);
    `err` = returned a Go error with HTTP status `st` (0: not a `HandlerError`). -/
inductive Out where
  | done (t : Trace) (status : Option Nat)
  | err (t : Trace) (st : Nat) (r : Req)
  | reached (r : Req) (t : Trace)   -- only inside `Subroute.ServeHTTP`: "the handler behind the
                                    -- subroute was reached with this request" (see `reachK`)
deriving DecidableEq, Repr

abbrev K := Req → Trace → Out

/-- status written for a context error (`errorEmptyHandler`, `errLogValues`, server.go:429) -/
def writeStatus : Option Nat → Nat
  | some 0 => 500
  | some st => st
  | none => 500

/-- the marker `Subroute.ServeHTTP` compiles its routes with: the code wraps `next` and remembers
    (`nextFailed`) whether an error came out of it; since no modelled handler does anything after
    `next` returns, that is the same as stopping at the marker and running `next` afterwards,
    outside the reach of the subroute's error routes. -/
def reachK : K := fun r t => .reached r t

/-- `emptyHandler`: sets the `unhandled` var, writes nothing -/
def emptyK : K := fun _ t => .done t none

/-- `errorEmptyHandler`: writes the status of the error found in the context of the request it
    is handed -/
def errorEmptyK : K := fun r t => .done t (some (writeStatus r.ctxErr))

/-- wrapRoute: "make terminal routes terminate" — chosen from the request ENTERING the route -/
def termK (entry : Req) : K := if entry.ctxErr.isSome then errorEmptyK else emptyK

/-- group bookkeeping of wrapRoute -/
def groupDone (g : Nat) (r : Req) : Bool := g != 0 && r.groups.contains g

def markGroup (g : Nat) (r : Req) : Req :=
  if g != 0 then { r with groups := g :: r.groups } else r

mutual
/-- the loop `for i := len(route.middleware)-1 …` of wrapRoute -/
def runHandlers : List Handler → K → K
  | [], k => k
  | h :: hs, k => runHandler h (runHandlers hs k)
/-- `wrapMiddleware` + the handler's `ServeHTTP(w, r, next)` -/
def runHandler : Handler → K → K
  | .pass id, k => fun r t => k r (t ++ [ev id r])
  | .respond id st, _ => fun r t => .done (t ++ [ev id r]) (some st)
  | .rewrite id p, k => fun r t => k { r with path := p, uri := p } (t ++ [ev id r])
  | .strip, k => fun r t => k { r with path := stripPath r.path, uri := requestLineOf (stripPath r.path) } t
  | .fail id st, _ => fun r t => .err (t ++ [ev id r]) st r
  | .raise src, _ => fun r t => .err t (raiseStatus src r) r
  | .answer src, k => fun r t =>
    match answerStep src r with
    | .write n => .done t (some n)
    | .hint => k r (t ++ [hintEv])
    | .fail => .err t 500 r         -- `return Error(http.StatusInternalServerError, err)`
  | .invoke _, _ => fun r t => .err t 0 r   -- `fmt.Errorf("invoke: route '%s' not found", …)`
  | .sub rs hasErrs errs, k => fun r t =>
    -- Subroute.ServeHTTP: `sr.Routes.Compile(<next, remembering whether it failed>)`; on an error
    -- of the subroute's OWN routes (`!nextFailed`) and `sr.Errors != nil`:
    -- `sr.Errors.WithError(r, err)`, `sr.Errors.Routes.Compile(next)` — no URI restore
    match runRoutes rs reachK r t with
    | .reached r' t' => k r' t'           -- whatever the rest of the chain returns is returned as is
    | .done t' s => .done t' s
    | .err t' st r' =>
      if hasErrs then runRoutes errs k (catchAt r st r') t'
      else .err t' st r'
/-- `RouteList.Compile(next)` -/
def runRoutes : List Route → K → K
  | [], k => k
  | rt :: rs, k => runRoute rt (runRoutes rs k)
/-- `wrapRoute(route)(next)` -/
def runRoute : Route → K → K
  | .mk g sets hs term, next => fun r t =>
    match anyMatch sets r with
    | .err st => .err t st r
    | .ok false => next r t
    | .ok true =>
      if groupDone g r then next r t
      else runHandlers hs (if term then termK r else next) (markGroup g r) t
end

/-- the observable result of one request: handler trace and the status written (if any) -/
structure Result where
  trace : Trace
  status : Option Nat
deriving DecidableEq, Repr

/-- `Server.ServeHTTP`: primary chain; on error restore the original URI, add the error to the
    context and run the error chain if `s.Errors != nil && len(s.Errors.Routes) > 0`.
    `hasErrs = false` ⇔ `s.Errors == nil`. The group map is NOT reset. -/
def serve (routes : List Route) (hasErrs : Bool) (errs : List Route) (req : Req) : Result :=
  match runRoutes routes emptyK { req with groups := [], ctxErr := none, replStatus := none } [] with
  | .done t s => ⟨t, s⟩
  | .reached _ t => ⟨t, none⟩          -- never happens (`Props.serve_chain_never_returns_marker`)
  | .err t st r' =>
    if hasErrs && !errs.isEmpty then
      match runRoutes errs errorEmptyK (serverCatch req st r') t with
      | .done t2 s2 => ⟨t2, s2⟩
      | .reached _ t2 => ⟨t2, none⟩
      | .err t2 _ _ => ⟨t2, some (writeStatus (some st))⟩
    else ⟨t, some (writeStatus (some st))⟩

/-! ### named routes

`Invoke.ServeHTTP` looks the name up in `server.NamedRoutes` and runs `route.Compile(next)` — the
very `wrapRoute` closure a subroute would build for a one-route list.  The model resolves names by
substitution: `inlineOnce` replaces every `invoke n` whose name is defined by a subroute holding
that one route; `inlineNamed` does so `env.length` times, which resolves everything when named
routes only invoke later-named ones (the harness' acyclicity rule; a cycle would be unbounded
recursion in the Go code).  Names are 1-based positions in `env`. -/

def lookupNamed (env : List Route) (n : Nat) : Option Route :=
  if n = 0 then none else env[n - 1]?

mutual
def inlineHs (env : List Route) : List Handler → List Handler
  | [] => []
  | h :: hs => inlineH env h :: inlineHs env hs
def inlineH (env : List Route) : Handler → Handler
  | .invoke n =>
    match lookupNamed env n with
    | some rt => .sub [rt] false []
    | none => .invoke n
  | .sub rs hasErrs errs => .sub (inlineRs env rs) hasErrs (inlineRs env errs)
  | .pass id => .pass id
  | .respond id st => .respond id st
  | .rewrite id p => .rewrite id p
  | .strip => .strip
  | .fail id st => .fail id st
  | .raise src => .raise src
  | .answer src => .answer src
def inlineRs (env : List Route) : List Route → List Route
  | [] => []
  | rt :: rs => inlineR env rt :: inlineRs env rs
def inlineR (env : List Route) : Route → Route
  | .mk g sets hs term => .mk g sets (inlineHs env hs) term
end

def inlineNamed (env : List Route) : Nat → List Route → List Route
  | 0, rs => rs
  | n + 1, rs => inlineNamed env n (inlineRs env rs)

mutual
/-- does the tree still contain an `invoke` of a defined name? -/
def hsUnresolved (env : List Route) : List Handler → Bool
  | [] => false
  | h :: hs => hUnresolved env h || hsUnresolved env hs
def hUnresolved (env : List Route) : Handler → Bool
  | .invoke n => (lookupNamed env n).isSome
  | .sub rs _ errs => rsUnresolved env rs || rsUnresolved env errs
  | _ => false
def rsUnresolved (env : List Route) : List Route → Bool
  | [] => false
  | rt :: rs => rUnresolved env rt || rsUnresolved env rs
def rUnresolved (env : List Route) : Route → Bool
  | .mk _ _ hs _ => hsUnresolved env hs
end

mutual
/-- every `invoke` inside names a route > `b` -/
def hsInvGt (b : Nat) : List Handler → Bool
  | [] => true
  | h :: hs => hInvGt b h && hsInvGt b hs
def hInvGt (b : Nat) : Handler → Bool
  | .invoke n => n > b
  | .sub rs _ errs => rsInvGt b rs && rsInvGt b errs
  | _ => true
def rsInvGt (b : Nat) : List Route → Bool
  | [] => true
  | rt :: rs => rInvGt b rt && rsInvGt b rs
def rInvGt (b : Nat) : Route → Bool
  | .mk _ _ hs _ => hsInvGt b hs
end

/-- the route named j (position j-1) only invokes names > j -/
def namedValid : Nat → List Route → Bool
  | _, [] => true
  | j, rt :: rs => rInvGt (j + 1) rt && namedValid (j + 1) rs

/-- `Server.ServeHTTP` on a server with named routes -/
def serveNamed (env routes : List Route) (hasErrs : Bool) (errs : List Route) (req : Req) : Result :=
  serve (inlineNamed env env.length routes) hasErrs (inlineNamed env env.length errs) req

/-! ### response handlers (`caddyhttp.ResponseHandler`: intercept / reverse_proxy `handle_response`)

A response handler pairs a response matcher with either a replacement status or a route list that
is evaluated by `rh.Routes.Compile(next).ServeHTTP(w, r)` — the same `RouteList.Compile`.  The
model covers the shape the harness builds around the real `intercept` handler: the server's routes
are `[intercept {handle_response …}]` followed by one `static_response <st>`; the response the
rest of the chain produced (`st`) is buffered, the first response handler whose matcher matches
it is picked, and its routes run in front of the same rest of the chain. -/

structure RespHandler where
  codes : List Nat          -- `match.status_code`; empty = no matcher (always matches); < 100 = a class
  replace : Option Nat      -- `status_code`: only replace the status, stream the response
  routes : List Route

/-- `caddyhttp.StatusCodeMatches` -/
def statusCodeMatches (actual configured : Nat) : Bool :=
  actual == configured ||
    (decide (configured < 100) && decide (actual ≥ configured * 100) && decide (actual < (configured + 1) * 100))

def RespHandler.matchesStatus (rh : RespHandler) (st : Nat) : Bool :=
  rh.codes.isEmpty || rh.codes.any (statusCodeMatches st)

/-- `Intercept.ServeHTTP` over the chain `[static_response st]` -/
def serveIntercepted (rhs : List RespHandler) (st : Nat) (req : Req) : Result :=
  match rhs.find? (·.matchesStatus st) with
  | none => ⟨[], some st⟩                               -- nobody intercepts: the response goes out
  | some rh =>
    match rh.replace with
    | some _ => ⟨[], some st⟩
      -- "only replace the status": the response is streamed, no route runs, later response handlers
      -- are not consulted — but the status that goes out is the ORIGINAL one: `next.ServeHTTP(rec, r)`
      -- hands over a COPY of `rec` (a struct with value-receiver methods) made before the callback
      -- stores the replacement in `rec.statusCode`, and the callback runs inside the very
      -- `WriteHeader` that should have used it.  Modelled as it is (not a routing clause).
    | none => serve (rh.routes ++ [.mk 0 [] [.answer (.lit st)] false]) false [] req

end CaddyModel.C05
