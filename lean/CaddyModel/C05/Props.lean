import CaddyModel.C05.Lemmas

namespace CaddyModel.C05

theorem subroute_same_rules (rs : List Route) (es : List Route) (k : K) (r : Req) (t : Trace) :
    (∀ t' st r', runRoutes rs k r t ≠ .err t' st r') →
    runHandler (.sub rs false es) k r t = runRoutes rs k r t := by
  intro h
  simp only [runHandler]
  cases hh : runRoutes rs k r t <;> simp

end CaddyModel.C05
