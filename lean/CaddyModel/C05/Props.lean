/-
C05 — property theorems (helper lemmas are in Lemmas.lean, counter-examples in Witness.lean).

Statement: for any route configuration and request, the handlers that run and their order are
exactly those the routing rules prescribe: routes are tried in order, a route applies iff it has
no matcher sets or at least one set all of whose matchers match, only the first applicable route
of a group runs, a terminal route ends routing, and handlers chain in listed order with nested
subroutes following the same rules.  A handler error or matcher error diverts the request to the
error routes (evaluated by the same rules, with the original URI restored), and a request no
route answers gets the empty default response.

`serve`/`run*` (Model.lean) is the code as it is: closures receiving "the rest of the chain".
`eval`/`spec*` (Spec.lean) is the rules written directly.  All theorems are for every route
tree, every request, every continuation — no size bound.
-/
import CaddyModel.C05.Lemmas
import CaddyModel.C05.Witness
import CaddyModel.C05.AdaptProps
import CaddyModel.C05.ProvisionProps

namespace CaddyModel.C05

/-! ## the whole statement -/

/-- **the handlers that run and their order are exactly those the routing rules prescribe**: the
    code-shaped evaluator and the rules agree on every route tree, every error-route list and
    every request.  (The code before the repair of `Subroute.ServeHTTP` did not:
    `Witness.compile_correct_old_code_fails`.) -/
theorem compile_correct (routes errs : List Route) (hasErrs : Bool) (req : Req) :
    serve routes hasErrs errs req = eval routes hasErrs errs req := by
  unfold serve eval
  rw [rs_ok routes emptyK _ []]
  cases hp : specRoutes routes { req with groups := [], ctxErr := none, replStatus := none } [] with
  | cont r t => simp [Res.bind, emptyK]
  | stop o =>
    cases o with
    | done t s => simp [Res.bind]
    | reached r t => simp [Res.bind]
    | err t st r' =>
      simp only [Res.bind]
      split
      · rw [rs_ok errs errorEmptyK _ t]
        cases specRoutes errs (serverCatch req st r') t with
        | cont r'' t2 => simp [Res.bind, errorEmptyK]
        | stop o2 => cases o2 <;> simp [Res.bind]
      · rfl

-- a tree with groups, a terminal route, `not`, an error matcher, a rewrite, a failing handler inside
-- a subroute WITH error routes, a failing handler BEHIND it, and server error routes
example : serve
    [ .mk 1 [[.atom .path [1, 2], .not [[.atom .method [1]]]]] [.rewrite 1 3, .pass 2] false,
      .mk 0 [] [.sub [.mk 0 [] [.fail 5 500] false] true [.mk 0 [[.atom .path [3]]] [.pass 6] false]] false,
      .mk 0 [] [.fail 7 404] false ]
    true [ .mk 1 [] [.pass 8] false, .mk 0 [[.atom .path [1]]] [.respond 9 404] true ] wReq
    = ⟨[⟨1, 1, none, none, 1⟩, ⟨2, 3, none, none, 3⟩, ⟨5, 3, none, none, 3⟩, ⟨6, 3, some 500, some 500, 3⟩,
        ⟨7, 3, some 500, some 500, 3⟩, ⟨9, 1, some 404, some 404, 1⟩], some 404⟩ := by decide

/-- the marker of `Subroute.ServeHTTP` never leaves it: the two arms of `serve` that mention it are
    dead code -/
theorem serve_chain_never_returns_marker (routes : List Route) (r r' : Req) (t t' : Trace) :
    runRoutes routes emptyK r t ≠ .reached r' t' ∧ runRoutes routes errorEmptyK r t ≠ .reached r' t' := by
  constructor
  · intro h
    have := runRoutes_nomark routes emptyK noMark_emptyK r t
    simp [h, Out.isMarker] at this
  · intro h
    have := runRoutes_nomark routes errorEmptyK noMark_errorEmptyK r t
    simp [h, Out.isMarker] at this

/-! ## one theorem per clause (about the code-shaped model, for every tree) -/

/-- **routes are tried in order**: the chain compiled from `rs₁ ++ rs₂` is the chain of `rs₁`
    whose rest-of-chain is the chain of `rs₂`. -/
theorem routes_in_order (rs₁ rs₂ : List Route) (k : K) :
    runRoutes (rs₁ ++ rs₂) k = runRoutes rs₁ (runRoutes rs₂ k) := by
  induction rs₁ with
  | nil => simp [runRoutes]
  | cons rt rs ih => simp [runRoutes, ih]

example : runRoutes ([.mk 0 [] [.pass 1] false] ++ [.mk 0 [] [.pass 2] false]) emptyK wReq []
    = .done [⟨1, 1, none, none, 1⟩, ⟨2, 1, none, none, 1⟩] none := by decide

/-- **a route applies iff it has no matcher sets or at least one set all of whose matchers
    match** — whenever matching does not end in a matcher error. -/
theorem applies_iff (sets : List (List Matcher)) (r : Req) (b : Bool) (h : anyMatch sets r = .ok b) :
    b = true ↔ Applies sets r := by
  unfold Applies
  unfold anyMatch at h
  split at h
  · rename_i he
    have : sets = [] := by simpa using he
    subst this
    simp at h
    simp [← h]
  · rename_i he
    have hne : sets ≠ [] := by simpa using he
    rw [evalAny_ok sets r b h]
    simp [hne, evalSet_true_iff]

example : anyMatch [[.atom .host [1]], [.atom .path [1], .not [[.atom .method [1]]]]] wReq = .ok true := by decide
example : anyMatch [[.atom .host [1]], [.atom .path [1], .not [[.atom .method [0]]]]] wReq = .ok false := by decide

/-- `not` negates the OR of its sets (each an AND) — whenever no matcher error occurs. -/
theorem not_is_negated_or_of_ands (sets : List (List Matcher)) (r : Req) (b : Bool)
    (h : evalMatcher (.not sets) r = .ok b) :
    b = true ↔ ¬ ∃ s ∈ sets, ∀ m ∈ s, evalMatcher m r = .ok true := by
  rw [evalMatcher] at h
  rw [evalNot_ok sets r b h]
  simp [evalSet_true_iff]

example : evalMatcher (.not [[.atom .host [1]], [.atom .path [1], .atom .method [0]]]) wReq = .ok false := by decide

/-- a route that does not apply has no effect whatsoever (no handler, no group mark, no
    termination): the request goes on to the rest of the chain unchanged. -/
theorem inapplicable_route_is_skipped (g : Nat) (sets : List (List Matcher)) (hs : List Handler)
    (term : Bool) (k : K) (r : Req) (t : Trace) (h : anyMatch sets r = .ok false) :
    runRoute (.mk g sets hs term) k r t = k r t := by
  simp [runRoute, h]

example : anyMatch [[.atom .host [1]]] wReq = .ok false := by decide

/-- **only the first applicable route of a group runs** (1): an applicable route whose group is
    already satisfied is skipped like an inapplicable one. -/
theorem first_of_group_only (g : Nat) (sets : List (List Matcher)) (hs : List Handler)
    (term : Bool) (k : K) (r : Req) (t : Trace)
    (hg : g ≠ 0) (hm : g ∈ r.groups) (h : anyMatch sets r = .ok true) :
    runRoute (.mk g sets hs term) k r t = k r t := by
  have : groupDone g r = true := by simp [groupDone, hg, hm]
  simp [runRoute, h, this]

/-- (2): an applicable route of group `g` whose handlers pass the request on leaves `g`
    satisfied for everything that follows — nested or not, whatever happens in between. -/
theorem applicable_grouped_route_marks_group (g : Nat) (sets : List (List Matcher)) (hs : List Handler)
    (term : Bool) (r r' : Req) (t t' : Trace)
    (hg : g ≠ 0) (h : anyMatch sets r = .ok true)
    (hc : specRoute (.mk g sets hs term) r t = .cont r' t') : g ∈ r'.groups := by
  rw [specRoute] at hc
  simp only [h] at hc
  split at hc
  · rename_i hd
    cases hc
    simp [groupDone, hg] at hd
    exact hd
  · have hk := specHandlers_keeps hs (markGroup g r) t
    cases hh : specHandlers hs (markGroup g r) t with
    | cont r'' t'' =>
      rw [hh] at hk hc
      cases term with
      | true => simp at hc
      | false =>
        simp at hc
        obtain ⟨rfl, rfl⟩ := hc
        exact hk g (by simp [markGroup, hg])
    | stop o => rw [hh] at hc; cases hc

/-- (3): the set of satisfied groups only grows along a chain. -/
theorem groups_only_grow (rs : List Route) (r r' : Req) (t t' : Trace)
    (hc : specRoutes rs r t = .cont r' t') : ∀ g ∈ r.groups, g ∈ r'.groups := by
  have := specRoutes_keeps rs r t
  rw [hc] at this
  exact this

example : specRoute (.mk 2 [] [.pass 1] false) wReq [] = .cont { wReq with groups := [2] } [⟨1, 1, none, none, 1⟩] := by decide
example : runRoutes [.mk 2 [] [.pass 1] false, .mk 2 [] [.pass 2] false, .mk 0 [] [.pass 3] false] emptyK wReq []
    = .done [⟨1, 1, none, none, 1⟩, ⟨3, 1, none, none, 1⟩] none := by decide

/-- **a terminal route ends routing**: once an applicable terminal route is entered, neither the
    routes after it nor the rest of any enclosing chain can run — the outcome does not depend on
    them (`termK` only writes the pending error status, if there is one). -/
theorem terminal_stops (g : Nat) (sets : List (List Matcher)) (hs : List Handler) (rest : List Route)
    (k : K) (r : Req) (t : Trace) (h : anyMatch sets r = .ok true) (hg : groupDone g r = false) :
    runRoutes (.mk g sets hs true :: rest) k r t = runHandlers hs (termK r) (markGroup g r) t := by
  simp [runRoutes, runRoute, h, hg]

example : runRoutes [.mk 0 [] [.pass 1] true, .mk 0 [] [.pass 2] false] emptyK wReq []
    = .done [⟨1, 1, none, none, 1⟩] none := by decide

/-- **handlers chain in listed order** (1): the chain of `hs₁ ++ hs₂` is the chain of `hs₁` whose
    next handler is the chain of `hs₂`. -/
theorem handlers_chain_in_order (hs₁ hs₂ : List Handler) (k : K) :
    runHandlers (hs₁ ++ hs₂) k = runHandlers hs₁ (runHandlers hs₂ k) := by
  induction hs₁ with
  | nil => simp [runHandlers]
  | cons h hs ih => simp [runHandlers, ih]

/-- (2): handlers that pass the request on run one after the other, each exactly once. -/
theorem passing_handlers_run_in_listed_order (ids : List Nat) (k : K) (r : Req) (t : Trace) :
    runHandlers (ids.map .pass) k r t = k r (t ++ ids.map (ev · r)) := by
  induction ids generalizing t with
  | nil => simp [runHandlers]
  | cons i is ih => simp [runHandlers, runHandler, ih]

example : runHandlers [.pass 1, .rewrite 2 3, .pass 3, .respond 4 201, .pass 5] emptyK wReq []
    = .done [⟨1, 1, none, none, 1⟩, ⟨2, 1, none, none, 1⟩, ⟨3, 3, none, none, 3⟩, ⟨4, 3, none, none, 3⟩] (some 201) := by decide

/-- **nested subroutes follow the same rules** (1): a subroute without error routes IS its route
    list, evaluated by the same function in the same chain. -/
theorem subroute_same_rules (rs es : List Route) (k : K) (r : Req) (t : Trace) :
    runHandler (.sub rs false es) k r t = runRoutes rs k r t :=
  runHandler_sub_without_errors rs es k r t

/-- (2): wrapping a server's whole route list into one subroute changes nothing observable. -/
theorem subroute_wrap_invariant (rs errs : List Route) (hasErrs : Bool) (req : Req) :
    serve [.mk 0 [] [.sub rs false []] false] hasErrs errs req = serve rs hasErrs errs req := by
  unfold serve
  have : ∀ r t, runRoutes [.mk 0 [] [.sub rs false []] false] emptyK r t = runRoutes rs emptyK r t := by
    intro r t
    simp only [runRoutes, runRoute, anyMatch, List.isEmpty_nil, if_true, groupDone, markGroup,
      runHandlers]
    simp only [bne_self_eq_false, Bool.false_and, Bool.false_eq_true, if_false]
    exact subroute_same_rules rs [] emptyK r t
  rw [this]

example : serve [.mk 0 [] [.sub [.mk 1 [[.atom .path [1]]] [.rewrite 1 3, .fail 2 404] true] false []] false]
      true [.mk 0 [[.atom .path [1]]] [.pass 3] false] wReq
    = ⟨[⟨1, 1, none, none, 1⟩, ⟨2, 3, none, none, 3⟩, ⟨3, 1, some 404, some 404, 1⟩], some 404⟩ := by decide

/-- (3): a subroute WITH error routes: if its chain fails, the error routes are evaluated by the
    same function, on the request as it is at that moment plus the error — the URI is NOT
    restored here (see `Witness.subroute_error_routes_see_rewritten_uri`). -/
theorem subroute_error_routes_same_rules (rs es : List Route) (k : K) (r r' : Req) (t t' : Trace) (st : Nat)
    (h : runRoutes rs reachK r t = .err t' st r') :
    runHandler (.sub rs true es) k r t = runRoutes es k (catchAt r st r') t' := by
  simp [runHandler, h]

/-- (4): … and ONLY if ITS chain fails: once the subroute's routes have passed the request on, the
    rest of the chain runs outside the reach of the subroute's error routes — whatever it returns,
    an error included, is returned as is, and it runs once.  (This is the clause the code violated
    before the repair.) -/
theorem subroute_does_not_catch_later_failures (rs es : List Route) (hasErrs : Bool) (k : K)
    (r r' : Req) (t t' : Trace) (h : runRoutes rs reachK r t = .reached r' t') :
    runHandler (.sub rs hasErrs es) k r t = k r' t' := by
  simp [runHandler, h]

example : runRoutes [.mk 0 [] [.pass 1] false] reachK wReq [] = .reached wReq [⟨1, 1, none, none, 1⟩] := by decide

/-- (5): **a subroute's decision depends on its own invocation only**: a nested subroute that let
    the request continue — whatever it contains, with or without error routes of its own — leaves
    no trace in the decision of the enclosing subroute: a LATER handler of the enclosing subroute's
    own routes that fails is handled by the enclosing subroute's error routes. -/
theorem subroute_decision_is_its_own (rs' es' es : List Route) (he' : Bool) (id st : Nat) (k : K)
    (r r' : Req) (t t' : Trace) (h : specRoutes rs' r t = .cont r' t') :
    runHandler (.sub [.mk 0 [] [.sub rs' he' es', .fail id st] false] true es) k r t
      = runRoutes es k (catchAt r st r') (t' ++ [ev id r']) := by
  have hin : runRoutes rs' reachK r t = .reached r' t' := by
    rw [rs_ok rs' reachK r t, h]; rfl
  have : runRoutes [.mk 0 [] [.sub rs' he' es', .fail id st] false] reachK r t
      = .err (t' ++ [ev id r']) st r' := by
    simp [runRoutes, runRoute, anyMatch, groupDone, markGroup, runHandlers, runHandler, hin]
  simp [runHandler, this]

example : serve [.mk 0 [] [.sub [.mk 0 [] [.sub [.mk 0 [] [.pass 1] false] true [.mk 0 [] [.pass 8] false], .fail 2 404] false]
      true [.mk 0 [] [.pass 9] false]] false] false [] wReq
    = ⟨[⟨1, 1, none, none, 1⟩, ⟨2, 1, none, none, 1⟩, ⟨9, 1, some 404, some 404, 1⟩], none⟩ := by decide

example : runRoutes [.mk 0 [] [.fail 2 500] false] reachK wReq [] = .err [⟨2, 1, none, none, 1⟩] 500 wReq := by decide

/-- **a matcher error diverts**: the route's handlers do not run, nothing after it runs; the error
    surfaces exactly like a handler error. -/
theorem matcher_error_diverts (g : Nat) (sets : List (List Matcher)) (hs : List Handler) (term : Bool)
    (k : K) (r : Req) (t : Trace) (st : Nat) (h : anyMatch sets r = .err st) :
    runRoute (.mk g sets hs term) k r t = .err t st r := by
  simp [runRoute, h]

example : anyMatch [[.atom .host [1]], [.atom .path [1], .err 1 403]] wReq = .err 403 := by decide

/-- **errors divert to the error routes, evaluated by the same rules, with the original URI
    restored**: if the primary chain fails, the result is that of `runRoutes` (the same function)
    on the error routes, for the request with `path` = the ORIGINAL path and the error in its
    context; a second failure, or error routes that do not answer, yield the first error's status. -/
theorem error_diverts_with_original_uri (routes errs : List Route) (req r' : Req) (t : Trace) (st : Nat)
    (hne : errs ≠ [])
    (h : runRoutes routes emptyK { req with groups := [], ctxErr := none, replStatus := none } [] = .err t st r') :
    serve routes true errs req =
      match runRoutes errs errorEmptyK (serverCatch req st r') t with
      | .done t2 s2 => ⟨t2, s2⟩
      | .reached _ t2 => ⟨t2, none⟩        -- dead arm (`serve_chain_never_returns_marker`)
      | .err t2 _ _ => ⟨t2, some (writeStatus (some st))⟩ := by
  have : errs.isEmpty = false := by cases errs <;> simp_all
  simp only [serve, h, this, Bool.not_false, Bool.and_self, if_true]
  generalize runRoutes errs errorEmptyK _ t = o
  cases o <;> rfl

/-- in particular a handler in the error routes sees the original path and the error, whatever
    the primary chain rewrote; and if the error routes do not answer, the error's status is sent. -/
theorem error_route_sees_original_uri_and_error (routes : List Route) (req r' : Req) (t : Trace) (st i : Nat)
    (h : runRoutes routes emptyK { req with groups := [], ctxErr := none, replStatus := none } [] = .err t st r') :
    serve routes true [.mk 0 [] [.pass i] false] req =
      ⟨t ++ [⟨i, req.path, some st, if st = 0 then r'.replStatus else some st, req.uri⟩], some (writeStatus (some st))⟩ := by
  rw [error_diverts_with_original_uri routes _ req r' t st (by simp) h]
  simp [runRoutes, runRoute, anyMatch, groupDone, markGroup, runHandlers, runHandler, errorEmptyK, ev, withError,
    serverCatch, newObject]

example : runRoutes [.mk 0 [] [.rewrite 1 3, .fail 2 404] false] emptyK wReq []
    = .err [⟨1, 1, none, none, 1⟩, ⟨2, 3, none, none, 3⟩] 404 { wReq with path := 3, uri := 3 } := by decide
example : serve [.mk 0 [] [.rewrite 1 3, .fail 2 404] false] true [.mk 0 [] [.pass 7] false] wReq
    = ⟨[⟨1, 1, none, none, 1⟩, ⟨2, 3, none, none, 3⟩, ⟨7, 1, some 404, some 404, 1⟩], some 404⟩ := by decide

/-- without error routes the error's status is the response -/
theorem error_without_error_routes (routes : List Route) (req r' : Req) (t : Trace) (st : Nat)
    (h : runRoutes routes emptyK { req with groups := [], ctxErr := none, replStatus := none } [] = .err t st r') :
    serve routes false [] req = ⟨t, some (writeStatus (some st))⟩ := by
  simp [serve, h]

example : serve [.mk 0 [[.legacy true, .err 2 0]] [.pass 1] false] false [] wReq = ⟨[], some 500⟩ := by decide

/-- modelled quirk: the group set lives for the whole request, so a group satisfied in the primary
    chain stays satisfied in the error chain — an error route of that group is skipped. -/
theorem groups_persist_into_error_chain (routes : List Route) (req r' : Req) (t : Trace) (st g : Nat)
    (sets : List (List Matcher)) (hs : List Handler) (term : Bool)
    (h : runRoutes routes emptyK { req with groups := [], ctxErr := none, replStatus := none } [] = .err t st r')
    (hg : g ≠ 0) (hm : g ∈ r'.groups)
    (ha : anyMatch sets (serverCatch req st r') = .ok true) :
    serve routes true [.mk g sets hs term] req = ⟨t, some (writeStatus (some st))⟩ := by
  rw [error_diverts_with_original_uri routes _ req r' t st (by simp) h]
  simp only [runRoutes]
  rw [first_of_group_only g sets hs term errorEmptyK _ t hg (by simpa [withError, serverCatch, newObject] using hm) ha]
  simp [errorEmptyK, withError, serverCatch, newObject]

example : serve [.mk 1 [] [.fail 1 404] false] true [.mk 1 [] [.respond 2 200] false] wReq
    = ⟨[⟨1, 1, none, none, 1⟩], some 404⟩ := by decide

/-- **a request no route answers gets the empty default response**: if no route applies, no
    handler runs and nothing is written. -/
theorem unanswered_gets_empty_default (routes errs : List Route) (hasErrs : Bool) (req : Req)
    (h : ∀ g sets hs term, Route.mk g sets hs term ∈ routes →
      anyMatch sets { req with groups := [], ctxErr := none, replStatus := none } = .ok false) :
    serve routes hasErrs errs req = ⟨[], none⟩ := by
  have key : ∀ (rs : List Route) (r : Req) (t : Trace),
      (∀ g sets hs term, Route.mk g sets hs term ∈ rs → anyMatch sets r = .ok false) →
      runRoutes rs emptyK r t = .done t none := by
    intro rs
    induction rs with
    | nil => intro r t _; simp [runRoutes, emptyK]
    | cons rt rs ih =>
      intro r t hh
      cases rt with
      | mk g sets hs term =>
        rw [runRoutes, inapplicable_route_is_skipped g sets hs term _ r t (hh g sets hs term (List.mem_cons_self ..))]
        exact ih r t (fun g' s' h' t' hm => hh g' s' h' t' (List.mem_cons_of_mem _ hm))
  simp [serve, key routes _ [] h]

/-- more generally: whenever the rules pass the request through
    all routes, the response is empty, whatever handlers ran on the way. -/
theorem passed_through_gets_empty_default (routes errs : List Route) (hasErrs : Bool) (req r : Req) (t : Trace)
    (h : specRoutes routes { req with groups := [], ctxErr := none, replStatus := none } [] = .cont r t) :
    serve routes hasErrs errs req = ⟨t, none⟩ := by
  rw [compile_correct routes errs hasErrs req]
  simp [eval, h]

example : specRoutes [.mk 0 [] [.pass 1, .rewrite 2 3] false, .mk 0 [[.atom .path [1]]] [.respond 3 200] true]
    wReq [] = .cont { wReq with path := 3, uri := 3 } [⟨1, 1, none, none, 1⟩, ⟨2, 1, none, none, 1⟩] := by decide

example : serve [.mk 0 [[.atom .host [1]]] [.respond 1 200] true, .mk 0 [[.atom .method [1]]] [.pass 2] false] false [] wReq
    = ⟨[], none⟩ := by decide

/-- matcher sets are built by ranging over a Go map: without matcher errors the order inside a
    set is irrelevant (with an error matcher it is not: `Witness.matcher_order_matters_with_error`). -/
theorem matcher_order_irrelevant_without_errors (s s' : List Matcher) (r : Req) (hp : s.Perm s')
    (h : ∀ m ∈ s, ∀ st, evalMatcher m r ≠ .err st) : evalSet s' r = evalSet s r := by
  have h' : ∀ m ∈ s', ∀ st, evalMatcher m r ≠ .err st := fun m hm => h m (hp.mem_iff.mpr hm)
  rw [evalSet_eq_all s r h, evalSet_eq_all s' r h']
  congr 1
  exact (hp.all_eq (f := fun m => evalMatcher m r == .ok true)).symm

example : ∀ m ∈ [Matcher.atom .host [0], .not [[.atom .path [2]]]], ∀ st, evalMatcher m wReq ≠ .err st := by
  intro m hm st
  simp at hm
  rcases hm with rfl | rfl <;> exact evalMatcher_noerr _ _ (by decide) st

/-- **the request object a subroute resumes with always exists**: whenever the routes of a
    subroute fail, the request object that was current when the subroute was entered is still among
    the objects of the failing state — the fallback in `frameUri` is dead code.  (Request objects
    are only ever added: `WithError` copies, nothing is dropped.) -/
theorem frame_object_always_exists (rs : List Route) (r r' : Req) (t t' : Trace) (st : Nat)
    (h : specRoutes rs r t = .stop (.err t' st r')) : (objUri r' r.olds.length).isSome = true := by
  have := specRoutes_olds rs r t
  rw [h] at this
  simp only [Res.OldsGE] at this
  simp only [objUri]
  have hl : r.olds.length < (r'.olds ++ [r'.uri]).length := by simp; omega
  simp [List.getElem?_eq_getElem hl]

/-- the server's error routes see the original `RequestURI` next to the original URL path — the
    request line is restored as well, on a fresh copy of the server's own request object -/
theorem server_error_chain_request_is_consistent (req : Req) (st : Nat) (r' : Req) :
    (serverCatch req st r').path = req.path ∧ (serverCatch req st r').uri = req.uri := by
  simp [serverCatch, withError, newObject]

/-! ## the error path as deployed: `http.error.*` placeholders, `error`, `static_response` -/

/-- **what the error routes are told about the error is the error**: every handler that ever runs —
    primary chain, subroutes, subroute error routes, server error routes, after any number of
    errors — sees a `{http.error.status_code}` placeholder equal to the status of the
    `HandlerError` in its request context.  (For an error that is not a `HandlerError` the
    placeholder is stale: `Witness.status_placeholder_stale_after_plain_error`.) -/
theorem status_placeholder_tracks_handler_errors (routes errs : List Route) (hasErrs : Bool) (req : Req) :
    ∀ e ∈ (serve routes hasErrs errs req).trace, ∀ st, e.err = some st → st ≠ 0 → e.repl = some st := by
  have h0 : Req.PlaceholderOk { req with groups := [], ctxErr := none, replStatus := none } := by
    intro st h; cases h
  have h1 := (runRoutes_pok routes emptyK kOk_emptyK _ [] h0 (by simp)).1
  unfold serve
  cases hp : runRoutes routes emptyK { req with groups := [], ctxErr := none, replStatus := none } [] with
  | done t s => rw [hp] at h1; exact h1
  | reached r' t => rw [hp] at h1; exact h1
  | err t st r' =>
    rw [hp] at h1
    simp only
    split
    · have h2 := (runRoutes_pok errs errorEmptyK kOk_errorEmptyK _ t (serverCatch_ok req st r') h1).1
      cases he : runRoutes errs errorEmptyK (serverCatch req st r') t with
      | done t2 s2 => rw [he] at h2; exact h2
      | reached r2 t2 => rw [he] at h2; exact h2
      | err t2 st2 r2 => rw [he] at h2; exact h2
    · exact h1

example : serve [.mk 0 [] [.sub [.mk 0 [] [.fail 1 404] false] true [.mk 0 [] [.pass 2, .raise (.lit 503)] false]] false]
      true [.mk 0 [] [.pass 3] false] wReq
    = ⟨[⟨1, 1, none, none, 1⟩, ⟨2, 1, some 404, some 404, 1⟩, ⟨3, 1, some 503, some 503, 1⟩], some 503⟩ := by decide

/-- an error route that answers with `"{http.error.status_code}"` (the usual `respond
    "{err.status_code}"`) sends the status of the error being handled … -/
theorem respond_with_error_placeholder_sends_error_status (k : K) (r : Req) (t : Trace) (st : Nat)
    (hr : ∀ s, r.ctxErr = some s → s ≠ 0 → r.replStatus = some s) (he : r.ctxErr = some st) (hne : st ≠ 0)
    (h103 : st ≠ 103) :
    runHandler (.answer .errCode) k r t = .done t (some st) ∧
    runHandler (.answer .empty) k r t = .done t (some st) ∧
    runHandler (.raise .errCode) k r t = .err t st r := by
  have := hr st he hne
  refine ⟨?_, ?_, ?_⟩
  · simp [runHandler, answerStep, Src.resolve, this, h103]
  · simp [runHandler, answerStep, answerDefault, he, hne]
  · simp [runHandler, raiseStatus, Src.resolve, this]

/-- … and outside the error path (no error yet) that same configuration is itself an error 500:
    the unset placeholder expands to the empty string, which is not a number. -/
theorem error_placeholder_outside_error_path (k : K) (r : Req) (t : Trace) (h : r.replStatus = none) :
    runHandler (.answer .errCode) k r t = .err t 500 r ∧
    runHandler (.raise .errCode) k r t = .err t 500 r := by
  simp [runHandler, answerStep, raiseStatus, Src.resolve, h]

/-- `static_response` with 103 (Early Hints) writes the interim header and passes the request on:
    it is a handler that BOTH writes and calls next — the rest of the chain runs as usual. -/
theorem early_hints_pass_the_request_on (k : K) (r : Req) (t : Trace) :
    runHandler (.answer (.lit 103)) k r t = k r (t ++ [hintEv]) := by
  simp [runHandler, answerStep, Src.resolve]

example : serve [.mk 0 [] [.answer (.lit 103), .pass 1, .answer (.lit 103), .respond 2 200] false] false [] wReq
    = ⟨[hintEv, ⟨1, 1, none, none, 1⟩, hintEv, ⟨2, 1, none, none, 1⟩], some 200⟩ := by decide

/-- the real `error` handler diverts exactly like a failing handler (it just leaves no probe event) -/
theorem error_handler_diverts (n : Nat) (k : K) (r : Req) (t : Trace) :
    runHandler (.raise (.lit n)) k r t = .err t n r ∧ runHandler (.raise .empty) k r t = .err t 500 r ∧
    runHandler (.raise .bad) k r t = .err t 500 r := by
  simp [runHandler, raiseStatus, Src.resolve]

example : serve [.mk 0 [] [.raise (.lit 404)] false] true [.mk 0 [] [.pass 1, .answer .errCode] false] wReq
    = ⟨[⟨1, 1, some 404, some 404, 1⟩], some 404⟩ := by decide
example : serve [.mk 0 [] [.answer .errCode] false] true [.mk 0 [] [.pass 1, .answer .empty] false] wReq
    = ⟨[⟨1, 1, some 500, some 500, 1⟩], some 500⟩ := by decide

/-- **error routes select on the status of the error being handled**: the matchers the Caddyfile's
    `handle_errors 4xx` / `handle_errors 404 500` adapt to (`expression` on
    `{http.error.status_code}`) decide by the status of the `HandlerError` in the request context,
    in every state the error path can produce (`status_placeholder_tracks_handler_errors`). -/
theorem status_matchers_select_by_error_status (r : Req) (st lo hi : Nat) (codes : List Nat)
    (hr : ∀ s, r.ctxErr = some s → s ≠ 0 → r.replStatus = some s) (he : r.ctxErr = some st) (hne : st ≠ 0) :
    evalMatcher (.errRange lo hi) r = .ok (decide (lo ≤ st) && decide (st ≤ hi)) ∧
    evalMatcher (.errIn codes) r = .ok (codes.contains st) := by
  simp [evalMatcher, hr st he hne]

/-- outside the error path the range form is a matcher ERROR (CEL cannot compare the unset
    placeholder) — the request is diverted to the error routes with status 500 —, the list form
    simply does not match. -/
theorem status_matchers_outside_error_path (r : Req) (lo hi : Nat) (codes : List Nat) (h : r.replStatus = none) :
    evalMatcher (.errRange lo hi) r = .err 0 ∧ evalMatcher (.errIn codes) r = .ok false := by
  simp [evalMatcher, h]

example : serve [.mk 0 [] [.raise (.lit 404)] false] true
      [.mk 0 [[.errRange 500 599]] [.pass 1] true, .mk 0 [[.errIn [404, 410]]] [.pass 2, .answer .errCode] true] wReq
    = ⟨[⟨2, 1, some 404, some 404, 1⟩], some 404⟩ := by decide
example : serve [.mk 0 [[.errRange 400 499]] [.pass 1] false] false [] wReq = ⟨[], some 500⟩ := by decide

/-! ## named routes and `invoke` -/

/-- **a named route follows the same rules**: invoking a defined name evaluates that route by the
    very function used for a listed route (`runRoute` = `wrapRoute`), in place, with the rest of
    the chain as its continuation — matchers, group, terminal flag and all. -/
theorem invoke_runs_named_route_in_place (env : List Route) (n : Nat) (rt : Route) (k : K) (r : Req) (t : Trace)
    (h : lookupNamed env n = some rt) :
    runHandler (inlineH env (.invoke n)) k r t = runRoute rt k r t := by
  simp only [inlineH, h]
  rw [subroute_same_rules]
  simp [runRoutes]

/-- invoking a name the server does not define is a plain error (status 500 unless handled) -/
theorem unknown_invoke_is_plain_error (env : List Route) (n : Nat) (k : K) (r : Req) (t : Trace)
    (h : lookupNamed env n = none) :
    runHandler (inlineH env (.invoke n)) k r t = .err t 0 r := by
  simp [inlineH, h, runHandler]

example : lookupNamed [.mk 1 [[.atom .path [1]]] [.pass 7] true] 1 = some (.mk 1 [[.atom .path [1]]] [.pass 7] true) := rfl
-- the named route is terminal: handler 5 behind the invoke does not run; the group it satisfies
-- keeps the listed route of the same group from running in the error chain
example : serveNamed [.mk 1 [[.atom .path [1]]] [.pass 7, .invoke 2] true, .mk 0 [] [.pass 8] false]
      [.mk 0 [] [.invoke 1, .pass 5] false] false [] wReq
    = ⟨[⟨7, 1, none, none, 1⟩, ⟨8, 1, none, none, 1⟩], none⟩ := by decide
example : serveNamed [.mk 0 [] [.pass 7] false] [.mk 0 [] [.invoke 2, .pass 5] false] false [] wReq
    = ⟨[], some 500⟩ := by decide

/-- **every defined name is resolved**: when named routes only invoke later-named ones (the
    acyclicity rule; a cycle is unbounded recursion in the Go code), `inlineNamed` leaves no
    `invoke` of a defined name behind — what `serveNamed` hands to `serve` fails with "route not
    found" only for names the server really does not define. -/
theorem inline_resolves_every_defined_name (env rs : List Route) (hv : namedValid 0 env = true) :
    rsUnresolved env (inlineNamed env env.length rs) = false := by
  apply rsResolved
  have := inlineNamed_resGt env hv env.length 0 rs (rsResGt_zero env rs)
  simpa using this

example : namedValid 0 [.mk 1 [[.atom .path [1]]] [.pass 7, .invoke 2] true, .mk 0 [] [.pass 8, .invoke 3] false] = true := by decide

/-! ## response handlers -/

/-- **the routes of a response handler follow the same rules**: they are evaluated by the same
    evaluator, in front of the rest of the chain — so everything proved about `serve` (and, through
    `compile_correct`, the routing rules) holds for them; a response nobody intercepts, or whose
    handler only replaces the status, runs no route at all. -/
theorem response_handler_routes_same_rules (rhs : List RespHandler) (st : Nat) (req : Req) (rh : RespHandler)
    (hf : rhs.find? (·.matchesStatus st) = some rh) (hr : rh.replace = none) :
    serveIntercepted rhs st req = eval (rh.routes ++ [.mk 0 [] [.answer (.lit st)] false]) false [] req := by
  simp [serveIntercepted, hf, hr, compile_correct]

theorem response_not_intercepted (rhs : List RespHandler) (st : Nat) (req : Req)
    (h : ∀ rh ∈ rhs, rh.matchesStatus st = false) : serveIntercepted rhs st req = ⟨[], some st⟩ := by
  have : rhs.find? (·.matchesStatus st) = none := by
    rw [List.find?_eq_none]; intro x hx; simp [h x hx]
  simp [serveIntercepted, this]

example : serveIntercepted [⟨[5], none, [.mk 0 [] [.pass 9] false]⟩, ⟨[404], none, [.mk 0 [[.atom .path [1]]] [.pass 1, .respond 2 201] false]⟩]
    404 wReq = ⟨[⟨1, 1, none, none, 1⟩, ⟨2, 1, none, none, 1⟩], some 201⟩ := by decide
example : serveIntercepted [⟨[4], some 299, []⟩, ⟨[], none, [.mk 0 [] [.respond 1 201] false]⟩] 404 wReq
    = ⟨[], some 404⟩ := by decide

end CaddyModel.C05
