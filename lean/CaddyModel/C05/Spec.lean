/-
C05 — the routing rules as documented, written directly (no continuations):

  * routes are tried in order;
  * a route applies iff it has no matcher sets or at least one set all of whose matchers match;
  * of the routes of one group only the first applicable one runs;
  * the handlers of an applicable route run in listed order, each one either passing the
    request on (possibly rewritten), answering it, or failing;
  * a terminal route ends routing once its handlers have passed the request on;
  * a subroute evaluates its routes by the same rules; if ITS routes fail and it has error
    routes, those are evaluated by the same rules and routing goes on behind the subroute;
  * a handler or matcher error that nobody caught diverts the request to the server's error
    routes, evaluated by the same rules on the request with its original URI;
  * what no route answers gets the empty default response.

Every function returns either `cont` ("the request was passed on, here is its state")
or `stop` ("routing is over with this outcome").
-/
import CaddyModel.C05.Model

namespace CaddyModel.C05

/-- a route applies iff no sets, or some set all of whose matchers match (as a proposition) -/
def Applies (sets : List (List Matcher)) (r : Req) : Prop :=
  sets = [] ∨ ∃ s ∈ sets, ∀ m ∈ s, evalMatcher m r = .ok true

inductive Res where
  | cont (r : Req) (t : Trace)
  | stop (o : Out)
deriving DecidableEq, Repr

def Res.bind (x : Res) (k : K) : Out :=
  match x with
  | .cont r t => k r t
  | .stop o => o

mutual
def specHandlers : List Handler → Req → Trace → Res
  | [], r, t => .cont r t
  | h :: hs, r, t =>
    match specHandler h r t with
    | .cont r' t' => specHandlers hs r' t'
    | .stop o => .stop o
def specHandler : Handler → Req → Trace → Res
  | .pass id, r, t => .cont r (t ++ [ev id r])
  | .respond id st, r, t => .stop (.done (t ++ [ev id r]) (some st))
  | .rewrite id p, r, t => .cont { r with path := p, uri := p } (t ++ [ev id r])
  | .strip, r, t => .cont { r with path := stripPath r.path, uri := requestLineOf (stripPath r.path) } t
  | .fail id st, r, t => .stop (.err (t ++ [ev id r]) st r)
  | .raise src, r, t => .stop (.err t (raiseStatus src r) r)
  | .invoke _, r, t => .stop (.err t 0 r)
  | .answer src, r, t =>
    match answerStep src r with
    | .write n => .stop (.done t (some n))
    | .hint => .cont r (t ++ [hintEv])
    | .fail => .stop (.err t 500 r)
  | .sub rs hasErrs errs, r, t =>
    match specRoutes rs r t with
    | .cont r' t' => .cont r' t'
    | .stop (.done t' s) => .stop (.done t' s)
    | .stop (.reached r' t') => .cont r' t'     -- never produced by the rules (`specRoutes_no_marker`)
    | .stop (.err t' st r') =>
      if hasErrs then specRoutes errs (catchAt r st r') t'
      else .stop (.err t' st r')
def specRoutes : List Route → Req → Trace → Res
  | [], r, t => .cont r t
  | rt :: rs, r, t =>
    match specRoute rt r t with
    | .cont r' t' => specRoutes rs r' t'
    | .stop o => .stop o
def specRoute : Route → Req → Trace → Res
  | .mk g sets hs term, r, t =>
    match anyMatch sets r with
    | .err st => .stop (.err t st r)
    | .ok false => .cont r t
    | .ok true =>
      if groupDone g r then .cont r t
      else
        match specHandlers hs (markGroup g r) t with
        | .cont r' t' => if term then .stop (termK r r' t') else .cont r' t'
        | .stop o => .stop o
end

/-- the whole request, by the documented rules -/
def eval (routes : List Route) (hasErrs : Bool) (errs : List Route) (req : Req) : Result :=
  match specRoutes routes { req with groups := [], ctxErr := none, replStatus := none } [] with
  | .cont _ t => ⟨t, none⟩                      -- nobody answered: empty default response
  | .stop (.done t s) => ⟨t, s⟩
  | .stop (.reached _ t) => ⟨t, none⟩
  | .stop (.err t st r') =>
    if hasErrs && !errs.isEmpty then
      match specRoutes errs (serverCatch req st r') t with
      | .cont r'' t2 => ⟨t2, some (writeStatus r''.ctxErr)⟩   -- error routes did not answer: error status
      | .stop (.done t2 s2) => ⟨t2, s2⟩
      | .stop (.reached _ t2) => ⟨t2, none⟩
      | .stop (.err t2 _ _) => ⟨t2, some (writeStatus (some st))⟩
    else ⟨t, some (writeStatus (some st))⟩


/-! ### which matchers can report an error (used by `matcher_order_irrelevant_without_errors`) -/

mutual
def mCanErr : Matcher → Bool
  | .atom _ _ => false
  | .err _ _ => true
  | .legacy _ => false
  | .errRange _ _ => true
  | .errIn _ => false
  | .errSel ranges _ => !ranges.isEmpty
  | .not sets => setsCanErr sets
def setsCanErr : List (List Matcher) → Bool
  | [] => false
  | s :: ss => setCanErr s || setsCanErr ss
def setCanErr : List Matcher → Bool
  | [] => false
  | m :: ms => mCanErr m || setCanErr ms
end

end CaddyModel.C05
