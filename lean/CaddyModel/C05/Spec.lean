/-
C05 — the routing rules as documented, written directly (no continuations):

  * routes are tried in order;
  * a route applies iff it has no matcher sets or at least one set all of whose matchers match;
  * of the routes of one group only the first applicable one runs;
  * the handlers of an applicable route run in listed order, each one either passing the
    request on (possibly rewritten), answering it, or failing;
  * a terminal route ends routing once its handlers have passed the request on;
  * a subroute evaluates its routes by the same rules; if ITS routes fail and it has error
    routes, those are evaluated by the same rules and routing goes on behind the subroute;
  * a handler or matcher error that nobody caught diverts the request to the server's error
    routes, evaluated by the same rules on the request with its original URI;
  * what no route answers gets the empty default response.

Every function returns either `cont` ("the request was passed on, here is its state")
or `stop` ("routing is over with this outcome").
-/
import CaddyModel.C05.Model

namespace CaddyModel.C05

/-- a route applies iff no sets, or some set all of whose matchers match (as a proposition) -/
def Applies (sets : List (List Matcher)) (r : Req) : Prop :=
  sets = [] ∨ ∃ s ∈ sets, ∀ m ∈ s, evalMatcher m r = .ok true

inductive Res where
  | cont (r : Req) (t : Trace)
  | stop (o : Out)
deriving DecidableEq, Repr

def Res.bind (x : Res) (k : K) : Out :=
  match x with
  | .cont r t => k r t
  | .stop o => o

mutual
def specHandlers : List Handler → Req → Trace → Res
  | [], r, t => .cont r t
  | h :: hs, r, t =>
    match specHandler h r t with
    | .cont r' t' => specHandlers hs r' t'
    | .stop o => .stop o
def specHandler : Handler → Req → Trace → Res
  | .pass id, r, t => .cont r (t ++ [ev id r])
  | .respond id st, r, t => .stop (.done (t ++ [ev id r]) (some st))
  | .rewrite id p, r, t => .cont { r with path := p } (t ++ [ev id r])
  | .fail id st, r, t => .stop (.err (t ++ [ev id r]) st r)
  | .raise src, r, t => .stop (.err t (raiseStatus src r) r)
  | .invoke _, r, t => .stop (.err t 0 r)
  | .answer src, r, t =>
    match src with
    | .empty => .stop (.done t (some (answerDefault r)))
    | _ =>
      match src.resolve r with
      | some n => .stop (.done t (some n))
      | none => .stop (.err t 500 r)
  | .sub rs hasErrs errs, r, t =>
    match specRoutes rs r t with
    | .cont r' t' => .cont r' t'
    | .stop (.done t' s) => .stop (.done t' s)
    | .stop (.err t' st r') =>
      if hasErrs then specRoutes errs (withError st r') t'
      else .stop (.err t' st r')
def specRoutes : List Route → Req → Trace → Res
  | [], r, t => .cont r t
  | rt :: rs, r, t =>
    match specRoute rt r t with
    | .cont r' t' => specRoutes rs r' t'
    | .stop o => .stop o
def specRoute : Route → Req → Trace → Res
  | .mk g sets hs term, r, t =>
    match anyMatch sets r with
    | .err st => .stop (.err t st r)
    | .ok false => .cont r t
    | .ok true =>
      if groupDone g r then .cont r t
      else
        match specHandlers hs (markGroup g r) t with
        | .cont r' t' => if term then .stop (termK r r' t') else .cont r' t'
        | .stop o => .stop o
end

/-- the whole request, by the documented rules -/
def eval (routes : List Route) (hasErrs : Bool) (errs : List Route) (req : Req) : Result :=
  match specRoutes routes { req with groups := [], ctxErr := none, replStatus := none } [] with
  | .cont _ t => ⟨t, none⟩                      -- nobody answered: empty default response
  | .stop (.done t s) => ⟨t, s⟩
  | .stop (.err t st r') =>
    if hasErrs && !errs.isEmpty then
      match specRoutes errs (withError st { r' with path := req.path }) t with
      | .cont r'' t2 => ⟨t2, some (writeStatus r''.ctxErr)⟩   -- error routes did not answer: error status
      | .stop (.done t2 s2) => ⟨t2, s2⟩
      | .stop (.err t2 _ _) => ⟨t2, some (writeStatus (some st))⟩
    else ⟨t, some (writeStatus (some st))⟩


/-! ### the decidable exclusion used by `compile_correct_partial`

The code passes "the rest of the chain" INTO `Subroute.ServeHTTP`, so a subroute that has error
routes also catches errors raised by handlers and matchers that come AFTER it (and then runs the
rest of the chain a second time).  The documented rules above do not do that.  `treeOk` is the
static condition under which the two cannot differ: behind every subroute that has error routes
nothing can fail (`ks` = "the rest of the chain cannot return an error"). -/

mutual
def mCanErr : Matcher → Bool
  | .atom _ _ => false
  | .err _ _ => true
  | .legacy _ => false
  | .errRange _ _ => true
  | .errIn _ => false
  | .not sets => setsCanErr sets
def setsCanErr : List (List Matcher) → Bool
  | [] => false
  | s :: ss => setCanErr s || setsCanErr ss
def setCanErr : List Matcher → Bool
  | [] => false
  | m :: ms => mCanErr m || setCanErr ms
end

mutual
def hsCanFail : List Handler → Bool
  | [] => false
  | h :: hs => hCanFail h || hsCanFail hs
def hCanFail : Handler → Bool
  | .pass _ => false
  | .respond _ _ => false
  | .rewrite _ _ => false
  | .fail _ _ => true
  | .raise _ => true
  | .invoke _ => true
  | .answer src => match src with | .empty => false | .lit _ => false | _ => true
  | .sub rs hasErrs errs => if hasErrs then rsCanFail errs else rsCanFail rs
def rsCanFail : List Route → Bool
  | [] => false
  | rt :: rs => rCanFail rt || rsCanFail rs
def rCanFail : Route → Bool
  | .mk _ sets hs _ => setsCanErr sets || hsCanFail hs
end

mutual
def hsOk : List Handler → Bool → Bool
  | [], _ => true
  | h :: hs, ks => hOk h (ks && !hsCanFail hs) && hsOk hs ks
def hOk : Handler → Bool → Bool
  | .pass _, _ => true
  | .respond _ _, _ => true
  | .rewrite _ _, _ => true
  | .fail _ _, _ => true
  | .raise _, _ => true
  | .answer _, _ => true
  | .invoke _, _ => true
  | .sub rs hasErrs errs, ks => if hasErrs then ks && rsOk rs ks && rsOk errs ks else rsOk rs ks
def rsOk : List Route → Bool → Bool
  | [], _ => true
  | rt :: rs, ks => rOk rt (ks && !rsCanFail rs) && rsOk rs ks
def rOk : Route → Bool → Bool
  | .mk _ _ hs term, ks => hsOk hs (term || ks)
end

/-- no subroute with error routes is followed by anything that can fail -/
def treeOk (routes errs : List Route) : Bool := rsOk routes true && rsOk errs true

end CaddyModel.C05
