/-
C05 — route evaluation as the code performed it BEFORE `Subroute.ServeHTTP` was repaired
(kept for `Props.compile_correct_old_code_fails`): the rest of the chain was compiled into the
subroute's primary routes and every error coming back from that chain — also one raised by a
LATER handler — was diverted to the subroute's error routes, which then ran the rest of the
chain a second time.  Everything else is identical to Model.lean.
-/
import CaddyModel.C05.Model

namespace CaddyModel.C05

mutual
/-- the loop `for i := len(route.middleware)-1 …` of wrapRoute -/
def runHandlersOld : List Handler → K → K
  | [], k => k
  | h :: hs, k => runHandlerOld h (runHandlersOld hs k)
/-- `wrapMiddleware` + the handler's `ServeHTTP(w, r, next)` -/
def runHandlerOld : Handler → K → K
  | .pass id, k => fun r t => k r (t ++ [ev id r])
  | .respond id st, _ => fun r t => .done (t ++ [ev id r]) (some st)
  | .rewrite id p, k => fun r t => k { r with path := p, uri := p } (t ++ [ev id r])
  | .strip, k => fun r t => k { r with path := stripPath r.path, uri := requestLineOf (stripPath r.path) } t
  | .fail id st, _ => fun r t => .err (t ++ [ev id r]) st r
  | .raise src, _ => fun r t => .err t (raiseStatus src r) r
  | .answer src, k => fun r t =>
    match answerStep src r with
    | .write n => .done t (some n)
    | .hint => k r (t ++ [hintEv])
    | .fail => .err t 500 r         -- `return Error(http.StatusInternalServerError, err)`
  | .invoke _, _ => fun r t => .err t 0 r   -- `fmt.Errorf("invoke: route '%s' not found", …)`
  | .sub rs hasErrs errs, k => fun r t =>
    -- Subroute.ServeHTTP BEFORE the repair: `sr.Routes.Compile(next)`, and ANY error coming back —
    -- also one returned by `next` — goes to `sr.Errors.Routes.Compile(next)`
    match runRoutesOld rs k r t with
    | .done t' s => .done t' s
    | .reached r' t' => .reached r' t'
    | .err t' st r' =>
      if hasErrs then runRoutesOld errs k (catchAt r st r') t'
      else .err t' st r'
/-- `RouteList.Compile(next)` -/
def runRoutesOld : List Route → K → K
  | [], k => k
  | rt :: rs, k => runRouteOld rt (runRoutesOld rs k)
/-- `wrapRoute(route)(next)` -/
def runRouteOld : Route → K → K
  | .mk g sets hs term, next => fun r t =>
    match anyMatch sets r with
    | .err st => .err t st r
    | .ok false => next r t
    | .ok true =>
      if groupDone g r then next r t
      else runHandlersOld hs (if term then termK r else next) (markGroup g r) t
end


/-- `Server.ServeHTTP` over the old chain: primary chain; on error restore the original URI, add the error to the
    context and run the error chain if `s.Errors != nil && len(s.Errors.Routes) > 0`.
    `hasErrs = false` ⇔ `s.Errors == nil`. The group map is NOT reset. -/
def serveOld (routes : List Route) (hasErrs : Bool) (errs : List Route) (req : Req) : Result :=
  match runRoutesOld routes emptyK { req with groups := [], ctxErr := none, replStatus := none } [] with
  | .done t s => ⟨t, s⟩
  | .reached _ t => ⟨t, none⟩
  | .err t st r' =>
    if hasErrs && !errs.isEmpty then
      match runRoutesOld errs errorEmptyK (serverCatch req st r') t with
      | .done t2 s2 => ⟨t2, s2⟩
      | .reached _ t2 => ⟨t2, none⟩
      | .err t2 _ _ => ⟨t2, some (writeStatus (some st))⟩
    else ⟨t, some (writeStatus (some st))⟩


end CaddyModel.C05
