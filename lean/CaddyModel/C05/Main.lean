import CaddyModel.Util.DrvMain
import CaddyModel.C05.Driver

def main (args : List String) : IO Unit :=
  CaddyModel.drvMain "C05" CaddyModel.C05.handle CaddyModel.C05.witnessLines args
