/-
C05 — proved counter-examples: clauses of the property that the code, as it is, does not satisfy
at full strength.  Each one is a closed term evaluated by the kernel (`decide`), is exported by
the driver as a protocol line and replayed on the real implementation on every run.
-/
import CaddyModel.C05.Spec
import CaddyModel.C05.OldModel
import CaddyModel.C05.WitnessData

namespace CaddyModel.C05

/-
The code BEFORE the repair of `Subroute.ServeHTTP` (OldModel.lean) did not satisfy
    ∀ routes hasErrs errs req, serve routes hasErrs errs req = eval routes hasErrs errs req :
it compiled the REST OF THE CHAIN into the subroute's primary routes and diverted every error
coming back to the subroute's error routes, so a subroute with error routes also caught an error
raised by a LATER route, ran its error routes (handler 9) and then the rest of the chain a second
time (handler 3 ran twice).  The repaired code is `Props.compile_correct`.
-/
theorem compile_correct_old_code_fails :
    ∃ routes hasErrs errs req, serveOld routes hasErrs errs req ≠ eval routes hasErrs errs req :=
  ⟨wDownstreamRoutes, false, [], wReq, by decide⟩

/-- the same witness, spelled out: the old code ran handlers 1, 3, 9, 3 — the rules, and the
    repaired code, say 1, 3 -/
theorem old_code_ran_handler_twice_behind_subroute_with_errors :
    (serveOld wDownstreamRoutes false [] wReq).trace.map (·.id) = [1, 3, 9, 3] ∧
    (eval wDownstreamRoutes false [] wReq).trace.map (·.id) = [1, 3] ∧
    (serve wDownstreamRoutes false [] wReq).trace.map (·.id) = [1, 3] := by decide

/-
"with the original URI restored" holds for the SERVER's error routes only: the error routes of a
subroute (handler 3) see the rewritten path /b (index 3), the server's error routes (handler 4)
see the original path /a (index 1).  Modelled as it is; both `serve` and `eval` agree here.
-/
theorem subroute_error_routes_see_rewritten_uri :
    serve wRewriteRoutes true wRewriteErrs wReq =
      ⟨[⟨1, 1, none, none, 1⟩, ⟨2, 3, none, none, 3⟩, ⟨3, 3, some 500, some 500, 3⟩, ⟨4, 1, some 404, some 404, 1⟩], some 404⟩ ∧
    eval wRewriteRoutes true wRewriteErrs wReq = serve wRewriteRoutes true wRewriteErrs wReq := by decide

/-
`WithError` sets `{http.error.status_code}` only for a `HandlerError`.  After a first error with
status 404, a second error that is NOT a `HandlerError` (the server answers those with 500) leaves
the placeholder at 404: handler 3 sees context error `some 0` next to placeholder 404, and an
error route answering with "{http.error.status_code}" sends 404.  Modelled as it is.
-/
theorem status_placeholder_stale_after_plain_error :
    serve wStaleRoutes true wStaleErrs wReq =
      ⟨[⟨1, 1, none, none, 1⟩, ⟨2, 1, some 404, some 404, 1⟩, ⟨3, 1, some 0, some 404, 1⟩], some 404⟩ ∧
    serve wStaleRoutes true [.mk 0 [] [.pass 3] false] wReq =
      ⟨[⟨1, 1, none, none, 1⟩, ⟨2, 1, some 404, some 404, 1⟩, ⟨3, 1, some 0, some 404, 1⟩], some 500⟩ := by decide

/-
`WithError` copies the request struct: the URL (a pointer) is shared, `RequestURI` (a string) is
not.  The inner subroute's error routes run on a copy; their rewrite (handler 2) reaches the OUTER
subroute's error routes through the URL only, because the outer frame resumes with ITS request
object: handler 7 sees URL path /b (3) next to RequestURI /a (1).  Modelled as it is.
-/
theorem stale_request_uri_in_enclosing_subroute_error_routes :
    serve wStaleUriRoutes false [] wReq =
      ⟨[⟨1, 1, none, none, 1⟩, ⟨2, 1, some 500, some 500, 1⟩, ⟨3, 3, some 500, some 500, 3⟩,
        ⟨7, 3, some 404, some 404, 1⟩], none⟩ ∧
    eval wStaleUriRoutes false [] wReq = serve wStaleUriRoutes false [] wReq := by decide

/-
A matcher set is a JSON object; caddy builds it by ranging over a Go map, so the order of the
matchers inside a set is arbitrary.  With an error matcher in the set the order is observable:
the same set answers 200 (not applicable → empty default) or diverts to the error path (403).
-/
theorem matcher_order_matters_with_error :
    wSetA.Perm wSetB ∧
    serve (wOrderRoutes wSetA) false [] wReq = ⟨[], none⟩ ∧
    serve (wOrderRoutes wSetB) false [] wReq = ⟨[], some 403⟩ := by
  refine ⟨?_, by decide, by decide⟩
  exact List.Perm.swap _ _ _

end CaddyModel.C05
