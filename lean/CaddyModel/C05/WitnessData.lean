/-
C05 — the concrete route trees used by the proved counter-examples (Witness.lean) and exported
by the driver as protocol lines (replayed on the implementation on every run).
-/
import CaddyModel.C05.Model

namespace CaddyModel.C05

/-- A subroute WITH error routes (handler 1 passes; error route runs handler 9), followed by a
    route whose handler 3 fails with 404.  The failure happens BEHIND the subroute. -/
def wDownstreamRoutes : List Route :=
  [ .mk 0 [] [.sub [.mk 0 [] [.pass 1] false] true [.mk 0 [] [.pass 9] false]] false,
    .mk 0 [] [.fail 3 404] false ]

def wReq : Req := ⟨0, 0, 1, 0, [], none⟩

end CaddyModel.C05
