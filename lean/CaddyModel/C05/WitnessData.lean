/-
C05 — the concrete route trees used by the proved counter-examples (Witness.lean) and exported
by the driver as protocol lines (replayed on the implementation on every run).
-/
import CaddyModel.C05.Model

namespace CaddyModel.C05

/-- GET a.test /a, no X-T header -/
def wReq : Req := ⟨0, 0, 1, 0, [], none, none, 1, []⟩

/-- A subroute WITH error routes (handler 1 passes; its error route runs handler 9), followed by a
    route whose handler 3 fails with 404.  The failure happens BEHIND the subroute. -/
def wDownstreamRoutes : List Route :=
  [ .mk 0 [] [.sub [.mk 0 [] [.pass 1] false] true [.mk 0 [] [.pass 9] false]] false,
    .mk 0 [] [.fail 3 404] false ]

/-- One route: rewrite to /b (handler 1), then a subroute whose handler 2 fails with 500 and whose
    error route runs handler 3.  The server's error route runs handler 4. -/
def wRewriteRoutes : List Route :=
  [ .mk 0 [] [.rewrite 1 3, .sub [.mk 0 [] [.fail 2 500] false] true [.mk 0 [] [.fail 3 404] false]] false ]

def wRewriteErrs : List Route := [ .mk 0 [] [.pass 4] false ]

/-- A subroute whose handler 1 fails with a `HandlerError` 404 and whose error route (handler 2)
    fails again with a plain error; the server's error routes: handler 3 passes on, then the real
    `static_response` handler answers with status "{http.error.status_code}". -/
def wStaleRoutes : List Route :=
  [ .mk 0 [] [.sub [.mk 0 [] [.fail 1 404] false] true [.mk 0 [] [.fail 2 0] false]] false ]

def wStaleErrs : List Route := [ .mk 0 [] [.pass 3, .answer .errCode] false ]

/-- A subroute with error routes (handler 7) around a subroute whose handler 1 fails and whose own
    error routes rewrite to /b (handler 2) and fail again (handler 3). -/
def wStaleUriRoutes : List Route :=
  [ .mk 0 [] [.sub [.mk 0 [] [.sub [.mk 0 [] [.fail 1 500] false] true
                                     [.mk 0 [] [.rewrite 2 3, .fail 3 404] false]] false]
              true [.mk 0 [] [.pass 7] false]] false ]

/-- the same two matchers in two orders: a host matcher that does not match `wReq`, and an
    error matcher -/
def wSetA : List Matcher := [.atom .host [1], .err 0 403]
def wSetB : List Matcher := [.err 0 403, .atom .host [1]]

def wOrderRoutes (s : List Matcher) : List Route := [ .mk 0 [s] [.respond 1 200] false ]

end CaddyModel.C05
